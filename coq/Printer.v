(* Printer.v — definitions only (property C07).

   Transcription of blots-core/src/ast_to_source.rs:
     is_valid_identifier, format_record_key, the string arm, expr_to_source,
     needs_parens_in_binop
   in two versions selected by a `fixes` record:
     fx_parens = false   the pinned code: parentheses only around a BinaryOp child of a BinaryOp
                         (needs_parens_in_binop as pinned) and around a Lambda in call position;
     fx_parens = true    fixes/C07-parens.diff: binding_level / Tail / needs_parens_in_binop (complete),
                         needs_parens_in_unary, needs_parens_in_postfix, lambda_body_needs_parens;
     fx_quote            the string-quoting repair (double quotes unless the string contains one; no
                         escaping — the grammar has no escapes), proposed by property C05's builder;
     fx_dominus          fixes/C07-leading-minus.diff: a do-block statement after the first whose text starts
                         with `-` is parenthesised (a newline does not end an expression that can
                         continue with an infix operator).

   1. print_text   : the string expr_to_source returns (number text is an oracle `numtxt`).
   2. print_items  : the same parenthesisation decisions at the level of pest's token stream (the
                     `item` lists of PrattTypes.v: a parenthesised group is one primary).
   3. items_text   : the text of a token stream in the printer's spacing; proofs/PrintRT.v shows
                     print_text = items_text o print_items.
   4. seq_ok       : the part of lexing that is not token-local: a lambda body / conditional branch /
                     assignment value is an `expression` (lambda_expression) of the grammar and PEG
                     repetition is greedy, so such an item absorbs what follows it in its sequence
                     (lambda bodies stop only at via / into / where); and a do-block statement
                     absorbs a following line that starts with `-`.
   5. known_classes: the structural classes at which the pinned printer decides differently from
                     the complete rule (one per known finding). *)
From Coq Require Import String Ascii List Bool Arith.
Require Import Blots.Num Blots.gen.Builtins Blots.Ast Blots.Outcome Blots.PrattTypes Blots.gen.PrecTable
               Blots.Pratt Blots.PrattRender.
Import ListNotations.
Local Open Scope nat_scope.
Local Open Scope list_scope.

Record fixes := Fx { fx_parens : bool; fx_quote : bool; fx_dominus : bool }.
Definition FX_PINNED : fixes := Fx false false false.
Definition FX_ALL : fixes := Fx true true true.

(* ------------------------------------------------------------------ strings *)
Definition a_dq : ascii := ascii_of_nat 34.      (* double quote *)
Definition a_sq : ascii := ascii_of_nat 39.      (* single quote *)
Definition a_bs : ascii := ascii_of_nat 92.      (* backslash *)
Definition a_us : ascii := ascii_of_nat 95.      (* _ *)
Definition a_minus : ascii := ascii_of_nat 45.   (* - *)

Fixpoint contains_char (c : ascii) (s : string) : bool :=
  match s with
  | EmptyString => false
  | String a r => Ascii.eqb a c || contains_char c r
  end.
Fixpoint forall_chars (f : ascii -> bool) (s : string) : bool :=
  match s with EmptyString => true | String a r => f a && forall_chars f r end.

(* char::is_ascii_alphabetic / is_ascii_alphanumeric on the bytes of a UTF-8 string: a non-ASCII
   char has only bytes >= 128, none of which is in these classes *)
Definition is_ascii_alpha (a : ascii) : bool :=
  let n := nat_of_ascii a in ((65 <=? n) && (n <=? 90)) || ((97 <=? n) && (n <=? 122)).
Definition is_ascii_digit (a : ascii) : bool :=
  let n := nat_of_ascii a in (48 <=? n) && (n <=? 57).
Definition is_ident_start (a : ascii) : bool := is_ascii_alpha a || Ascii.eqb a a_us.
Definition is_ident_rest (a : ascii) : bool := is_ascii_alpha a || is_ascii_digit a || Ascii.eqb a a_us.

Local Open Scope string_scope.
(* const RESERVED_WORDS *)
Definition reserved_words : list string :=
  ["if"; "then"; "else"; "true"; "false"; "null"; "and"; "or"; "not"; "do"; "return"; "output"].

(* pub fn is_valid_identifier *)
Definition is_valid_identifier (s : string) : bool :=
  match s with
  | EmptyString => false
  | String c r =>
      if existsb (String.eqb s) reserved_words then false
      else is_ident_start c && forall_chars is_ident_rest r
  end.

(* the two chained str::replace calls (backslash doubled, then double quote escaped): one pass is the same as the two passes, because the
   first only inserts backslashes and the second only looks at double quotes *)
Fixpoint escape_string (s : string) : string :=
  match s with
  | EmptyString => EmptyString
  | String a r =>
      if Ascii.eqb a a_bs then String a_bs (String a_bs (escape_string r))
      else if Ascii.eqb a a_dq then String a_bs (String a_dq (escape_string r))
      else String a (escape_string r)
  end.

Definition str1 (a : ascii) : string := String a EmptyString.

(* Expr::String arm / the quoted branch of format_record_key *)
Definition quote_string (fx : fixes) (s : string) : string :=
  if fx_quote fx then
    if contains_char a_dq s then str1 a_sq ++ s ++ str1 a_sq else str1 a_dq ++ s ++ str1 a_dq
  else str1 a_dq ++ escape_string s ++ str1 a_dq.

(* pub fn format_record_key *)
Definition format_record_key (fx : fixes) (k : string) : string :=
  if is_valid_identifier k then k else quote_string fx k.

(* what the lexer reads back from the quoted text: the string itself iff the closing quote is the
   first occurrence of the quote character and nothing was inserted *)
Definition string_relex_ok (fx : fixes) (s : string) : bool :=
  if fx_quote fx then negb (contains_char a_dq s && contains_char a_sq s)
  else negb (contains_char a_dq s) && negb (contains_char a_bs s).
Local Close Scope string_scope.

(* ------------------------------------------------------------------ levels *)
Definition opinfo_t := binop -> nat * assoc.

(* the table the built crate reports (operator_info), regenerated on every run *)
Definition gen_opinfo : opinfo_t := fun o =>
  match find (fun x => binop_eqb (fst (fst x)) o) operator_info_dump with
  | Some (_, p, a) => (p, a)
  | None => (0, ALeft)
  end.

(* precedence.rs at the pinned commit: `^` and `??` share level 5 *)
Definition pinned_opinfo : opinfo_t := fun o =>
  match o with
  | And | NaturalAnd | Or | NaturalOr | Via | Into | Where => (1, ALeft)
  | Equal | NotEqual | Less | LessEq | Greater | GreaterEq
  | DotEqual | DotNotEqual | DotLess | DotLessEq | DotGreater | DotGreaterEq => (2, ALeft)
  | Add | Subtract => (3, ALeft)
  | Multiply | Divide | Modulo => (4, ALeft)
  | Power => (5, ARight)
  | Coalesce => (5, ALeft)
  end.
(* precedence.rs after fixes/C07-parens.diff: `??` on its own level 6, as the Pratt parser has it *)
Definition fixed_opinfo : opinfo_t := fun o =>
  match o with Coalesce => (6, ALeft) | _ => pinned_opinfo o end.

Definition PREFIX_LEVEL : nat := 253.     (* u8::MAX - 2 *)
Definition POSTFIX_LEVEL : nat := 254.
Definition PRIMARY_LEVEL : nat := 255.

Definition is_vwi (o : binop) : bool := match o with Via | Into | Where => true | _ => false end.
Definition is_lambda (e : expr) : bool := match e with ELam _ _ => true | _ => false end.

Inductive tailk := TClosed | TLambda | TGreedy.
Definition tailk_eqb (a b : tailk) : bool :=
  match a, b with TClosed, TClosed | TLambda, TLambda | TGreedy, TGreedy => true | _, _ => false end.

Section Decisions.
  Variable opinfo : opinfo_t.

  (* fn binding_level *)
  Definition binding_level (e : expr) : nat :=
    match e with
    | EBin o _ _ => fst (opinfo o)
    | EUn _ _ | ESpread _ => PREFIX_LEVEL
    | EFact _ | ECall _ _ | EAccess _ _ | EDot _ _ => POSTFIX_LEVEL
    | _ => PRIMARY_LEVEL
    end.

  (* ---- pinned code: pub fn needs_parens_in_binop(parent_op, child_expr, is_left) *)
  Definition old_binop (o : binop) (c : expr) (is_left : bool) : bool :=
    match c with
    | EBin co _ _ =>
        let '(pp, pa) := opinfo o in
        let '(cp, _) := opinfo co in
        if cp <? pp then true
        else if (cp =? pp) && negb is_left then
          match pa with
          | ARight => true
          | ALeft => match o with Subtract | Divide | Modulo => true | _ => false end
          end
        else false
    | _ => false
    end.

  (* ---- fixes/C07-parens.diff *)
  (* the level part of needs_parens_in_binop *)
  Definition level_parens (o : binop) (c : expr) (is_left : bool) : bool :=
    let '(pp, pa) := opinfo o in
    let same_level_regroups := match pa with ALeft => negb is_left | ARight => is_left end in
    let cl := binding_level c in
    (cl <? pp) || ((cl =? pp) && same_level_regroups).
  Definition new_right (o : binop) (c : expr) : bool := level_parens o c false.
  Definition new_unary (c : expr) : bool := binding_level c <? PREFIX_LEVEL.
  Definition tail_parens (o : binop) (t : tailk) : bool :=
    match t with TClosed => false | TLambda => negb (is_vwi o) | TGreedy => true end.

  (* fn tail / pub fn lambda_body_needs_parens (mutually recursive through needs_parens_in_binop) *)
  Fixpoint tail (e : expr) : tailk :=
    match e with
    | ELam _ body =>
        if negb (lbnp body) && tailk_eqb (tail body) TGreedy then TGreedy else TLambda
    | ECond _ _ _ | EAssign _ _ | EOutput _ => TGreedy
    | EBin o _ r => if new_right o r then TClosed else tail r
    | EUn _ x => if new_unary x then TClosed else tail x
    | _ => TClosed
    end
  with lbnp (e : expr) : bool :=
    match e with
    | EBin o l r =>
        is_vwi o
        || (negb (level_parens o l true || tail_parens o (tail l)) && lbnp l)
        || (negb (new_right o r) && lbnp r)
    | EUn _ x => negb (new_unary x) && lbnp x
    | _ => false
    end.

  Definition new_left (o : binop) (c : expr) : bool := level_parens o c true || tail_parens o (tail c).
  Definition new_post (c : expr) : bool :=
    (binding_level c <? POSTFIX_LEVEL) || negb (tailk_eqb (tail c) TClosed).
End Decisions.

(* the parenthesisation decisions of one version of the printer *)
Record policy := Pol {
  pL : binop -> expr -> bool;      (* left operand of a binary operator *)
  pR : binop -> expr -> bool;      (* right operand *)
  pU : expr -> bool;               (* operand of a prefix operator *)
  pC : expr -> bool;               (* callee *)
  pP : expr -> bool;               (* operand of `!`, `[…]`, `.field` *)
  pB : expr -> bool;               (* lambda body *)
}.
Definition policy_old (opinfo : opinfo_t) : policy :=
  Pol (fun o c => old_binop opinfo o c true) (fun o c => old_binop opinfo o c false)
      (fun _ => false) is_lambda (fun _ => false) (fun _ => false).
Definition policy_new (opinfo : opinfo_t) : policy :=
  Pol (new_left opinfo) (new_right opinfo) (new_unary opinfo) (new_post opinfo) (new_post opinfo)
      (lbnp opinfo).
Definition policy_of (fx : fixes) (opinfo : opinfo_t) : policy :=
  if fx_parens fx then policy_new opinfo else policy_old opinfo.

(* ------------------------------------------------------------------ text helpers *)
Local Open Scope string_scope.
Definition paren_s (b : bool) (s : string) : string := if b then "(" ++ s ++ ")" else s.
Definition starts_minus (s : string) : bool :=
  match s with String a _ => Ascii.eqb a a_minus | EmptyString => false end.

(* fn binary_op_to_source *)
Definition binop_text (o : binop) : string :=
  match o with
  | Add => "+" | Subtract => "-" | Multiply => "*" | Divide => "/" | Modulo => "%" | Power => "^"
  | Equal => "==" | NotEqual => "!=" | Less => "<" | LessEq => "<=" | Greater => ">" | GreaterEq => ">="
  | DotEqual => ".==" | DotNotEqual => ".!=" | DotLess => ".<" | DotLessEq => ".<="
  | DotGreater => ".>" | DotGreaterEq => ".>="
  | And => "&&" | NaturalAnd => "and" | Or => "||" | NaturalOr => "or"
  | Via => "via" | Into => "into" | Where => "where" | Coalesce => "??"
  end.
(* fn unary_op_to_source *)
Definition unop_text (u : unop) : string :=
  match u with Negate => "-" | Not => "!" | Invert => "~" end.

Section Print.
  Variable fx : fixes.
  Variable pol : policy.
  Variable numtxt : num -> string.     (* `{:.0}` / f64 Display: library code, property C16 *)

  Definition dominus_text (i : nat) (s : string) : bool :=
    fx_dominus fx && negb (Nat.eqb i 0) && starts_minus s.

  (* ---------------------------------------------------------------- 1. pub fn expr_to_source *)
  Fixpoint print_text (e : expr) {struct e} : string :=
    match e with
    | ENum x => numtxt x
    | EStr s => quote_string fx s
    | EBool true => "true"
    | EBool false => "false"
    | ENull => "null"
    | EId x => x
    | EInRef x => "#" ++ x
    | EBuiltin b => builtin_name b
    | EList items =>
        "[" ++ sjoin ", " ((fix go (l : list (commented expr)) : list string :=
                              match l with
                              | [] => []
                              | Cm _ x _ :: l' => print_text x :: go l'
                              end) items) ++ "]"
    | ERec entries =>
        "{" ++ sjoin ", " ((fix go (l : list (commented rentry)) : list string :=
                              match l with
                              | [] => []
                              | Cm _ (REntry k v) _ :: l' =>
                                  match k with
                                  | KStatic s => format_record_key fx s ++ ": " ++ print_text v
                                  | KDyn d => "[" ++ print_text d ++ "]: " ++ print_text v
                                  | KShort s => s
                                  | KSpread x => print_text x
                                  end :: go l'
                              end) entries) ++ "}"
    | ELam args body =>
        "(" ++ sjoin ", " (map arg_text args) ++ ") => " ++ paren_s (pB pol body) (print_text body)
    | ECond c t f => "if " ++ print_text c ++ " then " ++ print_text t ++ " else " ++ print_text f
    | EDo stmts (Cm rl ret _) =>
        "do {" ++
        (fix go (i : nat) (l : list (commented expr)) : string :=
           match l with
           | [] => ""
           | Cm lead x trail :: l' =>
               sconcat (map (fun c => nl ++ "  " ++ c) lead) ++
               nl ++ "  " ++ (let s := print_text x in paren_s (dominus_text i s) s) ++
               match trail with Some t => "  " ++ t | None => "" end ++
               go (S i) l'
           end) 0 stmts ++
        sconcat (map (fun c => nl ++ "  " ++ c) rl) ++
        nl ++ "  return " ++ print_text ret ++ nl ++ "}"
    | EAssign x v => x ++ " = " ++ print_text v
    | EOutput x => "output " ++ print_text x
    | ECall f args =>
        paren_s (pC pol f) (print_text f) ++ "(" ++
        sjoin ", " ((fix go (l : list expr) : list string :=
                       match l with [] => [] | a :: l' => print_text a :: go l' end) args) ++ ")"
    | EAccess x i => paren_s (pP pol x) (print_text x) ++ "[" ++ print_text i ++ "]"
    | EDot x f => paren_s (pP pol x) (print_text x) ++ "." ++ f
    | EBin o l r =>
        paren_s (pL pol o l) (print_text l) ++ " " ++ binop_text o ++ " " ++
        paren_s (pR pol o r) (print_text r)
    | EUn u x => unop_text u ++ paren_s (pU pol x) (print_text x)
    | EFact x => paren_s (pP pol x) (print_text x) ++ "!"
    | ESpread x => "..." ++ print_text x
    end.

  (* ---------------------------------------------------------------- 2. the same, as token streams *)
  Definition wrapb (b : bool) (its : list item) : list item := if b then [IExpr true its] else its.
  Definition key_item (s : string) : rkeyi := if is_valid_identifier s then RKId s else RKStr s.
  Definition unop_item (u : unop) : item :=
    IOp (match u with Negate => R_negation | _ => R_invert end).

  Fixpoint print_items (e : expr) {struct e} : list item :=
    match e with
    | ENum x => [INum x]
    | EStr s => [IStr s]
    | EBool b => [IBool b]
    | ENull => [INull]
    | EId x => [IIdent x]
    | EInRef x => [IInRef x]
    | EBuiltin b => [IIdent (builtin_name b)]
    | EList items =>
        [IList ((fix go (l : list (commented expr)) : list lelem :=
                   match l with
                   | [] => []
                   | Cm _ x _ :: l' => LItem (print_items x) None :: go l'
                   end) items)]
    | ERec entries =>
        [IRecord ((fix go (l : list (commented rentry)) : list relem :=
                     match l with
                     | [] => []
                     | Cm _ (REntry k v) _ :: l' =>
                         match k with
                         | KStatic s => RPairI (key_item s) (print_items v) None
                         | KDyn d => RPairI (RKDyn [IExpr false (print_items d)]) (print_items v) None
                         | KShort s => RShortI s None
                         | KSpread x => RSpreadI (print_items x) None
                         end :: go l'
                     end) entries)]
    | ELam args body => [ILambda args (wrapb (pB pol body) (print_items body))]
    | ECond c t f => [ICond (print_items c) (print_items t) (print_items f)]
    | EDo stmts (Cm _ ret _) =>
        [IDo ((fix go (i : nat) (l : list (commented expr)) : list delem :=
                 match l with
                 | [] => [DRet (print_items ret)]
                 | Cm _ x _ :: l' =>
                     DStmt (wrapb (dominus_text i (print_text x)) (print_items x)) None :: go (S i) l'
                 end) 0 stmts)]
    | EAssign x v => [IAssign x (print_items v)]
    | EOutput _ => []                     (* a statement form, see stmt_items *)
    | ECall f args =>
        wrapb (pC pol f) (print_items f) ++
        [ICall ((fix go (l : list expr) : list (list item) :=
                   match l with [] => [] | a :: l' => print_items a :: go l' end) args)]
    | EAccess x i => wrapb (pP pol x) (print_items x) ++ [IAccess [IExpr false (print_items i)]]
    | EDot x f => wrapb (pP pol x) (print_items x) ++ [IDot f]
    | EBin o l r =>
        wrapb (pL pol o l) (print_items l) ++ IOp (binop_rule o) :: wrapb (pR pol o r) (print_items r)
    | EUn u x => unop_item u :: wrapb (pU pol x) (print_items x)
    | EFact x => wrapb (pP pol x) (print_items x) ++ [IOp R_factorial]
    | ESpread x => [IOp R_spread_operator; IExpr false (print_items x)]
    end.

  (* ---------------------------------------------------------------- 3. text of a token stream *)
  Definition op_text7 (r : oprule) : string :=
    match r with
    | R_negation => "-" | R_invert => "!" | R_natural_not => "not " | R_spread_operator => "..."
    | R_factorial => "!" | R_access => "[]" | R_dot_access => "." | R_call_list => "()"
    | R_add => " + " | R_subtract => " - " | R_multiply => " * " | R_divide => " / "
    | R_modulo => " % " | R_power => " ^ "
    | R_equal => " == " | R_not_equal => " != " | R_less => " < " | R_less_eq => " <= "
    | R_greater => " > " | R_greater_eq => " >= "
    | R_dot_equal => " .== " | R_dot_not_equal => " .!= " | R_dot_less => " .< "
    | R_dot_less_eq => " .<= " | R_dot_greater => " .> " | R_dot_greater_eq => " .>= "
    | R_and => " && " | R_natural_and => " and " | R_or => " || " | R_natural_or => " or "
    | R_via => " via " | R_into => " into " | R_where_ => " where " | R_coalesce => " ?? "
    end.

  Fixpoint item_text7 (i : item) : string :=
    let seq := fix seq (l : list item) : string :=
      match l with [] => "" | x :: r => item_text7 x ++ seq r end in
    match i with
    | INum x => numtxt x
    | IBadNum => "0x8000000000000000"
    | IStr s => quote_string fx s
    | IBool true => "true"
    | IBool false => "false"
    | INull => "null"
    | IIdent s => s
    | IInRef s => "#" ++ s
    | IExpr true g => "(" ++ seq g ++ ")"
    | IExpr false g => seq g
    | IList els =>
        "[" ++ sjoin ", " ((fix go (l : list lelem) : list string :=
                              match l with
                              | [] => []
                              | LCom _ :: r => go r
                              | LItem g _ :: r => seq g :: go r
                              end) els) ++ "]"
    | IRecord els =>
        "{" ++ sjoin ", " ((fix go (l : list relem) : list string :=
                              match l with
                              | [] => []
                              | RCom _ :: r => go r
                              | RPairI k v _ :: r =>
                                  (match k with
                                   | RKId s => s
                                   | RKStr s => quote_string fx s
                                   | RKDyn inner => "[" ++ seq inner ++ "]"
                                   end ++ ": " ++ seq v) :: go r
                              | RShortI s _ :: r => s :: go r
                              | RSpreadI g _ :: r => seq g :: go r
                              end) els) ++ "}"
    | ILambda args body => "(" ++ sjoin ", " (map arg_text args) ++ ") => " ++ seq body
    | ICond c t e => "if " ++ seq c ++ " then " ++ seq t ++ " else " ++ seq e
    | IDo els =>
        "do {" ++
        (fix go (l : list delem) : string :=
           match l with
           | [] => ""
           | DStmt g _ :: r => nl ++ "  " ++ seq g ++ go r
           | DComStmt s _ :: r => nl ++ "  " ++ s ++ go r
           | DCom s :: r => nl ++ "  " ++ s ++ go r
           | DRet g :: r => nl ++ "  return " ++ seq g ++ go r
           end) els ++ nl ++ "}"
    | IAssign x v => x ++ " = " ++ seq v
    | IOp r => op_text7 r
    | IAccess inner => "[" ++ seq inner ++ "]"
    | IDot f => "." ++ f
    | ICall args =>
        "(" ++ sjoin ", " ((fix go (l : list (list item)) : list string :=
                              match l with [] => [] | g :: r => seq g :: go r end) args) ++ ")"
    end.
  Fixpoint items_text7 (l : list item) : string :=
    match l with [] => "" | x :: r => item_text7 x ++ items_text7 r end.
End Print.
Local Close Scope string_scope.

(* ------------------------------------------------------------------ 4. non-local lexing: absorption *)
Definition is_vwi_rule (r : oprule) : bool :=
  match r with R_via | R_into | R_where_ => true | _ => false end.
Definition no_vwi (l : list item) : bool :=
  forallb (fun i => match i with IOp r => negb (is_vwi_rule r) | _ => true end) l.

(* a lambda that is followed by via / into / where ends there only if its body does: the body must
   not end in a conditional / assignment (whose last `expression` would go on), and a lambda at
   the end of the body must satisfy the same *)
Fixpoint item_tail_ok (i : item) : bool :=
  match i with
  | ILambda _ b =>
      (fix lst (l : list item) : bool :=
         match l with
         | [] => true
         | [x] => item_tail_ok x
         | _ :: r => lst r
         end) b
  | ICond _ _ _ | IAssign _ _ => false
  | _ => true
  end.

Definition follow_ok (x : item) (rest : list item) : bool :=
  match x with
  | ILambda _ _ =>
      match rest with
      | [] => true
      | IOp r :: _ => is_vwi_rule r && item_tail_ok x
      | _ => false
      end
  | ICond _ _ _ | IAssign _ _ => match rest with [] => true | _ => false end
  | _ => true
  end.

Definition starts_neg (l : list item) : bool :=
  match l with IOp R_negation :: _ => true | _ => false end.

Fixpoint item_ok (i : item) : bool :=
  let sq := fix sq (l : list item) : bool :=
    match l with
    | [] => true
    | x :: r => item_ok x && follow_ok x r && sq r
    end in
  match i with
  | IExpr _ g => sq g
  | IList els =>
      (fix go (l : list lelem) : bool :=
         match l with
         | [] => true
         | LCom _ :: r => go r
         | LItem g _ :: r => sq g && go r
         end) els
  | IRecord els =>
      (fix go (l : list relem) : bool :=
         match l with
         | [] => true
         | RCom _ :: r => go r
         | RPairI k v _ :: r =>
             match k with RKDyn inner => sq inner | _ => true end && sq v && go r
         | RShortI _ _ :: r => go r
         | RSpreadI g _ :: r => sq g && go r
         end) els
  | ILambda _ body => sq body && no_vwi body
  | ICond c t e => sq c && sq t && sq e
  | IDo els =>
      (fix go (first : bool) (l : list delem) : bool :=
         match l with
         | [] => true
         | DStmt g _ :: r => sq g && (first || negb (starts_neg g)) && go false r
         | DRet g :: r => sq g && go false r
         | _ :: r => go first r
         end) true els
  | IAssign _ v => sq v
  | IAccess inner => sq inner
  | ICall args =>
      (fix go (l : list (list item)) : bool :=
         match l with [] => true | g :: r => sq g && go r end) args
  | _ => true
  end.
Fixpoint seq_ok (l : list item) : bool :=
  match l with
  | [] => true
  | x :: r => item_ok x && follow_ok x r && seq_ok r
  end.

(* how a token stream ends *)
Definition open_kind (l : list item) : tailk :=
  match last l INull with
  | ILambda a b => if item_tail_ok (ILambda a b) then TLambda else TGreedy
  | ICond _ _ _ | IAssign _ _ => TGreedy
  | _ => TClosed
  end.

(* every string literal / quoted key of the tree reads back as itself *)
Fixpoint strings_ok (fx : fixes) (e : expr) {struct e} : bool :=
  match e with
  | EStr s => string_relex_ok fx s
  | EList items =>
      (fix go (l : list (commented expr)) : bool :=
         match l with [] => true | Cm _ x _ :: l' => strings_ok fx x && go l' end) items
  | ERec entries =>
      (fix go (l : list (commented rentry)) : bool :=
         match l with
         | [] => true
         | Cm _ (REntry k v) _ :: l' =>
             match k with
             | KStatic s => (is_valid_identifier s || string_relex_ok fx s) && strings_ok fx v
             | KDyn d => strings_ok fx d && strings_ok fx v
             | KShort _ => true
             | KSpread x => strings_ok fx x
             end && go l'
         end) entries
  | ELam _ b => strings_ok fx b
  | ECond c t f => strings_ok fx c && strings_ok fx t && strings_ok fx f
  | EDo stmts (Cm _ ret _) =>
      (fix go (l : list (commented expr)) : bool :=
         match l with [] => true | Cm _ x _ :: l' => strings_ok fx x && go l' end) stmts
      && strings_ok fx ret
  | EAssign _ v => strings_ok fx v
  | EOutput x => strings_ok fx x
  | ECall f args =>
      strings_ok fx f &&
      (fix go (l : list expr) : bool :=
         match l with [] => true | a :: l' => strings_ok fx a && go l' end) args
  | EAccess x i => strings_ok fx x && strings_ok fx i
  | EDot x _ => strings_ok fx x
  | EBin _ l r => strings_ok fx l && strings_ok fx r
  | EUn _ x => strings_ok fx x
  | EFact x => strings_ok fx x
  | ESpread x => strings_ok fx x
  | _ => true
  end.

(* ------------------------------------------------------------------ statements *)
(* a statement of a program: an expression, or `output` + assignment / identifier, which both
   format drivers hand to format_expr as Expr::Output *)
Definition stmt_items (fx : fixes) (pol : policy) (numtxt : num -> string) (e : expr) : list item :=
  match e with
  | EOutput x => print_items fx pol numtxt x
  | _ => print_items fx pol numtxt e
  end.
Definition stmt_body (e : expr) : expr := match e with EOutput x => x | _ => e end.

(* the model's prediction of the implementation-level oracle on the single-line printer:
   parse (expr_to_source e) = e *)
Definition predict_rt (fx : fixes) (opinfo : opinfo_t) (numtxt : num -> string) (e : expr) : bool :=
  let its := stmt_items fx (policy_of fx opinfo) numtxt e in
  seq_ok its && strings_ok fx e &&
  match pratt_impl its with
  | Ok (Some t) => expr_eqb t (stmt_body e)
  | _ => false
  end.

(* ------------------------------------------------------------------ 5. known-finding classes *)
Inductive kcls := KBinL | KBinR | KDoMinus | KLamBody | KOpenL | KPostfix | KQuote | KUnary.
Definition kcls_eqb (a b : kcls) : bool :=
  match a, b with
  | KBinL, KBinL | KBinR, KBinR | KDoMinus, KDoMinus | KLamBody, KLamBody | KOpenL, KOpenL
  | KPostfix, KPostfix | KQuote, KQuote | KUnary, KUnary => true
  | _, _ => false
  end.
Local Open Scope string_scope.
Definition kcls_name (k : kcls) : string :=
  match k with
  | KBinL => "binary-left" | KBinR => "binary-right" | KDoMinus => "do-minus"
  | KLamBody => "lambda-body" | KOpenL => "open-left" | KPostfix => "postfix-operand"
  | KQuote => "quote" | KUnary => "unary-operand"
  end.
Local Close Scope string_scope.
Definition all_kcls : list kcls := [KBinL; KBinR; KDoMinus; KLamBody; KOpenL; KPostfix; KQuote; KUnary].

Definition cls_if (b : bool) (k : kcls) : list kcls := if b then [k] else [].
Definition str_cls (s : string) : list kcls :=
  cls_if (contains_char a_dq s || contains_char a_bs s) KQuote.

(* the leftmost token of the printed statement is a prefix minus (complete rule's parentheses) *)
Fixpoint starts_neg_expr (e : expr) : bool :=
  match e with
  | EUn Negate _ => true
  | EBin o l _ => negb (new_left fixed_opinfo o l) && starts_neg_expr l
  | ECall f _ => negb (new_post fixed_opinfo f) && starts_neg_expr f
  | EAccess x _ | EDot x _ | EFact x => negb (new_post fixed_opinfo x) && starts_neg_expr x
  | _ => false
  end.

Fixpoint known_classes (e : expr) {struct e} : list kcls :=
  let oi := fixed_opinfo in
  match e with
  | EStr s => str_cls s
  | EList items =>
      (fix go (l : list (commented expr)) : list kcls :=
         match l with [] => [] | Cm _ x _ :: l' => known_classes x ++ go l' end) items
  | ERec entries =>
      (fix go (l : list (commented rentry)) : list kcls :=
         match l with
         | [] => []
         | Cm _ (REntry k v) _ :: l' =>
             match k with
             | KStatic s => (if is_valid_identifier s then [] else str_cls s) ++ known_classes v
             | KDyn d => known_classes d ++ known_classes v
             | KShort _ => []
             | KSpread x => known_classes x
             end ++ go l'
         end) entries
  | ELam _ b => cls_if (lbnp oi b) KLamBody ++ known_classes b
  | ECond c t f => known_classes c ++ known_classes t ++ known_classes f
  | EDo stmts (Cm _ ret _) =>
      (fix go (i : nat) (l : list (commented expr)) : list kcls :=
         match l with
         | [] => []
         | Cm _ x _ :: l' =>
             cls_if (negb (Nat.eqb i 0) && starts_neg_expr x) KDoMinus ++ known_classes x ++ go (S i) l'
         end) 0 stmts ++ known_classes ret
  | EAssign _ v => known_classes v
  | EOutput x => known_classes x
  | ECall f args =>
      cls_if (negb (Bool.eqb (new_post oi f) (is_lambda f))) KPostfix ++ known_classes f ++
      (fix go (l : list expr) : list kcls :=
         match l with [] => [] | a :: l' => known_classes a ++ go l' end) args
  | EAccess x i => cls_if (new_post oi x) KPostfix ++ known_classes x ++ known_classes i
  | EDot x _ => cls_if (new_post oi x) KPostfix ++ known_classes x
  | EBin o l r =>
      (if Bool.eqb (new_left oi o l) (old_binop pinned_opinfo o l true) then []
       else if level_parens oi o l true then [KBinL] else [KOpenL]) ++
      cls_if (negb (Bool.eqb (new_right oi o r) (old_binop pinned_opinfo o r false))) KBinR ++
      known_classes l ++ known_classes r
  | EUn _ x => cls_if (new_unary oi x) KUnary ++ known_classes x
  | EFact x => cls_if (new_post oi x) KPostfix ++ known_classes x
  | ESpread x => known_classes x
  | _ => []
  end.

Definition has_cls (l : list kcls) (k : kcls) : bool := existsb (kcls_eqb k) l.
Local Open Scope string_scope.
(* exactly what harness s_c07.rs classes_text prints: sorted, unique, comma separated, "-" if none *)
Definition show_classes (l : list kcls) : string :=
  match filter (has_cls l) all_kcls with
  | [] => "-"
  | ks => sjoin "," (map kcls_name ks)
  end.

(* the classes of the i-th statement of a program: a statement after another one whose printed form
   starts with `-` continues that statement (at the top level exactly as inside a do-block) *)
Definition statement_classes (i : nat) (e : expr) : list kcls :=
  cls_if (negb (Nat.eqb i 0) && starts_neg_expr e) KDoMinus ++ known_classes e.

(* one PRINT correspondence line: hex(text) | predicted round trip | classes *)
Definition show_print (fx : fixes) (i : nat) (e : expr) : string :=
  hex_of_string (print_text fx (policy_of fx gen_opinfo) num_text e) ++ "|" ++
  (if predict_rt fx gen_opinfo num_text e then "SAME" else "NOTSAME") ++ "|" ++
  show_classes (statement_classes i e).
Local Close Scope string_scope.
