(* DisplayNum.v — C20: the display form of numbers.
   Transcription of blots-core/src/values.rs: format_display_number, format_scientific,
   format_mantissa, format_standard, round_to_significant_figures, format_float_significant,
   format_integer_with_separators, add_thousand_separators.  Definitions only (no proofs).

   Text is [list ascii] (= the bytes of a Rust String; everything on this path is ASCII);
   [display_string] converts to Coq [string] at the boundary.

   Library calls are Section variables (oracles): f64::log10, f64::powi, format!("{:.N}"),
   format!("{:.14e}"), str::parse::<f64>.  The theorems in proofs/DisplayNum*.v hold for every
   oracle satisfying the stated shape hypotheses.  For *running* the model (correspondence
   with the Rust code) each oracle also has an exact executable implementation below
   ([fmt_prec_exec], [fmt_exp14_exec], [parse_f64_exec], [powi_exec]; the decimal expansion of
   a binary float is finite, so these are exact Z computations with round-half-even), except
   log10, which is a finite lookup table of the values the real f64::log10 returned.

   Every partial Rust operation on the path is an explicit [Panic] (debug-build semantics):
   i32 `+ - neg` overflow, `i64::abs` of i64::MIN.

   [fx] selects the code before (false) or after (true) /repo commit 60da55e
   (fixes/C20-decimal-exponent.diff, finding C20-F1); the two differ only in [flog10].
   THE MODEL IS fx = true; fx = false is kept to pin the regression witness and because the
   theorems that do not depend on the variant are stated for both.  See notes/C20.md. *)
From Coq Require Import ZArith Floats.SpecFloat Bool List String Ascii.
Require Import Blots.Num Blots.Outcome.
Import ListNotations.
Open Scope char_scope.
Open Scope Z_scope.

Definition text := list ascii.
Definition tx (s : string) : text := list_ascii_of_string s.
Definition display_string (t : text) : string := string_of_list_ascii t.

(* ---------- characters and digit strings ---------- *)
Definition is_digit (c : ascii) : bool :=
  let n := Z.of_N (N_of_ascii c) in (48 <=? n) && (n <=? 57).
Definition digit_val (c : ascii) : Z := Z.of_N (N_of_ascii c) - 48.
Definition digit_char (d : Z) : ascii := ascii_of_N (Z.to_N (48 + d)).

(* decimal digits of a non-negative integer (most significant first); "0" for 0.
   Fuel = bit length, which bounds the number of decimal digits. *)
Fixpoint digits_fuel (fuel : nat) (n : Z) (acc : text) : text :=
  let '(q, r) := Z.div_eucl n 10 in
  let acc' := digit_char r :: acc in
  match fuel with
  | O => acc'
  | S f => if q =? 0 then acc' else digits_fuel f q acc'
  end.
Definition nat_digits (n : Z) : text := digits_fuel (Z.to_nat (Z.log2 n)) n [].
(* Rust Display for i64 / i32 *)
Definition int_to_text (v : Z) : text :=
  if v <? 0 then "-" :: nat_digits (- v) else nat_digits v.
(* value of a digit string *)
Definition digits_value (l : text) : Z := fold_left (fun acc c => 10 * acc + digit_val c) l 0.

(* ---------- str helpers (each is the Rust std function of the same name) ---------- *)
Definition starts_with (c : ascii) (s : text) : bool :=
  match s with a :: _ => Ascii.eqb a c | [] => false end.
Fixpoint contains (c : ascii) (s : text) : bool :=
  match s with [] => false | a :: r => Ascii.eqb a c || contains c r end.
Definition ends_with (c : ascii) (s : text) : bool := starts_with c (rev s).
(* trim_end_matches(c): remove every trailing c *)
Fixpoint trim_end (c : ascii) (s : text) : text :=
  match s with
  | [] => []
  | a :: r => match trim_end c r with
              | [] => if Ascii.eqb a c then [] else [a]
              | r' => a :: r'
              end
  end.
(* s.find(c) and the two slices &s[..pos], &s[pos..]:  (before, Some (from c on)) *)
Fixpoint break_at (c : ascii) (s : text) : text * option text :=
  match s with
  | [] => ([], None)
  | a :: r => if Ascii.eqb a c then ([], Some s)
              else let '(b, d) := break_at c r in (a :: b, d)
  end.
(* split_once(c): (before, after c) *)
Definition split_once (c : ascii) (s : text) : option (text * text) :=
  match break_at c s with
  | (b, Some (_ :: after)) => Some (b, after)
  | _ => None
  end.

(* ---------- i32 arithmetic with overflow = Panic ---------- *)
Definition I32_MIN := - 2^31.
Definition I32_MAX := 2^31 - 1.
Definition i32_ok (z : Z) : outcome Z := if (I32_MIN <=? z) && (z <=? I32_MAX) then Ok z else Panic.
Definition i32_add (a b : Z) := i32_ok (a + b).
Definition i32_sub (a b : Z) := i32_ok (a - b).
Definition i32_neg (a : Z) := i32_ok (- a).

(* str::parse::<i32>(): optional + or -, then at least one digit, no overflow *)
Definition parse_i32 (s : text) : option Z :=
  let '(neg, ds) := match s with
                    | "-" :: r => (true, r)
                    | "+" :: r => (false, r)
                    | _ => (false, s)
                    end in
  match ds with
  | [] => None
  | _ => if forallb is_digit ds then
           let v := if neg then - digits_value ds else digits_value ds in
           if (I32_MIN <=? v) && (v <=? I32_MAX) then Some v else None
         else None
  end.

(* ---------- constants of the source text ---------- *)
Definition c_1e_4 : num := Eval vm_compute in num_of_bits 0x3F1A36E2EB1C432D.   (* 0.0001 *)
Definition c_1e15 : num := Eval vm_compute in num_of_bits 0x430C6BF526340000.   (* 1e15 *)
Definition c_2p53 : num := Eval vm_compute in num_of_bits 0x4340000000000000.   (* 9007199254740992.0 *)
Definition c_one  : num := Eval vm_compute in num_of_bits 0x3FF0000000000000.   (* 1.0 *)
Definition c_ten  : num := Eval vm_compute in num_of_bits 0x4024000000000000.   (* 10_f64 *)

(* the thousands-separator loop:
   chars().rev().enumerate().flat_map(|(i,c)| if i>0 && i%3==0 {[',',c]} else {[c]}).rev() *)
Fixpoint enumerate_from {A} (i : nat) (l : list A) : list (nat * A) :=
  match l with [] => [] | x :: r => (i, x) :: enumerate_from (S i) r end.
Definition sep_step (ic : nat * ascii) : text :=
  let '(i, c) := ic in
  if (Nat.ltb 0 i) && (Nat.eqb (Nat.modulo i 3) 0) then [","; c] else [c].
Definition group3 (s : text) : text :=
  rev (flat_map sep_step (enumerate_from 0 (rev s))).

(* format_integer_with_separators(value: i64) *)
Definition format_integer_with_separators (value : Z) : outcome text :=
  let is_negative := value <? 0 in
  if value =? I64_MIN then Panic                      (* i64::abs overflow *)
  else
    let abs_str := int_to_text (Z.abs value) in
    let with_commas := group3 abs_str in
    Ok (if is_negative then "-" :: with_commas else with_commas).

(* add_thousand_separators(s: &str) *)
Definition add_thousand_separators (s : text) : text :=
  let is_negative := starts_with "-" s in
  let s := if is_negative then tl s else s in
  let '(int_part, dec_part) := break_at "." s in
  let int_with_commas := group3 int_part in
  let result := match dec_part with
                | Some dec => int_with_commas ++ dec
                | None => int_with_commas
                end in
  if is_negative then "-" :: result else result.

(* the tail of format_float_significant: "remove trailing zeros after decimal point" *)
Definition trim_fraction (formatted : text) : text :=
  if contains "." formatted then
    let trimmed := trim_end "0" formatted in
    if ends_with "." trimmed then trim_end "." trimmed else trimmed
  else formatted.

Section Display.
  (* ----- library oracles ----- *)
  Variable log10 : num -> num.                 (* f64::log10 *)
  Variable powi : num -> Z -> num.             (* f64::powi(i32) *)
  Variable fmt_prec : num -> Z -> text.        (* format!("{:.prec$}", x) *)
  Variable fmt_exp14 : num -> text.            (* format!("{:.14e}", x) *)
  Variable parse_f64 : text -> option num.     (* str::parse::<f64>().ok() *)
  (* true: /repo as it is (since 60da55e); false: the code before that fix *)
  Variable fx : bool.

  (* fn decimal_exponent (fx = true); before 60da55e it was `a.log10().floor() as i32` inline:
       fn decimal_exponent(abs_value: f64) -> i32 {
           let estimate = abs_value.log10().floor() as i32;
           if abs_value < 10_f64.powi(estimate) { estimate - 1 } else { estimate }
       } *)
  Definition flog10 (abs_value : num) : outcome Z :=
    let estimate := as_i32 (nfloor (log10 abs_value)) in
    if fx then
      if nltb abs_value (powi c_ten estimate) then i32_sub estimate 1 else Ok estimate
    else Ok estimate.

  (* round_to_significant_figures(value, 15) *)
  Definition round_to_significant_figures (value : num) : outcome num :=
    if neqb value nzero then Ok nzero
    else
      do magnitude <- flog10 (nabs value);
      do e1 <- i32_sub 15 1;
      do e <- i32_sub e1 magnitude;
      let scale := powi c_ten e in
      Ok (ndiv (nround (nmul value scale)) scale).

  (* the two intermediate integers of format_float_significant(value, 15) *)
  Definition decimal_places_of (value : num) : outcome Z :=
    let abs_value := nabs value in
    do l <- flog10 abs_value;
    do magnitude <- (if ngeb abs_value c_one then i32_add l 1 else i32_neg l);
    if ngeb abs_value c_one then
      do d <- i32_sub 15 magnitude; Ok (Z.max d 0)
    else
      do d1 <- i32_add 15 magnitude; do d <- i32_sub d1 1; Ok (Z.max d 0).

  (* format_float_significant(value, 15) *)
  Definition format_float_significant (value : num) : outcome text :=
    do decimal_places <- decimal_places_of value;
    let formatted := fmt_prec value decimal_places in
    Ok (trim_fraction formatted).

  (* format_standard(value) *)
  Definition format_standard (value : num) : outcome text :=
    if nfract_is_zero value && nltb (nabs value) c_2p53 then
      format_integer_with_separators (as_i64 value)
    else
      do rounded <- round_to_significant_figures value;
      do formatted <- format_float_significant rounded;
      Ok (add_thousand_separators formatted).

  (* format_mantissa(mantissa) *)
  Definition format_mantissa (mantissa : num) : text :=
    trim_end "." (trim_end "0" (fmt_prec mantissa 14)).

  (* format_scientific(value) *)
  Definition format_scientific (value : num) : text :=
    let formatted := fmt_exp14 value in
    match split_once "e" formatted with
    | Some (mantissa_str, exp_str) =>
        let mantissa := match parse_f64 mantissa_str with Some m => m | None => value end in
        let exp := match parse_i32 exp_str with Some e => e | None => 0 end in
        format_mantissa mantissa ++ "e" :: int_to_text exp
    | None => formatted
    end.

  (* !(0.0001..1e15).contains(&abs_value) *)
  Definition scientific_range (abs_value : num) : bool :=
    negb (nleb c_1e_4 abs_value && nltb abs_value c_1e15).

  (* format_display_number(value) *)
  Definition format_display_number (value : num) : outcome text :=
    if is_nan value then Ok (tx "NaN")
    else if is_inf value then
      Ok (if negb (nsign value) then tx "Infinity" else tx "-Infinity")
    else if neqb value nzero then
      Ok (if nsign value then tx "-0" else tx "0")       (* value.to_string() of a zero *)
    else
      let abs_value := nabs value in
      if scientific_range abs_value then Ok (format_scientific value)
      else format_standard value.
End Display.

(* ====================================================================================
   Exact executable implementations of the library oracles (used only to RUN the model;
   validated against the Rust std functions by the ORACLE streams of checks/c20.py).
   ==================================================================================== *)

(* n / d rounded to the nearest integer, ties to even (n >= 0, d > 0) *)
Definition div_rhe (n d : Z) : Z :=
  let '(q, r) := Z.div_eucl n d in
  match 2 * r ?= d with
  | Lt => q
  | Gt => q + 1
  | Eq => if Z.even q then q else q + 1
  end.
(* |m * 2^e| as a fraction *)
Definition mag_frac (m : positive) (e : Z) : Z * Z :=
  if 0 <=? e then (Zpos m * 2 ^ e, 1) else (Zpos m, 2 ^ (- e)).

Fixpoint zeros (n : nat) : text := match n with O => [] | S k => "0" :: zeros k end.
(* q / 10^n written with exactly n fractional digits *)
Definition fixed_digits (q : Z) (n : Z) : text :=
  let ds := nat_digits q in
  let nn := Z.to_nat n in
  let ds := zeros (S nn - List.length ds) ++ ds in
  if n =? 0 then ds
  else firstn (List.length ds - nn) ds ++ "." :: skipn (List.length ds - nn) ds.

(* format!("{:.n$}", x): correctly rounded (half to even on the exact binary value) *)
Definition fmt_prec_exec (x : num) (n : Z) : text :=
  match x with
  | S754_nan => tx "NaN"
  | S754_infinity s => if s then tx "-inf" else tx "inf"
  | S754_zero s => (if s then ["-"] else []) ++ fixed_digits 0 n
  | S754_finite s m e =>
      let '(N, D) := mag_frac m e in
      (if s then ["-"] else []) ++ fixed_digits (div_rhe (N * 10 ^ n) D) n
  end.

(* 10^k <= N/D ? *)
Definition ge_pow10 (N D k : Z) : bool :=
  if 0 <=? k then D * 10 ^ k <=? N else D <=? N * 10 ^ (- k).
Fixpoint fix_k (fuel : nat) (N D k : Z) : Z :=
  match fuel with
  | O => k
  | S f => if negb (ge_pow10 N D k) then fix_k f N D (k - 1)
           else if ge_pow10 N D (k + 1) then fix_k f N D (k + 1)
           else k
  end.
(* floor(log10(N/D)) for N, D > 0 *)
Definition e10_frac (N D : Z) : Z :=
  fix_k 8 N D (((Z.log2 N - Z.log2 D) * 1233) / 4096).
(* N/D * 10^j rounded half-even *)
Definition scale_rhe (N D j : Z) : Z :=
  if 0 <=? j then div_rhe (N * 10 ^ j) D else div_rhe N (D * 10 ^ (- j)).

(* format!("{:.14e}", x) *)
Definition fmt_exp14_exec (x : num) : text :=
  match x with
  | S754_nan => tx "NaN"
  | S754_infinity s => if s then tx "-inf" else tx "inf"
  | S754_zero s => (if s then ["-"] else []) ++ tx "0.00000000000000e0"
  | S754_finite s m e =>
      let '(N, D) := mag_frac m e in
      let k := e10_frac N D in
      let q := scale_rhe N D (14 - k) in
      let '(q, k) := if q =? 10 ^ 15 then (10 ^ 14, k + 1) else (q, k) in
      (if s then ["-"] else []) ++ fixed_digits q 14 ++ "e" :: int_to_text k
  end.

(* nearest double (ties to even) of N / D, N >= 0, D > 0, with sign s *)
Definition rn_ratio (s : bool) (N D : Z) : num :=
  if N =? 0 then S754_zero s
  else
    let sh := Z.max 0 (64 + Z.log2 D - Z.log2 N) in
    let '(q, r) := Z.div_eucl (N * 2 ^ sh) D in
    binary_round_aux prec emax s q (- sh) (new_location D r).

(* str::parse::<f64>() on the plain decimal subset  sign? digits [. digits]  with at least one
   digit; every other text gives None here (Rust also accepts exponents, "inf", "nan":
   those never reach the model because fmt_exp14_exec never produces them). *)
Definition parse_f64_exec (t : text) : option num :=
  let '(neg, body) := match t with
                      | "-" :: r => (true, r)
                      | "+" :: r => (false, r)
                      | _ => (false, t)
                      end in
  let '(ip, rest) := break_at "." body in
  let fp := match rest with Some (_ :: f) => f | _ => [] end in
  if forallb is_digit ip && forallb is_digit fp && negb (Nat.eqb (List.length ip + List.length fp) 0) then
    Some (rn_ratio neg (digits_value (ip ++ fp)) (10 ^ Z.of_nat (List.length fp)))
  else None.

(* f64::powi = compiler-builtins __powidf2: square-and-multiply, reciprocal for b < 0 *)
Fixpoint powi_loop (fuel : nat) (a : num) (pow : Z) (mul : num) : num :=
  match fuel with
  | O => mul
  | S f =>
      let mul := if Z.odd pow then nmul mul a else mul in
      let pow := pow / 2 in
      if pow =? 0 then mul else powi_loop f (nmul a a) pow mul
  end.
Definition powi_exec (a : num) (b : Z) : num :=
  let mul := powi_loop 33 a (Z.abs b) c_one in
  if b <? 0 then ndiv c_one mul else mul.

(* log10: finite table (argument bits -> result bits) of what the real f64::log10 returned *)
Fixpoint lookup_bits (tab : list (Z * Z)) (k : Z) : option Z :=
  match tab with
  | [] => None
  | (a, b) :: r => if a =? k then Some b else lookup_bits r k
  end.
Definition log10_tab (tab : list (Z * Z)) (a : num) : num :=
  match lookup_bits tab (bits_of_num a) with Some b => num_of_bits b | None => S754_nan end.

Definition display_exec (fx : bool) (tab : list (Z * Z)) (x : num) : outcome text :=
  format_display_number (log10_tab tab) powi_exec fmt_prec_exec fmt_exp14_exec parse_f64_exec fx x.

(* ---------- printers for the correspondence (twins of harness/src/s_c20.rs) ---------- *)
Definition show_text (t : text) : string := hex_of_string (display_string t).
Definition show_otext (o : outcome text) : string :=
  match o with
  | Ok t => show_text t
  | Panic => "PANIC"
  | _ => "ERR"
  end.
(* does x take the standard non-integer path (the only one that calls log10)? *)
Definition std_nonint_path (x : num) : bool :=
  is_finite x && negb (neqb x nzero) && negb (scientific_range (nabs x)) &&
  negb (nfract_is_zero x && nltb (nabs x) c_2p53).
(* phase A of the DISPLAY stream: which second log10 argument does the model need? *)
Definition show_rounded (fx : bool) (tab : list (Z * Z)) (x : num) : string :=
  if std_nonint_path x then
    match round_to_significant_figures (log10_tab tab) powi_exec fx x with
    | Ok r => show_num (nabs r)
    | _ => "PANIC"
    end
  else "-".
(* phase B: the display text under both variants of flog10, "unfixed|fixed" *)
Definition show_display (tab : list (Z * Z)) (x : num) : string :=
  (show_otext (display_exec false tab x) ++ "|" ++ show_otext (display_exec true tab x))%string.
(* one-phase answer when no log10 call is involved, otherwise the arguments still needed *)
Definition show_phase_a (tab : list (Z * Z)) (x : num) : string :=
  if std_nonint_path x then
    ("R" ++ show_rounded false tab x ++ "|" ++ show_rounded true tab x)%string
  else ("D" ++ show_display [] x)%string.
Definition show_onum (o : option num) : string :=
  match o with Some x => show_num x | None => "NONE" end.
Definition show_oZ (o : option Z) : string :=
  match o with Some z => display_string (int_to_text z) | None => "NONE" end.
