(* Units.v — blots-core/src/units.rs transcribed: Unit::matches_exact, convert_to_base,
   convert_from_base, the five temperature functions, resolve_unit, find_unit, convert; and the
   `convert` built-in of functions.rs.  The table itself (get_all_units()) is NOT written
   here: it is regenerated from the built crate on every run (coq/gen/UnitsTable.v).
   The arithmetic is written once over the interface [arith] (UnitsBase.v) and used at two
   instances: [fl] (binary64: what the code computes; tied to the code by the UNITS
   correspondence stream) and [qa] (exact rationals: where the algebraic laws are stated).
   Definitions only. *)
From Coq Require Import ZArith QArith String List Bool Ascii.
Require Import Blots.Num Blots.UnitsBase Blots.gen.UnitsTable.
Import ListNotations.
Open Scope Z_scope.

(* ------------------------------------------------------------------ errors *)
(* anyhow!("Unknown unit: ..") | "Ambiguous unit '..'; try a more specific name .." |
   "Ambiguous unit '..'; try using specific casing .." | "Cannot convert .. to .." *)
Inductive uerr := EUnknown | EAmbigExact | EAmbigCase | ECategory | EType.
Inductive ures (A : Type) := UOk (a : A) | UErr (e : uerr).
Arguments UOk {A}. Arguments UErr {A}.

(* ------------------------------------------------------------------ str::to_lowercase *)
(* Rust's to_lowercase on the strings the unit code sees: ASCII letters by the ASCII rule; a
   non-ASCII character by the generated map [lower_map] (dumped from Rust for every non-ASCII
   character of the table and its case variants); anything else unchanged.  Outside that
   alphabet (and for the context-sensitive final sigma) the model makes no claim. *)
Definition ascii_lower (c : ascii) : ascii :=
  let n := nat_of_ascii c in
  if (Nat.leb 65 n && Nat.leb n 90)%bool then ascii_of_nat (n + 32) else c.

Fixpoint starts_with (p s : string) : bool :=
  match p, s with
  | EmptyString, _ => true
  | String a p', String b s' => (Ascii.eqb a b && starts_with p' s')%bool
  | _, _ => false
  end.

Fixpoint find_map (m : list (string * string)) (s : string) : option (string * string) :=
  match m with
  | [] => None
  | (src, dst) :: r => if starts_with src s then Some (src, dst) else find_map r s
  end.

(* [skip] bytes of a multi-byte character already translated *)
Fixpoint lower_go (m : list (string * string)) (skip : nat) (s : string) : string :=
  match s with
  | EmptyString => EmptyString
  | String c r =>
      match skip with
      | S k => lower_go m k r
      | O =>
          match find_map m s with
          | Some (src, dst) => (dst ++ lower_go m (String.length src - 1) r)%string
          | None => String (ascii_lower c) (lower_go m 0 r)
          end
      end
  end.
Definition to_lowercase (s : string) : string := lower_go lower_map 0 s.

(* ------------------------------------------------------------------ impl Unit *)
Definition str_in (s : string) (l : list string) : bool := existsb (String.eqb s) l.

(* self.identifiers.contains(&identifier) *)
Definition matches_exact (u : unit) (identifier : string) : bool := str_in identifier (u_ids u).
(* unit.identifiers.iter().any(|alias| alias.to_lowercase() == identifier_lower) *)
Definition matches_case (u : unit) (identifier_lower : string) : bool := str_in identifier_lower (u_lower u).

Section Arith.
  Variable A : arith.
  Notation T := (T A).
  Notation lit := (a_lit A).

  (* fn celsius_to_kelvin(c) = c + 273.15            fn kelvin_to_celsius(k) = k - 273.15
     fn fahrenheit_to_kelvin(f) = (f - 32.0) * 5.0 / 9.0 + 273.15
     fn kelvin_to_fahrenheit(k) = (k - 273.15) * 9.0 / 5.0 + 32.0       fn kelvin_to_kelvin(k) = k *)
  Definition tempfn_apply (f : tempfn) (x : T) : T :=
    match f with
    | TF_celsius_to_kelvin => a_add A x (lit lit_273_15)
    | TF_kelvin_to_celsius => a_sub A x (lit lit_273_15)
    | TF_fahrenheit_to_kelvin =>
        a_add A (a_div A (a_mul A (a_sub A x (lit lit_32)) (lit lit_5)) (lit lit_9)) (lit lit_273_15)
    | TF_kelvin_to_fahrenheit =>
        a_add A (a_div A (a_mul A (a_sub A x (lit lit_273_15)) (lit lit_9)) (lit lit_5)) (lit lit_32)
    | TF_kelvin_to_kelvin => x
    end.

  Definition convert_to_base (u : unit) (value : T) : T :=
    match u_conv u with
    | Linear coefficient => a_mul A value (lit coefficient)
    | Reciprocal coefficient =>
        if a_is_zero A value then a_inf A else a_div A (lit coefficient) value
    | Temperature to_kelvin _ => tempfn_apply to_kelvin value
    end.

  Definition convert_from_base (u : unit) (value : T) : T :=
    match u_conv u with
    | Linear coefficient => a_div A value (lit coefficient)
    | Reciprocal coefficient =>
        if a_is_zero A value then a_inf A else a_div A (lit coefficient) value
    | Temperature _ from_kelvin => tempfn_apply from_kelvin value
    end.
End Arith.

(* ------------------------------------------------------------------ resolve_unit *)
(* Parameterised by the table and by the lower-casing of the queried identifier so that the
   characterisation lemmas hold for every table; [resolve_unit] is the instance the code runs.
   (In the ambiguity branches the Rust code only builds the message; `unwrap_or(unit.identifiers[0])`
   is evaluated eagerly but only for units that matched, whose identifier list is non-empty.) *)
Definition resolve_in (units : list unit) (identifier identifier_lower : string) : ures unit :=
  let exact_matches := filter (fun u => matches_exact u identifier) units in
  let case_matches := filter (fun u => matches_case u identifier_lower) units in
  match exact_matches with
  | [u] => UOk u
  | _ :: _ :: _ => UErr EAmbigExact
  | [] =>
      match case_matches with
      | [] => UErr EUnknown
      | [u] => UOk u
      | _ :: _ :: _ => UErr EAmbigCase
      end
  end.

Definition resolve_unit (identifier : string) : ures unit :=
  resolve_in all_units identifier (to_lowercase identifier).

Definition find_unit (identifier : string) : option unit :=
  match resolve_unit identifier with UOk u => Some u | UErr _ => None end.

(* ------------------------------------------------------------------ convert *)
Section Convert.
  Variable A : arith.

  (* from.identifiers == to.identifiers  (slices of &'static str compared by content) *)
  Definition same_ids (a b : unit) : bool :=
    if list_eq_dec string_dec (u_ids a) (u_ids b) then true else false.

  (* going through the category's base unit *)
  Definition through_base (value : T A) (from to : unit) : T A :=
    convert_from_base A to (convert_to_base A from value).

  (* the body of units::convert once both units are resolved: category check, then the
     self-conversion short-circuit (fix e6d26e9: "converting a unit to itself returns the value
     unchanged"), then via the base unit *)
  Definition convert_units (value : T A) (from to : unit) : ures (T A) :=
    if negb (String.eqb (u_cat from) (u_cat to)) then UErr ECategory
    else if same_ids from to then UOk value
    else UOk (through_base value from to).

  Definition convert_with (units : list unit) (lower : string -> string)
             (value : T A) (from_unit to_unit : string) : ures (T A) :=
    match resolve_in units from_unit (lower from_unit) with
    | UErr e => UErr e
    | UOk from =>
        match resolve_in units to_unit (lower to_unit) with
        | UErr e => UErr e
        | UOk to => convert_units value from to
        end
    end.

  (* pub fn convert(value, from_unit, to_unit) *)
  Definition convert := convert_with all_units to_lowercase.
End Convert.

(* ------------------------------------------------------------------ the `convert` built-in *)
(* functions.rs, BuiltInFunction::Convert: args[0].as_number()?, args[1].as_string()?,
   args[2].as_string()?, then units::convert.  Arguments are modelled by a small sum type (the
   arity check happens before the call). *)
Inductive barg := ANum (x : num) | AStr (s : string) | AOther.
Definition builtin_convert (a0 a1 a2 : barg) : ures num :=
  match a0 with
  | ANum value =>
      match a1 with
      | AStr from_unit =>
          match a2 with
          | AStr to_unit => convert fl value from_unit to_unit
          | _ => UErr EType
          end
      | _ => UErr EType
      end
  | _ => UErr EType
  end.

(* ------------------------------------------------------------------ table scans used by C17 *)
(* identifiers that are listed (exactly) for more than one unit: neither unit is reachable
   through such an identifier (known-finding class C17-dup-ident) *)
Definition all_idents : list string := flat_map u_ids all_units.
Definition listed_count (s : string) : nat := List.length (filter (fun u => matches_exact u s) all_units).
Definition dup_listed (s : string) : bool := Nat.ltb 1 (listed_count s).
Fixpoint dedup (l : list string) : list string :=
  match l with
  | [] => []
  | x :: r => if str_in x r then dedup r else x :: dedup r
  end.
Definition dup_idents : list string := dedup (filter dup_listed all_idents).
(* the duplicated identifiers recorded as OPEN known findings (known/C17.json): none since fix
   478f22e ("the coulomb symbol is C"); a duplicated identifier outside this list is a new defect *)
Definition known_dup_idents : list string := [].

Definition unit_eqb (a b : unit) : bool := u_idx a =? u_idx b.
Definition resolves_to (s : string) (u : unit) : bool :=
  match resolve_unit s with UOk u' => unit_eqb u' u | UErr _ => false end.

(* coefficient literal of a linear / reciprocal unit *)
Definition coef_of (u : unit) : option literal :=
  match u_conv u with Linear c | Reciprocal c => Some c | Temperature _ _ => None end.

(* ------------------------------------------------------------------ table well-formedness (decidable) *)
Definition inverse_pair (t f : tempfn) : bool :=
  match t, f with
  | TF_celsius_to_kelvin, TF_kelvin_to_celsius
  | TF_fahrenheit_to_kelvin, TF_kelvin_to_fahrenheit
  | TF_kelvin_to_kelvin, TF_kelvin_to_kelvin => true
  | _, _ => false
  end.
(* a coefficient is a positive finite number whose dumped decimal rounds to the dumped bits; the two
   function pointers of a temperature unit are an inverse pair *)
Definition unit_wf (u : unit) : bool :=
  match u_conv u with
  | Linear c | Reciprocal c => (literal_ok c && (0 <? l_m c) && negb (qzero (lit_Q c)))%bool
  | Temperature t f => inverse_pair t f
  end.

Fixpoint list_Z_eqb (a b : list Z) : bool :=
  match a, b with
  | [], [] => true
  | x :: a', y :: b' => ((x =? y) && list_Z_eqb a' b')%bool
  | _, _ => false
  end.
(* the identification of the temperature function pointers made by the translator, re-validated:
   each temperature unit has a probe row, and the transcribed functions reproduce, bit for bit, what the
   function pointers returned on the probe points *)
Definition temp_probe_row_ok (row : Z * list Z * list Z) : bool :=
  let '(idx, tos, froms) := row in
  match filter (fun u => u_idx u =? idx) all_units with
  | [u] =>
      match u_conv u with
      | Temperature t f =>
          (list_Z_eqb (map (fun p => bits_of_num (tempfn_apply fl t (num_of_bits p))) temp_probes) tos &&
           list_Z_eqb (map (fun p => bits_of_num (tempfn_apply fl f (num_of_bits p))) temp_probes) froms)%bool
      | _ => false
      end
  | _ => false
  end.
Definition temp_probes_ok : bool :=
  (forallb temp_probe_row_ok temp_probe_results &&
   forallb (fun u => match u_conv u with
                     | Temperature _ _ => existsb (fun row => fst (fst row) =? u_idx u) temp_probe_results
                     | _ => true end) all_units &&
   Nat.leb 8 (List.length temp_probes))%bool.

(* ------------------------------------------------------------------ prefixed names *)
Definition metric_prefixes : list (string * Z) :=
  [("yotta", 24); ("zetta", 21); ("exa", 18); ("peta", 15); ("tera", 12); ("giga", 9); ("mega", 6);
   ("kilo", 3); ("hecto", 2); ("hect", 2); ("deca", 1); ("deka", 1); ("deci", -1); ("centi", -2); ("milli", -3);
   ("micro", -6); ("nano", -9); ("pico", -12); ("femto", -15); ("atto", -18); ("zepto", -21); ("yocto", -24)]%string.
Definition binary_prefixes : list (string * Z) :=
  [("kibi", 10); ("mebi", 20); ("gibi", 30); ("tebi", 40); ("pebi", 50); ("exbi", 60); ("zebi", 70); ("yobi", 80)]%string.
Definition dim_words : list (string * Z) := [("", 1); ("square ", 2); ("cubic ", 3)]%string.

Fixpoint strip_prefix (p s : string) : option string :=
  match p with
  | EmptyString => Some s
  | String a p' => match s with
                   | String b s' => if Ascii.eqb a b then strip_prefix p' s' else None
                   | EmptyString => None
                   end
  end.
Definition is_linear (u : unit) : bool := match u_conv u with Linear _ => true | _ => false end.

(* every (u, b, k): some identifier of the unit u reads  dim ++ prefix ++ rest  (dim one of "",
   "square ", "cubic "; rest at least 3 bytes long) and  dim ++ rest  is an identifier of another unit b
   (of ANY category: that u and b share a category is part of the theorem);
   k = prefix exponent * dimension *)
Definition prefix_hits (table : list (string * Z)) : list (unit * unit * Z) :=
  flat_map (fun u =>
      flat_map (fun i =>
        flat_map (fun dd : string * Z =>
          match strip_prefix (fst dd) i with
          | None => []
          | Some tail =>
              flat_map (fun pk : string * Z =>
                match strip_prefix (fst pk) tail with
                | None => []
                | Some rest =>
                    if Nat.leb 3 (String.length rest) then
                      map (fun b => (u, b, snd pk * snd dd))
                          (filter (fun b => (negb (unit_eqb b u) && str_in (fst dd ++ rest)%string (u_ids b))%bool)
                                  all_units)
                    else []
                end) table
          end) dim_words) (u_ids u)) all_units.
Definition same_linear_category (u b : unit) : bool :=
  (String.eqb (u_cat u) (u_cat b) && is_linear u && is_linear b)%bool.

(* the coefficient as typed (shortest decimal) and as held (exact value of the f64) *)
Definition coef_dec (u : unit) : Q := match coef_of u with Some c => lit_Q c | None => 0%Q end.
Definition coef_exact (u : unit) : Q :=
  match coef_of u with
  | Some c => match Q_of_num (num_of_bits (l_bits c)) with Some q => q | None => 0%Q end
  | None => 0%Q
  end.
Definition Qpow2 (e : Z) : Q :=
  match e with Z0 => 1%Q | Zpos p => inject_Z (2 ^ Zpos p) | Zneg p => (1 # Z.to_pos (2 ^ Zpos p))%Q end.

(* ------------------------------------------------------------------ printers (correspondence) *)
Open Scope string_scope.
Definition show_uerr (e : uerr) : string :=
  match e with
  | EUnknown => "ERR:unknown" | EAmbigExact => "ERR:ambig-exact" | EAmbigCase => "ERR:ambig-case"
  | ECategory => "ERR:category" | EType => "ERR:type"
  end.
Definition show_conv (r : ures num) : string :=
  match r with UOk x => "OK:" ++ show_num x | UErr e => show_uerr e end.
Fixpoint join_comma (l : list string) : string :=
  match l with [] => "" | [x] => x | x :: r => x ++ "," ++ join_comma r end.

(* decimal digits of a non-negative Z *)
Fixpoint dec_digits (fuel : nat) (z : Z) (acc : string) : string :=
  match fuel with
  | O => acc
  | S f =>
      let acc' := String (ascii_of_nat (48 + Z.to_nat (z mod 10)%Z)) acc in
      if (z <? 10)%Z then acc' else dec_digits f (z / 10)%Z acc'
  end.
Definition show_Z (z : Z) : string := dec_digits 20 z "".

(* UNITS stream: one identifier pair, several magnitudes (bit patterns).  [convert_many] resolves the
   two identifiers once and then runs the body of convert for every magnitude; it equals
   map (fun v => convert A v from to) (UnitsLaws.convert_many_spec), and is only there to make the
   correspondence run fast. *)
Definition convert_many (A : arith) (vs : list (T A)) (from_unit to_unit : string) : list (ures (T A)) :=
  match resolve_unit from_unit with
  | UErr e => map (fun _ => UErr e) vs
  | UOk from =>
      match resolve_unit to_unit with
      | UErr e => map (fun _ => UErr e) vs
      | UOk to => map (fun v => convert_units A v from to) vs
      end
  end.
Definition show_units_line (from to : string) (bits : list Z) : string :=
  join_comma (map show_conv (convert_many fl (map num_of_bits bits) from to)).
Definition show_resolve (s : string) : string :=
  match resolve_unit s with UOk u => "OK:" ++ show_Z (u_idx u) | UErr e => show_uerr e end
  ++ "|" ++ (match resolve_unit s, find_unit s with UOk _, Some _ | UErr _, None => "1" | _, _ => "0" end).
Definition show_lower (s : string) : string := hex_of_string (to_lowercase s).
Definition show_builtin (a0 a1 a2 : barg) : string := show_conv (builtin_convert a0 a1 a2).
