(* JsonExact.v — property C06: a GLOBAL instance of the two library oracles of the JSON text layer
   (fmt_pieces : double -> number token, float_of_tok : number token -> double), so that the
   text-level theorems are demonstrably not vacuous.  Definitions only (proofs/JsonInstance.v).

   * [exact_pieces]: the EXACT decimal expansion of a finite binary64.  m * 2^e with e >= 0 is an
     integer (written with ".0", as serde_json does for integral floats); with e < 0 it is
     m * 5^(-e) / 10^(-e): an integer part and exactly -e fraction digits.  Always a JSON float token
     (a fraction is present), never an exponent.  -0.0 is "-0.0".
     This is NOT what serde_json prints: ryu prints the SHORTEST decimal that reads back to the
     double (0.1 rather than 0.1000000000000000055511151231257827...).  That ryu's text reads back
     is tied by the NUM / XNUM correspondence streams (checks/c06.py), not proved.
   * [rn_float_of_tok]: the correctly rounded reading of a token, the reference of C16
     (NumText.rn_decimal, proved to be IEEE round-to-nearest-even of the decimal's value in
     proofs/NumTextRef.v); "number out of range" (None) when the rounded value is not finite.
     This IS what serde_json does when built with float_roundtrip (the build in /repo since the
     repair of F17); tied by the XNUM / XPARSE streams. *)
From Coq Require Import String Ascii List ZArith Bool Floats.SpecFloat.
Require Import Blots.Num Blots.Outcome Blots.NumText Blots.Json Blots.JsonText Blots.JsonWf.
Import ListNotations.
Open Scope Z_scope.

(* decimal digits of a non-negative integer of any size (itoa with enough fuel: z < 2^(log2 z + 1)) *)
Definition big_digits (z : Z) : list Z := dec_list (S (Z.to_nat (Z.log2 z))) z [].
(* exactly k decimal digits: z mod 10^k, most significant first, zero-padded *)
Fixpoint pad_digits (k : nat) (z : Z) (acc : list Z) : list Z :=
  match k with
  | O => acc
  | S k' => pad_digits k' (z / 10) (z mod 10 :: acc)
  end.

(* m * 2^e with the common factors of two removed while e < 0 (so that the fraction printed has
   no trailing zeros: 1.5 rather than 1.5000000000000000000000000000000000000000000000000000) *)
Fixpoint strip_twos (m : positive) (e : Z) : positive * Z :=
  match m with
  | xO p => if e <? 0 then strip_twos p (e + 1) else (m, e)
  | _ => (m, e)
  end.
(* the exact decimal of (-1)^s * m * 2^e *)
Definition exact_tok (s : bool) (m : positive) (e : Z) : numtok :=
  if 0 <=? e then NumTok s (big_digits (Zpos m * 2 ^ e)) (Some [0]) None
  else
    let k := - e in
    let n := Zpos m * 5 ^ k in
    NumTok s (big_digits (n / 10 ^ k)) (Some (pad_digits (Z.to_nat k) (n mod 10 ^ k) [])) None.
Definition exact_pieces (x : num) : numtok :=
  match x with
  | S754_zero s => NumTok s [0] (Some [0]) None
  | S754_finite s m e => let '(m', e') := strip_twos m e in exact_tok s m' e'
  | _ => NumTok false [0] (Some [0]) None     (* not finite: never printed (to_json writes 0) *)
  end.

(* the decimal a token denotes: mantissa digits (integer and fraction part) and power of ten *)
Definition tok_frac_digits (t : numtok) : list Z := match t_frac t with Some f => f | None => [] end.
Definition tok_mantissa (t : numtok) : Z := JsonText.digits_val 0 (t_int t ++ tok_frac_digits t).
Definition tok_exp10 (t : numtok) : Z :=
  match t_exp t with
  | Some (neg, ds) => if neg then - JsonText.digits_val 0 ds else JsonText.digits_val 0 ds
  | None => 0
  end - Z.of_nat (List.length (tok_frac_digits t)).

Definition rn_float_of_tok (t : numtok) : option num :=
  let f := rn_decimal false (tok_mantissa t) (tok_exp10 t) in
  if is_finite f then Some (with_sign (t_neg t) f) else None.

(* ------------------------------------------------------------------ stream runners *)
Open Scope string_scope.
(* XPRINT: the exact text of a double (hex) *)
Definition c06_exact_text (bits : Z) : string := hex_of_string (render_tok (exact_pieces (num_of_bits bits))).
(* XNUM: one number text -> re-rendered token and classification with the correctly rounded reading *)
Definition c06_xnum_line (s : string) : string :=
  match scan_number s with
  | Some (t, rest) =>
      hex_of_string (render_tok t) ++ " "
      ++ match classify_number rn_float_of_tok t with Some n => show_json (JNum n) | None => "ERR" end
  | None => "NOSCAN"
  end.
(* XPARSE: a whole text through the parser model with the correctly rounded reading *)
Definition c06_xparse_line (s : string) : string :=
  show_oj (option_map sj_build (json_from_str rn_float_of_tok s)).
(* XRT: a document printed with the exact printer and read back by the model parser: T when the
   same document comes back; then the Value serde_json must build from that text *)
Fixpoint json_eqb (a b : json) {struct a} : bool :=
  match a, b with
  | JNull, JNull => true
  | JBool x, JBool y => Bool.eqb x y
  | JNum (JPosInt x), JNum (JPosInt y) => Z.eqb x y
  | JNum (JNegInt x), JNum (JNegInt y) => Z.eqb x y
  | JNum (JFloat x), JNum (JFloat y) => Z.eqb (bits_of_num x) (bits_of_num y)
  | JStr x, JStr y => String.eqb x y
  | JArr l, JArr m =>
      (fix go (l m : list json) {struct l} : bool :=
         match l, m with
         | [], [] => true
         | x :: l', y :: m' => json_eqb x y && go l' m'
         | _, _ => false
         end) l m
  | JObj l, JObj m =>
      (fix go (l m : list (string * json)) {struct l} : bool :=
         match l, m with
         | [], [] => true
         | (k, x) :: l', (k', y) :: m' => String.eqb k k' && json_eqb x y && go l' m'
         | _, _ => false
         end) l m
  | _, _ => false
  end.
Definition c06_xrt_line (d : json) : string :=
  let text := jprint exact_pieces d in
  hex_of_string text ++ " "
  ++ match json_from_str rn_float_of_tok text with
     | Some d' => if json_eqb d d' then "T" else "F"
     | None => "ERR"
     end
  ++ " " ++ show_json (sj_build d).

(* XECHO: the echo program text to text, compared byte for byte with the real binary.  The printer
   is the executable reference of ryu's shortest digits that C16 maintains (NumText.ref_ryu: Dragon4
   over Z with ryu's tie rule and layout; compared with the real serde_json text by C16's NUMTEXT
   stream and, through this stream, by C06), re-scanned into a token.  Nothing is proved about it. *)
Definition ryu_pieces (x : num) : numtok :=
  match scan_number (ref_ryu x) with
  | Some (t, _) => t
  | None => NumTok false [] None None
  end.
Definition c06_xecho_line (input key name : string) : string :=
  match cli_text_echo no_fn no_body no_emit no_name ryu_pieces rn_float_of_tok input key name with
  | Ok t => "OK:" ++ hex_of_string t
  | Err => "ERR"
  | _ => "OTHER"
  end.
