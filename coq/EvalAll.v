(* EvalAll.v — the evaluator with EVERY built-in of the regenerated table coq/gen/Builtins.v.

   EvalFull.builtin_full answers Unmodelled for the 15 built-ins whose arm calls library code that
   is not transcribed (libm, Unicode tables, the system clock, stderr) and for to_string / join of
   a value that contains a function.  Here every such library function is a field of an ORACLE
   record, over which every definition (and every theorem of proofs/All*.v) is parametrised:
   nothing is assumed of it except where a theorem names a hypothesis.

     o_sin .. o_exp   f64::sin cos tan asin acos atan ln log10 exp      (libm)
     o_powf           f64::powf                                          (libm; the `^` operator)
     o_trim/upper/lower  str::trim, to_uppercase, to_lowercase           (Unicode tables)
     o_lam_str        "(args) => " ++ expr_to_source_with_scope(body, serialisable scope)
     o_powi o_fmt_prec o_fmt_exp14 o_parse_f64   the std functions under format_display_number
                      (DisplayNum.v of C20; its f64::log10 is the SAME field o_log10)
     o_now            seconds since the Unix epoch as f64, NEGATIVE while the clock is before 1970 (repo fix
                      bf56486: `match ..duration_since(UNIX_EPOCH) { Ok(e) => e.as_secs_f64(), Err(b) =>
                      -b.duration().as_secs_f64() }`; before it the field was an option and None panicked)

   builtin_all o = the new arms first, then EvalFull.builtin_full (unchanged).  Definitions only. *)
From Coq Require Import String Ascii List ZArith Bool.
Require Import Blots.Num Blots.gen.Builtins Blots.Ast Blots.Value Blots.Outcome Blots.Binop
               Blots.Env Blots.Eval Blots.BuiltinsHof Blots.Program Blots.EvalInst Blots.EvalFull.
Require Blots.BuiltinsList Blots.BuiltinsText Blots.NumText Blots.DisplayNum.
Import ListNotations.
Open Scope list_scope.

Record oracle : Type := {
  o_sin : num -> num; o_cos : num -> num; o_tan : num -> num;
  o_asin : num -> num; o_acos : num -> num; o_atan : num -> num;
  o_ln : num -> num; o_log10 : num -> num; o_exp : num -> num;
  o_powf : num -> num -> num;
  o_trim : string -> string; o_upper : string -> string; o_lower : string -> string;
  o_lam_str : list lamarg -> expr -> list (string * value) -> string;
  o_powi : num -> Z -> num;
  o_fmt_prec : num -> Z -> DisplayNum.text;
  o_fmt_exp14 : num -> DisplayNum.text;
  o_parse_f64 : DisplayNum.text -> option num;
  o_now : num
}.

(* ---------------------------------------------------------------- dyn-fmt 0.4.3
   <Arguments as Display>::fmt (lib.rs:97-158), the engine behind `format_str.format(&args)`.
   The Rust loop keeps (fmt, piece_end, state); one iteration looks at one byte, so the model
   recurses on the remaining bytes:
     DPiece  state Piece, the bytes before the cursor are the current piece (emitted as they are passed)
     DArg    state Arg: the byte before the cursor was '{' (and `fmt` is not empty: `if fmt.is_empty() { break }`)
     DSkip   state Piece with piece_end = 1 just set: the byte under the cursor is literal text
   `unsafe { unreachable_unchecked() }` (state Arg on an empty rest) is the Panic arm; the slices
   `fmt[.. piece_end]`, `fmt[(piece_end + 1) ..]` cut directly before / after an ASCII brace, which is a char
   boundary of a `str` (valid UTF-8 by type invariant), and `as_bytes()[piece_end ..]` has piece_end <= len
   because piece_end only grows past a byte that `first()` returned.
   Missing arguments are the empty string, extra arguments are ignored. *)
Inductive dstate := DPiece | DArg | DSkip.
Definition is_lbrace (c : ascii) : bool := Ascii.eqb c "{"%char.
Definition is_rbrace (c : ascii) : bool := Ascii.eqb c "}"%char.
Fixpoint dyn_go (s : dstate) (fmt : string) (args : list string) {struct fmt} : outcome string :=
  match fmt with
  | EmptyString => match s with DArg => Panic | _ => Ok EmptyString end
  | String b rest =>
      match s with
      | DPiece =>
          if is_lbrace b then
            match rest with EmptyString => Ok EmptyString | _ => dyn_go DArg rest args end
          else if is_rbrace b then
            match rest with EmptyString => Ok EmptyString | _ => dyn_go DSkip rest args end
          else do t <- dyn_go DPiece rest args; Ok (String b t)
      | DArg =>
          if is_rbrace b then
            match args with
            | a :: args' => do t <- dyn_go DPiece rest args'; Ok (a ++ t)%string
            | [] => dyn_go DPiece rest []
            end
          else do t <- dyn_go DPiece rest args; Ok (String b t)
      | DSkip => do t <- dyn_go DPiece rest args; Ok (String b t)
      end
  end.
Definition dyn_format (fmt : string) (args : list string) : outcome string := dyn_go DPiece fmt args.

(* `&args[1..]`: a slice with a start index is a partial operation (start > len panics) *)
Definition slice_from {A} (l : list A) (n : nat) : outcome (list A) :=
  if Nat.leb n (length l) then Ok (skipn n l) else Panic.

Section WithOracle.
  Variable o : oracle.

  (* ---- Value::stringify(heap, false, false): f64 Display is NumText.ref_display (C16) ---- *)
  Definition stringify_internal_all (v : value) : string :=
    BuiltinsList.stringify NumText.ref_display (o_lam_str o) false v.

  (* ---- Value::stringify(heap, false, true): numbers through format_display_number (values.rs:18,
          DisplayNum.v of C20, fx = true: the code since 60da55e).  Its i32 / i64 arithmetic can
          overflow (Panic) — for no valid double under the real log10 (C20_no_panic), but the model
          keeps the arm. ---- *)
  Definition display_text (x : num) : outcome string :=
    omap DisplayNum.display_string
         (DisplayNum.format_display_number (o_log10 o) (o_powi o) (o_fmt_prec o) (o_fmt_exp14 o)
                                           (o_parse_f64 o) true x).
  Definition display_or_empty (x : num) : string :=
    match display_text x with Ok s => s | _ => EmptyString end.
  (* the numbers stringify formats: inside lists, records and spreads, not inside functions *)
  Fixpoint nums_in (v : value) : list num :=
    match v with
    | VNum x => [x]
    | VList l => flat_map nums_in l
    | VRec r => flat_map (fun kv => nums_in (snd kv)) r
    | VSpread w => nums_in w
    | _ => []
    end.
  Definition display_panics (v : value) : bool :=
    existsb (fun x => is_panic (display_text x)) (nums_in v).
  Definition stringify_display_all (v : value) : outcome string :=
    if display_panics v then Panic
    else Ok (BuiltinsList.stringify display_or_empty (o_lam_str o) false v).

  (* ---- to_string / join: as BuiltinsText, with the function text from the oracle ---- *)
  Definition bi_to_string_all (args : list value) : outcome value :=
    do a0 <- arg args 0;
    match a0 with
    | VStr _ => Ok a0
    | _ => Ok (VStr (stringify_internal_all a0))
    end.
  Definition bi_join_all (args : list value) : outcome value :=
    do a1 <- arg args 1; do delimeter <- as_string a1;
    do a0 <- arg args 0; do l <- as_list a0;
    Ok (VStr (BuiltinsList.str_join delimeter (map stringify_internal_all l))).

  (* ---- format(fmt, ...args) (functions.rs:947) ---- *)
  Definition bi_format (args : list value) : outcome value :=
    do a0 <- arg args 0; do format_str <- as_string a0;
    do rest <- slice_from args 1;
    do format_args <- mapM stringify_display_all rest;
    do s <- dyn_format format_str format_args;
    Ok (VStr s).

  (* ---- print(...) (functions.rs:1272): the line handed to eprintln!, then Null ---- *)
  Definition print_line (args : list value) : outcome string :=
    match args with
    | [_] => do a0 <- arg args 0; Ok (stringify_internal_all a0)
    | _ =>
        do a0 <- arg args 0; do format_str <- as_string a0;
        do rest <- slice_from args 1;
        dyn_format format_str (map stringify_internal_all rest)
    end.
  Definition bi_print (args : list value) : outcome value :=
    do _ <- print_line args; Ok VNull.

  (* ---- time_now() (functions.rs:1295): total since repo fix bf56486 (the `.unwrap()` of
          duration_since(UNIX_EPOCH) became a match; a clock before 1970 reads a negative number) ---- *)
  Definition bi_time_now (_ : list value) : outcome value := Ok (VNum (o_now o)).

  Definition builtin_all (call : callback) (b : builtin)
    : list value -> store -> outcome value * store :=
    match b with
    | B_sin => pure_bi (num1 (o_sin o))
    | B_cos => pure_bi (num1 (o_cos o))
    | B_tan => pure_bi (num1 (o_tan o))
    | B_asin => pure_bi (num1 (o_asin o))
    | B_acos => pure_bi (num1 (o_acos o))
    | B_atan => pure_bi (num1 (o_atan o))
    | B_log => pure_bi (num1 (o_ln o))
    | B_log10 => pure_bi (num1 (o_log10 o))
    | B_exp => pure_bi (num1 (o_exp o))
    | B_trim => pure_bi (BuiltinsList.bi_trim (o_trim o))
    | B_uppercase => pure_bi (BuiltinsList.bi_uppercase (o_upper o))
    | B_lowercase => pure_bi (BuiltinsList.bi_lowercase (o_lower o))
    | B_to_string => pure_bi bi_to_string_all
    | B_join => pure_bi bi_join_all
    | B_format => pure_bi bi_format
    | B_print => pure_bi bi_print
    | B_time_now => pure_bi bi_time_now
    | _ => builtin_full call b
    end.

  (* what one call of a built-in writes to stderr itself (callbacks write their own lines) *)
  Definition builtin_all_stderr (b : builtin) (args : list value) : list string :=
    match b with
    | B_print => match print_line args with Ok s => [s] | _ => [] end
    | _ => []
    end.

  (* `^` through the oracle's powf; every other operator is EvalInst.binop_impl *)
  Definition binop_all (call : callback) (op : binop) (l r : value) (st : store)
    : outcome value * store :=
    match op with
    | Power => eval_binop store call fn_accepts2_of_value (o_powf o) Power l r st
    | _ => binop_impl call op l r st
    end.

  Definition eval_all := eval_top true binop_all builtin_all.
  Definition run_program_all (inputs : list (string * value)) (prog : list stmt) : string :=
    show_run (run eval_all (init_session inputs) prog).
End WithOracle.

(* the built-ins that have an arm of their own here (the rest fall through to builtin_full) *)
Definition all_new_arms : list builtin :=
  [B_sin; B_cos; B_tan; B_asin; B_acos; B_atan; B_log; B_log10; B_exp; B_trim; B_uppercase; B_lowercase;
   B_to_string; B_join; B_format; B_print; B_time_now].

(* a concrete inhabitant of the oracle type (every libm function is the identity, powf the first
   projection, the text functions the identity, the clock at 1.0 s), for the evaluated examples *)
Definition oracle_trivial : oracle := {|
  o_sin := fun x => x; o_cos := fun x => x; o_tan := fun x => x; o_asin := fun x => x; o_acos := fun x => x;
  o_atan := fun x => x; o_ln := fun x => x; o_log10 := fun _ => nzero; o_exp := fun x => x;
  o_powf := fun x _ => x;
  o_trim := fun s => s; o_upper := fun s => s; o_lower := fun s => s;
  o_lam_str := fun _ _ _ => "<function>"%string;
  o_powi := DisplayNum.powi_exec; o_fmt_prec := DisplayNum.fmt_prec_exec; o_fmt_exp14 := DisplayNum.fmt_exp14_exec;
  o_parse_f64 := DisplayNum.parse_f64_exec;
  o_now := num_of_Z 1
|}.
