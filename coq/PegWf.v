(* PegWf.v — definitions only: a computable well-formedness check for pest grammars (the conditions pest_meta's
   validator enforces before generating a parser, restated over the optimized rules):
     - no rule is left-recursive: the "can be entered without consuming input" call graph is acyclic;
     - no repetition body is nullable (pest: "expression inside repetition is non-progressing").
   For a grammar passing the check every parse terminates; the planned bound on the nesting depth is
   fuel = c * (len + 1) * #rules  ([fuel_sufficient_full] in Properties/C10.v is the statement, kept as a Prop).
   [nullable] and the left-call graph are computed by bounded iteration over the finite rule list. *)
From Coq Require Import String Ascii List NArith Bool Arith.
Require Import Blots.Peg.
Import ListNotations.

Section Wf.
  Variable R : Type.
  Variable G : grammar R.
  Variable rules : list R.
  Variable idx : R -> N.                 (* injective numbering of the rules *)

  Definition mem (r : R) (l : list R) : bool := existsb (fun x => N.eqb (idx x) (idx r)) l.

  (* can [e] succeed without consuming input, given the set [nl] of rules already known nullable?
     (over-approximation: predicates, PEEK / POP of an empty string, SkipUntil, SOI, EOI count as nullable) *)
  Fixpoint nullable (nl : list R) (e : expr R) : bool :=
    match e with
    | Str x | Insens x => match x with EmptyString => true | _ => false end
    | Range _ _ => false
    | Ident r => mem r nl
    | Builtin BAny => false
    | Builtin _ => true
    | PosPred _ | NegPred _ => true
    | Seq a b => nullable nl a && nullable nl b
    | Choice a b => nullable nl a || nullable nl b
    | Opt _ | Rep _ => true
    | SkipUntil _ => true
    | Push x | RestoreOnErr x => nullable nl x
    end.
  Definition nullable_step (nl : list R) : list R :=
    filter (fun r => mem r nl || nullable nl (rd_body (g_def G r))) rules.
  Fixpoint iter {A} (n : nat) (f : A -> A) (x : A) : A :=
    match n with O => x | S n' => iter n' f (f x) end.
  Definition nullable_rules : list R := iter (List.length rules) nullable_step [].

  (* implicit whitespace makes the WHITESPACE / COMMENT rules left-callable wherever skip may run; they are
     included in the left set of every sequence / repetition junction *)
  Definition trivia : list R :=
    (match g_ws G with Some w => [w] | None => [] end) ++ (match g_comment G with Some c => [c] | None => [] end).

  (* rules that [e] may call at its own start position ([nl] = the nullable rules) *)
  Fixpoint left_calls (nl : list R) (e : expr R) : list R :=
    match e with
    | Ident r => [r]
    | PosPred x | NegPred x | Opt x | Push x | RestoreOnErr x => left_calls nl x
    | Rep x => left_calls nl x
    | Seq a b => left_calls nl a ++ (if nullable nl a then trivia ++ left_calls nl b else [])
    | Choice a b => left_calls nl a ++ left_calls nl b
    | _ => []
    end.
  (* depth-first reachability through a table of left calls *)
  Definition lookup (table : list (R * list R)) (r : R) : list R :=
    match find (fun p => N.eqb (idx (fst p)) (idx r)) table with Some p => snd p | None => [] end.
  Fixpoint dfs (table : list (R * list R)) (fuel : nat) (todo visited : list R) : list R :=
    match fuel with
    | O => visited
    | S f =>
        match todo with
        | [] => visited
        | x :: todo' =>
            if mem x visited then dfs table f todo' visited
            else dfs table f (lookup table x ++ todo') (x :: visited)
        end
    end.

  (* every repetition body consumes input when it succeeds *)
  Fixpoint reps_progress (nl : list R) (e : expr R) : bool :=
    match e with
    | Rep x => negb (nullable nl x) && reps_progress nl x
    | PosPred x | NegPred x | Opt x | Push x | RestoreOnErr x => reps_progress nl x
    | Seq a b | Choice a b => reps_progress nl a && reps_progress nl b
    | _ => true
    end.

  Definition total_edges (table : list (R * list R)) : nat :=
    fold_right (fun p n => S (List.length (snd p)) + n) 0 table.

  Definition wf_grammar : bool :=
    let nl := nullable_rules in
    let table := map (fun r => (r, left_calls nl (rd_body (g_def G r)))) rules in
    let fuel := S (total_edges table) in
    forallb (fun r => negb (mem r (dfs table fuel (lookup table r) []))          (* not left-recursive *)
                      && reps_progress nl (rd_body (g_def G r))) rules
    && forallb (fun t => negb (mem t nl)) trivia.     (* skip = WHITESPACE* must progress too *)
End Wf.
Arguments wf_grammar {R}. Arguments nullable_rules {R}.
