(* Peg.v — definitions only.  A generic executable interpreter of pest 2.8.3 grammars, transcribed
   from the vendored sources
     pest-2.8.3/src/parser_state.rs   (rule, sequence, repeat, optional, lookahead, atomic, stack_push,
                                       stack_peek, stack_pop, stack_drop, restore_on_err, match_string,
                                       match_insensitive, match_range, skip, skip_until, start_of_input,
                                       end_of_input)
     pest-2.8.3/src/stack.rs          (Stack: cache / popped / lengths, snapshot / clear_snapshot / restore)
     pest-2.8.3/src/position.rs       (match_string, match_insensitive, match_range, skip, skip_until)
     pest_generator-2.8.3/src/generator.rs  (generate_rule, generate_skip, generate_expr,
                                       generate_expr_atomic: how an OptimizedRule becomes calls of the above)
   The grammar it runs is pest's OptimizedRule list (coq/gen/Grammar.v, produced by
   translate/pest2coq.py, which also transcribes pest_meta's optimizer).

   INPUT.  A Coq [string] = the BYTES of the text (UTF-8), positions are byte offsets exactly as in
   pest (`Position::pos`).  Rust's &str is valid UTF-8; on such input
     - match_string compares bytes                                  (position.rs:397)
     - match_range 'a'..'b' with ASCII bounds succeeds iff the next BYTE is in the range (a non-ASCII
       character starts with a byte >= 0x80 and is itself > 0x7f); the translator refuses non-ASCII bounds
     - ANY = skip(1) advances by the UTF-8 width given by the lead byte
     - match_insensitive with an ASCII literal = bytewise comparison after ASCII lower-casing (the
       `get(0..len)` char-boundary test cannot fail after len ASCII bytes); non-ASCII literals refused
     - skip_until: first position at which one of the (non-empty) strings is a prefix, else end of input
       (all three memchr variants and skip_until_basic compute this; the translator refuses an empty string,
       for which pest's 3-string variant is inconsistent).

   STATE.  pest threads one ParserState through Ok and Err alike; so does [run] ([Ok s] / [Fail s]).
   `atomicity` and `lookahead` are restored by `atomic` / `lookahead` on the way out, so they are
   parameters ([a], [la]) rather than state; [la = true] inside any lookahead (pest's Positive/Negative only
   matters for error reporting, which is not modelled).  The token queue (Start/End pairs with indices) is
   kept as the forest it denotes: [out] is the REVERSED list of pairs produced so far at the current nesting
   level; `rule` runs its body on an empty [out] and pushes one [Node]; `queue.truncate(index)` in
   `sequence`/`rule` is resetting [out].
   Partial operations: `stack_peek` / `stack_pop` on an empty stack are `expect(..)` -> [Panic].
   The call limit (`set_call_limit`) is never set by blots-core: `inc_call_check_limit` is the identity.
   The error value (positives/negatives, attempt_pos) is not modelled: a failed parse is [Fail].

   FUEL bounds the NESTING DEPTH of calls (every sub-evaluation runs with fuel-1) and the number of
   iterations of one `repeat` loop; exhaustion is the distinct result [OutOfFuel]. *)
From Coq Require Import String Ascii List NArith Bool Arith DecimalString.
Import ListNotations.
Local Open Scope string_scope.

Inductive modifier := MNormal | MSilent | MAtomic | MCompound | MNonAtomic.
Inductive builtin := BAny | BSoi | BEoi | BPeek | BPop | BDrop.
Inductive atomicity := Atomic | CompoundAtomic | NonAtomic.

Section Syntax.
  Variable R : Type.
  Inductive expr :=
  | Str (s : string)
  | Insens (s : string)
  | Range (lo hi : ascii)
  | Ident (r : R)
  | Builtin (b : builtin)
  | PosPred (e : expr)
  | NegPred (e : expr)
  | Seq (a b : expr)
  | Choice (a b : expr)
  | Opt (e : expr)
  | Rep (e : expr)
  | SkipUntil (ss : list string)
  | Push (e : expr)
  | RestoreOnErr (e : expr).
  Record rdef := mkdef { rd_mod : modifier; rd_trivia : bool; rd_body : expr }.
  Record grammar := mkgrammar { g_def : R -> rdef; g_ws : option R; g_comment : option R }.
  (* a pest Pair: rule, byte span, inner pairs *)
  Inductive tree := Node (r : R) (s e : N) (kids : list tree).
End Syntax.
Arguments Str {R}. Arguments Insens {R}. Arguments Range {R}. Arguments Ident {R}. Arguments Builtin {R}.
Arguments PosPred {R}. Arguments NegPred {R}. Arguments Seq {R}. Arguments Choice {R}. Arguments Opt {R}.
Arguments Rep {R}. Arguments SkipUntil {R}. Arguments Push {R}. Arguments RestoreOnErr {R}.
Arguments mkdef {R}. Arguments rd_mod {R}. Arguments rd_trivia {R}. Arguments rd_body {R}.
Arguments mkgrammar {R}. Arguments g_def {R}. Arguments g_ws {R}. Arguments g_comment {R}.
Arguments Node {R}.

(* ------------------------------------------------------------------ stack.rs
   Vec ends are list heads: [cache] and [popped] are stored REVERSED (head = last element). *)
Record pstack := mkstack { cache : list string; popped : list string; lengths : list (nat * nat) }.
Definition stack_new : pstack := mkstack [] [] [].
Definition stack_peek (k : pstack) : option string :=
  match cache k with x :: _ => Some x | [] => None end.
Definition stack_push (x : string) (k : pstack) : pstack :=
  mkstack (x :: cache k) (popped k) (lengths k).
Definition stack_pop (k : pstack) : option string * pstack :=
  match cache k with
  | [] => (None, k)
  | x :: c' =>
      let len := List.length (cache k) in
      match lengths k with
      | (l, remained) :: ls =>
          if Nat.eqb len remained
          then (Some x, mkstack c' (x :: popped k) ((l, remained - 1) :: ls))
          else (Some x, mkstack c' (popped k) (lengths k))
      | [] => (Some x, mkstack c' (popped k) [])
      end
  end.
Definition stack_snapshot (k : pstack) : pstack :=
  let n := List.length (cache k) in mkstack (cache k) (popped k) ((n, n) :: lengths k).
Definition stack_clear_snapshot (k : pstack) : pstack :=
  match lengths k with
  | (len, unpopped) :: ls => mkstack (cache k) (skipn (len - unpopped) (popped k)) ls
  | [] => k
  end.
(* Vec::truncate(n) on the reversed representation *)
Definition vec_truncate {A} (n : nat) (l : list A) : list A := skipn (List.length l - n) l.
Definition stack_restore (k : pstack) : pstack :=
  match lengths k with
  | (len_stack, remained) :: ls =>
      let c1 := if Nat.ltb remained (List.length (cache k)) then vec_truncate remained (cache k) else cache k in
      if Nat.ltb remained len_stack
      then let n := len_stack - remained in
           mkstack (rev (firstn n (popped k)) ++ c1) (skipn n (popped k)) ls
      else mkstack c1 (popped k) ls
  | [] => mkstack [] (popped k) []
  end.

(* ------------------------------------------------------------------ position.rs on bytes *)
Fixpoint drop_prefix (p s : string) : option string :=
  match p with
  | EmptyString => Some s
  | String a p' =>
      match s with
      | String b s' => if Ascii.eqb a b then drop_prefix p' s' else None
      | EmptyString => None
      end
  end.
Definition lower (c : ascii) : ascii :=
  let n := N_of_ascii c in if (N.leb 65 n && N.leb n 90)%bool then ascii_of_N (n + 32) else c.
Fixpoint drop_prefix_ci (p s : string) : option string :=
  match p with
  | EmptyString => Some s
  | String a p' =>
      match s with
      | String b s' => if Ascii.eqb (lower a) (lower b) then drop_prefix_ci p' s' else None
      | EmptyString => None
      end
  end.
Definition slen (s : string) : N := N.of_nat (String.length s).
Definition in_range (lo hi c : ascii) : bool :=
  (N.leb (N_of_ascii lo) (N_of_ascii c) && N.leb (N_of_ascii c) (N_of_ascii hi))%bool.
(* UTF-8 width from the lead byte *)
Definition utf8_width (c : ascii) : nat :=
  let n := N_of_ascii c in
  if N.ltb n 192 then 1 else if N.ltb n 224 then 2 else if N.ltb n 240 then 3 else 4.
Fixpoint sdrop (n : nat) (s : string) : string :=
  match n with
  | O => s
  | S n' => match s with String _ s' => sdrop n' s' | EmptyString => EmptyString end
  end.
Fixpoint stake (n : nat) (s : string) : string :=
  match n with
  | O => EmptyString
  | S n' => match s with String c s' => String c (stake n' s') | EmptyString => EmptyString end
  end.
Fixpoint skip_until_pos (ss : list string) (p : N) (s : string) : N * string :=
  if existsb (fun x => match drop_prefix x s with Some _ => true | None => false end) ss
  then (p, s)
  else match s with
       | EmptyString => (p, s)
       | String _ s' => skip_until_pos ss (p + 1) s'
       end.

Section Run.
  Variable R : Type.
  Variable G : grammar R.

  Record st := mkst { pos : N; rest : string; stk : pstack; out : list (tree R) }.
  Inductive res := Ok (s : st) | Fail (s : st) | Panic | OutOfFuel.

  Definition init (text : string) : st := mkst 0 text stack_new [].
  Definition set_pos (s : st) (p : N) (r : string) : st := mkst p r (stk s) (out s).
  Definition set_stk (s : st) (k : pstack) : st := mkst (pos s) (rest s) k (out s).
  Definition set_out (s : st) (o : list (tree R)) : st := mkst (pos s) (rest s) (stk s) o.

  Definition match_string (x : string) (s : st) : res :=
    match drop_prefix x (rest s) with
    | Some r => Ok (set_pos s (pos s + slen x) r)
    | None => Fail s
    end.
  Definition match_insensitive (x : string) (s : st) : res :=
    match drop_prefix_ci x (rest s) with
    | Some r => Ok (set_pos s (pos s + slen x) r)
    | None => Fail s
    end.
  Definition match_range (lo hi : ascii) (s : st) : res :=
    match rest s with
    | String c r => if in_range lo hi c then Ok (set_pos s (pos s + 1) r) else Fail s
    | EmptyString => Fail s
    end.
  Definition run_builtin (b : builtin) (s : st) : res :=
    match b with
    | BAny =>
        match rest s with
        | String c _ =>
            let w := utf8_width c in
            let w' := Nat.min w (String.length (rest s)) in
            Ok (set_pos s (pos s + N.of_nat w') (sdrop w' (rest s)))
        | EmptyString => Fail s
        end
    | BSoi => if N.eqb (pos s) 0 then Ok s else Fail s
    | BEoi => match rest s with EmptyString => Ok s | _ => Fail s end
    | BPeek =>
        match stack_peek (stk s) with
        | Some x => match_string x s
        | None => Panic                       (* expect("peek was called on empty stack") *)
        end
    | BPop =>
        match stack_pop (stk s) with
        | (Some x, k) => match_string x (set_stk s k)
        | (None, _) => Panic                  (* expect("pop was called on empty stack") *)
        end
    | BDrop =>
        match stack_pop (stk s) with
        | (Some _, k) => Ok (set_stk s k)
        | (None, _) => Fail s
        end
    end.

  Definition bind (r : res) (f : st -> res) : res :=
    match r with Ok s => f s | o => o end.
  (* ParserState::sequence: on Err restore the position and truncate the queue (NOT the stack) *)
  Definition sequence (s : st) (r : res) : res :=
    match r with
    | Fail s' => Fail (mkst (pos s) (rest s) (stk s') (out s))
    | o => o
    end.
  (* ParserState::optional *)
  Definition optional (r : res) : res :=
    match r with Fail s' => Ok s' | o => o end.
  (* ParserState::repeat: call f until it fails; the loop itself never fails *)
  Fixpoint repeat_loop (n : nat) (f : st -> res) (s : st) : res :=
    match n with
    | O => OutOfFuel
    | S n' =>
        match f s with
        | Ok s' => repeat_loop n' f s'
        | Fail s' => Ok s'
        | o => o
        end
    end.
  (* ParserState::lookahead *)
  Definition lookahead (positive : bool) (f : st -> res) (s : st) : res :=
    let back (s1 : st) := mkst (pos s) (rest s) (stack_restore (stk s1)) (out s1) in
    match f (set_stk s (stack_snapshot (stk s))) with
    | Ok s1 => if positive then Ok (back s1) else Fail (back s1)
    | Fail s1 => if positive then Fail (back s1) else Ok (back s1)
    | o => o
    end.
  (* ParserState::restore_on_err *)
  Definition restore_on_err (f : st -> res) (s : st) : res :=
    match f (set_stk s (stack_snapshot (stk s))) with
    | Ok s1 => Ok (set_stk s1 (stack_clear_snapshot (stk s1)))
    | Fail s1 => Fail (set_stk s1 (stack_restore (stk s1)))
    | o => o
    end.
  (* ParserState::stack_push *)
  Definition do_push (f : st -> res) (s : st) : res :=
    match f s with
    | Ok s1 => Ok (set_stk s1 (stack_push (stake (N.to_nat (pos s1 - pos s)) (rest s)) (stk s1)))
    | o => o
    end.
  (* ParserState::rule: a pair is produced iff lookahead == None && atomicity != Atomic, where the
     atomicity is the one in force when `rule` is entered *)
  Definition emits (a : atomicity) (la : bool) : bool :=
    negb la && match a with Atomic => false | _ => true end.
  Definition rule_wrap (r : R) (a : atomicity) (la : bool) (f : st -> res) (s : st) : res :=
    if emits a la
    then match f (set_out s []) with
         | Ok s1 => Ok (set_out s1 (Node r (pos s) (pos s1) (rev (out s1)) :: out s))
         | Fail s1 => Fail (set_out s1 (out s))
         | o => o
         end
    else f s.

  Definition runner := bool -> atomicity -> bool -> expr R -> st -> res.

  (* generate_rule: what calling rule [r] does, given the evaluator for bodies *)
  Definition call_with (runf : runner) (a : atomicity) (la : bool) (r : R) (s : st) : res :=
    let d := g_def G r in
    let atomic_ty := match rd_mod d with MAtomic | MCompound => true | _ => false end in
    (* mode: generate_expr_atomic for @ / $ rules and for WHITESPACE / COMMENT, else generate_expr *)
    let m := atomic_ty || rd_trivia d in
    (* WHITESPACE / COMMENT of type normal / silent / non-atomic: body wrapped in atomic(Atomic, ..) *)
    let body (a' : atomicity) (s' : st) :=
        runf m (if rd_trivia d && negb atomic_ty then Atomic else a') la (rd_body d) s' in
    match rd_mod d with
    | MSilent => body a s
    | MNormal => rule_wrap r a la (body a) s
    | MAtomic => rule_wrap r a la (body Atomic) s                   (* rule(atomic(Atomic, body)) *)
    | MCompound => rule_wrap r CompoundAtomic la (body CompoundAtomic) s   (* atomic(Compound, rule(body)) *)
    | MNonAtomic => rule_wrap r NonAtomic la (body NonAtomic) s     (* atomic(NonAtomic, rule(body)) *)
    end.

  (* generate_skip *)
  Definition skip_with (n : nat) (call : atomicity -> bool -> R -> st -> res)
             (a : atomicity) (la : bool) (s : st) : res :=
    match a with
    | NonAtomic =>
        match g_ws G, g_comment G with
        | None, None => Ok s
        | Some w, None => repeat_loop n (call a la w) s
        | None, Some c => repeat_loop n (call a la c) s
        | Some w, Some c =>
            sequence s
              (bind (repeat_loop n (call a la w) s)
                    (repeat_loop n (fun s1 => sequence s1 (bind (call a la c s1) (repeat_loop n (call a la w))))))
        end
    | _ => Ok s
    end.

  (* generate_expr (m = false) / generate_expr_atomic (m = true) *)
  Fixpoint run (fuel : nat) (m : bool) (a : atomicity) (la : bool) (e : expr R) (s : st) {struct fuel} : res :=
    match fuel with
    | O => OutOfFuel
    | S f =>
        let call := call_with (run f) in
        let skip := skip_with f call a la in
        match e with
        | Str x => match_string x s
        | Insens x => match_insensitive x s
        | Range lo hi => match_range lo hi s
        | Builtin b => run_builtin b s
        | Ident r => call a la r s
        | SkipUntil ss =>
            let '(p, r) := skip_until_pos ss (pos s) (rest s) in Ok (set_pos s p r)
        | PosPred x => lookahead true (run f m a true x) s
        | NegPred x => lookahead false (run f m a true x) s
        | Seq x y =>
            if m then sequence s (bind (run f m a la x s) (run f m a la y))
            else sequence s (bind (bind (run f m a la x s) skip) (run f m a la y))
        | Choice x y =>
            match run f m a la x s with
            | Fail s' => run f m a la y s'
            | o => o
            end
        | Opt x => optional (run f m a la x s)
        | Rep x =>
            if m then repeat_loop f (run f m a la x) s
            else sequence s
                   (optional
                      (bind (run f m a la x s)
                            (repeat_loop f (fun s1 => sequence s1 (bind (skip s1) (run f m a la x))))))
        | Push x => do_push (run f m a la x) s
        | RestoreOnErr x => restore_on_err (run f m a la x) s
        end
    end.

  (* pest::state(input, |state| rules::r(state)): a fresh state is NonAtomic, lookahead None *)
  Definition parse (fuel : nat) (r : R) (text : string) : res :=
    call_with (run fuel) NonAtomic false r (init text).
  Definition pairs_of (r : res) : option (list (tree R)) :=
    match r with Ok s => Some (rev (out s)) | _ => None end.

  (* ---------------------------------------------------------------- printing (twin of harness s_peg.rs) *)
  Variable name : R -> string.
  Definition show_N (n : N) : string := NilEmpty.string_of_uint (N.to_uint n).
  Fixpoint show_tree (t : tree R) : string :=
    match t with
    | Node r s e kids =>
        "(" ++ name r ++ " " ++ show_N s ++ " " ++ show_N e
            ++ (fix go (l : list (tree R)) : string :=
                  match l with [] => "" | k :: l' => " " ++ show_tree k ++ go l' end) kids
            ++ ")"
    end.
  Fixpoint show_forest (l : list (tree R)) : string :=
    match l with
    | [] => ""
    | [t] => show_tree t
    | t :: l' => show_tree t ++ " " ++ show_forest l'
    end.
  Definition show_res (r : res) : string :=
    match r with
    | Ok s => "OK " ++ show_forest (rev (out s))
    | Fail _ => "ERR"
    | Panic => "PANIC"
    | OutOfFuel => "FUEL"
    end.
End Run.

Arguments Ok {R}. Arguments Fail {R}. Arguments Panic {R}. Arguments OutOfFuel {R}.
Arguments mkst {R}. Arguments pos {R}. Arguments rest {R}. Arguments stk {R}. Arguments out {R}.
Arguments init {R}. Arguments set_pos {R}. Arguments set_stk {R}. Arguments set_out {R}.
Arguments match_string {R}. Arguments match_insensitive {R}. Arguments match_range {R}.
Arguments run_builtin {R}. Arguments bind {R}. Arguments sequence {R}. Arguments optional {R}.
Arguments repeat_loop {R}. Arguments lookahead {R}. Arguments restore_on_err {R}. Arguments do_push {R}.
Arguments rule_wrap {R}. Arguments call_with {R}. Arguments skip_with {R}. Arguments run {R}.
Arguments parse {R}. Arguments pairs_of {R}. Arguments show_tree {R}. Arguments show_forest {R}.
Arguments show_res {R}.

(* fuel used by the correspondence stream: a stated function of the input length in bytes *)
Definition peg_fuel (text : string) : nat := 128 + 48 * String.length text.
