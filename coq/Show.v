(* Show.v — canonical printers, the Gallina twins of harness/src/show.rs. *)
From Coq Require Import String Ascii List ZArith Bool.
Require Import Blots.Num Blots.gen.Builtins Blots.Ast Blots.Value.
Import ListNotations.
Open Scope string_scope.

Fixpoint join (sep : string) (l : list string) : string :=
  match l with
  | [] => ""
  | [x] => x
  | x :: r => x ++ sep ++ join sep r
  end.

Definition show_arg (a : lamarg) : string :=
  match a with
  | AReq x => "r" ++ hex_of_string x
  | AOpt x => "o" ++ hex_of_string x
  | ARest x => "s" ++ hex_of_string x
  end.

Section ShowValue.
  (* current display names of lambda cells (None when not shown) *)
  Variable name_of : option (lam_id -> option string).

  Fixpoint show_value (v : value) : string :=
    match v with
    | VNum x => "N" ++ show_num x
    | VBool true => "T"
    | VBool false => "F"
    | VNull => "U"
    | VStr s => "S" ++ hex_of_string s ++ ";"
    | VList l => "L[" ++ join "," (map show_value l) ++ "]"
    | VRec r =>
        "R{" ++ join "," (map (fun kv => hex_of_string (fst kv) ++ ":" ++ show_value (snd kv)) r) ++ "}"
    | VLam id args _ _ =>
        "FN(" ++ join "," (map show_arg args) ++ ")" ++
        match name_of with
        | None => ""
        | Some f => "@" ++ match f id with Some n => hex_of_string n | None => "-" end
        end
    | VBuiltin b => "B" ++ builtin_name b ++ ";"
    | VSpread x => "X" ++ show_value x
    end.
End ShowValue.

Definition show_bool (b : bool) : string := if b then "T" else "F".
Definition show_obool (o : option bool) : string :=
  match o with Some b => show_bool b | None => "E" end.
Definition show_cmp (o : option comparison) : string :=
  match o with Some Lt => "<" | Some Eq => "=" | Some Gt => ">" | None => "?" end.
