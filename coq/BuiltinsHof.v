(* BuiltinsHof.v — the callback-taking built-ins map / filter / reduce / every / some
   (functions.rs:1282-1480) and a few simple ones, transcribed.  Definitions only.
   `args[i]` is a partial operation: [arg i] yields Panic when i is past the end (so that
   "the arity check protects every index" is a theorem, not an assumption).
   The callbacks are invoked with the function value itself as this_value (repo fix 2f...: before
   it they received Value::Null, which broke named recursive callbacks; known/C13.json F22). *)
From Coq Require Import String List ZArith Bool.
Require Import Blots.Num Blots.gen.Builtins Blots.Ast Blots.Value Blots.Outcome Blots.Binop Blots.Env
               Blots.Eval.
Import ListNotations.
Open Scope string_scope.
Open Scope list_scope.

Definition arg (args : list value) (i : nat) : outcome value :=
  match nth_error args i with Some v => Ok v | None => Panic end.
Definition as_list (v : value) : outcome (list value) :=
  match v with VList l => Ok l | _ => Err end.
(* get_function_def(func).ok_or("second argument must be a function") *)
Definition as_function (v : value) : outcome value :=
  if is_function v then Ok v else Err.

Definition idx_num (i : nat) : value := VNum (num_of_Z (Z.of_nat i)).   (* idx as f64 *)

Section Hof.
  Variable call : callback.

  (* the element-wise argument vector: (item) or (item, index) *)
  Definition cb_args (two : bool) (item : value) (i : nat) : list value :=
    if two then [item; idx_num i] else [item].

  Fixpoint map_loop (f : value) (two : bool) (l : list value) (i : nat) (st : store)
    : outcome (list value) * store :=
    match l with
    | [] => (Ok [], st)
    | x :: r =>
        match call f f (cb_args two x i) st with
        | (Ok y, st1) =>
            match map_loop f two r (S i) st1 with
            | (Ok ys, st2) => (Ok (y :: ys), st2)
            | (o, st2) => (o, st2)
            end
        | (o, st1) => (cast_fail o, st1)
        end
    end.

  Fixpoint filter_loop (f : value) (two : bool) (l : list value) (i : nat) (st : store)
    : outcome (list value) * store :=
    match l with
    | [] => (Ok [], st)
    | x :: r =>
        match call f f (cb_args two x i) st with
        | (Ok y, st1) =>
            match as_bool y with
            | Ok keep =>
                match filter_loop f two r (S i) st1 with
                | (Ok ys, st2) => (Ok (if keep then x :: ys else ys), st2)
                | (o, st2) => (o, st2)
                end
            | o => (cast_fail o, st1)
            end
        | (o, st1) => (cast_fail o, st1)
        end
    end.

  Fixpoint reduce_loop (f : value) (three : bool) (l : list value) (i : nat) (acc : value)
           (st : store) : outcome value * store :=
    match l with
    | [] => (Ok acc, st)
    | x :: r =>
        match call f f (if three then [acc; x; idx_num i] else [acc; x]) st with
        | (Ok acc', st1) => reduce_loop f three r (S i) acc' st1
        | (o, st1) => (o, st1)
        end
    end.

  (* every: stops at the first false; some: stops at the first true *)
  Fixpoint every_loop (f : value) (two : bool) (l : list value) (i : nat) (st : store)
    : outcome value * store :=
    match l with
    | [] => (Ok (VBool true), st)
    | x :: r =>
        match call f f (cb_args two x i) st with
        | (Ok y, st1) =>
            match as_bool y with
            | Ok true => every_loop f two r (S i) st1
            | Ok false => (Ok (VBool false), st1)
            | o => (cast_fail o, st1)
            end
        | (o, st1) => (o, st1)
        end
    end.
  Fixpoint some_loop (f : value) (two : bool) (l : list value) (i : nat) (st : store)
    : outcome value * store :=
    match l with
    | [] => (Ok (VBool false), st)
    | x :: r =>
        match call f f (cb_args two x i) st with
        | (Ok y, st1) =>
            match as_bool y with
            | Ok true => (Ok (VBool true), st1)
            | Ok false => some_loop f two r (S i) st1
            | o => (cast_fail o, st1)
            end
        | (o, st1) => (o, st1)
        end
    end.

  (* `let func = &args[1]; let list_ptr = args[0].as_list_pointer()?; get_function_def(..)?` *)
  Definition hof_prelude (args : list value) : outcome (value * list value) :=
    do f <- arg args 1; do l0 <- arg args 0; do l <- as_list l0; do f' <- as_function f;
    Ok (f', l).

  Definition bi_map (args : list value) (st : store) : outcome value * store :=
    match hof_prelude args with
    | Ok (f, l) => let '(r, st') := map_loop f (accepts f 2) l 0 st in (omap VList r, st')
    | o => (cast_fail o, st)
    end.
  Definition bi_filter (args : list value) (st : store) : outcome value * store :=
    match hof_prelude args with
    | Ok (f, l) => let '(r, st') := filter_loop f (accepts f 2) l 0 st in (omap VList r, st')
    | o => (cast_fail o, st)
    end.
  Definition bi_reduce (args : list value) (st : store) : outcome value * store :=
    match (do f <- arg args 1; do init <- arg args 2; do l0 <- arg args 0; do l <- as_list l0;
           do f' <- as_function f; Ok (f', init, l)) with
    | Ok (f, init, l) => reduce_loop f (accepts f 3) l 0 init st
    | o => (cast_fail o, st)
    end.
  Definition bi_every (args : list value) (st : store) : outcome value * store :=
    match hof_prelude args with
    | Ok (f, l) => every_loop f (accepts f 2) l 0 st
    | o => (cast_fail o, st)
    end.
  Definition bi_some (args : list value) (st : store) : outcome value * store :=
    match hof_prelude args with
    | Ok (f, l) => some_loop f (accepts f 2) l 0 st
    | o => (cast_fail o, st)
    end.
End Hof.

(* ---- simple built-ins without callbacks ---- *)
Definition num1 (f : num -> num) (args : list value) : outcome value :=
  do a <- arg args 0; do x <- as_number a; Ok (VNum (f x)).
Definition bi_abs := num1 nabs.
Definition bi_floor := num1 nfloor.
Definition bi_ceil := num1 nceil.
Definition bi_trunc := num1 ntrunc.
Definition bi_sqrt := num1 nsqrt.      (* IEEE sqrt is correctly rounded: exact in the model *)
Definition bi_typeof (args : list value) : outcome value :=
  do a <- arg args 0; Ok (VStr (type_name (type_of a))).
Definition bi_arity (args : list value) : outcome value :=
  do a <- arg args 0;
  match fn_arity a with
  | Some (AExact n) | Some (AAtLeast n) | Some (ABetween n _) => Ok (idx_num n)
  | None => Err
  end.
Definition bi_to_bool (args : list value) : outcome value :=
  do a <- arg args 0;
  match a with
  | VBool _ => Ok a
  | VNum x => Ok (VBool (negb (neqb x nzero)))
  | _ => Err
  end.
Definition cmp2 (f : value -> value -> bool) (args : list value) : outcome value :=
  do a <- arg args 0; do b <- arg args 1; Ok (VBool (f a b)).
Definition bi_ugt := cmp2 ugt.
Definition bi_ult := cmp2 ult.
Definition bi_ugte := cmp2 ugte.
Definition bi_ulte := cmp2 ulte.
(* any / all : `as_bool().unwrap_or(false)` *)
Definition boolish (v : value) : bool := match v with VBool b => b | _ => false end.
Definition bi_any (args : list value) : outcome value :=
  do a <- arg args 0; do l <- as_list a; Ok (VBool (existsb boolish l)).
Definition bi_all (args : list value) : outcome value :=
  do a <- arg args 0; do l <- as_list a; Ok (VBool (forallb boolish l)).
