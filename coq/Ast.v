(* Ast.v — mirror of blots-core/src/ast.rs::Expr, constructor for constructor.
   Spans are not part of the model (they do not influence values; error locations are
   observed on the implementation only).  Comment attachment (Commented<T>) is kept. *)
From Coq Require Import String List ZArith Bool.
Require Import Blots.Num Blots.gen.Builtins.
Import ListNotations.

Inductive binop :=
| Add | Subtract | Multiply | Divide | Modulo | Power
| Equal | NotEqual | Less | LessEq | Greater | GreaterEq
| DotEqual | DotNotEqual | DotLess | DotLessEq | DotGreater | DotGreaterEq
| And | NaturalAnd | Or | NaturalOr
| Via | Into | Where | Coalesce.

Inductive unop := Negate | Not | Invert.

Inductive lamarg := AReq (x : string) | AOpt (x : string) | ARest (x : string).

Inductive commented (A : Type) := Cm (leading : list string) (node : A) (trailing : option string).
Arguments Cm {A}.
Definition cnode {A} (c : commented A) : A := match c with Cm _ n _ => n end.
Definition cleading {A} (c : commented A) := match c with Cm l _ _ => l end.
Definition ctrailing {A} (c : commented A) := match c with Cm _ _ t => t end.

Inductive expr :=
| ENum (x : num)
| EStr (s : string)
| EBool (b : bool)
| ENull
| EId (x : string)
| EInRef (x : string)
| EBuiltin (b : builtin)
| EList (items : list (commented expr))
| ERec (entries : list (commented rentry))
| ELam (args : list lamarg) (body : expr)
| ECond (c t e : expr)
| EDo (stmts : list (commented expr)) (ret : commented expr)
| EAssign (x : string) (v : expr)
| EOutput (e : expr)
| ECall (f : expr) (args : list expr)
| EAccess (e i : expr)
| EDot (e : expr) (field : string)
| EBin (op : binop) (l r : expr)
| EUn (op : unop) (e : expr)
| EFact (e : expr)
| ESpread (e : expr)
with rentry := REntry (k : rkey) (v : expr)
with rkey := KStatic (s : string) | KDyn (e : expr) | KShort (s : string) | KSpread (e : expr).

Definition nb (z : Z) : num := num_of_bits z.
Arguments nb _%Z.

Definition arg_name (a : lamarg) : string :=
  match a with AReq x | AOpt x | ARest x => x end.
Definition arg_is_req (a : lamarg) := match a with AReq _ => true | _ => false end.
Definition arg_is_rest (a : lamarg) := match a with ARest _ => true | _ => false end.

Definition binop_eqb (a b : binop) : bool :=
  match a, b with
  | Add, Add | Subtract, Subtract | Multiply, Multiply | Divide, Divide | Modulo, Modulo
  | Power, Power | Equal, Equal | NotEqual, NotEqual | Less, Less | LessEq, LessEq
  | Greater, Greater | GreaterEq, GreaterEq | DotEqual, DotEqual | DotNotEqual, DotNotEqual
  | DotLess, DotLess | DotLessEq, DotLessEq | DotGreater, DotGreater
  | DotGreaterEq, DotGreaterEq | And, And | NaturalAnd, NaturalAnd | Or, Or
  | NaturalOr, NaturalOr | Via, Via | Into, Into | Where, Where | Coalesce, Coalesce => true
  | _, _ => false
  end.
Definition unop_eqb (a b : unop) : bool :=
  match a, b with Negate, Negate | Not, Not | Invert, Invert => true | _, _ => false end.
Definition lamarg_eqb (a b : lamarg) : bool :=
  match a, b with
  | AReq x, AReq y | AOpt x, AOpt y | ARest x, ARest y => String.eqb x y
  | _, _ => false
  end.

Fixpoint list_eqb {A} (f : A -> A -> bool) (l m : list A) : bool :=
  match l, m with
  | [], [] => true
  | x :: l', y :: m' => f x y && list_eqb f l' m'
  | _, _ => false
  end.
Definition option_eqb {A} (f : A -> A -> bool) (a b : option A) : bool :=
  match a, b with None, None => true | Some x, Some y => f x y | _, _ => false end.

(* Rust: derived PartialEq on Expr with Spanned's span-blind eq; f64 == on literals;
   Commented compares leading/trailing too. *)
Fixpoint expr_eqb (a b : expr) {struct a} : bool :=
  let ceqb := fun (x y : commented expr) =>
    match x, y with Cm l1 n1 t1, Cm l2 n2 t2 =>
      list_eqb String.eqb l1 l2 && expr_eqb n1 n2 && option_eqb String.eqb t1 t2 end in
  match a, b with
  | ENum x, ENum y => neqb x y
  | EStr x, EStr y => String.eqb x y
  | EBool x, EBool y => Bool.eqb x y
  | ENull, ENull => true
  | EId x, EId y => String.eqb x y
  | EInRef x, EInRef y => String.eqb x y
  | EBuiltin x, EBuiltin y => builtin_eqb x y
  | EList l, EList m =>
      (fix go (l m : list (commented expr)) : bool :=
         match l, m with
         | [], [] => true
         | Cm l1 n1 t1 :: l', Cm l2 n2 t2 :: m' =>
             list_eqb String.eqb l1 l2 && expr_eqb n1 n2 && option_eqb String.eqb t1 t2 && go l' m'
         | _, _ => false
         end) l m
  | ERec l, ERec m =>
      (fix go (l m : list (commented rentry)) : bool :=
         match l, m with
         | [], [] => true
         | Cm l1 (REntry k1 v1) t1 :: l', Cm l2 (REntry k2 v2) t2 :: m' =>
             list_eqb String.eqb l1 l2 &&
             (match k1, k2 with
              | KStatic x, KStatic y => String.eqb x y
              | KDyn x, KDyn y => expr_eqb x y
              | KShort x, KShort y => String.eqb x y
              | KSpread x, KSpread y => expr_eqb x y
              | _, _ => false
              end) && expr_eqb v1 v2 && option_eqb String.eqb t1 t2 && go l' m'
         | _, _ => false
         end) l m
  | ELam a1 b1, ELam a2 b2 => list_eqb lamarg_eqb a1 a2 && expr_eqb b1 b2
  | ECond c1 t1 e1, ECond c2 t2 e2 => expr_eqb c1 c2 && expr_eqb t1 t2 && expr_eqb e1 e2
  | EDo s1 (Cm rl1 r1 rt1), EDo s2 (Cm rl2 r2 rt2) =>
      (fix go (l m : list (commented expr)) : bool :=
         match l, m with
         | [], [] => true
         | Cm l1 n1 t1 :: l', Cm l2 n2 t2 :: m' =>
             list_eqb String.eqb l1 l2 && expr_eqb n1 n2 && option_eqb String.eqb t1 t2 && go l' m'
         | _, _ => false
         end) s1 s2
      && list_eqb String.eqb rl1 rl2 && expr_eqb r1 r2 && option_eqb String.eqb rt1 rt2
  | EAssign x v, EAssign y w => String.eqb x y && expr_eqb v w
  | EOutput x, EOutput y => expr_eqb x y
  | ECall f1 a1, ECall f2 a2 =>
      expr_eqb f1 f2 &&
      (fix go (l m : list expr) : bool :=
         match l, m with
         | [], [] => true
         | x :: l', y :: m' => expr_eqb x y && go l' m'
         | _, _ => false
         end) a1 a2
  | EAccess e1 i1, EAccess e2 i2 => expr_eqb e1 e2 && expr_eqb i1 i2
  | EDot e1 f1, EDot e2 f2 => expr_eqb e1 e2 && String.eqb f1 f2
  | EBin o1 l1 r1, EBin o2 l2 r2 => binop_eqb o1 o2 && expr_eqb l1 l2 && expr_eqb r1 r2
  | EUn o1 e1, EUn o2 e2 => unop_eqb o1 o2 && expr_eqb e1 e2
  | EFact e1, EFact e2 => expr_eqb e1 e2
  | ESpread e1, ESpread e2 => expr_eqb e1 e2
  | _, _ => false
  end.
