(* Json.v — the JSON boundary of blots: serde_json::Value as a structural tree, and
   SerializableValue::{from_json, to_json, from_value, to_value} transcribed from
   blots-core/src/values.rs:546-780, plus blots/src/main.rs::{parse_json_inputs, write_outputs}.
   Definitions only (proofs: proofs/JsonRT.v).

   What is library code and how it is represented here
   * serde_json::Number (features: default,std — no arbitrary_precision): N::PosInt(u64) |
     N::NegInt(i64) | N::Float(finite f64)                         -> [jnumber]
   * serde_json::Map<String, Value> (feature preserve_order is OFF, checked on every run by the
     C06 check): a BTreeMap, i.e. iteration in byte-wise key order, insert replaces the value of
     an existing key                                               -> [bmap_insert / bmap_collect]
   * indexmap::IndexMap: insertion order, insert replaces in place -> [rec_insert / imap_collect]
   * the parser (get_pairs + pairs_to_expr) and the source printer (expr_to_source etc.) used by the
     function arms are Section variables (they are the subject of C05/C10, not of C06).      *)
From Coq Require Import String Ascii List ZArith Bool.
Require Import Blots.Num Blots.gen.Builtins Blots.Ast Blots.Value Blots.Outcome.
Import ListNotations.
Open Scope string_scope.

(* ------------------------------------------------------------------ serde_json::Value *)
Inductive jnumber :=
| JPosInt (n : Z)        (* N::PosInt(u64) *)
| JNegInt (n : Z)        (* N::NegInt(i64), always negative *)
| JFloat (x : num).      (* N::Float(f64), always finite *)

Inductive json :=
| JNull
| JBool (b : bool)
| JNum (n : jnumber)
| JStr (s : string)
| JArr (l : list json)
| JObj (m : list (string * json)).
(* A [json] is used at two levels: as a *document* (what the text says: members in text order,
   duplicate keys possible) and as a serde_json::Value (members strictly sorted by key).
   [sj_build] below is serde_json's map visitor that turns the former into the latter. *)

(* Number::as_f64 : `n as f64` rounds to nearest even for |n| > 2^53 *)
Definition jnum_as_f64 (n : jnumber) : num :=
  match n with
  | JPosInt z => num_of_Z z
  | JNegInt z => num_of_Z z
  | JFloat x => x
  end.

(* Number::from_f64(n).unwrap_or_else(|| Number::from(0)) *)
Definition jnum_of_f64 (x : num) : jnumber :=
  if is_finite x then JFloat x else JPosInt 0.

(* ------------------------------------------------------------------ the two map types *)
(* BTreeMap<String,_>::insert on the sorted association list (String: Ord is byte-wise) *)
Fixpoint bmap_insert {A} (m : list (string * A)) (k : string) (v : A) : list (string * A) :=
  match m with
  | [] => [(k, v)]
  | (k', v') :: m' =>
      match string_cmp k k' with
      | Lt => (k, v) :: m
      | Eq => (k', v) :: m'
      | Gt => (k', v') :: bmap_insert m' k v
      end
  end.
(* FromIterator / the deserializer's visit_map: insert one after the other *)
Definition bmap_collect {A} (l : list (string * A)) : list (string * A) :=
  fold_left (fun acc kv => bmap_insert acc (fst kv) (snd kv)) l [].
(* IndexMap: FromIterator *)
Definition imap_collect {A} (l : list (string * A)) : list (string * A) :=
  fold_left (fun acc kv => rec_insert acc (fst kv) (snd kv)) l [].
(* Map::get *)
Definition bmap_get {A} (m : list (string * A)) (k : string) : option A := rec_get m k.

(* serde_json's Deserialize for Value (visit_seq / visit_map), on an already tokenised document *)
Fixpoint sj_build (d : json) : json :=
  match d with
  | JArr l => JArr (map sj_build l)
  | JObj m => JObj (bmap_collect (map (fun kv => let '(k, v) := kv in (k, sj_build v)) m))
  | _ => d
  end.

(* ------------------------------------------------------------------ SerializableValue *)
Inductive svalue :=
| SNum (x : num)
| SBool (b : bool)
| SNull
| SList (l : list svalue)
| SStr (s : string)
| SRec (r : list (string * svalue))
| SLam (name : option string) (args : list lamarg) (body : string)
       (scope : option (list (string * svalue)))
| SBuiltin (name : string).

Definition FN_KEY : string := "__blots_function".

Fixpoint sjoin (sep : string) (l : list string) : string :=
  match l with
  | [] => ""
  | [x] => x
  | x :: r => x ++ sep ++ sjoin sep r
  end.

(* to_json, Lambda arm: "(a, b?, ...c) => body" *)
Definition arg_source (a : lamarg) : string :=
  match a with
  | AReq n => n
  | AOpt n => n ++ "?"
  | ARest n => "..." ++ n
  end.
Definition lambda_source (args : list lamarg) (body : string) : string :=
  "(" ++ sjoin ", " (map arg_source args) ++ ") => " ++ body.

Section Boundary.
  (* SerializableValue::parse_function_source: Some (args, expr_to_source body) when the text
     parses as one lambda expression *)
  Variable parse_function_source : string -> option (list lamarg * string).
  (* to_value, Lambda arm: pairs_to_expr(get_pairs(body)?.next().unwrap().into_inner())? *)
  Variable parse_body : string -> outcome expr.
  (* from_value, Lambda arm: expr_to_source_with_scope, and the lambda cell's current name *)
  Variable emit_body : expr -> list (string * svalue) -> string.
  Variable name_of : lam_id -> option string.

  (* BuiltInFunction::from_ident is the inverse of name() on the generated table (the dump
     records from_ident(name(b)) == Some(b) for every b; the FN stream probes other strings) *)
  Definition from_ident (s : string) : option builtin := builtin_of_name s.

  (* values.rs:548-582 *)
  Fixpoint from_json (j : json) : svalue :=
    match j with
    | JNum n => SNum (jnum_as_f64 n)
    | JBool b => SBool b
    | JNull => SNull
    | JStr s => SStr s
    | JArr arr => SList (map from_json arr)
    | JObj obj =>
        let regular :=
          SRec (imap_collect (map (fun kv => let '(k, v) := kv in (k, from_json v)) obj)) in
        match bmap_get obj FN_KEY with
        | Some (JStr func_str) =>
            match from_ident func_str with
            | Some _ => SBuiltin func_str
            | None =>
                match parse_function_source func_str with
                | Some (args, body) => SLam None args body None
                | None => regular
                end
            end
        | _ => regular
        end
    end.

  (* values.rs:619-671 *)
  Fixpoint to_json (s : svalue) : json :=
    match s with
    | SNum n => JNum (jnum_of_f64 n)
    | SBool b => JBool b
    | SNull => JNull
    | SStr s => JStr s
    | SList items => JArr (map to_json items)
    | SRec fields =>
        JObj (bmap_collect (map (fun kv => let '(k, v) := kv in (k, to_json v)) fields))
    | SLam _ args body _ => JObj (bmap_insert [] FN_KEY (JStr (lambda_source args body)))
    | SBuiltin name => JObj (bmap_insert [] FN_KEY (JStr name))
    end.

  (* values.rs:673-722.  The reify errors ("dangling pointer") cannot occur on trees. *)
  Fixpoint from_value (v : value) : outcome svalue :=
    match v with
    | VNum n => Ok (SNum n)
    | VBool b => Ok (SBool b)
    | VNull => Ok SNull
    | VList l =>
        do sl <- (fix go (l : list value) : outcome (list svalue) :=
                    match l with
                    | [] => Ok []
                    | x :: r => do y <- from_value x; do ys <- go r; Ok (y :: ys)
                    end) l;
        Ok (SList sl)
    | VStr s => Ok (SStr s)
    | VRec r =>
        do sr <- (fix go (r : list (string * value)) : outcome (list (string * svalue)) :=
                    match r with
                    | [] => Ok []
                    | (k, x) :: r' => do y <- from_value x; do ys <- go r'; Ok ((k, y) :: ys)
                    end) r;
        Ok (SRec (imap_collect sr))
    | VLam id args body scope =>
        do sc <- (fix go (r : list (string * value)) : outcome (list (string * svalue)) :=
                    match r with
                    | [] => Ok []
                    | (k, x) :: r' => do y <- from_value x; do ys <- go r'; Ok ((k, y) :: ys)
                    end) scope;
        let sscope := imap_collect sc in
        Ok (SLam (name_of id) args (emit_body body sscope) (Some sscope))
    | VBuiltin b => Ok (SBuiltin (builtin_name b))
    | VSpread _ => Err
    end.

  (* values.rs:724-780.  Heap cells are fresh; a tree has no cell identity, lambda ids are 0
     (Value.equals and the printers used here never look at them). *)
  Fixpoint to_value (s : svalue) : outcome value :=
    match s with
    | SNum n => Ok (VNum n)
    | SBool b => Ok (VBool b)
    | SNull => Ok VNull
    | SList l =>
        do vl <- (fix go (l : list svalue) : outcome (list value) :=
                    match l with
                    | [] => Ok []
                    | x :: r => do y <- to_value x; do ys <- go r; Ok (y :: ys)
                    end) l;
        Ok (VList vl)
    | SStr s => Ok (VStr s)
    | SRec r =>
        do vr <- (fix go (r : list (string * svalue)) : outcome (list (string * value)) :=
                    match r with
                    | [] => Ok []
                    | (k, x) :: r' => do y <- to_value x; do ys <- go r'; Ok ((k, y) :: ys)
                    end) r;
        Ok (VRec (imap_collect vr))
    | SLam name args body scope =>
        do sc <- match scope with
                 | Some r =>
                     (fix go (r : list (string * svalue)) : outcome (list (string * value)) :=
                        match r with
                        | [] => Ok []
                        | (k, x) :: r' => do y <- to_value x; do ys <- go r'; Ok ((k, y) :: ys)
                        end) r
                 | None => Ok []
                 end;
        do body_ast <- parse_body body;
        Ok (VLam O args body_ast (imap_collect sc))
    | SBuiltin ident =>
        match from_ident ident with
        | Some b => Ok (VBuiltin b)
        | None => Err
        end
    end.

  (* ---------------------------------------------------------------- the CLI around them *)
  Fixpoint dec_digits (fuel : nat) (z : Z) (acc : string) : string :=
    match fuel with
    | O => acc
    | S f =>
        let acc' := String (ascii_of_nat (Z.to_nat (48 + z mod 10))) acc in
        if z / 10 =? 0 then acc' else dec_digits f (z / 10) acc'
    end%Z.
  Definition dec_of_Z (z : Z) : string := dec_digits 40 z "".

  (* main.rs:32-64 on the parsed serde_json::Value.  `if let Ok(val)`: a failing member is
     dropped silently.  Returns the inputs map and the new unnamed counter. *)
  Definition parse_json_inputs (json_value : json) (unnamed_counter : Z)
    : outcome (list (string * value)) * Z :=
    match json_value with
    | JObj obj =>
        (fold_left
           (fun acc kv =>
              do m <- acc;
              match to_value (from_json (snd kv)) with
              | Ok val => Ok (rec_insert m (fst kv) val)
              | Panic => Panic
              | _ => Ok m
              end) obj (Ok []), unnamed_counter)
    | _ =>
        match to_value (from_json json_value) with
        | Ok val => (Ok [("value_" ++ dec_of_Z (unnamed_counter + 1), val)], unnamed_counter + 1)%Z
        | Panic => (Panic, unnamed_counter)
        | _ => (Ok [], unnamed_counter)
        end
    end.

  (* main.rs:67-73: the outputs object as a document: top level in insertion order (IndexMap
     serialises in order), every member through to_json *)
  Definition write_outputs (outputs : list (string * svalue)) : json :=
    JObj (map (fun kv => (fst kv, to_json (snd kv))) outputs).

  (* `blots -i <doc> 'output <name> = inputs.<key>'` — the echo program of property C06:
     the document is deserialised (sj_build), turned into the inputs record, the member is
     looked up (record access; a missing key reads as null), validated as portable (always true
     for data), serialised and written. *)
  Definition cli_echo (doc : json) (key name : string) : outcome json :=
    do inputs <- fst (parse_json_inputs (sj_build doc) 0);
    match rec_get inputs key with
    | Some v => do s <- from_value v; Ok (write_outputs [(name, s)])
    | None => Ok (write_outputs [(name, SNull)])
    end.

  (* the other direction: a program outputs value v under [name]; the printed document is fed
     back as the inputs of a second run, which reads inputs.<name> *)
  Definition cli_out_in (v : value) (name : string) : outcome value :=
    do s <- from_value v;
    do inputs <- fst (parse_json_inputs (sj_build (write_outputs [(name, s)])) 0);
    match rec_get inputs name with
    | Some v' => Ok v'
    | None => Ok VNull
    end.
End Boundary.

(* ------------------------------------------------------------------ data, reserved form *)
(* the values property C06 speaks about: finite numbers, strings, booleans, null, lists and
   records (IndexMap invariant: unique keys), at any depth *)
Fixpoint json_data (v : value) : bool :=
  match v with
  | VNum x => is_finite x
  | VBool _ | VNull | VStr _ => true
  | VList l => forallb json_data l
  | VRec r =>
      (fix nd (r : list (string * value)) : bool :=
         match r with
         | [] => true
         | (k, _) :: r' => match rec_get r' k with Some _ => false | None => nd r' end
         end) r
      && forallb (fun kv => json_data (snd kv)) r
  | _ => false
  end.

Section Reserved.
  Variable parse_function_source : string -> option (list lamarg * string).
  (* the string denotes a function for from_json *)
  Definition is_function_source (s : string) : bool :=
    match builtin_of_name s with
    | Some _ => true
    | None => match parse_function_source s with Some _ => true | None => false end
    end.
  (* an object that from_json reads as a function: it has a member "__blots_function" whose
     value is a string naming a built-in or parsing as a lambda *)
  Definition reserved_obj {A} (get_str : A -> option string) (m : list (string * A)) : bool :=
    match rec_get m FN_KEY with
    | Some x => match get_str x with Some s => is_function_source s | None => false end
    | None => false
    end.
  Definition jstr_of (j : json) : option string := match j with JStr s => Some s | _ => None end.
  Definition vstr_of (v : value) : option string := match v with VStr s => Some s | _ => None end.

  (* no reserved object anywhere in a serde_json::Value (for a document d: applied to
     [sj_build d], i.e. after the duplicate-key resolution) *)
  Fixpoint json_no_reserved (j : json) : bool :=
    match j with
    | JArr l => forallb json_no_reserved l
    | JObj m =>
        negb (reserved_obj jstr_of m) && forallb (fun kv => json_no_reserved (snd kv)) m
    | _ => true
    end.
  (* ... in a value *)
  Fixpoint value_no_reserved (v : value) : bool :=
    match v with
    | VList l => forallb value_no_reserved l
    | VRec r => negb (reserved_obj vstr_of r) && forallb (fun kv => value_no_reserved (snd kv)) r
    | _ => true
    end.
End Reserved.

(* ------------------------------------------------------------------ JSON value equality *)
(* canonical form of a document for "JSON value equality with numbers compared as doubles":
   members sorted by key with the last duplicate winning, every number as its double *)
Fixpoint jcanon (j : json) : json :=
  match j with
  | JNum n => JNum (JFloat (jnum_as_f64 n))
  | JArr l => JArr (map jcanon l)
  | JObj m => JObj (bmap_collect (map (fun kv => let '(k, v) := kv in (k, jcanon v)) m))
  | _ => j
  end.
Definition json_equiv (a b : json) : Prop := jcanon a = jcanon b.

(* serde_json's invariant on numbers that the echo direction needs: the double of every number
   is finite.  True for every serde_json::Number: N::Float is finite by construction
   (from_f64 / the parser reject non-finite), u64/i64 `as f64` is at most 2^64.  Kept as a
   decidable predicate (the general u64 fact is not proved here; see notes/C06.md). *)
Definition jnum_ok (n : jnumber) : bool := is_finite (jnum_as_f64 n).
Fixpoint json_nums_ok (j : json) : bool :=
  match j with
  | JNum n => jnum_ok n
  | JArr l => forallb json_nums_ok l
  | JObj m => forallb (fun kv => json_nums_ok (snd kv)) m
  | _ => true
  end.

(* an independent, relational reading of "JSON value equality with numbers compared as
   doubles": objects are compared as finite maps (the LAST binding of a key is the one that
   counts, key order is irrelevant), arrays position by position *)
Fixpoint jlookup (m : list (string * json)) (k : string) : option json :=
  match m with
  | [] => None
  | (k', v) :: r => match jlookup r k with Some x => Some x | None => if String.eqb k k' then Some v else None end
  end.

(* records sorted by key at every depth: what a value looks like after the round trip *)
Fixpoint vsort (v : value) : value :=
  match v with
  | VList l => VList (map vsort l)
  | VRec r => VRec (bmap_collect (map (fun kv => let '(k, x) := kv in (k, vsort x)) r))
  | _ => v
  end.
Fixpoint ssort (s : svalue) : svalue :=
  match s with
  | SList l => SList (map ssort l)
  | SRec r => SRec (bmap_collect (map (fun kv => let '(k, x) := kv in (k, ssort x)) r))
  | _ => s
  end.

(* bit-exact / byte-exact agreement of two data values, records as maps (order ignored).
   Stronger than Value.equals, which identifies -0 and +0. *)
Fixpoint same_data (a b : value) {struct a} : bool :=
  match a, b with
  | VNum x, VNum y => Z.eqb (bits_of_num x) (bits_of_num y)
  | VBool x, VBool y => Bool.eqb x y
  | VNull, VNull => true
  | VStr x, VStr y => String.eqb x y
  | VList l, VList m =>
      (fix go (l m : list value) {struct l} : bool :=
         match l, m with
         | [], [] => true
         | x :: l', y :: m' => same_data x y && go l' m'
         | _, _ => false
         end) l m
  | VRec r, VRec s =>
      Nat.eqb (length r) (length s) &&
      (fix go (r : list (string * value)) {struct r} : bool :=
         match r with
         | [] => true
         | (k, x) :: r' =>
             match rec_get s k with
             | Some y => same_data x y && go r'
             | None => false
             end
         end) r
  | _, _ => false
  end.

(* ------------------------------------------------------------------ canonical printers *)
(* twins of harness/src/s_c06.rs::{show_json, show_sv}.  Integers as 16 hex digits
   (two's complement for NegInt). *)
Fixpoint jjoin (l : list string) : string :=
  match l with
  | [] => ""
  | [x] => x
  | x :: r => x ++ "," ++ jjoin r
  end.
Fixpoint show_json (j : json) : string :=
  match j with
  | JNull => "z"
  | JBool true => "t"
  | JBool false => "f"
  | JNum (JPosInt n) => "u" ++ hex16 n
  | JNum (JNegInt n) => "i" ++ hex16 (n + 2 ^ 64)
  | JNum (JFloat x) => "d" ++ show_num x
  | JStr s => "s" ++ hex_of_string s ++ ";"
  | JArr l => "a[" ++ jjoin (map show_json l) ++ "]"
  | JObj m =>
      "o{" ++ jjoin (map (fun kv => let '(k, v) := kv in hex_of_string k ++ ":" ++ show_json v) m)
           ++ "}"
  end.
Definition show_arg' (a : lamarg) : string :=
  match a with
  | AReq x => "r" ++ hex_of_string x
  | AOpt x => "o" ++ hex_of_string x
  | ARest x => "s" ++ hex_of_string x
  end.
Fixpoint show_sv (s : svalue) : string :=
  match s with
  | SNum x => "N" ++ show_num x
  | SBool true => "T"
  | SBool false => "F"
  | SNull => "U"
  | SStr s => "S" ++ hex_of_string s ++ ";"
  | SList l => "L[" ++ jjoin (map show_sv l) ++ "]"
  | SRec r =>
      "R{" ++ jjoin (map (fun kv => let '(k, v) := kv in hex_of_string k ++ ":" ++ show_sv v) r)
           ++ "}"
  | SLam name args body scope =>
      "FN(" ++ jjoin (map show_arg' args) ++ ")"
      ++ match name with Some n => hex_of_string n | None => "-" end
      ++ ":" ++ hex_of_string body ++ ":"
      ++ match scope with
         | None => "-"
         | Some r =>
             "{" ++ jjoin (map (fun kv => let '(k, v) := kv in hex_of_string k ++ ":" ++ show_sv v) r)
                 ++ "}"
         end
  | SBuiltin n => "B" ++ hex_of_string n ++ ";"
  end.
Definition show_out {A} (f : A -> string) (o : outcome A) : string :=
  match o with
  | Ok a => "OK:" ++ f a
  | Err => "ERR"
  | ErrDepth => "ERRDEPTH"
  | Panic => "PANIC"
  | Unmodelled => "UNMODELLED"
  end.

(* oracles for the data-only streams: nothing parses as a lambda (the generators of those
   streams never produce the "__blots_function" key with a parsable source), no lambda occurs *)
Definition no_fn : string -> option (list lamarg * string) := fun _ => None.
Definition no_body : string -> outcome expr := fun _ => Unmodelled.
Definition no_emit : expr -> list (string * svalue) -> string := fun _ _ => "".
Definition no_name : lam_id -> option string := fun _ => None.
(* finite table oracle for the FN stream: the real parse_function_source answers on the strings
   of the batch *)
Definition table_fn (t : list (string * option (list lamarg * string))) (s : string)
  : option (list lamarg * string) :=
  match rec_get t s with Some r => r | None => None end.
Definition table_body (t : list (string * bool)) (s : string) : outcome expr :=
  match rec_get t s with Some true => Ok ENull | Some false => Err | None => Unmodelled end.

(* ------------------------------------------------------------------ stream runners *)
(* one line of the VAL stream: same fields as harness/src/s_c06.rs::val_line *)
Definition show_value0 (v : value) : string :=
  (fix sv (v : value) : string :=
     match v with
     | VNum x => "N" ++ show_num x
     | VBool true => "T"
     | VBool false => "F"
     | VNull => "U"
     | VStr s => "S" ++ hex_of_string s ++ ";"
     | VList l => "L[" ++ jjoin (map sv l) ++ "]"
     | VRec r => "R{" ++ jjoin (map (fun kv => let '(k, x) := kv in hex_of_string k ++ ":" ++ sv x) r) ++ "}"
     | VLam _ args _ _ => "FN(" ++ jjoin (map show_arg' args) ++ ")"
     | VBuiltin b => "B" ++ builtin_name b ++ ";"
     | VSpread x => "X" ++ sv x
     end) v.
Definition c06_val_line (pfs : string -> option (list lamarg * string)) (pbody : string -> outcome expr)
  (v : value) : string :=
  match from_value no_emit no_name v with
  | Ok s =>
      let j := to_json s in
      let s2 := from_json pfs j in
      let v2 := to_value pbody s2 in
      "OK:" ++ show_sv s ++ "|" ++ show_json j ++ "|" ++ show_sv s2 ++ "|"
      ++ show_out show_value0 v2 ++ "|"
      ++ match v2 with Ok v2 => if equals v2 v then "T" else "F" | _ => "-" end
  | _ => "ERR"
  end.
(* one line of the JSON stream: harness json_line *)
Definition c06_json_line (pfs : string -> option (list lamarg * string)) (pbody : string -> outcome expr)
  (d : json) : string :=
  let j := sj_build d in
  let s := from_json pfs j in
  let v := to_value pbody s in
  show_json j ++ "|" ++ show_sv s ++ "|" ++ show_out show_value0 v ++ "|"
  ++ match v with
     | Ok v => match from_value no_emit no_name v with
               | Ok s2 => "OK:" ++ show_sv s2 ++ "|" ++ show_json (to_json s2)
               | _ => "ERR"
               end
     | _ => "-"
     end.
