(* PrattStrip.v — definitions only: removal of every comment pair and comment annotation from a
   token stream (comment lines inside lists / records / do-blocks, end-of-line comments of list
   items, record items and do-block statements), at every nesting depth. *)
From Coq Require Import String List.
Require Import Blots.Num Blots.gen.Builtins Blots.Ast Blots.PrattTypes.
Import ListNotations.
Local Open Scope list_scope.

Fixpoint strip_item (i : item) : item :=
  let strip := fix strip (l : list item) : list item :=
    match l with [] => [] | x :: r => strip_item x :: strip r end in
  match i with
  | IExpr b g => IExpr b (strip g)
  | IList els =>
      IList ((fix go (l : list lelem) : list lelem :=
                match l with
                | [] => []
                | LCom _ :: r => go r
                | LItem g _ :: r => LItem (strip g) None :: go r
                end) els)
  | IRecord els =>
      IRecord ((fix go (l : list relem) : list relem :=
                  match l with
                  | [] => []
                  | RCom _ :: r => go r
                  | RPairI k v _ :: r =>
                      RPairI (match k with RKDyn inner => RKDyn (strip inner) | k' => k' end) (strip v) None :: go r
                  | RShortI s _ :: r => RShortI s None :: go r
                  | RSpreadI g _ :: r => RSpreadI (strip g) None :: go r
                  end) els)
  | ILambda a body => ILambda a (strip body)
  | ICond c t e => ICond (strip c) (strip t) (strip e)
  | IDo els =>
      IDo ((fix go (l : list delem) : list delem :=
              match l with
              | [] => []
              | DStmt g _ :: r => DStmt (strip g) None :: go r
              | DComStmt _ _ :: r => go r
              | DCom _ :: r => go r
              | DRet g :: r => DRet (strip g) :: go r
              end) els)
  | IAssign x v => IAssign x (strip v)
  | IAccess inner => IAccess (strip inner)
  | ICall args =>
      ICall ((fix go (l : list (list item)) : list (list item) :=
                match l with [] => [] | g :: r => strip g :: go r end) args)
  | other => other
  end.

Fixpoint strip_items (l : list item) : list item :=
  match l with [] => [] | x :: r => strip_item x :: strip_items r end.
Fixpoint strip_lels (l : list lelem) : list lelem :=
  match l with
  | [] => []
  | LCom _ :: r => strip_lels r
  | LItem g _ :: r => LItem (strip_items g) None :: strip_lels r
  end.
Definition strip_key (k : rkeyi) : rkeyi :=
  match k with RKDyn inner => RKDyn (strip_items inner) | k' => k' end.
Fixpoint strip_rels (l : list relem) : list relem :=
  match l with
  | [] => []
  | RCom _ :: r => strip_rels r
  | RPairI k v _ :: r => RPairI (strip_key k) (strip_items v) None :: strip_rels r
  | RShortI s _ :: r => RShortI s None :: strip_rels r
  | RSpreadI g _ :: r => RSpreadI (strip_items g) None :: strip_rels r
  end.
Fixpoint strip_dels (l : list delem) : list delem :=
  match l with
  | [] => []
  | DStmt g _ :: r => DStmt (strip_items g) None :: strip_dels r
  | DComStmt _ _ :: r => strip_dels r
  | DCom _ :: r => strip_dels r
  | DRet g :: r => DRet (strip_items g) :: strip_dels r
  end.
Fixpoint strip_args (l : list (list item)) : list (list item) :=
  match l with [] => [] | g :: r => strip_items g :: strip_args r end.
