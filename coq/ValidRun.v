(* ValidRun.v — the validity invariant of Valid.v OBSERVED on the values the model computes (ALL stream of
   checks/evalstream.py): the canonical text of a run, then how many values were checked by the Gallina boolean
   valid_valueb (every statement result and every value bound in the final environment), how many passed, and
   whether the hypotheses of C01_program_no_panic_all held of the run (valid_prog: every number literal the parser
   produced; valid_inputs).  By C01_program_no_panic_all + C01_table_oracle_valid all of them pass; the stream asserts
   it on every batch (a non-canonical number smuggled into the oracle table or into a Num.v operation shows up here).
   Definitions only. *)
From Coq Require Import String Ascii List ZArith Bool.
Require Import Blots.Num Blots.Ast Blots.Value Blots.Outcome Blots.Env Blots.Eval Blots.Program
               Blots.EvalAll Blots.AllRun Blots.Valid.
Import ListNotations.
Open Scope list_scope.

Definition run_values (sr : session * list (stmt_result * store)) : list value :=
  flat_map (fun rs => match fst rs with ROk v => [v] | _ => [] end) (snd sr)
  ++ map snd (flatten_frames (snd (s_cfg (fst sr)))).

Definition run_program_all_tab_v (T : tables) (inputs : list (string * value)) (prog : list stmt) : string :=
  let sr := run (eval_run T) (init_session inputs) prog in
  let vals := run_values sr in
  (show_run sr ++ "#V:" ++ nat_to_dec (List.length vals) ++ ":"
   ++ nat_to_dec (List.length (filter valid_valueb vals)) ++ ":"
   ++ (if valid_progb prog && valid_frameb inputs then "1" else "0"))%string.
