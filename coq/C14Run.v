(* C14Run.v — what the C14 correspondence check runs with vm_compute: the model of
   Access.v / BuiltinsList.v instantiated with concrete stand-ins for the library oracles
   (valid on the inputs the generator restricts itself to: ASCII text for trim / uppercase /
   lowercase, integral numbers for f64 Display), a concrete callback interpreter for the
   small family of callbacks the generator uses, the dispatcher by built-in name, and the
   printers that mirror harness/src/s_c14.rs.  Definitions only; nothing here is used by a
   theorem. *)
From Coq Require Import String Ascii List ZArith Bool DecimalString Floats.SpecFloat.
Require Import Blots.Num Blots.gen.Builtins Blots.Ast Blots.Value Blots.Outcome Blots.Show
  Blots.Access Blots.BuiltinsList.
Import ListNotations.
Open Scope list_scope.
Open Scope Z_scope.

(* ---------- stand-ins for library text functions ---------- *)
Definition map_bytes (f : Z -> Z) (s : string) : string :=
  string_of_list_ascii (map (fun c => ascii_of_nat (Z.to_nat (f (byte_of c)))) (list_ascii_of_string s)).
Definition run_upper : string -> string :=
  map_bytes (fun b => if (97 <=? b) && (b <=? 122) then b - 32 else b).      (* ASCII only *)
Definition run_lower : string -> string :=
  map_bytes (fun b => if (65 <=? b) && (b <=? 90) then b + 32 else b).
Definition is_ws (c : ascii) : bool :=
  let b := byte_of c in (b =? 32) || ((9 <=? b) && (b <=? 13)).                (* ASCII White_Space *)
Fixpoint trim_start (s : string) : string :=
  match s with String c r => if is_ws c then trim_start r else s | EmptyString => s end.
Definition str_rev (s : string) : string := string_of_list_ascii (rev (list_ascii_of_string s)).
Definition run_trim (s : string) : string := str_rev (trim_start (str_rev (trim_start s))).

Definition dec_of_Z (z : Z) : string :=
  match z with
  | Z0 => "0"
  | Zpos p => NilEmpty.string_of_uint (Pos.to_uint p)
  | Zneg p => String "-" (NilEmpty.string_of_uint (Pos.to_uint p))
  end.
(* f64 Display on integral values (exact decimal expansion), "NaN", "inf"; "?" otherwise
   (the generator gives join only integral numbers) *)
Definition run_num_str (x : num) : string :=
  match x with
  | S754_nan => "NaN"
  | S754_infinity s => if s then "-inf" else "inf"
  | S754_zero s => if s then "-0" else "0"
  | S754_finite s _ _ =>
      if nfract_is_zero x then
        match Z_of_num_trunc x with Some z => dec_of_Z z | None => "?" end
      else "?"
  end%string.
Definition run_lam_str (_ : list lamarg) (_ : expr) (_ : list (string * value)) : string := "?"%string.

(* ---------- arity check of FunctionDef::check_arity for built-ins ---------- *)
Definition arity_ok (b : builtin) (n : nat) : bool :=
  match builtin_arity b with
  | AExact k => Nat.eqb n k
  | AAtLeast k => Nat.leb k n
  | ABetween lo hi => Nat.leb lo n && Nat.leb n hi
  end.

(* built-ins without callbacks *)
Definition run_pure (b : builtin) (args : list value) : outcome value :=
  match b with
  | B_range => bi_range args | B_len => bi_len args | B_head => bi_head args
  | B_tail => bi_tail args | B_slice => bi_slice args | B_concat => bi_concat args
  | B_unique => bi_unique args | B_sort => bi_sort args | B_reverse => bi_reverse args
  | B_split => bi_split args | B_replace => bi_replace args | B_includes => bi_includes args
  | B_trim => bi_trim run_trim args | B_uppercase => bi_uppercase run_upper args
  | B_lowercase => bi_lowercase run_lower args
  | B_join => bi_join run_num_str run_lam_str args
  | B_keys => bi_keys args | B_values => bi_values args | B_entries => bi_entries args
  | B_flatten => bi_flatten args | B_zip => bi_zip args | B_chunk => bi_chunk args
  | B_typeof => do a0 <- arg args 0; Ok (VStr (type_name (type_of a0)))
  | _ => Unmodelled
  end.

(* ---------- the callbacks the generator uses ---------- *)
Fixpoint mini_eval (env : list (string * value)) (e : expr) : outcome value :=
  match e with
  | EId x => match rec_get env x with Some v => Ok v | None => Unmodelled end
  | ENum x => Ok (VNum x)
  | EStr s => Ok (VStr s)
  | EBool b => Ok (VBool b)
  | ENull => Ok VNull
  | EAccess a i => do v <- mini_eval env a; do j <- mini_eval env i; access_value v j
  | EDot a f => do v <- mini_eval env a; dot_access v f
  | EUn Negate a => do v <- mini_eval env a; do x <- as_number v; Ok (VNum (nneg x))
  | ECall (EBuiltin b) [a] =>
      do v <- mini_eval env a;
      if arity_ok b 1 then run_pure b [v] else Err
  | _ => Unmodelled
  end.

Definition run_call (this_value func : value) (args : list value) (st : unit)
  : outcome value * unit :=
  match func with
  | VBuiltin b => (if arity_ok b (length args) then run_pure b args else Err, st)
  | VLam _ [AReq x] body _ =>
      match args with
      | [a] => (mini_eval [(x, a)] body, st)
      | _ => (Err, st)
      end
  | VLam _ _ _ _ => (Unmodelled, st)
  | _ => (Err, st)
  end.

(* BuiltInFunction::call, by name *)
Definition run_bi (b : builtin) (args : list value) : outcome value :=
  match b with
  | B_sort_by => fst (bi_sort_by unit run_call args tt)
  | B_group_by => fst (bi_group_by unit run_call args tt)
  | B_count_by => fst (bi_count_by unit run_call args tt)
  | _ => run_pure b args
  end.
(* FunctionDef::BuiltIn(b).call(Null, args, …) at depth 0: arity check first *)
Definition run_bi_checked (b : builtin) (args : list value) : outcome value :=
  if arity_ok b (length args) then run_bi b args else Err.

(* ---------- printers ---------- *)
Definition show_v : value -> string := show_value None.
Definition show_out (o : outcome value) : string :=
  match o with
  | Ok v => "OK:" ++ show_v v
  | Err => "ERR" | ErrDepth => "ERRDEPTH" | Panic => "PANIC" | Unmodelled => "UNMODELLED"
  end%string.

