(* Property C07 — the formatter preserves program meaning.
   Statements only; proofs in proofs/PrintRT.v (round trip), proofs/PrintCapture.v (no absorption),
   proofs/PrintText.v (text of the token stream), proofs/PrintAgree.v (pinned vs repaired, quoting),
   proofs/PrintRefute.v (witnesses).  See notes/C07.md.

   Objects.  print_text / print_items (Printer.v) transcribe ast_to_source.rs::expr_to_source — the
   single-line printer format_expr uses for everything that fits the width and as its fallback — as a
   string and as pest's token stream (a parenthesised group is one primary).  policy_old pinned_opinfo
   is the pinned needs_parens_in_binop; policy_new fixed_opinfo is fixes/C07-parens.diff.
   parse_items impl_table infix_map prefix_map is pest's Pratt parser + pairs_to_expr_inner (Pratt.v,
   property C10) on the table built from the rows REGENERATED from precedence.rs / expressions.rs.
   wf (proofs/PrattRT.v) is the image of the parser: no Output below the statement level, no
   UnaryOp::Invert, identifiers that are not built-in names, no comment annotations. *)
From Coq Require Import String List Bool Arith.
Require Import Blots.Num Blots.gen.Builtins Blots.Ast Blots.Outcome Blots.PrattTypes Blots.gen.PrecTable
               Blots.Pratt Blots.PrattRender Blots.Printer
               Blots.proofs.PrattAdequacy Blots.proofs.PrattRT
               Blots.proofs.PrintRefute Blots.proofs.PrintRT Blots.proofs.PrintText
               Blots.proofs.PrintCapture Blots.proofs.PrintAgree.
Import ListNotations.
Local Open Scope string_scope.

(* ================================================================ the repaired printer *)

(* P0 pratt_print_roundtrip.  For EVERY well-formed tree (unbounded), every version of the quoting /
   do-block flags and every number-text oracle: the Pratt parser of the crate, on the generated
   table, recovers the tree from the token stream the repaired printer emits. *)
Theorem C07_pratt_print_roundtrip : forall fx numtxt e,
  wf e = true ->
  exists n, forall m, n <= m ->
    parse_items impl_table infix_map prefix_map m
                (print_items fx (policy_new fixed_opinfo) numtxt e) = Ok (Some e).
Proof.
  intros fx numtxt e H. apply new_policy_roundtrip_fun; [exact fixed_opinfo_consistent | exact H].
Qed.
Check C07_pratt_print_roundtrip : forall fx numtxt e,
  wf e = true ->
  exists n, forall m, n <= m ->
    parse_items impl_table infix_map prefix_map m
                (print_items fx (policy_new fixed_opinfo) numtxt e) = Ok (Some e).
Print Assumptions C07_pratt_print_roundtrip.

(* the same for ANY precedence table (as operator_info reports it) that orders the binary operators
   and assigns their associativity like the Pratt table: the repaired rule is table-generic *)
Theorem C07_pratt_print_roundtrip_any_table : forall oi fx numtxt e,
  opinfo_consistent oi spec_bprec spec_rassoc = true ->
  wf e = true ->
  exists n, forall m, n <= m ->
    parse_items impl_table infix_map prefix_map m (print_items fx (policy_new oi) numtxt e) = Ok (Some e).
Proof. exact new_policy_roundtrip_fun. Qed.
Check C07_pratt_print_roundtrip_any_table : forall oi fx numtxt e,
  opinfo_consistent oi spec_bprec spec_rassoc = true ->
  wf e = true ->
  exists n, forall m, n <= m ->
    parse_items impl_table infix_map prefix_map m (print_items fx (policy_new oi) numtxt e) = Ok (Some e).
Print Assumptions C07_pratt_print_roundtrip_any_table.

(* statements: `output x = e` / `output x` hand their inner pairs to the same conversion *)
Theorem C07_statement_roundtrip : forall fx numtxt e,
  wf (stmt_body e) = true ->
  exists n, forall m, n <= m ->
    parse_items impl_table infix_map prefix_map m
                (stmt_items fx (policy_new fixed_opinfo) numtxt e) = Ok (Some (stmt_body e)).
Proof.
  intros fx numtxt e H.
  assert (E : stmt_items fx (policy_new fixed_opinfo) numtxt e
              = print_items fx (policy_new fixed_opinfo) numtxt (stmt_body e)).
  { destruct e; reflexivity. }
  rewrite E. apply C07_pratt_print_roundtrip. exact H.
Qed.
Check C07_statement_roundtrip : forall fx numtxt e,
  wf (stmt_body e) = true ->
  exists n, forall m, n <= m ->
    parse_items impl_table infix_map prefix_map m
                (stmt_items fx (policy_new fixed_opinfo) numtxt e) = Ok (Some (stmt_body e)).
Print Assumptions C07_statement_roundtrip.

(* the part of lexing that is not token-local: in the repaired printer's stream no lambda body,
   else-branch or assignment value is followed by something it would absorb (PEG repetition is
   greedy), lambda bodies contain no via / into / where outside parentheses, and (with the do-block
   repair) no statement line starts with a prefix minus after another statement *)
Theorem C07_print_no_capture : forall fx numtxt e,
  fx_dominus fx = true ->
  wf e = true ->
  seq_ok (print_items fx (policy_new fixed_opinfo) numtxt e) = true.
Proof.
  intros fx numtxt e Hd H. apply new_policy_no_capture; [|exact Hd|exact H].
  intro o. destruct o; vm_compute; repeat constructor.
Qed.
Check C07_print_no_capture : forall fx numtxt e,
  fx_dominus fx = true ->
  wf e = true ->
  seq_ok (print_items fx (policy_new fixed_opinfo) numtxt e) = true.
Print Assumptions C07_print_no_capture.

(* P0 items_render: the string expr_to_source returns IS the text of that token stream — for every
   version of the printer, so the theorems above are about the printed text up to token lexing *)
Theorem C07_items_render : forall fx pol numtxt e,
  wf e = true ->
  print_text fx pol numtxt e = items_text7 fx numtxt (print_items fx pol numtxt e).
Proof. exact items_render. Qed.
Check C07_items_render : forall fx pol numtxt e,
  wf e = true ->
  print_text fx pol numtxt e = items_text7 fx numtxt (print_items fx pol numtxt e).
Print Assumptions C07_items_render.

(* the table of the patch orders the operators like the Pratt table built from the generated rows;
   the pinned table does not (^ and ?? share a level); what the built crate reports is one of them *)
Theorem C07_precedence_tables :
  opinfo_consistent fixed_opinfo spec_bprec spec_rassoc = true /\
  opinfo_consistent pinned_opinfo spec_bprec spec_rassoc = false /\
  opinfo_eqb gen_opinfo pinned_opinfo || opinfo_eqb gen_opinfo fixed_opinfo = true.
Proof.
  split; [exact fixed_opinfo_consistent | split; [exact pinned_opinfo_inconsistent | exact gen_opinfo_pinned_or_fixed]].
Qed.
Check C07_precedence_tables :
  opinfo_consistent fixed_opinfo spec_bprec spec_rassoc = true /\
  opinfo_consistent pinned_opinfo spec_bprec spec_rassoc = false /\
  opinfo_eqb gen_opinfo pinned_opinfo || opinfo_eqb gen_opinfo fixed_opinfo = true.
Print Assumptions C07_precedence_tables.

(* string literals (lex_string for the repaired quoting): the chosen quote character does not occur
   in the literal, so `string_value = (!PEEK ~ ANY)*` reads back exactly the string *)
Theorem C07_quote_sound : forall s,
  string_relex_ok FX_ALL s = true ->
  exists q, (q = a_dq \/ q = a_sq) /\ contains_char q s = false /\
            quote_string FX_ALL s = (str1 q ++ s ++ str1 q)%string.
Proof. exact quote_sound. Qed.
Check C07_quote_sound : forall s,
  string_relex_ok FX_ALL s = true ->
  exists q, (q = a_dq \/ q = a_sq) /\ contains_char q s = false /\
            quote_string FX_ALL s = (str1 q ++ s ++ str1 q)%string.
Print Assumptions C07_quote_sound.

(* ================================================================ the pinned printer *)

(* outside the finding classes about parentheses the pinned code prints exactly what the repaired
   code prints (text and token stream), so it has the round-trip and no-absorption properties there *)
Theorem C07_pinned_agrees_outside_classes : forall fx numtxt e,
  parens_free (known_classes e) = true ->
  print_text fx (policy_old pinned_opinfo) numtxt e = print_text fx (policy_new fixed_opinfo) numtxt e /\
  print_items fx (policy_old pinned_opinfo) numtxt e = print_items fx (policy_new fixed_opinfo) numtxt e.
Proof. exact pinned_agrees_outside_classes. Qed.
Check C07_pinned_agrees_outside_classes : forall fx numtxt e,
  parens_free (known_classes e) = true ->
  print_text fx (policy_old pinned_opinfo) numtxt e = print_text fx (policy_new fixed_opinfo) numtxt e /\
  print_items fx (policy_old pinned_opinfo) numtxt e = print_items fx (policy_new fixed_opinfo) numtxt e.
Print Assumptions C07_pinned_agrees_outside_classes.

Theorem C07_pinned_roundtrip_outside_classes : forall fx numtxt e,
  wf e = true ->
  parens_free (known_classes e) = true ->
  exists n, forall m, n <= m ->
    parse_items impl_table infix_map prefix_map m
                (print_items fx (policy_old pinned_opinfo) numtxt e) = Ok (Some e).
Proof.
  intros fx numtxt e Hw Hp. destruct (pinned_agrees_outside_classes fx numtxt e Hp) as [_ E].
  rewrite E. apply C07_pratt_print_roundtrip. exact Hw.
Qed.
Check C07_pinned_roundtrip_outside_classes : forall fx numtxt e,
  wf e = true ->
  parens_free (known_classes e) = true ->
  exists n, forall m, n <= m ->
    parse_items impl_table infix_map prefix_map m
                (print_items fx (policy_old pinned_opinfo) numtxt e) = Ok (Some e).
Print Assumptions C07_pinned_roundtrip_outside_classes.

Theorem C07_pinned_quote_agrees : forall s,
  str_cls s = [] -> quote_string FX_PINNED s = quote_string FX_ALL s.
Proof. exact quote_agrees. Qed.
Check C07_pinned_quote_agrees : forall s,
  str_cls s = [] -> quote_string FX_PINNED s = quote_string FX_ALL s.
Print Assumptions C07_pinned_quote_agrees.

(* the hypotheses are satisfiable by non-trivial trees: `xs via (x) => x * 2 + 1 where ok` style and a
   do-block with an assignment, a call and a record *)
Example C07_example_wf_classfree :
  let e := EBin Where (EBin Via (EId "xs") (ELam [AReq "x"] (EBin Add (EBin Multiply (EId "x") (EId "k")) (EId "one"))))
                (EId "ok") in
  wf e = true /\ parens_free (known_classes e) = true /\ known_classes e = [].
Proof. vm_compute. repeat split. Qed.
Example C07_example_wf_do :
  wf (EDo [Cm [] (EAssign "q" (ECall (EId "f") [EUn Negate (EId "a"); ERec [Cm [] (REntry (KStatic "k 2") (EStr "s")) None]])) None]
          (Cm [] (EAccess (EId "q") (EFact (EId "n"))) None)) = true.
Proof. vm_compute. reflexivity. Qed.

(* ================================================================ refutations on the pinned printer *)
(* refuted_in k: a tree the parser can produce, whose only finding class is k, and on which the
   model of the pinned printer predicts parse (expr_to_source e) <> e; each witness is replayed on
   the implementation by the check (known/C07.json) *)
Theorem C07_unary_operand_refuted : refuted_in KUnary.
Proof. exact unary_operand_refuted. Qed.
Check C07_unary_operand_refuted : refuted_in KUnary.
Print Assumptions C07_unary_operand_refuted.

Theorem C07_postfix_operand_refuted : refuted_in KPostfix.
Proof. exact postfix_operand_refuted. Qed.
Check C07_postfix_operand_refuted : refuted_in KPostfix.
Print Assumptions C07_postfix_operand_refuted.

Theorem C07_open_left_refuted : refuted_in KOpenL.
Proof. exact open_left_refuted. Qed.
Check C07_open_left_refuted : refuted_in KOpenL.
Print Assumptions C07_open_left_refuted.

Theorem C07_binary_right_refuted : refuted_in KBinR.
Proof. exact binary_right_refuted. Qed.
Check C07_binary_right_refuted : refuted_in KBinR.
Print Assumptions C07_binary_right_refuted.

Theorem C07_binary_left_refuted : refuted_in KBinL.
Proof. exact binary_left_refuted. Qed.
Check C07_binary_left_refuted : refuted_in KBinL.
Print Assumptions C07_binary_left_refuted.

Theorem C07_lambda_body_refuted : refuted_in KLamBody.
Proof. exact lambda_body_refuted. Qed.
Check C07_lambda_body_refuted : refuted_in KLamBody.
Print Assumptions C07_lambda_body_refuted.

Theorem C07_quote_refuted : refuted_in KQuote.
Proof. exact quote_refuted. Qed.
Check C07_quote_refuted : refuted_in KQuote.
Print Assumptions C07_quote_refuted.

Theorem C07_do_minus_refuted : refuted_in KDoMinus.
Proof. exact do_minus_refuted. Qed.
Check C07_do_minus_refuted : refuted_in KDoMinus.
Print Assumptions C07_do_minus_refuted.

(* the same witnesses pass under the model of the fully repaired printer *)
Theorem C07_witnesses_repaired :
  forallb (predict_rt FX_ALL fixed_opinfo num_text)
          [w_unary; w_postfix; w_open; w_binr; w_binl; w_lam; w_quote; w_dominus] = true.
Proof. exact witnesses_repaired. Qed.
Check C07_witnesses_repaired :
  forallb (predict_rt FX_ALL fixed_opinfo num_text)
          [w_unary; w_postfix; w_open; w_binr; w_binl; w_lam; w_quote; w_dominus] = true.
Print Assumptions C07_witnesses_repaired.

(* ================================================================ the character level *)
(* `lexes txt its` stands for pest's PEG (grammar.pest) turning the text of an `expression` into its
   token stream.  The grammar is not modelled at the character level in this development; the part of
   the property that depends on it is stated as the hypothesis of this theorem (every token stream of
   the repaired printer that passes the absorption check, with re-lexable string literals, lexes back
   from its text), and is decided by the PRINT correspondence (the model's predicted round trip
   against the real parser on every generated case) and by search.  Relative to it the printed TEXT
   parses back to the tree. *)
Theorem C07_roundtrip_relative_to_lexer :
  forall (lexes : string -> list item -> Prop),
    (forall numtxt e, wf e = true -> strings_ok FX_ALL e = true ->
       seq_ok (print_items FX_ALL (policy_new fixed_opinfo) numtxt e) = true ->
       lexes (print_text FX_ALL (policy_new fixed_opinfo) numtxt e)
             (print_items FX_ALL (policy_new fixed_opinfo) numtxt e)) ->
    forall numtxt e, wf e = true -> strings_ok FX_ALL e = true ->
      exists its, lexes (print_text FX_ALL (policy_new fixed_opinfo) numtxt e) its /\
                  exists n, forall m, n <= m -> parse_items impl_table infix_map prefix_map m its = Ok (Some e).
Proof.
  intros lexes Hlex numtxt e Hw Hs.
  exists (print_items FX_ALL (policy_new fixed_opinfo) numtxt e). split.
  - apply Hlex; [exact Hw | exact Hs | apply C07_print_no_capture; [reflexivity | exact Hw]].
  - apply C07_pratt_print_roundtrip. exact Hw.
Qed.
Check C07_roundtrip_relative_to_lexer :
  forall (lexes : string -> list item -> Prop),
    (forall numtxt e, wf e = true -> strings_ok FX_ALL e = true ->
       seq_ok (print_items FX_ALL (policy_new fixed_opinfo) numtxt e) = true ->
       lexes (print_text FX_ALL (policy_new fixed_opinfo) numtxt e)
             (print_items FX_ALL (policy_new fixed_opinfo) numtxt e)) ->
    forall numtxt e, wf e = true -> strings_ok FX_ALL e = true ->
      exists its, lexes (print_text FX_ALL (policy_new fixed_opinfo) numtxt e) its /\
                  exists n, forall m, n <= m -> parse_items impl_table infix_map prefix_map m its = Ok (Some e).
Print Assumptions C07_roundtrip_relative_to_lexer.

(* ================================================================ the multi-line layouts (C07L) *)
(* Objects.  Formatter.v transcribes formatter.rs as a document model (fmtd = format_expr_impl with
   every layout function; the FORMAT stream of C08 runs it against the real formatter).
   FmtTokens.v: fmt_items = the pest token stream each layout denotes, by recursion parallel to the
   layout functions (same width decisions, taken on `render` of the same documents; same oracle
   calls); printer_oracles = ast_to_source.rs as Printer.v has it, packaged as formatter.rs's imports;
   lam_ok = no lambda parameter name starts with `-` (grammar identifiers start with a letter or `_`);
   lview = canon o toks, the layout-erasing lexical view of a text.  Proofs: proofs/FmtItems.v.
   fmt_items has a version switch (its `true` argument below): true = fixes/C07-crlf-lines.diff, the
   via/into/where arm of format_binary_op_multiline re-assembles its right operand unchanged; false =
   the code before that fix, where str::lines() drops the "\r" of every "\r\n" inside a string literal
   of the right operand (finding F55, class crlf-lines: C07_layout_crlf_refuted below) and the token
   stream of the changed text is the unknown `orl`.  The theorems are about the repaired formatter,
   for every `orl`. *)
Require Import Blots.Formatter Blots.FmtTokens Blots.proofs.FmtItems.
Require Import Blots.proofs.Relined.
Require Blots.Emit Blots.PegToItems.

(* layout_preserves_items.  For EVERY well-formed tree, every max_columns `w` and every indentation
   `i`, both versions of the nested-comment switch: the token stream of what format_expr_impl lays out
   is the token stream of the one-line printer — every layout only inserts blanks, line breaks and
   optional commas between the same tokens and takes the same parenthesisation decisions
   (needs_parens_in_binop / _postfix / _unary / lambda_body_needs_parens are asked for the same
   parent/child pairs; protect_leading_minus, decided on the laid-out text, agrees with the do-block
   rule of expr_to_source, decided on the one-line text). *)
Theorem C07_layout_preserves_items : forall fx numtxt keepc orl w e i,
  fx_dominus fx = true ->
  wf e = true -> lam_ok e = true ->
  fmt_items (printer_oracles fx (policy_new fixed_opinfo) numtxt keepc)
            (print_items fx (policy_new fixed_opinfo) numtxt) key_item true orl w e i
  = print_items fx (policy_new fixed_opinfo) numtxt e.
Proof. intros fx numtxt keepc orl w e i. exact (layout_preserves_items fixed_opinfo fx numtxt keepc orl w e i). Qed.
Check C07_layout_preserves_items : forall fx numtxt keepc orl w e i,
  fx_dominus fx = true ->
  wf e = true -> lam_ok e = true ->
  fmt_items (printer_oracles fx (policy_new fixed_opinfo) numtxt keepc)
            (print_items fx (policy_new fixed_opinfo) numtxt) key_item true orl w e i
  = print_items fx (policy_new fixed_opinfo) numtxt e.
Print Assumptions C07_layout_preserves_items.

(* the same for ANY oracle record with the stated interface (any precedence table, any version of the
   printer's policy whose callee rule is needs_parens_in_postfix and that leaves do-block lambda bodies
   bare — format_lambda does not ask for them —, any text function that starts like print_text) *)
Theorem C07_layout_preserves_items_any_oracle : forall fx pol numtxt O orl w e i,
  fx_dominus fx = true ->
  (forall op c, o_needs_parens O op c true = pL pol op c) ->
  (forall op c, o_needs_parens O op c false = pR pol op c) ->
  (forall c, o_postfix_parens O c = pP pol c) ->
  (forall c, pC pol c = pP pol c) ->
  (forall c, o_lambda_body_parens O c = pB pol c) ->
  (forall s r, pB pol (EDo s r) = false) ->
  (forall c, o_unary_parens O c = pU pol c) ->
  (forall e, lead3 (o_e2s O e) = lead3 (print_text fx pol numtxt e)) ->
  wf e = true -> lam_ok e = true ->
  fmt_items O (print_items fx pol numtxt) key_item true orl w e i = print_items fx pol numtxt e.
Proof. exact layout_preserves_items_any_oracle. Qed.
Check C07_layout_preserves_items_any_oracle : forall fx pol numtxt O orl w e i,
  fx_dominus fx = true ->
  (forall op c, o_needs_parens O op c true = pL pol op c) ->
  (forall op c, o_needs_parens O op c false = pR pol op c) ->
  (forall c, o_postfix_parens O c = pP pol c) ->
  (forall c, pC pol c = pP pol c) ->
  (forall c, o_lambda_body_parens O c = pB pol c) ->
  (forall s r, pB pol (EDo s r) = false) ->
  (forall c, o_unary_parens O c = pU pol c) ->
  (forall e, lead3 (o_e2s O e) = lead3 (print_text fx pol numtxt e)) ->
  wf e = true -> lam_ok e = true ->
  fmt_items O (print_items fx pol numtxt) key_item true orl w e i = print_items fx pol numtxt e.
Print Assumptions C07_layout_preserves_items_any_oracle.

(* statements: both drivers hand `output x = e` / `output x` to format_expr as Expr::Output *)
Theorem C07_layout_preserves_statement_items : forall fx numtxt keepc orl w e i,
  fx_dominus fx = true ->
  wf (stmt_body e) = true -> lam_ok e = true ->
  fmt_items (printer_oracles fx (policy_new fixed_opinfo) numtxt keepc)
            (print_items fx (policy_new fixed_opinfo) numtxt) key_item true orl w e i
  = stmt_items fx (policy_new fixed_opinfo) numtxt e.
Proof. intros fx numtxt keepc orl w e i. exact (layout_preserves_stmt_items fixed_opinfo fx numtxt keepc orl w e i). Qed.
Check C07_layout_preserves_statement_items : forall fx numtxt keepc orl w e i,
  fx_dominus fx = true ->
  wf (stmt_body e) = true -> lam_ok e = true ->
  fmt_items (printer_oracles fx (policy_new fixed_opinfo) numtxt keepc)
            (print_items fx (policy_new fixed_opinfo) numtxt) key_item true orl w e i
  = stmt_items fx (policy_new fixed_opinfo) numtxt e.
Print Assumptions C07_layout_preserves_statement_items.

(* format_roundtrip_items: pest's Pratt parser on the formatter's token stream returns the tree, at
   EVERY width (format_expr = indentation 0, max_columns or 80) *)
Theorem C07_format_roundtrip_items : forall fx numtxt keepc orl max_columns e,
  fx_dominus fx = true ->
  wf e = true -> lam_ok e = true ->
  exists n, forall m, n <= m ->
    parse_items impl_table infix_map prefix_map m
      (format_expr_items (printer_oracles fx (policy_new fixed_opinfo) numtxt keepc)
                         (print_items fx (policy_new fixed_opinfo) numtxt) key_item true orl e max_columns)
    = Ok (Some e).
Proof.
  intros fx numtxt keepc orl mc e Hd Hw Hl. unfold format_expr_items.
  apply format_roundtrip_items; [exact fixed_opinfo_consistent | exact Hd | exact Hw | exact Hl].
Qed.
Check C07_format_roundtrip_items : forall fx numtxt keepc orl max_columns e,
  fx_dominus fx = true ->
  wf e = true -> lam_ok e = true ->
  exists n, forall m, n <= m ->
    parse_items impl_table infix_map prefix_map m
      (format_expr_items (printer_oracles fx (policy_new fixed_opinfo) numtxt keepc)
                         (print_items fx (policy_new fixed_opinfo) numtxt) key_item true orl e max_columns)
    = Ok (Some e).
Print Assumptions C07_format_roundtrip_items.

(* the hypotheses are satisfiable and the layouts are really taken: at width 10 the tree of
   C07_example_wf_classfree is laid out on several lines, and its item stream is the printer's *)
Example C07_example_layout_multiline :
  let e := EBin Where (EBin Via (EId "xs") (ELam [AReq "x"] (EBin Add (EBin Multiply (EId "x") (EId "k")) (EId "one"))))
                (EId "ok") in
  let O := printer_oracles FX_ALL (policy_new fixed_opinfo) num_text true in
  wf e = true /\ lam_ok e = true /\
  contains_nl (render (fmtd O 10 e 0)) = true /\
  fmt_items O (print_items FX_ALL (policy_new fixed_opinfo) num_text) key_item true (fun _ _ => []) 10 e 0
  = print_items FX_ALL (policy_new fixed_opinfo) num_text e /\
  lview (render (fmtd O 10 e 0)) = lview (print_text FX_ALL (policy_new fixed_opinfo) num_text e).
Proof. vm_compute. repeat split. Qed.

(* ---------------------------------------------------------------- F55 (class crlf-lines), repaired *)
(* Before /repo 5eeeb29 format_binary_op_multiline re-assembled the right operand of via/into/where
   from str::lines(), which drops a "\r" before each "\n": `xs via x => "a\r\nb"` was formatted with
   the literal "a\nb" (the witness lemma C07_layout_crlf_refuted of that model is in the history).
   The repaired code splits on "\n" only; Formatter.v follows, and the re-assembly is the identity
   for EVERY text, so no Relined piece is ever produced. *)
Definition s_crlf : string := String (Ascii.ascii_of_nat 97) (String CRc (String NLc "b")).
Definition w_crlf : expr := EBin Via (EId "xs") (ELam [AReq "x"] (EStr s_crlf)).
Theorem C07_relined_identity : forall s, contains_nl s = true -> relined s = s.
Proof. exact relined_identity. Qed.
Check C07_relined_identity : forall s, contains_nl s = true -> relined s = s.
Print Assumptions C07_relined_identity.

Theorem C07_layout_crlf_repaired :
  let O := printer_oracles FX_ALL (policy_new fixed_opinfo) num_text true in
  wf w_crlf = true /\ lam_ok w_crlf = true /\ cr_free w_crlf = false /\
  doc_relined (fmtd O 80 w_crlf 0) = [] /\
  lview (render (fmtd O 80 w_crlf 0)) = lview (print_text FX_ALL (policy_new fixed_opinfo) num_text w_crlf).
Proof. vm_compute. repeat split. Qed.
Check C07_layout_crlf_repaired :
  let O := printer_oracles FX_ALL (policy_new fixed_opinfo) num_text true in
  wf w_crlf = true /\ lam_ok w_crlf = true /\ cr_free w_crlf = false /\
  doc_relined (fmtd O 80 w_crlf 0) = [] /\
  lview (render (fmtd O 80 w_crlf 0)) = lview (print_text FX_ALL (policy_new fixed_opinfo) num_text w_crlf).
Print Assumptions C07_layout_crlf_repaired.

(* ---------------------------------------------------------------- kept, not proved (character level) *)
(* (a) the tie between the item stream and the TEXT of a layout: under the lexical view the laid-out
   text is the one-line text.  Not proved (toks is a character automaton; the proof needs its
   compositionality over the documents); evaluated on the real formatter's output on every run
   (FORMAT-items stream of checks/c07.py, all boundary widths).  cr_free is the exclusion of finding
   class crlf-lines (Formatter.v models the code before fixes/C07-crlf-lines.diff). *)
Definition C07_layout_preserves_tokens_full : Prop := forall numtxt keepc w e i,
  wf e = true -> lam_ok e = true -> cr_free e = true ->
  let O := printer_oracles FX_ALL (policy_new fixed_opinfo) numtxt keepc in
  lview (render (fmtd O w e i)) = lview (print_text FX_ALL (policy_new fixed_opinfo) numtxt e).
(* (b) the line breaks of the layouts are where grammar.pest admits them: the PEG model (Peg.v on
   gen/Grammar.v) + PegToItems + the Pratt model read the laid-out text back as the tree.  Not proved;
   evaluated by vm_compute on real formatter output (FORMAT-peg part of the FORMAT-items stream) and
   decided on the real parser by the search streams. *)
Definition C07_layout_parses_full : Prop := forall keepc w e,
  wf e = true -> lam_ok e = true -> cr_free e = true -> strings_ok FX_ALL e = true ->
  let O := printer_oracles FX_ALL (policy_new fixed_opinfo) num_text keepc in
  PegToItems.parse_text (render (fmtd O w e 0)) = ("E " ++ Emit.show_expr e)%string.

(* ================================================================ the character level, first step: ATOMS
   The PEG model of the REGENERATED grammar (coq/Peg.v on gen/Grammar.v, tied to pest's generated parser pair-for-pair
   by the PEG streams of C10) run on the text of an atom yields exactly the pair of that atom with the full span:
     - a string literal as Printer.quote_string (repaired quoting) writes it — either quote style — in front of ANY
       continuation [after]: string[p, p+|s|+2] ( string_value[p+1, p+1+|s|] ), for byte strings made of UTF-8-shaped
       chunks (every valid UTF-8 string is; for others pest's ANY could step over the closing quote);
     - an identifier (valid name, not a reserved word); `true`, `false`, `null`;
     - a number text in the language of the rule `number` (which texts the printers emit is C16's subject).
   This discharges, for atoms, the `lexes` hypothesis of C07_roundtrip_relative_to_lexer. *)
Require Blots.Peg Blots.gen.Grammar Blots.proofs.PegString Blots.proofs.PegNumber Blots.proofs.PegAtoms
        Blots.C10Ident Blots.gen.IdentRules.
From Coq Require Import NArith.
Module AtomLayer.
Import Blots.Peg Blots.gen.Grammar Blots.proofs.PegString Blots.proofs.PegAtoms Blots.C10Ident Blots.gen.IdentRules.
Local Open Scope string_scope.

Theorem C07_atoms_relex :
  (* strings *)
  (forall s after fuel a (st0 : st grule),
     Blots.Printer.string_relex_ok Blots.Printer.FX_ALL s = true -> chunks s ->
     rest st0 = (Blots.Printer.quote_string Blots.Printer.FX_ALL s ++ after)%string -> stack_ok (stk st0) ->
     12 + String.length (rest st0) <= fuel ->
     call_with blots_grammar (run blots_grammar fuel) a false PG_string st0
     = Ok (mkst (pos st0 + slen s + 2)%N after (stk st0)
                (Node PG_string (pos st0) (pos st0 + slen s + 2)%N
                      [Node PG_string_value (pos st0 + 1)%N (pos st0 + 1 + slen s)%N []] :: out st0))) /\
  (* identifiers *)
  (exists n, forall name fuel,
     valid_name name = true -> is_reserved reserved_words name = false -> n + String.length name <= fuel ->
     parse blots_grammar fuel PG_identifier name
     = Ok (mkst (slen name) "" stack_new [Node PG_identifier 0 (slen name) []])) /\
  (* true / false / null *)
  (forall fuel, 40 <= fuel ->
     parse blots_grammar fuel PG_bool "true" = Ok (mkst 4 "" stack_new [Node PG_bool 0 4 []]) /\
     parse blots_grammar fuel PG_bool "false" = Ok (mkst 5 "" stack_new [Node PG_bool 0 5 []]) /\
     parse blots_grammar fuel PG_null "null" = Ok (mkst 4 "" stack_new [Node PG_null 0 4 []])) /\
  (* numbers *)
  (exists n, forall t fuel,
     Blots.gen.NumGrammar.gen_number t = Some "" -> n + String.length t <= fuel ->
     parse blots_grammar fuel PG_number t = Ok (mkst (slen t) "" stack_new [Node PG_number 0 (slen t) []])).
Proof.
  exact (conj peg_quoted_string_relexes (conj peg_identifier_atom (conj peg_word_atoms peg_number_atom))).
Qed.
Check C07_atoms_relex :
  (forall s after fuel a (st0 : st grule),
     Blots.Printer.string_relex_ok Blots.Printer.FX_ALL s = true -> chunks s ->
     rest st0 = (Blots.Printer.quote_string Blots.Printer.FX_ALL s ++ after)%string -> stack_ok (stk st0) ->
     12 + String.length (rest st0) <= fuel ->
     call_with blots_grammar (run blots_grammar fuel) a false PG_string st0
     = Ok (mkst (pos st0 + slen s + 2)%N after (stk st0)
                (Node PG_string (pos st0) (pos st0 + slen s + 2)%N
                      [Node PG_string_value (pos st0 + 1)%N (pos st0 + 1 + slen s)%N []] :: out st0))) /\
  (exists n, forall name fuel,
     valid_name name = true -> is_reserved reserved_words name = false -> n + String.length name <= fuel ->
     parse blots_grammar fuel PG_identifier name
     = Ok (mkst (slen name) "" stack_new [Node PG_identifier 0 (slen name) []])) /\
  (forall fuel, 40 <= fuel ->
     parse blots_grammar fuel PG_bool "true" = Ok (mkst 4 "" stack_new [Node PG_bool 0 4 []]) /\
     parse blots_grammar fuel PG_bool "false" = Ok (mkst 5 "" stack_new [Node PG_bool 0 5 []]) /\
     parse blots_grammar fuel PG_null "null" = Ok (mkst 4 "" stack_new [Node PG_null 0 4 []])) /\
  (exists n, forall t fuel,
     Blots.gen.NumGrammar.gen_number t = Some "" -> n + String.length t <= fuel ->
     parse blots_grammar fuel PG_number t = Ok (mkst (slen t) "" stack_new [Node PG_number 0 (slen t) []])).
Print Assumptions C07_atoms_relex.

(* every ASCII string (bytes < 0xC0 as lead bytes) is chunked; a two-byte character too *)
Example C07_atoms_chunks_ascii : chunks "it's ""quoted""".
Proof. apply ascii_chunks. vm_compute. reflexivity. Qed.
End AtomLayer.

(* ================================================================ statement sequences (proofs/FmtSeq.v) *)
(* A line break, blank lines and comment-only lines do not end an expression (grammar.pest: NEWLINE =
   inline_comment? ~ plain_newline inside infix_usage), so a statement written after another one must not
   start with "-".  For EVERY oracle record (whatever format_expr prints), every program: in the model of
   the `blots --format` loop (Formatter.v cli_stmt / format_cli, tied to the binary's output text by the
   SEQUENCES stream) no expression statement after the first one written contributes a text that starts
   with "-" — comment statements count as written statements. *)
Require Blots.proofs.FmtSeq.
Theorem C07_cli_statements_not_minus : forall O s rest,
  Formatter.format_cli O (s :: rest) =
    (Formatter.cli_stmt O true s ++ List.concat (List.map (Formatter.cli_stmt O false) rest))%list /\
  Forall (fun t => Blots.proofs.FmtSeq.is_expr_stmt t = true ->
                   Formatter.starts_with_minus (Formatter.render (Formatter.cli_stmt O false t)) = false) rest.
Proof. exact Blots.proofs.FmtSeq.cli_statements_not_minus. Qed.
Check C07_cli_statements_not_minus : forall O s rest,
  Formatter.format_cli O (s :: rest) =
    (Formatter.cli_stmt O true s ++ List.concat (List.map (Formatter.cli_stmt O false) rest))%list /\
  Forall (fun t => Blots.proofs.FmtSeq.is_expr_stmt t = true ->
                   Formatter.starts_with_minus (Formatter.render (Formatter.cli_stmt O false t)) = false) rest.
Print Assumptions C07_cli_statements_not_minus.

(* the same for the format_blots loop (blots-wasm), which protects statements of every kind *)
Theorem C07_lib_statements_not_minus : forall O mw s,
  Formatter.starts_with_minus (Formatter.render (fst (fst (Formatter.lib_stmt O mw false s)))) = false.
Proof.
  intros O mw s. apply Blots.proofs.FmtSeq.minus_of_dlead. apply Blots.proofs.FmtSeq.lib_statements_not_minus.
Qed.
Check C07_lib_statements_not_minus : forall O mw s,
  Formatter.starts_with_minus (Formatter.render (fst (fst (Formatter.lib_stmt O mw false s)))) = false.
Print Assumptions C07_lib_statements_not_minus.

(* ================================================================ the character level of the layouts: TOKENS
   (proofs/FmtToks.v, FmtToksDoc.v, FmtToksAll.v — extension TOK, notes/ext-tok.md)
   `toks` (FmtTokens.v) is a three-state character automaton (code / string literal / comment).
   (1) It composes: reading a ++ b is reading a, then b from the state a stops in. *)
Require Import Blots.proofs.FmtToks Blots.proofs.FmtToksDoc Blots.proofs.FmtToksAll.
Theorem C07_toks_compose : forall a b m cur,
  toks_from m cur (a ++ b)%string =
  (fst (trun m cur a) ++ toks_from (fst (snd (trun m cur a))) (snd (snd (trun m cur a))) b)%list.
Proof. exact toks_from_app. Qed.
Check C07_toks_compose : forall a b m cur,
  toks_from m cur (a ++ b)%string =
  (fst (trun m cur a) ++ toks_from (fst (snd (trun m cur a))) (snd (snd (trun m cur a))) b)%list.
Print Assumptions C07_toks_compose.

(* The decidable boundary condition `boundary a b`: a stops in code state (every string literal closed,
   not inside a comment) and either a stops with no open chunk (it ends with a blank, a line break, one of
   ( ) [ ] { } , : , a closing quote or a comment line) or b starts with a blank, a line break, one of
   ( ) [ ] { } , : or a quote.  (Two other character classes always merge into one chunk: `toks` does not
   split operators from operands.)  Across a boundary the chunks are the chunks of the two parts. *)
Theorem C07_toks_boundary : forall a b, boundary a b = true -> toks (a ++ b)%string = (toks a ++ toks b)%list.
Proof. exact toks_app_boundary. Qed.
Check C07_toks_boundary : forall a b, boundary a b = true -> toks (a ++ b)%string = (toks a ++ toks b)%list.
Print Assumptions C07_toks_boundary.

(* Separators: blanks, line breaks, indentation, end-of-line comments and comment lines (anything that,
   read with any open chunk, closes it, yields nothing and stops at a chunk boundary) vanish. *)
Theorem C07_toks_separator : forall a sep b, ends_code a = true -> is_sep sep ->
  toks (a ++ sep ++ b)%string = (toks a ++ toks b)%list.
Proof. exact toks_app_sep. Qed.
Check C07_toks_separator : forall a sep b, ends_code a = true -> is_sep sep ->
  toks (a ++ sep ++ b)%string = (toks a ++ toks b)%list.
Print Assumptions C07_toks_separator.
Theorem C07_toks_layout_separators : forall c n m, no_nl c = true ->
  is_sep (Formatter.nl ++ Formatter.make_indent n) /\
  is_sep ("  " ++ ("//" ++ c ++ Formatter.nl) ++ Formatter.make_indent n) /\
  is_sep ((Formatter.nl ++ Formatter.make_indent n) ++ ("//" ++ c ++ Formatter.nl) ++ Formatter.make_indent m).
Proof.
  intros c n m H. split; [apply is_sep_nl_indent|]. split; [apply is_sep_eol_comment, H|apply is_sep_comment_line, H].
Qed.
Check C07_toks_layout_separators : forall c n m, no_nl c = true ->
  is_sep (Formatter.nl ++ Formatter.make_indent n) /\
  is_sep ("  " ++ ("//" ++ c ++ Formatter.nl) ++ Formatter.make_indent n) /\
  is_sep ((Formatter.nl ++ Formatter.make_indent n) ++ ("//" ++ c ++ Formatter.nl) ++ Formatter.make_indent m).
Print Assumptions C07_toks_layout_separators.

(* The two states that swallow separators.  A string literal is ONE chunk whatever it contains (blanks,
   line breaks, brackets, `//`), and the text after it is read from a chunk boundary; a comment runs to
   the end of its line whatever it contains (quotes, brackets). *)
Theorem C07_toks_string_literal : forall q body r cur,
  Formatter.is_quote q = true -> nochar q body = true ->
  toks_from LCode cur (String q (body ++ String q r)) =
  (flush cur ++ String q (body ++ String q EmptyString) :: toks r)%list.
Proof. exact toks_string_lit. Qed.
Check C07_toks_string_literal : forall q body r cur,
  Formatter.is_quote q = true -> nochar q body = true ->
  toks_from LCode cur (String q (body ++ String q r)) =
  (flush cur ++ String q (body ++ String q EmptyString) :: toks r)%list.
Print Assumptions C07_toks_string_literal.
Theorem C07_toks_comment : forall c r, no_nl c = true ->
  trun LCom [] (c ++ String Formatter.NLc r) = trun LCode [] r.
Proof. exact trun_comment. Qed.
Check C07_toks_comment : forall c r, no_nl c = true ->
  trun LCom [] (c ++ String Formatter.NLc r) = trun LCode [] r.
Print Assumptions C07_toks_comment.

(* (2) Documents.  `dok true d` is a decidable check on a document of Formatter.v: every piece, read from a
   chunk boundary, stops in code state, and every seam between pieces is a `boundary`.  Then the chunks of
   the rendered text are the chunks of the pieces, in order. *)
Theorem C07_doc_toks : forall d, dok true d = true ->
  toks (Formatter.render d) = flat_map piece_toks d /\ ends_code (Formatter.render d) = true.
Proof. exact doc_toks. Qed.
Check C07_doc_toks : forall d, dok true d = true ->
  toks (Formatter.render d) = flat_map piece_toks d /\ ends_code (Formatter.render d) = true.
Print Assumptions C07_doc_toks.

(* EVERY layout of formatter.rs — format_expr_impl with the single-line test, format_multiline, the list /
   record / call layouts, format_binary_op_multiline with its via/into/where arm (the re-assembled right
   operand is the document itself: C07_relined_identity; no Relined piece, so no cr_free hypothesis),
   format_conditional_multiline with its else-if chain, format_lambda, format_do_block_multiline with
   protect_leading_minus, assignment, output — for ANY oracle record, width and indentation builds a
   document with such seams only, for every tree with `tok_ok O e` (decidable): no comment annotations
   (true of wf trees), and the texts taken from elsewhere — expr_to_source's and format_single_line's text
   of every sub-expression, assigned names, parameter lists, record keys — stop in code state.
   So no chunk of a laid-out text straddles two pieces and no piece is swallowed by a string or comment.
   PARTIAL with respect to C07_layout_preserves_tokens_full: see C07_layout_view_full below. *)
Theorem C07_layout_tokens_are_pieces_partial : forall O w e i, tok_ok O e = true ->
  toks (Formatter.render (Formatter.fmtd O w e i)) = flat_map piece_toks (Formatter.fmtd O w e i) /\
  ends_code (Formatter.render (Formatter.fmtd O w e i)) = true.
Proof. exact layout_toks. Qed.
Check C07_layout_tokens_are_pieces_partial : forall O w e i, tok_ok O e = true ->
  toks (Formatter.render (Formatter.fmtd O w e i)) = flat_map piece_toks (Formatter.fmtd O w e i) /\
  ends_code (Formatter.render (Formatter.fmtd O w e i)) = true.
Print Assumptions C07_layout_tokens_are_pieces_partial.

(* the hypothesis is satisfiable and the layouts are taken: the tree of C07_example_layout_multiline at
   width 10, and a list / record / call / conditional / do-block tree at width 1 *)
Example C07_example_layout_tokens :
  let O := printer_oracles FX_ALL (policy_new fixed_opinfo) num_text true in
  let e1 := EBin Where (EBin Via (EId "xs") (ELam [AReq "x"] (EBin Add (EBin Multiply (EId "x") (EId "k")) (EId "one"))))
                 (EId "ok") in
  let e2 := EDo [Cm [] (EAssign "t" (ECall (EId "f") [EList [Cm [] (EStr "a // b") None; Cm [] (EId "c") None];
                                                       ERec [Cm [] (REntry (KStatic "k") (EId "v")) None]])) None]
                (Cm [] (ECond (EId "t") (EId "a") (ECond (EId "u") (EId "b") (EId "c"))) None) in
  tok_ok O e1 = true /\ tok_ok O e2 = true /\ wf e1 = true /\ wf e2 = true /\
  Formatter.contains_nl (Formatter.render (Formatter.fmtd O 10 e1 0)) = true /\
  Formatter.contains_nl (Formatter.render (Formatter.fmtd O 1 e2 0)) = true /\
  dok true (Formatter.fmtd O 1 e2 0) = true /\
  lview (Formatter.render (Formatter.fmtd O 1 e2 0)) = lview (print_text FX_ALL (policy_new fixed_opinfo) num_text e2).
Proof. vm_compute. repeat split. Qed.

(* C07_layout_preserves_tokens_full as stated above is REFUTED by the model: it quantifies over every
   number-text oracle and every identifier string, and `wf` does not say that a name is a name.  With the
   "identifier" `//` (which no parser produces) the one-line text `[//, b]` is `[` + a comment, while the
   multi-line layout has `b,` and `]` on lines of their own.  Not a defect of the code: a missing
   hypothesis of the statement (lexical sanity of the leaf texts) — `tok_ok` is that hypothesis. *)
Lemma C07_layout_preserves_tokens_full_refuted : ~ C07_layout_preserves_tokens_full.
Proof.
  intro H.
  specialize (H num_text true 1 (EList [Cm [] (EId "//") None; Cm [] (EId "b") None]) 0 eq_refl eq_refl eq_refl).
  vm_compute in H. discriminate H.
Qed.
Print Assumptions C07_layout_preserves_tokens_full_refuted.

(* The statement to prove, with the hypothesis it needs and WITHOUT cr_free (no longer needed after the
   F55 repair: Formatter.v never builds a Relined piece, see dok_binop_doc / C07_relined_identity).
   Proved towards it (below): the same CHUNKS for the recursive fragment operators / conditionals / assignment /
   do-blocks (C07_layout_view_flat_partial), the same VIEW for lists and calls of chunk-equal elements
   (C07_layout_view_list_partial, C07_layout_view_call_partial, via C07_canon_trailing_comma).
   Still open:
   (a) the general congruence of `canon` (a 4-token look-ahead rewriting) over seams — needed for lists / records /
       calls whose elements are themselves lists / records / calls / lambdas, and for `x =>` (format_lambda,
       format_single_line) against `(x) =>` (expr_to_source);
   (b) the record family (same technique as list / call);
   (c) tok_ok for the printer instance from `wf` + lexical sanity of names, number texts and quoted strings
       (quote_string), and the side condition "last chunk of an element is not `,`" from the same. *)
Definition C07_layout_view_full : Prop := forall numtxt keepc w e i,
  wf e = true -> lam_ok e = true ->
  let O := printer_oracles FX_ALL (policy_new fixed_opinfo) numtxt keepc in
  tok_ok O e = true ->
  lview (Formatter.render (Formatter.fmtd O w e i)) = lview (print_text FX_ALL (policy_new fixed_opinfo) numtxt e).

(* (3) Families closed at the TEXT level (proofs/FmtToksBin.v).  Binary operators (all three arms of
   format_binary_op_multiline incl. via/into/where), conditionals (both arms and the else-if chain of
   format_conditional_multiline) and assignment: for trees whose laid-out part consists of these (`binfam`:
   their operands are again of these kinds, or nodes always printed through expr_to_source — literals, names,
   prefix / postfix operators, index, field), ANY printer version and policy, every width and indentation, the
   laid-out text has exactly the chunks of the one-line text — already before `canon` (this fragment has no
   trailing comma and no lambda), hence the same view.  No wf / lam_ok / cr_free hypothesis is needed.
   PARTIAL with respect to C07_layout_view_full: list / record / call (trailing comma: canon), lambda (`x =>`
   vs `(x) =>`: canon) and do-block (protect_leading_minus against the one-line printer's dominus rule: needs
   lead_fmtd of FmtItems.v) are open. *)
Require Import Blots.proofs.FmtToksBin.
Theorem C07_layout_view_operators_conditionals_partial : forall fx pol numtxt keepc w e i,
  binfam e = true -> tok_ok (printer_oracles fx pol numtxt keepc) e = true ->
  toks (Formatter.render (Formatter.fmtd (printer_oracles fx pol numtxt keepc) w e i)) = toks (print_text fx pol numtxt e) /\
  lview (Formatter.render (Formatter.fmtd (printer_oracles fx pol numtxt keepc) w e i)) = lview (print_text fx pol numtxt e).
Proof.
  intros fx pol numtxt keepc w e i Hb Hk. split.
  - exact (binfam_toks fx pol numtxt keepc w e Hb Hk i).
  - exact (binfam_lview fx pol numtxt keepc w e i Hb Hk).
Qed.
Check C07_layout_view_operators_conditionals_partial : forall fx pol numtxt keepc w e i,
  binfam e = true -> tok_ok (printer_oracles fx pol numtxt keepc) e = true ->
  toks (Formatter.render (Formatter.fmtd (printer_oracles fx pol numtxt keepc) w e i)) = toks (print_text fx pol numtxt e) /\
  lview (Formatter.render (Formatter.fmtd (printer_oracles fx pol numtxt keepc) w e i)) = lview (print_text fx pol numtxt e).
Print Assumptions C07_layout_view_operators_conditionals_partial.

(* hypotheses satisfiable, layouts taken:
   r = if a + b > c then (a - b) * c else if ok then -a ^ 2 else "x // y"   at width 10 *)
Example C07_example_operators_conditionals :
  let O := printer_oracles FX_ALL (policy_new fixed_opinfo) num_text true in
  let e := EAssign "r" (ECond (EBin Greater (EBin Add (EId "a") (EId "b")) (EId "c"))
                              (EBin Multiply (EBin Subtract (EId "a") (EId "b")) (EId "c"))
                              (ECond (EId "ok") (EBin Power (EUn Negate (EId "a")) (ENum nzero))
                                     (EStr "x // y"))) in
  binfam e = true /\ tok_ok O e = true /\ wf e = true /\
  Formatter.contains_nl (Formatter.render (Formatter.fmtd O 10 e 0)) = true.
Proof. vm_compute. repeat split. Qed.

(* The do-block family (proofs/FmtToksDo.v): format_do_block_multiline against the do-block arm of
   expr_to_source.  If every statement x and the returned expression satisfy `child_ok` — lam_ok x, tok_ok x,
   and at every indentation toks (layout of x) = toks (one-line text of x) — then the block's laid-out text has
   exactly the chunks of its one-line text (same chunks, before canon).  protect_leading_minus (decided on the
   LAID-OUT text, "no statement before") agrees with the one-line printer's rule (decided on the one-line text,
   statement index) because no layout changes how a text starts (FmtItems.lead_fmtd): this needs lam_ok, the
   repaired do-block rule and the repaired policy.  A family theorem with the children's equalities as
   hypotheses: it is not yet folded into the recursive fragment `binfam` (the fragment theorem would need
   lam_ok / fx_dominus / policy_new throughout). *)
Require Import Blots.proofs.FmtToksDo.
Theorem C07_layout_view_do_block_partial : forall oi fx numtxt keepc w stmts ret i,
  fx_dominus fx = true ->
  plain_items stmts = true ->
  tok_ok (printer_oracles fx (policy_new oi) numtxt keepc) (EDo stmts (Cm [] ret None)) = true ->
  Forall (fun c => child_ok oi fx numtxt keepc w (cnode c)) stmts -> child_ok oi fx numtxt keepc w ret ->
  toks (Formatter.render (Formatter.fmtd (printer_oracles fx (policy_new oi) numtxt keepc) w (EDo stmts (Cm [] ret None)) i))
  = toks (print_text fx (policy_new oi) numtxt (EDo stmts (Cm [] ret None))).
Proof. intros oi fx numtxt keepc w stmts ret i Hd. exact (do_family oi fx numtxt keepc w Hd stmts ret i). Qed.
Check C07_layout_view_do_block_partial : forall oi fx numtxt keepc w stmts ret i,
  fx_dominus fx = true ->
  plain_items stmts = true ->
  tok_ok (printer_oracles fx (policy_new oi) numtxt keepc) (EDo stmts (Cm [] ret None)) = true ->
  Forall (fun c => child_ok oi fx numtxt keepc w (cnode c)) stmts -> child_ok oi fx numtxt keepc w ret ->
  toks (Formatter.render (Formatter.fmtd (printer_oracles fx (policy_new oi) numtxt keepc) w (EDo stmts (Cm [] ret None)) i))
  = toks (print_text fx (policy_new oi) numtxt (EDo stmts (Cm [] ret None))).
Print Assumptions C07_layout_view_do_block_partial.

(* the hypotheses are satisfiable: a block whose second statement starts with `-` (protected in both
   printers) and whose statements are in the operator / conditional fragment (child_ok from
   C07_layout_view_operators_conditionals_partial) *)
Example C07_example_do_block :
  let O := printer_oracles FX_ALL (policy_new fixed_opinfo) num_text true in
  let s1 := EAssign "t" (EBin Add (EId "a") (EId "b")) in
  let s2 := EBin Subtract (EUn Negate (EId "t")) (EId "c") in
  let r := ECond (EId "ok") (EId "t") (EUn Negate (EId "t")) in
  let e := EDo [Cm [] s1 None; Cm [] s2 None] (Cm [] r None) in
  fx_dominus FX_ALL = true /\ tok_ok O e = true /\ wf e = true /\
  (binfam s1 && binfam s2 && binfam r && lam_ok s1 && lam_ok s2 && lam_ok r)%bool = true /\
  toks (Formatter.render (Formatter.fmtd O 10 e 0)) = toks (print_text FX_ALL (policy_new fixed_opinfo) num_text e) /\
  existsb (String.eqb "(") (toks (Formatter.render (Formatter.fmtd O 10 e 0))) = true.
Proof. vm_compute. repeat split. Qed.

(* The recursive fragment with do-blocks (proofs/FmtToksFlat.v): `flatfam e` — every node a layout function
   recurses into is a binary operator, a conditional, an assignment, a do-block (no comment annotations) or a
   node always printed through expr_to_source (literal, name, prefix / postfix operator, index, field access,
   whatever it contains); no list, record, call or lambda in a laid-out position.  For such trees, at every
   width and indentation, the laid-out text has exactly the chunks of the one-line text, hence the same view.
   PARTIAL with respect to C07_layout_view_full: the list / record / call layouts (trailing comma) and
   format_lambda (`x =>` vs `(x) =>`) differ from the one-line text at the chunk level and need the `canon`
   congruence; nothing else is open at this level. *)
Require Import Blots.proofs.FmtToksFlat.
Theorem C07_layout_view_flat_partial : forall oi fx numtxt keepc w e i,
  fx_dominus fx = true -> flatfam e = true -> lam_ok e = true ->
  tok_ok (printer_oracles fx (policy_new oi) numtxt keepc) e = true ->
  toks (Formatter.render (Formatter.fmtd (printer_oracles fx (policy_new oi) numtxt keepc) w e i))
  = toks (print_text fx (policy_new oi) numtxt e) /\
  lview (Formatter.render (Formatter.fmtd (printer_oracles fx (policy_new oi) numtxt keepc) w e i))
  = lview (print_text fx (policy_new oi) numtxt e).
Proof.
  intros oi fx numtxt keepc w e i Hd Hf Hl Hk.
  pose proof (flatfam_toks oi fx numtxt keepc w Hd e i Hf Hl Hk) as H.
  split; [exact H|]. unfold lview. now rewrite H.
Qed.
Check C07_layout_view_flat_partial : forall oi fx numtxt keepc w e i,
  fx_dominus fx = true -> flatfam e = true -> lam_ok e = true ->
  tok_ok (printer_oracles fx (policy_new oi) numtxt keepc) e = true ->
  toks (Formatter.render (Formatter.fmtd (printer_oracles fx (policy_new oi) numtxt keepc) w e i))
  = toks (print_text fx (policy_new oi) numtxt e) /\
  lview (Formatter.render (Formatter.fmtd (printer_oracles fx (policy_new oi) numtxt keepc) w e i))
  = lview (print_text fx (policy_new oi) numtxt e).
Print Assumptions C07_layout_view_flat_partial.

(* satisfiable, layouts taken: a do-block inside a conditional inside an assignment, second statement
   starting with `-`, width 10 *)
Example C07_example_flat :
  let O := printer_oracles FX_ALL (policy_new fixed_opinfo) num_text true in
  let blk := EDo [Cm [] (EAssign "t" (EBin Add (EId "a") (EId "b"))) None;
                  Cm [] (EBin Subtract (EUn Negate (EId "t")) (EId "c")) None]
                 (Cm [] (ECond (EId "ok") (EId "t") (EUn Negate (EId "t"))) None) in
  let e := EAssign "r" (ECond (EBin Greater (EId "a") (EId "b")) blk (EStr "x // y")) in
  flatfam e = true /\ lam_ok e = true /\ tok_ok O e = true /\ wf e = true /\
  Formatter.contains_nl (Formatter.render (Formatter.fmtd O 10 e 0)) = true.
Proof. vm_compute. repeat split. Qed.

(* The list family at the VIEW level (proofs/FmtToksCanon.v, FmtToksList.v).  `canon` ignores a `,` directly
   before a closer at the end of a chunk list (3-chunk look-ahead; the condition on X is needed: `,,]`). *)
Require Import Blots.proofs.FmtToksCanon Blots.proofs.FmtToksList.
Theorem C07_canon_trailing_comma : forall X c, is_closer c = true -> (X = [] \/ last X "" <> ",") ->
  canon (X ++ [","; c])%list = canon (X ++ [c])%list.
Proof. exact canon_trailing. Qed.
Check C07_canon_trailing_comma : forall X c, is_closer c = true -> (X = [] \/ last X "" <> ",") ->
  canon (X ++ [","; c])%list = canon (X ++ [c])%list.
Print Assumptions C07_canon_trailing_comma.

(* format_list_multiline (a `,` after EVERY element) against expr_to_source (between elements): if every
   element x has `lchild_ok` — tok_ok x, format_single_line's text of x is the one-line text, and at every
   indentation toks (layout of x) = toks (one-line text of x) (true of every element in the fragment of
   C07_layout_view_flat_partial) — and the last chunk of the last element is not `,`, the laid-out list and the
   one-line list have the same view, at every width and indentation, for any printer version.  Family theorem with
   the elements' equalities as hypotheses; elements that are themselves lists / records / calls / lambdas
   (chunk lists equal only up to canon) need the general congruence of canon: open. *)
Theorem C07_layout_view_list_partial : forall fx pol numtxt keepc w items i,
  plain_items items = true ->
  tok_ok (printer_oracles fx pol numtxt keepc) (EList items) = true ->
  Forall (fun c => lchild_ok fx pol numtxt keepc w (cnode c)) items ->
  last ("[" :: joinc (map (Tc fx pol numtxt) items)) "" <> "," ->
  lview (Formatter.render (Formatter.fmtd (printer_oracles fx pol numtxt keepc) w (EList items) i))
  = lview (print_text fx pol numtxt (EList items)).
Proof. exact list_family. Qed.
Check C07_layout_view_list_partial : forall fx pol numtxt keepc w items i,
  plain_items items = true ->
  tok_ok (printer_oracles fx pol numtxt keepc) (EList items) = true ->
  Forall (fun c => lchild_ok fx pol numtxt keepc w (cnode c)) items ->
  last ("[" :: joinc (map (Tc fx pol numtxt) items)) "" <> "," ->
  lview (Formatter.render (Formatter.fmtd (printer_oracles fx pol numtxt keepc) w (EList items) i))
  = lview (print_text fx pol numtxt (EList items)).
Print Assumptions C07_layout_view_list_partial.

(* satisfiable: [a + b, "x, y"] at width 1 (elements from the operator fragment) *)
Example C07_example_list :
  let O := printer_oracles FX_ALL (policy_new fixed_opinfo) num_text true in
  let items := [Cm [] (EBin Add (EId "a") (EId "b")) None; Cm [] (EStr "x, y") None] in
  plain_items items = true /\ tok_ok O (EList items) = true /\
  Forall (fun c => lchild_ok FX_ALL (policy_new fixed_opinfo) num_text true 1 (cnode c)) items /\
  last ("[" :: joinc (map (Tc FX_ALL (policy_new fixed_opinfo) num_text) items)) "" <> "," /\
  Formatter.contains_nl (Formatter.render (Formatter.fmtd O 1 (EList items) 0)) = true /\
  toks (Formatter.render (Formatter.fmtd O 1 (EList items) 0))
  <> toks (print_text FX_ALL (policy_new fixed_opinfo) num_text (EList items)).
Proof.
  cbv zeta. split; [reflexivity|]. split; [vm_compute; reflexivity|]. split.
  - repeat constructor; try (vm_compute; reflexivity);
      intro j; apply binfam_toks; vm_compute; reflexivity.
  - split; [vm_compute; discriminate|]. split; [vm_compute; reflexivity|vm_compute; discriminate].
Qed.

(* The call family (proofs/FmtToksCall.v): format_call_multiline (a `,` after EVERY argument; the grammar admits
   the last one only because a line break follows) against expr_to_source, for a callee and arguments with
   `lchild_ok`, a policy whose callee rule is needs_parens_in_postfix (pC = pP: true of the repaired policy), and
   "the last chunk before the trailing comma is not `,`": same view at every width and indentation. *)
Require Import Blots.proofs.FmtToksCall.
Theorem C07_layout_view_call_partial : forall fx pol numtxt keepc w,
  (forall c, pC pol c = pP pol c) ->
  forall f args i,
  tok_ok (printer_oracles fx pol numtxt keepc) (ECall f args) = true ->
  lchild_ok fx pol numtxt keepc w f -> Forall (lchild_ok fx pol numtxt keepc w) args ->
  last (wrapT (pP pol f) (Te fx pol numtxt f) ++ "(" :: joinc (map (Te fx pol numtxt) args))%list "" <> "," ->
  lview (Formatter.render (Formatter.fmtd (printer_oracles fx pol numtxt keepc) w (ECall f args) i))
  = lview (print_text fx pol numtxt (ECall f args)).
Proof. exact call_family. Qed.
Check C07_layout_view_call_partial : forall fx pol numtxt keepc w,
  (forall c, pC pol c = pP pol c) ->
  forall f args i,
  tok_ok (printer_oracles fx pol numtxt keepc) (ECall f args) = true ->
  lchild_ok fx pol numtxt keepc w f -> Forall (lchild_ok fx pol numtxt keepc w) args ->
  last (wrapT (pP pol f) (Te fx pol numtxt f) ++ "(" :: joinc (map (Te fx pol numtxt) args))%list "" <> "," ->
  lview (Formatter.render (Formatter.fmtd (printer_oracles fx pol numtxt keepc) w (ECall f args) i))
  = lview (print_text fx pol numtxt (ECall f args)).
Print Assumptions C07_layout_view_call_partial.

(* satisfiable: f(a + b, "x, y") at width 1 *)
Example C07_example_call :
  let O := printer_oracles FX_ALL (policy_new fixed_opinfo) num_text true in
  let args := [EBin Add (EId "a") (EId "b"); EStr "x, y"] in
  (forall c, pC (policy_new fixed_opinfo) c = pP (policy_new fixed_opinfo) c) /\
  tok_ok O (ECall (EId "f") args) = true /\
  lchild_ok FX_ALL (policy_new fixed_opinfo) num_text true 1 (EId "f") /\
  Forall (lchild_ok FX_ALL (policy_new fixed_opinfo) num_text true 1) args /\
  Formatter.contains_nl (Formatter.render (Formatter.fmtd O 1 (ECall (EId "f") args) 0)) = true.
Proof.
  cbv zeta. split; [reflexivity|]. split; [vm_compute; reflexivity|]. split.
  - repeat split; try (vm_compute; reflexivity). intro j; apply binfam_toks; vm_compute; reflexivity.
  - split; [|vm_compute; reflexivity].
    repeat constructor; try (vm_compute; reflexivity); intro j; apply binfam_toks; vm_compute; reflexivity.
Qed.
