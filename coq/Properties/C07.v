(* Property C07 — the formatter preserves program meaning.  Statements only; proofs in
   proofs/PrintRefute.v, proofs/PrintRT.v.  See notes/C07.md. *)
From Coq Require Import String List Bool Arith.
Require Import Blots.Num Blots.gen.Builtins Blots.Ast Blots.Outcome Blots.PrattTypes Blots.gen.PrecTable
               Blots.Pratt Blots.PrattRender Blots.Printer Blots.proofs.PrattRT Blots.proofs.PrintRefute.
Import ListNotations.

(* ---- refutations on the pinned printer: one witness per known-finding class ---- *)
Theorem C07_unary_operand_refuted : refuted_in KUnary.
Proof. exact unary_operand_refuted. Qed.
Check C07_unary_operand_refuted : refuted_in KUnary.
Print Assumptions C07_unary_operand_refuted.

Theorem C07_postfix_operand_refuted : refuted_in KPostfix.
Proof. exact postfix_operand_refuted. Qed.
Check C07_postfix_operand_refuted : refuted_in KPostfix.
Print Assumptions C07_postfix_operand_refuted.

Theorem C07_open_left_refuted : refuted_in KOpenL.
Proof. exact open_left_refuted. Qed.
Check C07_open_left_refuted : refuted_in KOpenL.
Print Assumptions C07_open_left_refuted.

Theorem C07_binary_right_refuted : refuted_in KBinR.
Proof. exact binary_right_refuted. Qed.
Check C07_binary_right_refuted : refuted_in KBinR.
Print Assumptions C07_binary_right_refuted.

Theorem C07_binary_left_refuted : refuted_in KBinL.
Proof. exact binary_left_refuted. Qed.
Check C07_binary_left_refuted : refuted_in KBinL.
Print Assumptions C07_binary_left_refuted.

Theorem C07_lambda_body_refuted : refuted_in KLamBody.
Proof. exact lambda_body_refuted. Qed.
Check C07_lambda_body_refuted : refuted_in KLamBody.
Print Assumptions C07_lambda_body_refuted.

Theorem C07_quote_refuted : refuted_in KQuote.
Proof. exact quote_refuted. Qed.
Check C07_quote_refuted : refuted_in KQuote.
Print Assumptions C07_quote_refuted.

Theorem C07_do_minus_refuted : refuted_in KDoMinus.
Proof. exact do_minus_refuted. Qed.
Check C07_do_minus_refuted : refuted_in KDoMinus.
Print Assumptions C07_do_minus_refuted.
