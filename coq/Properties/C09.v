(* C09 — Formatting never loses or reorders comments.
   Property theorems only.  The model is coq/Formatter.v (document form of formatter.rs and of the
   two statement drivers), tied to the code by the FORMAT correspondence stream (checks/c09.py);
   expr_to_source / needs_parens_in_binop / format_record_key are Section oracles: every theorem
   below holds for ALL oracles. *)
From Coq Require Import String List ZArith Bool.
Require Import Blots.Num Blots.gen.Builtins Blots.Ast Blots.gen.ParensTable Blots.Formatter
  Blots.proofs.Comments Blots.proofs.Scan Blots.proofs.ScanFmt Blots.proofs.DriverText
  Blots.proofs.NestedFix.
Import ListNotations.
Open Scope string_scope.
Open Scope list_scope.

(* doc_accounts_for_all_comments: for every layout (single line, list, record, do-block, lambda,
   conditional chain, call, binary operator, via/into/where), width and indentation, the comment
   sequence of the commented AST equals, in order, the comments the produced document shows
   interleaved with the comments carried by the sub-expressions it printed through
   expr_to_source.  Nothing is duplicated, reordered or invented. *)
Theorem C09_doc_accounts_for_all_comments :
  forall O w e i, wf_ast e = true ->
  doc_all_comments (fmtd O w e i) = expr_comments e.
Proof. exact fmtd_accounts_for_all_comments. Qed.
Check C09_doc_accounts_for_all_comments :
  forall O w e i, wf_ast e = true ->
  doc_all_comments (fmtd O w e i) = expr_comments e.
Print Assumptions C09_doc_accounts_for_all_comments.

(* doc_comments_preserved: the comments shown are exactly the AST's, provided no expression
   printed through expr_to_source carries a comment (the exclusion = known finding
   C09-opaque-nested, see C09_opaque_comment_refuted). *)
Theorem C09_doc_comments_preserved :
  forall O w e i, wf_ast e = true ->
  forallb cfree (doc_opaque (fmtd O w e i)) = true ->
  doc_comments (fmtd O w e i) = expr_comments e.
Proof. exact fmtd_comments_preserved. Qed.
Check C09_doc_comments_preserved :
  forall O w e i, wf_ast e = true ->
  forallb cfree (doc_opaque (fmtd O w e i)) = true ->
  doc_comments (fmtd O w e i) = expr_comments e.
Print Assumptions C09_doc_comments_preserved.

(* the hypotheses are satisfiable by a program with comments in every slot:
     x = [ // a \n 1, // b \n {k: do { // c \n q = 1 // d \n // e \n return q }, // f \n }, // g \n ]   *)
Definition ex_O : oracles := oracles_impl true op_info_table [(0x3ff0000000000000, "1")]%Z.
Definition ex_commented : expr :=
  EAssign "x" (EList [Cm ["// a"] (ENum (nb 0x3ff0000000000000)) None;
                      Cm ["// b"] (ERec [Cm [] (REntry (KStatic "k")
                                           (EDo [Cm ["// c"] (EAssign "q" (ENum (nb 0x3ff0000000000000))) (Some "// d")]
                                                (Cm ["// e"] (EId "q") None))) (Some "// f")])
                         (Some "// g")]).
Example C09_hypotheses_satisfiable :
  wf_ast ex_commented = true /\
  forallb cfree (doc_opaque (fmtd ex_O 80 ex_commented 0)) = true /\
  expr_comments ex_commented = ["// a"; "// b"; "// c"; "// d"; "// e"; "// f"; "// g"].
Proof. vm_compute. repeat split. Qed.

(* REFUTED without the exclusion for the formatter before ff5578e (finding C09-opaque-nested, fixed; the
   current formatter satisfies C09_fixed_doc_comments_preserved below): a comment inside a list
   that is the operand of a unary operator is dropped for every width and every oracle, by
   formatter.rs as it is (o_keep_nested_comments = false). *)
Lemma C09_opaque_comment_refuted :
  forall O w i, o_keep_nested_comments O = false ->
  let e := EUn Negate (EList [Cm ["// c"] (EId "a") None]) in
  wf_ast e = true /\ expr_comments e = ["// c"] /\ doc_comments (fmtd O w e i) = [].
Proof.
  intros O w i Hk. repeat split. cbn. rewrite Hk. cbn [andb negb].
  rewrite andb_true_r. destruct (fits_single _ _ _ _); reflexivity.
Qed.

(* driver_comments_preserved, library driver (blots-wasm format_blots; mirrored in the harness) *)
Theorem C09_lib_driver_accounts :
  forall O mw p d, forallb wf_stmt p = true ->
  format_lib O mw p = Some d -> doc_all_comments d = program_comments p.
Proof. exact lib_driver_accounts. Qed.
Check C09_lib_driver_accounts :
  forall O mw p d, forallb wf_stmt p = true ->
  format_lib O mw p = Some d -> doc_all_comments d = program_comments p.
Print Assumptions C09_lib_driver_accounts.

(* driver_comments_preserved, CLI driver (blots --format; until 9255709 this loop looked only at
   the first inner pair of a statement and dropped every end-of-line comment — F19, fixed; the
   witness `x = 1 // note` stays in corpus/C09) *)
Theorem C09_cli_driver_accounts :
  forall O p, forallb wf_stmt p = true ->
  doc_all_comments (format_cli O p) = program_comments p.
Proof. exact cli_driver_accounts. Qed.
Check C09_cli_driver_accounts :
  forall O p, forallb wf_stmt p = true ->
  doc_all_comments (format_cli O p) = program_comments p.
Print Assumptions C09_cli_driver_accounts.

(* render_scan: the lexer-level scan (outside string literals) of the rendered text of a document
   yields exactly the comments the document shows, in order — provided every code piece is
   lexically self-contained (`//` and quotes only inside balanced string literals), every
   comment piece is a comment text, and every comment is followed by a line break or ends the
   document (wf_doc).  Together with the theorems above: scanning the formatter's text gives
   the AST's comments. *)
Theorem C09_render_scan : forall d, wf_doc d -> scan_comments (render d) = doc_comments d.
Proof. exact render_scan. Qed.
Check C09_render_scan : forall d, wf_doc d -> scan_comments (render d) = doc_comments d.
Print Assumptions C09_render_scan.

(* wf_doc holds for the document of the example program above (so the chain
   scan (text) = doc comments = AST comments is non-vacuous) *)
Example C09_render_scan_example :
  let d := fmtd ex_O 80 ex_commented 0 in
  wf_doc d /\ scan_comments (render d) = expr_comments ex_commented.
Proof. vm_compute. repeat split. Qed.

(* no layout merges a comment into code or code into a comment: the document of every
   expression is well-formed for the scanner, for every width and indentation, given
   (a) the strings the layouts print themselves are harmless (atoms_ok: assigned names, parameter
       names, shorthand keys contain no quote and no slash; static keys are accepted by key_ok,
       for which format_record_key's text is self-contained; every comment is "//" + text without
       a line break, a trailing field being such lines joined by newlines), and
   (b) the texts printed through expr_to_source that occur in the document are lexically
       self-contained (opaque_texts_neutral; expr_to_source is library-side here). *)
Theorem C09_fmtd_wf_doc :
  forall O key_ok, (forall k, key_ok k = true -> neutral (o_record_key O k)) ->
  forall w e i, atoms_ok key_ok e = true ->
  opaque_texts_neutral (fmtd O w e i) -> wf_doc (fmtd O w e i).
Proof. exact fmtd_wf_doc. Qed.
Check C09_fmtd_wf_doc :
  forall O key_ok, (forall k, key_ok k = true -> neutral (o_record_key O k)) ->
  forall w e i, atoms_ok key_ok e = true ->
  opaque_texts_neutral (fmtd O w e i) -> wf_doc (fmtd O w e i).
Print Assumptions C09_fmtd_wf_doc.

(* the chain: the comments a lexer-level scan finds in the text the formatter prints for an
   expression are the comments of its AST, in order (outside known finding C09-opaque-nested) *)
Theorem C09_fmtd_text_comments :
  forall O key_ok, (forall k, key_ok k = true -> neutral (o_record_key O k)) ->
  forall w e i, wf_ast e = true -> atoms_ok key_ok e = true ->
  forallb cfree (doc_opaque (fmtd O w e i)) = true ->
  opaque_texts_neutral (fmtd O w e i) ->
  scan_comments (render (fmtd O w e i)) = expr_comments e.
Proof. exact fmtd_text_comments. Qed.
Check C09_fmtd_text_comments :
  forall O key_ok, (forall k, key_ok k = true -> neutral (o_record_key O k)) ->
  forall w e i, wf_ast e = true -> atoms_ok key_ok e = true ->
  forallb cfree (doc_opaque (fmtd O w e i)) = true ->
  opaque_texts_neutral (fmtd O w e i) ->
  scan_comments (render (fmtd O w e i)) = expr_comments e.
Print Assumptions C09_fmtd_text_comments.

(* all hypotheses hold for the example program with the executable oracles *)
Example C09_text_comments_hypotheses_satisfiable :
  (forall k, is_valid_identifier k = true -> neutral (record_key_impl k)) /\
  atoms_ok is_valid_identifier ex_commented = true /\
  opaque_texts_neutral (fmtd ex_O 80 ex_commented 0).
Proof.
  split; [exact record_key_impl_neutral|]. split; [reflexivity|].
  vm_compute. repeat constructor.
Qed.

(* the property at text level for both drivers: the comments a lexer-level scan finds in the text
   the driver emits are the program's comments (expression-level, standalone and end-of-line), in
   order.  stmt_ok = per statement the hypotheses of C09_fmtd_text_comments at the driver's width,
   comments are comment texts, and a comment statement has no second comment. *)
Theorem C09_lib_driver_text_comments :
  forall O key_ok, (forall k, key_ok k = true -> neutral (o_record_key O k)) ->
  forall mw p d, Forall (stmt_ok O key_ok mw) p ->
  format_lib O mw p = Some d -> scan_comments (render d) = program_comments p.
Proof. exact lib_driver_text_comments. Qed.
Check C09_lib_driver_text_comments :
  forall O key_ok, (forall k, key_ok k = true -> neutral (o_record_key O k)) ->
  forall mw p d, Forall (stmt_ok O key_ok mw) p ->
  format_lib O mw p = Some d -> scan_comments (render d) = program_comments p.
Print Assumptions C09_lib_driver_text_comments.

Theorem C09_cli_driver_text_comments :
  forall O key_ok, (forall k, key_ok k = true -> neutral (o_record_key O k)) ->
  forall p, Forall (stmt_ok O key_ok None) p ->
  scan_comments (render (format_cli O p)) = program_comments p.
Proof. exact cli_driver_text_comments. Qed.
Check C09_cli_driver_text_comments :
  forall O key_ok, (forall k, key_ok k = true -> neutral (o_record_key O k)) ->
  forall p, Forall (stmt_ok O key_ok None) p ->
  scan_comments (render (format_cli O p)) = program_comments p.
Print Assumptions C09_cli_driver_text_comments.

(* a two-statement program satisfying stmt_ok with the executable oracles *)
Example C09_driver_hypotheses_satisfiable :
  Forall (stmt_ok ex_O is_valid_identifier None)
    [St (SComment "// top") None 1 1; St (SExpr ex_commented) (Some "// eol") 2 12].
Proof.
  repeat constructor; try reflexivity; vm_compute; repeat constructor.
Qed.

(* ---- formatter.rs as it is since ff5578e = fixes/C09-nested-comments.diff (o_keep_nested_comments O = true):
   an expression that contains a comment is never printed through expr_to_source ... *)
Theorem C09_fixed_opaque_exprs_comment_free :
  forall O, o_keep_nested_comments O = true ->
  forall w e i, Forall (fun p => match p with Opaque x _ => cfree x = true | _ => True end) (fmtd O w e i).
Proof. exact fixed_opaque_exprs_comment_free. Qed.
Check C09_fixed_opaque_exprs_comment_free :
  forall O, o_keep_nested_comments O = true ->
  forall w e i, Forall (fun p => match p with Opaque x _ => cfree x = true | _ => True end) (fmtd O w e i).
Print Assumptions C09_fixed_opaque_exprs_comment_free.

(* ... so the document shows every comment of the AST: the exclusion of C09_doc_comments_preserved
   (known finding C09-opaque-nested) is gone.  The only remaining proviso is technical: no
   via/into/where lambda operand had to be re-assembled from lines() (that happens only for a
   text with "\r\n" inside, and keeps the comments in the text). *)
Theorem C09_fixed_doc_comments_preserved :
  forall O, o_keep_nested_comments O = true ->
  forall w e i, wf_ast e = true -> doc_relined (fmtd O w e i) = [] ->
  doc_comments (fmtd O w e i) = expr_comments e.
Proof. exact fixed_comments_preserved. Qed.
Check C09_fixed_doc_comments_preserved :
  forall O, o_keep_nested_comments O = true ->
  forall w e i, wf_ast e = true -> doc_relined (fmtd O w e i) = [] ->
  doc_comments (fmtd O w e i) = expr_comments e.
Print Assumptions C09_fixed_doc_comments_preserved.

(* the witness of C09_opaque_comment_refuted under the repaired formatter: `-[ // c` newline `a ]` *)
Example C09_fixed_witness :
  let O := oracles_impl true op_info_table [] in
  let e := EUn Negate (EList [Cm ["// c"] (EId "a") None]) in
  doc_comments (fmtd O 80 e 0) = ["// c"] /\
  render (fmtd O 80 e 0) = ("-[" ++ nl ++ "  // c" ++ nl ++ "  a," ++ nl ++ "]")%string.
Proof. vm_compute. split; reflexivity. Qed.

(* ======================================================================================================
   PARSER HALF (coq/PegComments.v): from the pair tree of the PEG model (coq/Peg.v on gen/Grammar.v) through the
   drivers' statement loop and pairs_to_expr_with_comments to the commented program the formatter half is about.
   Hypotheses: forest_view_ok (the item view reads every comment pair of the tree) and forest_shape_ok (one
   return_statement, last, per do_block; no line feed inside a comment text; a comment-only do_statement has no
   second comment) are decidable grammar-shape facts, TESTED on every tree the interpreter produces by the C09P
   correspondence stream (not proved of the interpreter); forest_no_empty_container is the EXCLUSION = known
   finding C09-empty-container. *)
Require Import Blots.Outcome Blots.Peg Blots.gen.Grammar Blots.PegToItems Blots.PegComments
  Blots.proofs.PegComments Blots.proofs.PegCommentsCompose.

(* pairs_to_expr_with_comments keeps every comment of its token stream, in order *)
Theorem C09_glue_keeps_comments : forall its t,
  shapes_ok its = true -> no_empty_containers its = true ->
  pratt_c its = Outcome.Ok (Some t) -> expr_comments t = items_comments its.
Proof. exact pratt_c_keeps_comments. Qed.
Check C09_glue_keeps_comments : forall its t,
  shapes_ok its = true -> no_empty_containers its = true ->
  pratt_c its = Outcome.Ok (Some t) -> expr_comments t = items_comments its.
Print Assumptions C09_glue_keeps_comments.

(* (a) the texts of the comment / eol_comment pairs of the tree, in tree order = the comments of the commented
   program the drivers hand to the formatter *)
Theorem C09_parse_keeps_comments : forall text forest p,
  forest_view_ok text forest = true ->
  forest_shape_ok text forest = true ->
  forest_no_empty_container text forest = true ->
  program_of_forest text forest = Outcome.Ok (Some p) ->
  program_comments p = forest_comments text forest.
Proof. exact parse_keeps_comments. Qed.
Check C09_parse_keeps_comments : forall text forest p,
  forest_view_ok text forest = true ->
  forest_shape_ok text forest = true ->
  forest_no_empty_container text forest = true ->
  program_of_forest text forest = Outcome.Ok (Some p) ->
  program_comments p = forest_comments text forest.
Print Assumptions C09_parse_keeps_comments.

(* the exclusion is necessary (finding C09-empty-container): `[ // c <LF> ]` satisfies the two shape hypotheses,
   its tree has the pair "// c", the program built from it has no comment *)
Lemma C09_parse_keeps_comments_refuted :
  exists forest p,
    parse_program_c empty_container_witness = PCOk forest p
    /\ forest_view_ok empty_container_witness forest = true
    /\ forest_shape_ok empty_container_witness forest = true
    /\ forest_no_empty_container empty_container_witness forest = false
    /\ forest_comments empty_container_witness forest = ["// c"]
    /\ program_comments p = [].
Proof. exact parse_keeps_comments_refuted. Qed.

(* (b) end to end, token tree -> emitted text, both drivers: a lexer-level scan of the formatted text finds exactly
   the comment pairs of the tree, in order *)
Theorem C09_tree_to_text_lib :
  forall O key_ok, (forall k, key_ok k = true -> neutral (o_record_key O k)) ->
  forall text forest p mw d,
  forest_view_ok text forest = true -> forest_shape_ok text forest = true ->
  forest_no_empty_container text forest = true ->
  program_of_forest text forest = Outcome.Ok (Some p) ->
  Forall (stmt_ok O key_ok mw) p -> format_lib O mw p = Some d ->
  scan_comments (render d) = forest_comments text forest.
Proof. exact tree_to_text_lib. Qed.
Check C09_tree_to_text_lib :
  forall O key_ok, (forall k, key_ok k = true -> neutral (o_record_key O k)) ->
  forall text forest p mw d,
  forest_view_ok text forest = true -> forest_shape_ok text forest = true ->
  forest_no_empty_container text forest = true ->
  program_of_forest text forest = Outcome.Ok (Some p) ->
  Forall (stmt_ok O key_ok mw) p -> format_lib O mw p = Some d ->
  scan_comments (render d) = forest_comments text forest.
Print Assumptions C09_tree_to_text_lib.

Theorem C09_tree_to_text_cli :
  forall O key_ok, (forall k, key_ok k = true -> neutral (o_record_key O k)) ->
  forall text forest p,
  forest_view_ok text forest = true -> forest_shape_ok text forest = true ->
  forest_no_empty_container text forest = true ->
  program_of_forest text forest = Outcome.Ok (Some p) ->
  Forall (stmt_ok O key_ok None) p ->
  scan_comments (render (format_cli O p)) = forest_comments text forest.
Proof. exact tree_to_text_cli. Qed.
Check C09_tree_to_text_cli :
  forall O key_ok, (forall k, key_ok k = true -> neutral (o_record_key O k)) ->
  forall text forest p,
  forest_view_ok text forest = true -> forest_shape_ok text forest = true ->
  forest_no_empty_container text forest = true ->
  program_of_forest text forest = Outcome.Ok (Some p) ->
  Forall (stmt_ok O key_ok None) p ->
  scan_comments (render (format_cli O p)) = forest_comments text forest.
Print Assumptions C09_tree_to_text_cli.

(* (c) F20 at the grammar level, on the regenerated grammar (exhaustive over its rule table): NEWLINE,
   inline_comment, plain_newline are silent and call only each other, and inline_comment is referenced by NEWLINE
   only — a "//" run read through NEWLINE can produce no pair; `comment` / `eol_comment` are the only other readers *)
Theorem C09_newline_rules_silent_and_closed :
  forallb (fun r => is_silent r &&
                    forallb (fun x => existsb (grule_eqb x) newline_closure) (expr_idents (rd_body (grule_def r))))
          newline_closure = true.
Proof. exact newline_rules_silent_and_closed. Qed.
Check C09_newline_rules_silent_and_closed :
  forallb (fun r => is_silent r &&
                    forallb (fun x => existsb (grule_eqb x) newline_closure) (expr_idents (rd_body (grule_def r))))
          newline_closure = true.
Print Assumptions C09_newline_rules_silent_and_closed.
Theorem C09_inline_comment_only_in_NEWLINE :
  filter (fun r => mentions PG_inline_comment (rd_body (grule_def r))) all_grules = [PG_NEWLINE].
Proof. exact inline_comment_only_in_NEWLINE. Qed.
Check C09_inline_comment_only_in_NEWLINE :
  filter (fun r => mentions PG_inline_comment (rd_body (grule_def r))) all_grules = [PG_NEWLINE].
Print Assumptions C09_inline_comment_only_in_NEWLINE.
(* kept, not proved: the interpreter-level consequence for every grammar (quiet rules emit no pairs) *)
Definition C09_quiet_rules_emit_no_pairs_full : Prop := quiet_rules_emit_no_pairs_full.
(* F20 witness through the interpreter (6 bytes), and the contrasting text where the same "//" is a pair *)
Lemma C09_f20_witness_swallowed :
  scan_comments f20_witness = ["//"]
  /\ exists forest p, parse_program_c f20_witness = PCOk forest p
                      /\ forest_comments f20_witness forest = []
                      /\ program_comments p = [].
Proof. exact f20_witness_swallowed. Qed.

(* ======================================================================================================
   PARSER HALF, second round (C09P2): proofs/PegQuiet.v, proofs/PegShape.v, proofs/PegCommentsWf.v *)
Require Import Blots.proofs.PegGeneric Blots.proofs.PegQuiet Blots.proofs.PegShape Blots.proofs.PegCommentsWf
  Blots.proofs.Comments Blots.proofs.ScanFmt Blots.proofs.DriverText.

(* (c') QUIET RULES EMIT NO PAIRS — for EVERY grammar, every expression, state, fuel, mode, atomicity, lookahead:
   if Q is a set of silent rules whose bodies reference only rules of Q, and it contains the grammar's implicit-skip
   rules, then running any expression that references only rules of Q leaves the produced pairs unchanged *)
Theorem C09_quiet_rules_emit_no_pairs :
  forall (R : Type) (G : grammar R) (Q : R -> bool),
  (forall r, Q r = true -> rd_mod (g_def G r) = MSilent) ->
  (forall r, Q r = true -> forallb Q (idents R (rd_body (g_def G r))) = true) ->
  (forall w, g_ws G = Some w -> Q w = true) ->
  (forall c, g_comment G = Some c -> Q c = true) ->
  forall fuel m a la e s s',
  forallb Q (idents R e) = true ->
  (run G fuel m a la e s = Peg.Ok s' \/ run G fuel m a la e s = Peg.Fail s') ->
  out s' = out s.
Proof. exact quiet_rules_emit_no_pairs. Qed.
Check C09_quiet_rules_emit_no_pairs :
  forall (R : Type) (G : grammar R) (Q : R -> bool),
  (forall r, Q r = true -> rd_mod (g_def G r) = MSilent) ->
  (forall r, Q r = true -> forallb Q (idents R (rd_body (g_def G r))) = true) ->
  (forall w, g_ws G = Some w -> Q w = true) ->
  (forall c, g_comment G = Some c -> Q c = true) ->
  forall fuel m a la e s s',
  forallb Q (idents R e) = true ->
  (run G fuel m a la e s = Peg.Ok s' \/ run G fuel m a la e s = Peg.Fail s') ->
  out s' = out s.
Print Assumptions C09_quiet_rules_emit_no_pairs.

(* the statement kept as a Definition in the previous round, now a theorem *)
Theorem C09_quiet_rules_emit_no_pairs_on_grammar : C09_quiet_rules_emit_no_pairs_full.
Proof. exact quiet_rules_emit_no_pairs_blots. Qed.
Check C09_quiet_rules_emit_no_pairs_on_grammar : C09_quiet_rules_emit_no_pairs_full.
Print Assumptions C09_quiet_rules_emit_no_pairs_on_grammar.

(* F20 as a theorem on the regenerated grammar: for EVERY text (state), calling context and fuel, what NEWLINE reads
   (an optional "//" run up to the line break, then the line break) yields no pair *)
Theorem C09_newline_never_yields_a_pair : forall fuel m a la s s',
  (run blots_grammar fuel m a la (Ident PG_NEWLINE) s = Peg.Ok s' \/
   run blots_grammar fuel m a la (Ident PG_NEWLINE) s = Peg.Fail s') ->
  out s' = out s.
Proof. exact newline_never_yields_a_pair. Qed.
Check C09_newline_never_yields_a_pair : forall fuel m a la s s',
  (run blots_grammar fuel m a la (Ident PG_NEWLINE) s = Peg.Ok s' \/
   run blots_grammar fuel m a la (Ident PG_NEWLINE) s = Peg.Fail s') ->
  out s' = out s.
Print Assumptions C09_newline_never_yields_a_pair.

(* (d) SHAPE of the interpreter's trees, PROVED of Peg.parse (previously only tested on every tree).
   Generic tool: a per-rule postcondition established for each rule BODY holds of every node of every tree *)
Theorem C09_shape_postconditions_hold_of_every_node :
  forall (R : Type) (G : grammar R) (text : string) (C : R -> string -> list (tree R) -> Prop),
  (forall f, body_gives R G text C (run G f)) ->
  forall f r s', Peg.parse G f r text = Peg.Ok s' -> forest_all R text C (out s').
Proof. exact parse_nodes. Qed.
Check C09_shape_postconditions_hold_of_every_node :
  forall (R : Type) (G : grammar R) (text : string) (C : R -> string -> list (tree R) -> Prop),
  (forall f, body_gives R G text C (run G f)) ->
  forall f r s', Peg.parse G f r text = Peg.Ok s' -> forest_all R text C (out s').
Print Assumptions C09_shape_postconditions_hold_of_every_node.

(* the text of every `comment` / `eol_comment` pair, at any depth, is "//" ++ r with no line feed in r
   (conjunct "no \n inside a comment text" of forest_shape_ok, and "comments are //…" of atoms_ok) *)
Theorem C09_shape_comment_texts : forall fuel text s',
  Peg.parse blots_grammar fuel PG_input text = Peg.Ok s' ->
  Forall comment_text_ok (forest_comments text (rev (out s'))).
Proof. exact shape_comment_texts. Qed.
Check C09_shape_comment_texts : forall fuel text s',
  Peg.parse blots_grammar fuel PG_input text = Peg.Ok s' ->
  Forall comment_text_ok (forest_comments text (rev (out s'))).
Print Assumptions C09_shape_comment_texts.
Theorem C09_shape_comment_texts_program : forall text forest p,
  parse_program_c text = PCOk forest p -> Forall comment_text_ok (forest_comments text forest).
Proof. exact shape_comment_texts_program. Qed.
Check C09_shape_comment_texts_program : forall text forest p,
  parse_program_c text = PCOk forest p -> Forall comment_text_ok (forest_comments text forest).
Print Assumptions C09_shape_comment_texts_program.

(* the inner pairs of every do_block node are (comment | do_statement)* return_statement — exactly one
   return_statement, and it is last; a return_statement has exactly one inner pair (its expression); a do_statement /
   list_item / record_item / statement is one pair optionally followed by one (eol_)comment pair  [kids_spec] *)
Theorem C09_shape_inner_pairs : forall fuel text s',
  Peg.parse blots_grammar fuel PG_input text = Peg.Ok s' ->
  forest_all grule text C_kids (rev (out s')).
Proof. exact shape_kids. Qed.
Check C09_shape_inner_pairs : forall fuel text s',
  Peg.parse blots_grammar fuel PG_input text = Peg.Ok s' ->
  forest_all grule text C_kids (rev (out s')).
Print Assumptions C09_shape_inner_pairs.
Example C09_shape_do_block_reading : forall l,
  kids_spec PG_do_block l <->
  exists pre, l = pre ++ [PG_return_statement] /\ Forall (fun x => x = PG_comment \/ x = PG_do_statement) pre.
Proof. intro l. reflexivity. Qed.

(* (e) wf_ast, a hypothesis of the formatter half inside stmt_ok, DERIVED from the parser model: everything
   pairs_to_expr_with_comments returns is wf_ast (for every token stream) ... *)
Theorem C09_parser_output_wf_ast : forall its t, pratt_c its = Outcome.Ok (Some t) -> wf_ast t = true.
Proof. exact pratt_c_wf_ast. Qed.
Check C09_parser_output_wf_ast : forall its t, pratt_c its = Outcome.Ok (Some t) -> wf_ast t = true.
Print Assumptions C09_parser_output_wf_ast.
Theorem C09_parsed_program_wf_ast : forall text forest p,
  parse_program_c text = PCOk forest p -> forallb stmt_wf_ast p = true.
Proof. exact parse_program_c_wf. Qed.
Check C09_parsed_program_wf_ast : forall text forest p,
  parse_program_c text = PCOk forest p -> forallb stmt_wf_ast p = true.
Print Assumptions C09_parsed_program_wf_ast.

(* ... so the end-to-end theorems hold with stmt_ok_parsed = stmt_ok minus its wf_ast conjunct *)
Theorem C09_tree_to_text_lib_parsed :
  forall O key_ok, (forall k, key_ok k = true -> neutral (o_record_key O k)) ->
  forall text forest p mw d,
  forest_view_ok text forest = true -> forest_shape_ok text forest = true ->
  forest_no_empty_container text forest = true ->
  program_of_forest text forest = Outcome.Ok (Some p) ->
  Forall (stmt_ok_parsed O key_ok mw) p -> format_lib O mw p = Some d ->
  scan_comments (render d) = forest_comments text forest.
Proof. exact tree_to_text_lib_parsed. Qed.
Check C09_tree_to_text_lib_parsed :
  forall O key_ok, (forall k, key_ok k = true -> neutral (o_record_key O k)) ->
  forall text forest p mw d,
  forest_view_ok text forest = true -> forest_shape_ok text forest = true ->
  forest_no_empty_container text forest = true ->
  program_of_forest text forest = Outcome.Ok (Some p) ->
  Forall (stmt_ok_parsed O key_ok mw) p -> format_lib O mw p = Some d ->
  scan_comments (render d) = forest_comments text forest.
Print Assumptions C09_tree_to_text_lib_parsed.
Theorem C09_tree_to_text_cli_parsed :
  forall O key_ok, (forall k, key_ok k = true -> neutral (o_record_key O k)) ->
  forall text forest p,
  forest_view_ok text forest = true -> forest_shape_ok text forest = true ->
  forest_no_empty_container text forest = true ->
  program_of_forest text forest = Outcome.Ok (Some p) ->
  Forall (stmt_ok_parsed O key_ok None) p ->
  scan_comments (render (format_cli O p)) = forest_comments text forest.
Proof. exact tree_to_text_cli_parsed. Qed.
Check C09_tree_to_text_cli_parsed :
  forall O key_ok, (forall k, key_ok k = true -> neutral (o_record_key O k)) ->
  forall text forest p,
  forest_view_ok text forest = true -> forest_shape_ok text forest = true ->
  forest_no_empty_container text forest = true ->
  program_of_forest text forest = Outcome.Ok (Some p) ->
  Forall (stmt_ok_parsed O key_ok None) p ->
  scan_comments (render (format_cli O p)) = forest_comments text forest.
Print Assumptions C09_tree_to_text_cli_parsed.

(* generic tool behind C09_shape_inner_pairs (every grammar): in an emitting context (lookahead off, atomicity not
   Atomic) the rule names of the pairs an expression appends belong to the language [tops e] read off the expression:
   a rule of the quiet set Q contributes nothing, a non-silent rule exactly its own name, a silent rule what S says
   (S closed under unfolding rule bodies), sequence = concatenation, e* = star, predicates = nothing *)
Theorem C09_shape_top_level_pairs :
  forall (R : Type) (G : grammar R) (Q : R -> bool),
  (forall r, Q r = true -> rd_mod (g_def G r) = MSilent) ->
  (forall r, Q r = true -> forallb Q (idents R (rd_body (g_def G r))) = true) ->
  (forall w, g_ws G = Some w -> Q w = true) ->
  (forall c, g_comment G = Some c -> Q c = true) ->
  (forall r, silentb R G r = true -> rd_trivia (g_def G r) = true -> Q r = true) ->
  forall S : R -> list R -> Prop,
  (forall r, silentb R G r = true -> Q r = false -> forall l, tops R G Q S (rd_body (g_def G r)) l -> S r l) ->
  forall f m a e, a <> Atomic -> forall s,
  match run G f m a false e s with
  | Peg.Ok s' => exists new, out s' = new ++ out s /\ tops R G Q S e (map (troot R) (rev new))
  | Peg.Fail s' => out s' = out s
  | _ => True
  end.
Proof. exact run_tops. Qed.
Check C09_shape_top_level_pairs :
  forall (R : Type) (G : grammar R) (Q : R -> bool),
  (forall r, Q r = true -> rd_mod (g_def G r) = MSilent) ->
  (forall r, Q r = true -> forallb Q (idents R (rd_body (g_def G r))) = true) ->
  (forall w, g_ws G = Some w -> Q w = true) ->
  (forall c, g_comment G = Some c -> Q c = true) ->
  (forall r, silentb R G r = true -> rd_trivia (g_def G r) = true -> Q r = true) ->
  forall S : R -> list R -> Prop,
  (forall r, silentb R G r = true -> Q r = false -> forall l, tops R G Q S (rd_body (g_def G r)) l -> S r l) ->
  forall f m a e, a <> Atomic -> forall s,
  match run G f m a false e s with
  | Peg.Ok s' => exists new, out s' = new ++ out s /\ tops R G Q S e (map (troot R) (rev new))
  | Peg.Fail s' => out s' = out s
  | _ => True
  end.
Print Assumptions C09_shape_top_level_pairs.

(* The two hypotheses of C09_parse_keeps_comments as facts about Peg.parse.  C09_shape_items_full is PROVED below
   (C09_shape_items: the tree-level facts C09_shape_comment_texts / C09_shape_inner_pairs / C09_shape_do_statement carried
   through PegToItems.conv to every nested item, proofs/PegShapeItems.v).  C09_view_items_full is KEPT, NOT PROVED (still
   tested on every interpreter tree by the C09P / REPARSE streams, flag V): that conv reads EVERY comment / eol_comment
   pair needs the inner-pair shapes of all ~30 structural rules (list, record, lambda, conditional, call_list, ...), of
   which six are proved here, and an induction of the size of conv_shape. *)
Definition C09_shape_items_full : Prop := forall fuel text s',
  Peg.parse blots_grammar fuel PG_input text = Peg.Ok s' -> forest_shape_ok text (rev (out s')) = true.
Definition C09_view_items_full : Prop := forall fuel text s',
  Peg.parse blots_grammar fuel PG_input text = Peg.Ok s' -> forest_view_ok text (rev (out s')) = true.

(* the comment part of atoms_ok at program level: under the hypotheses of C09_parse_keeps_comments every comment of
   the commented program the parser model builds is "//" ++ r with no line feed in r (what is missing for
   ScanFmt.comment_ok is only a bare carriage return inside r, which the grammar admits) *)
Require Import Blots.proofs.PegShapeProgram.
Theorem C09_parsed_program_comment_texts : forall text forest p,
  parse_program_c text = PCOk forest p ->
  forest_view_ok text forest = true -> forest_shape_ok text forest = true ->
  forest_no_empty_container text forest = true ->
  Forall comment_text_ok (program_comments p).
Proof. exact parsed_program_comment_texts. Qed.
Check C09_parsed_program_comment_texts : forall text forest p,
  parse_program_c text = PCOk forest p ->
  forest_view_ok text forest = true -> forest_shape_ok text forest = true ->
  forest_no_empty_container text forest = true ->
  Forall comment_text_ok (program_comments p).
Print Assumptions C09_parsed_program_comment_texts.

(* FIRST-byte analysis of the interpreter, every grammar: if an expression succeeds, either the remaining input is
   unchanged (and the expression is nullable) or its first byte belongs to [first e]; rule references go through two
   tables (Fst, Nul) closed under unfolding rule bodies *)
Require Import Blots.proofs.PegShapeFirst.
Theorem C09_shape_first_byte :
  forall (R : Type) (G : grammar R) (Fst : R -> Ascii.ascii -> bool) (Nul : R -> bool),
  (forall r c, first R G Fst Nul (rd_body (g_def G r)) c = true -> Fst r c = true) ->
  (forall r, nullable R Nul (rd_body (g_def G r)) = true -> Nul r = true) ->
  forall f, first_runner R G Fst Nul (run G f).
Proof. exact run_first. Qed.
Check C09_shape_first_byte :
  forall (R : Type) (G : grammar R) (Fst : R -> Ascii.ascii -> bool) (Nul : R -> bool),
  (forall r c, first R G Fst Nul (rd_body (g_def G r)) c = true -> Fst r c = true) ->
  (forall r, nullable R Nul (rd_body (g_def G r)) = true -> Nul r = true) ->
  forall f, first_runner R G Fst Nul (run G f).
Print Assumptions C09_shape_first_byte.

(* third conjunct of do_shape at tree level: for every accepted text, the inner pairs of every do_statement node are
   [expression], [expression; comment] or [comment] — never [comment; comment]: the `comment` rule stops at a line break
   or the end of the input, where `WHITESPACE* ~ comment` cannot start *)
Theorem C09_shape_do_statement : forall fuel text s',
  Peg.parse blots_grammar fuel PG_input text = Peg.Ok s' ->
  forest_all grule text C_do_statement (rev (out s')).
Proof. exact shape_do_statement. Qed.
Check C09_shape_do_statement : forall fuel text s',
  Peg.parse blots_grammar fuel PG_input text = Peg.Ok s' ->
  forest_all grule text C_do_statement (rev (out s')).
Print Assumptions C09_shape_do_statement.

(* forest_shape_ok — hypothesis of C09_parse_keeps_comments, tested on every tree until now — holds of EVERY result of
   Peg.parse on the regenerated grammar, for every text and fuel *)
Require Import Blots.proofs.PegShapeItems Blots.proofs.PegShapeCompose.
Theorem C09_shape_items : C09_shape_items_full.
Proof. exact parse_forest_shape_ok. Qed.
Check C09_shape_items : C09_shape_items_full.
Check C09_shape_items : forall fuel text s',
  Peg.parse blots_grammar fuel PG_input text = Peg.Ok s' -> forest_shape_ok text (rev (out s')) = true.
Print Assumptions C09_shape_items.

(* (a') parser half from the TEXT, shape hypothesis discharged: the comment / eol_comment pairs of the tree the PEG model
   builds = the comments of the commented program, given only that the item view reads every comment pair (flag V,
   tested) and outside the exclusion C09-empty-container *)
Theorem C09_parse_keeps_comments_text : forall text forest p,
  parse_program_c text = PCOk forest p ->
  forest_view_ok text forest = true ->
  forest_no_empty_container text forest = true ->
  program_comments p = forest_comments text forest.
Proof. exact parse_keeps_comments_text. Qed.
Check C09_parse_keeps_comments_text : forall text forest p,
  parse_program_c text = PCOk forest p ->
  forest_view_ok text forest = true ->
  forest_no_empty_container text forest = true ->
  program_comments p = forest_comments text forest.
Print Assumptions C09_parse_keeps_comments_text.

(* (b') text -> emitted text, both drivers, shape and wf_ast discharged *)
Theorem C09_text_to_text_lib :
  forall O key_ok, (forall k, key_ok k = true -> neutral (o_record_key O k)) ->
  forall text forest p mw d,
  parse_program_c text = PCOk forest p ->
  forest_view_ok text forest = true -> forest_no_empty_container text forest = true ->
  Forall (stmt_ok_parsed O key_ok mw) p -> format_lib O mw p = Some d ->
  scan_comments (render d) = forest_comments text forest.
Proof. exact text_to_text_lib. Qed.
Check C09_text_to_text_lib :
  forall O key_ok, (forall k, key_ok k = true -> neutral (o_record_key O k)) ->
  forall text forest p mw d,
  parse_program_c text = PCOk forest p ->
  forest_view_ok text forest = true -> forest_no_empty_container text forest = true ->
  Forall (stmt_ok_parsed O key_ok mw) p -> format_lib O mw p = Some d ->
  scan_comments (render d) = forest_comments text forest.
Print Assumptions C09_text_to_text_lib.
Theorem C09_text_to_text_cli :
  forall O key_ok, (forall k, key_ok k = true -> neutral (o_record_key O k)) ->
  forall text forest p,
  parse_program_c text = PCOk forest p ->
  forest_view_ok text forest = true -> forest_no_empty_container text forest = true ->
  Forall (stmt_ok_parsed O key_ok None) p ->
  scan_comments (render (format_cli O p)) = forest_comments text forest.
Proof. exact text_to_text_cli. Qed.
Check C09_text_to_text_cli :
  forall O key_ok, (forall k, key_ok k = true -> neutral (o_record_key O k)) ->
  forall text forest p,
  parse_program_c text = PCOk forest p ->
  forest_view_ok text forest = true -> forest_no_empty_container text forest = true ->
  Forall (stmt_ok_parsed O key_ok None) p ->
  scan_comments (render (format_cli O p)) = forest_comments text forest.
Print Assumptions C09_text_to_text_cli.

(* ================================================================== round VIEW: forest_view_ok PROVED of Peg.parse
   (proofs/PegView.v, PegViewItems.v, PegViewCompose.v).  The last tested-only hypothesis of the parser half: the item
   view PegToItems.conv and the statement loop read EVERY comment / eol_comment pair of the tree.
   Grammar level: a uniform per-rule postcondition C_view, COMPUTED from gen/Grammar.v (vnames r: the rule names an
   inner pair of r can have, silent rules unfolded through a table that is itself computed by iterating PegShape.enum;
   venum r: the finite list of inner-pair name sequences where the body has no pair-yielding repetition; atomic rules:
   no inner pair), holds of every node of every tree of every parse (generic machinery of PegShape.v).
   Tree level: three rule classes computed from vnames (Fb comment-free, Vb read completely by conv, Tb transparent)
   and an induction on the fuel of conv over all ten structural arms of conv. *)
Require Import Blots.proofs.PegView Blots.proofs.PegViewItems Blots.proofs.PegViewCompose.

(* every node of every tree of every accepted text satisfies the computed inner-pair specification *)
Theorem C09_view_inner_pairs : forall fuel text s',
  Peg.parse blots_grammar fuel PG_input text = Peg.Ok s' ->
  forest_all grule text C_view (rev (out s')).
Proof. exact view_nodes. Qed.
Check C09_view_inner_pairs : forall fuel text s',
  Peg.parse blots_grammar fuel PG_input text = Peg.Ok s' ->
  forest_all grule text C_view (rev (out s')).
Print Assumptions C09_view_inner_pairs.

(* what the computed specification says for some rules (regenerated grammar; a grammar change that adds an inner pair
   the glue code does not read changes these tables and breaks conv_view) *)
Example C09_view_spec_list_item :
  venum PG_list_item = Some [[PG_spread_expression]; [PG_spread_expression; PG_eol_comment];
                             [PG_expression]; [PG_expression; PG_eol_comment]].
Proof. vm_compute. reflexivity. Qed.
Example C09_view_spec_do_statement :
  venum PG_do_statement = Some [[PG_expression]; [PG_expression; PG_comment]; [PG_comment]; [PG_comment; PG_comment]].
Proof. vm_compute. reflexivity. Qed.
Example C09_view_spec_lambda : venum PG_lambda = Some [[PG_argument_list; PG_lambda_expression]].
Proof. vm_compute. reflexivity. Qed.
Example C09_view_spec_comment_has_no_inner_pair : venum PG_comment = Some [[]] /\ venum PG_eol_comment = Some [[]].
Proof. split; vm_compute; reflexivity. Qed.
Example C09_view_spec_list_names : forallb (fun r => gmem r [PG_comment; PG_list_item]) (vnames PG_list) = true.
Proof. vm_compute. reflexivity. Qed.
Example C09_view_comment_free_rules :
  Fb PG_argument_list = true /\ Fb PG_record_key_static = true /\ Fb PG_string = true /\ Fb PG_dot_access = true /\
  Fb PG_expression = false /\ Fb PG_list_item = false /\ Fb PG_record_key_dynamic = false.
Proof. repeat split; vm_compute; reflexivity. Qed.

(* the top-level pairs of a parse are `statement` pairs and the EOI pair *)
Theorem C09_view_top_level : forall fuel text s',
  Peg.parse blots_grammar fuel PG_input text = Peg.Ok s' ->
  Forall (fun t => trule t = PG_statement \/ trule t = PG_EOI) (rev (out s')).
Proof. exact view_top_names. Qed.
Check C09_view_top_level : forall fuel text s',
  Peg.parse blots_grammar fuel PG_input text = Peg.Ok s' ->
  Forall (fun t => trule t = PG_statement \/ trule t = PG_EOI) (rev (out s')).
Print Assumptions C09_view_top_level.

(* tree level, every text and tree: on a tree whose nodes satisfy C_view, the item of a pair in expression position
   carries exactly the comment / eol_comment pairs of the pair's subtree (fuel of conv at least the depth) *)
Theorem C09_view_conv : forall text f t,
  wgood text f t -> Vb (trule t) = true -> item_comments (conv text f t) = tree_comments text t.
Proof. exact conv_view. Qed.
Check C09_view_conv : forall text f t,
  tree_ok grule text C_view t /\ tree_depth t <= f -> Vb (trule t) = true ->
  item_comments (conv text f t) = tree_comments text t.
Print Assumptions C09_view_conv.

(* forest_view_ok — hypothesis of C09_parse_keeps_comments, tested on every tree (flag V) until now — holds of EVERY
   result of Peg.parse on the regenerated grammar, for every text and fuel: C09_view_items_full is PROVED *)
Theorem C09_view_items : C09_view_items_full.
Proof. exact parse_forest_view_ok. Qed.
Check C09_view_items : C09_view_items_full.
Check C09_view_items : forall fuel text s',
  Peg.parse blots_grammar fuel PG_input text = Peg.Ok s' -> forest_view_ok text (rev (out s')) = true.
Print Assumptions C09_view_items.

(* (a'') parser half from the TEXT, both tree hypotheses discharged: the comment / eol_comment pairs of the tree the
   PEG model builds = the comments of the commented program, outside the exclusion C09-empty-container *)
Theorem C09_parse_keeps_comments_text_total : forall text forest p,
  parse_program_c text = PCOk forest p ->
  forest_no_empty_container text forest = true ->
  program_comments p = forest_comments text forest.
Proof. exact parse_keeps_comments_text_total. Qed.
Check C09_parse_keeps_comments_text_total : forall text forest p,
  parse_program_c text = PCOk forest p ->
  forest_no_empty_container text forest = true ->
  program_comments p = forest_comments text forest.
Print Assumptions C09_parse_keeps_comments_text_total.

Theorem C09_parsed_program_comment_texts_total : forall text forest p,
  parse_program_c text = PCOk forest p ->
  forest_no_empty_container text forest = true ->
  Forall comment_text_ok (program_comments p).
Proof. exact parsed_program_comment_texts_total. Qed.
Check C09_parsed_program_comment_texts_total : forall text forest p,
  parse_program_c text = PCOk forest p ->
  forest_no_empty_container text forest = true ->
  Forall comment_text_ok (program_comments p).
Print Assumptions C09_parsed_program_comment_texts_total.

(* (b'') text -> emitted text, both drivers: remaining hypotheses only the exclusion and the formatter half *)
Theorem C09_text_to_text_lib_total :
  forall O key_ok, (forall k, key_ok k = true -> neutral (o_record_key O k)) ->
  forall text forest p mw d,
  parse_program_c text = PCOk forest p ->
  forest_no_empty_container text forest = true ->
  Forall (stmt_ok_parsed O key_ok mw) p -> format_lib O mw p = Some d ->
  scan_comments (render d) = forest_comments text forest.
Proof. exact text_to_text_lib_total. Qed.
Check C09_text_to_text_lib_total :
  forall O key_ok, (forall k, key_ok k = true -> neutral (o_record_key O k)) ->
  forall text forest p mw d,
  parse_program_c text = PCOk forest p ->
  forest_no_empty_container text forest = true ->
  Forall (stmt_ok_parsed O key_ok mw) p -> format_lib O mw p = Some d ->
  scan_comments (render d) = forest_comments text forest.
Print Assumptions C09_text_to_text_lib_total.
Theorem C09_text_to_text_cli_total :
  forall O key_ok, (forall k, key_ok k = true -> neutral (o_record_key O k)) ->
  forall text forest p,
  parse_program_c text = PCOk forest p ->
  forest_no_empty_container text forest = true ->
  Forall (stmt_ok_parsed O key_ok None) p ->
  scan_comments (render (format_cli O p)) = forest_comments text forest.
Proof. exact text_to_text_cli_total. Qed.
Check C09_text_to_text_cli_total :
  forall O key_ok, (forall k, key_ok k = true -> neutral (o_record_key O k)) ->
  forall text forest p,
  parse_program_c text = PCOk forest p ->
  forest_no_empty_container text forest = true ->
  Forall (stmt_ok_parsed O key_ok None) p ->
  scan_comments (render (format_cli O p)) = forest_comments text forest.
Print Assumptions C09_text_to_text_cli_total.

(* the hypotheses of the _total theorems are satisfiable: a 13-line text with comments at every position class the item
   view reads (statement comment, statement end-of-line, list leading / end-of-line / last item, record, do-block comment,
   do_statement end-of-line); all eight comment pairs of the tree are the eight comments of the parsed program *)
Example C09_total_hypotheses_satisfiable :
  exists forest p,
    parse_program_c view_witness = PCOk forest p
    /\ forest_no_empty_container view_witness forest = true
    /\ forest_comments view_witness forest =
       ["// top"; "// lead"; "// eol"; "// e2"; "// stmt"; "// ra"; "// dc"; "// ds"]%string
    /\ program_comments p = forest_comments view_witness forest.
Proof. exact total_hypotheses_satisfiable. Qed.

(* ======================================================================================================
   ROUND ATOMS: the formatter-half hypothesis stmt_ok_parsed of the _total theorems, discharged as far as the parser
   model allows (proofs/PegAtomsC09Scan.v, proofs/PegAtomsC09.v; notes/ext-atoms.md).
   comment_ok_cr = what the formatter-half proofs really need of a comment text: "//" + text without line feed that
   does not END in a carriage return (a bare CR inside is fine; ScanFmt.comment_ok forbade every CR). *)
Require Import Blots.proofs.PegAtomsC09Scan Blots.proofs.PegAtomsC09.

Theorem C09_comment_ok_cr_is_comment_text : forall c, comment_ok_cr c = true -> is_comment_text c.
Proof. exact comment_ok_cr_text. Qed.
Check C09_comment_ok_cr_is_comment_text : forall c, comment_ok_cr c = true -> is_comment_text c.
Print Assumptions C09_comment_ok_cr_is_comment_text.

Theorem C09_comment_ok_cr_weaker : forall c, comment_ok c = true -> comment_ok_cr c = true.
Proof. exact comment_ok_weaker. Qed.
Check C09_comment_ok_cr_weaker : forall c, comment_ok c = true -> comment_ok_cr c = true.
Print Assumptions C09_comment_ok_cr_weaker.

(* the formatter half and both drivers for the weaker predicate (CR.atoms_ok / CR.stmt_ok = atoms_ok / stmt_ok with
   comment_ok_cr in place of comment_ok) *)
Theorem C09_fmtd_wf_doc_cr :
  forall O key_ok, (forall k, key_ok k = true -> neutral (o_record_key O k)) ->
  forall w e i, CR.atoms_ok key_ok e = true ->
  opaque_texts_neutral (fmtd O w e i) -> wf_doc (fmtd O w e i).
Proof. exact CR.fmtd_wf_doc. Qed.
Check C09_fmtd_wf_doc_cr :
  forall O key_ok, (forall k, key_ok k = true -> neutral (o_record_key O k)) ->
  forall w e i, CR.atoms_ok key_ok e = true ->
  opaque_texts_neutral (fmtd O w e i) -> wf_doc (fmtd O w e i).
Print Assumptions C09_fmtd_wf_doc_cr.

Theorem C09_lib_driver_text_comments_cr :
  forall O key_ok, (forall k, key_ok k = true -> neutral (o_record_key O k)) ->
  forall mw p d, Forall (CR.stmt_ok O key_ok mw) p -> format_lib O mw p = Some d ->
  scan_comments (render d) = program_comments p.
Proof. exact CR.lib_driver_text_comments. Qed.
Check C09_lib_driver_text_comments_cr :
  forall O key_ok, (forall k, key_ok k = true -> neutral (o_record_key O k)) ->
  forall mw p d, Forall (CR.stmt_ok O key_ok mw) p -> format_lib O mw p = Some d ->
  scan_comments (render d) = program_comments p.
Print Assumptions C09_lib_driver_text_comments_cr.

Theorem C09_cli_driver_text_comments_cr :
  forall O key_ok, (forall k, key_ok k = true -> neutral (o_record_key O k)) ->
  forall p, Forall (CR.stmt_ok O key_ok None) p ->
  scan_comments (render (format_cli O p)) = program_comments p.
Proof. exact CR.cli_driver_text_comments. Qed.
Check C09_cli_driver_text_comments_cr :
  forall O key_ok, (forall k, key_ok k = true -> neutral (o_record_key O k)) ->
  forall p, Forall (CR.stmt_ok O key_ok None) p ->
  scan_comments (render (format_cli O p)) = program_comments p.
Print Assumptions C09_cli_driver_text_comments_cr.

(* atoms_ok = names part + comment part *)
Theorem C09_atoms_ok_split : forall key_ok e,
  names_ok key_ok e = true -> forallb comment_ok_cr (expr_comments e) = true -> CR.atoms_ok key_ok e = true.
Proof. exact atoms_ok_split. Qed.
Check C09_atoms_ok_split : forall key_ok e,
  names_ok key_ok e = true -> forallb comment_ok_cr (expr_comments e) = true -> CR.atoms_ok key_ok e = true.
Print Assumptions C09_atoms_ok_split.

(* every comment of every parsed program satisfies comment_ok_cr, outside the two exclusions (empty container;
   a comment pair that ends in a carriage return = finding C09-comment-trailing-cr) *)
Theorem C09_parsed_program_comments_ok_cr : forall text forest p,
  parse_program_c text = PCOk forest p ->
  forest_no_empty_container text forest = true ->
  forallb no_trailing_cr (forest_comments text forest) = true ->
  forallb comment_ok_cr (program_comments p) = true.
Proof. exact parsed_program_comments_ok_cr. Qed.
Check C09_parsed_program_comments_ok_cr : forall text forest p,
  parse_program_c text = PCOk forest p ->
  forest_no_empty_container text forest = true ->
  forallb no_trailing_cr (forest_comments text forest) = true ->
  forallb comment_ok_cr (program_comments p) = true.
Print Assumptions C09_parsed_program_comments_ok_cr.

(* text -> emitted text with the COMMENT part of the formatter-half hypothesis discharged.  Remaining hypotheses:
   the two exclusions and stmt_rest_ok = names / keys (names_ok: NOT yet derived from the `identifier` rule), the
   expr_to_source texts (cfree / opaque_texts_neutral), and "a comment statement has no second comment". *)
Theorem C09_text_to_text_lib_closed :
  forall O key_ok, (forall k, key_ok k = true -> neutral (o_record_key O k)) ->
  forall text forest p mw d,
  parse_program_c text = PCOk forest p ->
  forest_no_empty_container text forest = true ->
  forallb no_trailing_cr (forest_comments text forest) = true ->
  Forall (stmt_rest_ok O key_ok mw) p -> format_lib O mw p = Some d ->
  scan_comments (render d) = forest_comments text forest.
Proof. exact text_to_text_lib_closed. Qed.
Check C09_text_to_text_lib_closed :
  forall O key_ok, (forall k, key_ok k = true -> neutral (o_record_key O k)) ->
  forall text forest p mw d,
  parse_program_c text = PCOk forest p ->
  forest_no_empty_container text forest = true ->
  forallb no_trailing_cr (forest_comments text forest) = true ->
  Forall (stmt_rest_ok O key_ok mw) p -> format_lib O mw p = Some d ->
  scan_comments (render d) = forest_comments text forest.
Print Assumptions C09_text_to_text_lib_closed.
Theorem C09_text_to_text_cli_closed :
  forall O key_ok, (forall k, key_ok k = true -> neutral (o_record_key O k)) ->
  forall text forest p,
  parse_program_c text = PCOk forest p ->
  forest_no_empty_container text forest = true ->
  forallb no_trailing_cr (forest_comments text forest) = true ->
  Forall (stmt_rest_ok O key_ok None) p ->
  scan_comments (render (format_cli O p)) = forest_comments text forest.
Proof. exact text_to_text_cli_closed. Qed.
Check C09_text_to_text_cli_closed :
  forall O key_ok, (forall k, key_ok k = true -> neutral (o_record_key O k)) ->
  forall text forest p,
  parse_program_c text = PCOk forest p ->
  forest_no_empty_container text forest = true ->
  forallb no_trailing_cr (forest_comments text forest) = true ->
  Forall (stmt_rest_ok O key_ok None) p ->
  scan_comments (render (format_cli O p)) = forest_comments text forest.
Print Assumptions C09_text_to_text_cli_closed.

(* the exclusion is necessary at the scanner level (finding C09-comment-trailing-cr): a comment that ends in CR,
   followed by the line break every layout emits after a comment, is re-read WITHOUT its CR *)
Lemma C09_comment_trailing_cr_refuted :
  comment_ok_cr trailing_cr_comment = false /\
  scan_comments (trailing_cr_comment +++ nl) <> [trailing_cr_comment].
Proof. split; [exact (proj1 comment_trailing_cr_refuted)|exact (proj2 (proj2 comment_trailing_cr_refuted))]. Qed.
(* the weaker predicate admits a bare CR inside a comment (`// a<CR>b`), which ScanFmt.comment_ok refused *)
Example C09_comment_ok_cr_bare_cr :
  comment_ok_cr bare_cr_comment = true /\ comment_ok bare_cr_comment = false /\
  scan_comments (bare_cr_comment +++ nl) = [bare_cr_comment].
Proof. exact comment_bare_cr_ok. Qed.
