(* C04 — Closures capture definition-time values; calls are call-site independent.
   Property theorems only.  Model: Env.v (free_vars = collect_free_variables, capture),
   Eval.v (bind_params, call_passed = FunctionDef::call, the Expr::Lambda arm of evalE).
   The headline consequence "a function all of whose free names were bound at definition
   returns the same result from every call site" is theorem C04_call_site_independent: for
   hereditarily closed function values (Closed.v: every free name of the body is a parameter,
   a captured name or the function's own name; the same for every captured function; no
   assignment expression outside do-block statement position — that exclusion is the open
   finding F32) FunctionDef::call gives the same outcome and store from EVERY scope chain with
   the same `inputs`, at every call depth.  The other theorems are the mechanisms it rests on. *)
From Coq Require Import String List ZArith Bool.
Require Import Blots.Num Blots.gen.Builtins Blots.Ast Blots.Value Blots.Outcome Blots.Binop
               Blots.Env Blots.Eval Blots.BuiltinsHof Blots.Program Blots.EvalInst
               Blots.EvalFull
               Blots.proofs.Closures Blots.proofs.StoreMono Blots.proofs.Closed Blots.proofs.CallSite
               Blots.proofs.FullAgree.
Import ListNotations.
Open Scope string_scope.

(* When a function is created, every referenced name bound at that moment (other than a
   built-in name) is captured with the value it has then. *)
Theorem C04_capture_by_value : forall fr vars acc x v,
  In x vars -> lookup fr x = Some v -> is_builtin_name x = false ->
  lookup_frame (capture fr vars acc) x = Some v.
Proof. exact capture_sound. Qed.
Check C04_capture_by_value : forall fr vars acc x v,
  In x vars -> lookup fr x = Some v -> is_builtin_name x = false ->
  lookup_frame (capture fr vars acc) x = Some v.
Print Assumptions C04_capture_by_value.

(* ... and nothing else: a captured binding is a referenced name with its definition-time value *)
Theorem C04_capture_only_referenced : forall fr vars x v,
  lookup_frame (capture fr vars []) x = Some v -> In x vars /\ lookup fr x = Some v.
Proof.
  intros fr vars x v H. destruct (capture_only fr vars [] x v H) as [Ha|Hb]; [discriminate|exact Hb].
Qed.
Check C04_capture_only_referenced : forall fr vars x v,
  lookup_frame (capture fr vars []) x = Some v -> In x vars /\ lookup fr x = Some v.
Print Assumptions C04_capture_only_referenced.

(* In every later call the body sees: its parameters first, then (its own name, inputs), then
   the captured values, and only then the caller's scope chain. *)
Theorem C04_lookup_order : forall (local scope : frame) (fr : frames) x,
  lookup ((FOwned, local) :: match scope with [] => fr | _ => (FShared, scope) :: fr end) x =
  match lookup_frame local x with
  | Some v => Some v
  | None => match lookup_frame scope x with Some v => Some v | None => lookup fr x end
  end.
Proof. exact lookup_order. Qed.
Check C04_lookup_order : forall (local scope : frame) (fr : frames) x,
  lookup ((FOwned, local) :: match scope with [] => fr | _ => (FShared, scope) :: fr end) x =
  match lookup_frame local x with
  | Some v => Some v
  | None => match lookup_frame scope x with Some v => Some v | None => lookup fr x end
  end.
Print Assumptions C04_lookup_order.

(* Arguments bind positionally: parameter k gets argument k, an omitted optional parameter is
   null, a rest parameter is the list of the remaining arguments. *)
Theorem C04_positional_binding : forall ps idx args acc fr,
  bind_params ps idx args acc = Some fr -> NoDup (map arg_name ps) ->
  forall k p, nth_error ps k = Some p ->
    lookup_frame fr (arg_name p) = Some (param_value p (idx + k) args).
Proof. exact bind_params_positional. Qed.
Check C04_positional_binding : forall ps idx args acc fr,
  bind_params ps idx args acc = Some fr -> NoDup (map arg_name ps) ->
  forall k p, nth_error ps k = Some p ->
    lookup_frame fr (arg_name p) = Some (param_value p (idx + k) args).
Print Assumptions C04_positional_binding.

(* Arity of the documented shape (required, then optional, then at most one rest): the call
   is admitted iff every required parameter is supplied and, without a rest parameter, there are
   no surplus arguments; any other count is the arity error (FunctionDef::call checks it
   before anything else). *)
Theorem C04_arity_classes : forall ps n, documented_shape ps = true ->
  can_accept (lambda_arity ps) n =
  (Nat.leb (n_required ps) n && (has_rest ps || Nat.leb n (Datatypes.length ps))).
Proof. exact documented_arity. Qed.
Check C04_arity_classes : forall ps n, documented_shape ps = true ->
  can_accept (lambda_arity ps) n =
  (Nat.leb (n_required ps) n && (has_rest ps || Nat.leb n (Datatypes.length ps))).
Print Assumptions C04_arity_classes.

(* For EVERY parameter list (also undocumented orders such as (a?, b) or (...r, b)): once the
   arity check has passed, binding the parameters cannot index past the argument vector. *)
Theorem C04_binding_total : forall ps args acc,
  can_accept (lambda_arity ps) (Datatypes.length args) = true ->
  bind_params ps 0 args acc <> None.
Proof. exact bind_params_total. Qed.
Check C04_binding_total : forall ps args acc,
  can_accept (lambda_arity ps) (Datatypes.length args) = true ->
  bind_params ps 0 args acc <> None.
Print Assumptions C04_binding_total.

(* CALL-SITE INDEPENDENCE.  Callback positions (via / where / map / filter / reduce / sort_by ...)
   are instances: they all go through this same FunctionDef::call. *)
Theorem C04_call_site_independent : forall release d fr1 fr2 this f args st,
  lookup fr1 "inputs" = lookup fr2 "inputs" ->
  (forall v, lookup fr1 "inputs" = Some v -> closed_value st v) ->
  closed_value st this -> closed_value st f -> closed_list st args ->
  AD release binop_impl builtin_impl d fr1 this f args st =
  AD release binop_impl builtin_impl d fr2 this f args st.
Proof. exact call_site_independent. Qed.
Check C04_call_site_independent : forall release d fr1 fr2 this f args st,
  lookup fr1 "inputs" = lookup fr2 "inputs" ->
  (forall v, lookup fr1 "inputs" = Some v -> closed_value st v) ->
  closed_value st this -> closed_value st f -> closed_list st args ->
  AD release binop_impl builtin_impl d fr1 this f args st =
  AD release binop_impl builtin_impl d fr2 this f args st.
Print Assumptions C04_call_site_independent.

(* what such a call returns is again closed (so the property is inherited by returned closures) *)
Theorem C04_call_result_closed : forall release d fr this f args st r st',
  (forall v, lookup fr "inputs" = Some v -> closed_value st v) ->
  closed_value st this -> closed_value st f -> closed_list st args ->
  AD release binop_impl builtin_impl d fr this f args st = (r, st') ->
  store_le st st' /\ (forall v, r = Ok v -> closed_value st' v).
Proof. exact call_result_closed. Qed.
Check C04_call_result_closed : forall release d fr this f args st r st',
  (forall v, lookup fr "inputs" = Some v -> closed_value st v) ->
  closed_value st this -> closed_value st f -> closed_list st args ->
  AD release binop_impl builtin_impl d fr this f args st = (r, st') ->
  store_le st st' /\ (forall v, r = Ok v -> closed_value st' v).
Print Assumptions C04_call_result_closed.

(* ... and the same two theorems for the evaluator with EVERY transcribed built-in (EvalFull.v):
   the function may call sort_by / group_by / count_by with callbacks and any list, string,
   record or aggregate built-in *)
Theorem C04_call_site_independent_full : forall release d fr1 fr2 this f args st,
  lookup fr1 "inputs" = lookup fr2 "inputs" ->
  (forall v, lookup fr1 "inputs" = Some v -> closed_value st v) ->
  closed_value st this -> closed_value st f -> closed_list st args ->
  AD release binop_impl builtin_full d fr1 this f args st =
  AD release binop_impl builtin_full d fr2 this f args st.
Proof. exact call_site_independent_full. Qed.
Check C04_call_site_independent_full : forall release d fr1 fr2 this f args st,
  lookup fr1 "inputs" = lookup fr2 "inputs" ->
  (forall v, lookup fr1 "inputs" = Some v -> closed_value st v) ->
  closed_value st this -> closed_value st f -> closed_list st args ->
  AD release binop_impl builtin_full d fr1 this f args st =
  AD release binop_impl builtin_full d fr2 this f args st.
Print Assumptions C04_call_site_independent_full.

Theorem C04_call_result_closed_full : forall release d fr this f args st r st',
  (forall v, lookup fr "inputs" = Some v -> closed_value st v) ->
  closed_value st this -> closed_value st f -> closed_list st args ->
  AD release binop_impl builtin_full d fr this f args st = (r, st') ->
  store_le st st' /\ (forall v, r = Ok v -> closed_value st' v).
Proof. exact call_result_closed_full. Qed.
Check C04_call_result_closed_full : forall release d fr this f args st r st',
  (forall v, lookup fr "inputs" = Some v -> closed_value st v) ->
  closed_value st this -> closed_value st f -> closed_list st args ->
  AD release binop_impl builtin_full d fr this f args st = (r, st') ->
  store_le st st' /\ (forall v, r = Ok v -> closed_value st' v).
Print Assumptions C04_call_result_closed_full.

(* non-vacuity: `k = 3; f = x => x + k` and a curried closure are hereditarily closed, and the
   theorem's conclusion is observed on two very different call sites *)
Definition ex_f : value :=
  VLam 0 [AReq "x"] (EBin Add (EId "x") (EId "k")) [("k", VNum (num_of_Z 3))].
Definition ex_g : value :=      (* y => inner(y) where inner is the captured closure ex_f *)
  VLam 1 [AReq "y"] (ECall (EId "inner") [EId "y"]) [("inner", ex_f)].
Example C04_closed_examples : closed_value [Some "f"; None] ex_f /\ closed_value [Some "f"; None] ex_g.
Proof.
  split; apply closed_VLam; (split; [reflexivity|split]).
  - intros x Hx. cbn in Hx. destruct Hx as [<-|[]]. left. discriminate.
  - repeat constructor.
  - intros x Hx. cbn in Hx. destruct Hx as [<-|[]]. left. discriminate.
  - constructor; [|constructor]. cbn [snd]. apply closed_VLam. split; [reflexivity|split].
    + intros x Hx. cbn in Hx. destruct Hx as [<-|[]]. left. discriminate.
    + repeat constructor.
Qed.
Example C04_two_call_sites :
  let st := [Some "f"; None] in
  let top := [(FOwned, [("k", VNum (num_of_Z 100)); ("x", VNum (num_of_Z 7))])] in
  let nested := [(FOwned, [("inner", VNull)]); (FShared, [("k", VStr "shadow")]); (FOwned, [])] in
  fst (AD true binop_impl builtin_impl 10 top ex_g ex_g [VNum (num_of_Z 1)] st) = Ok (VNum (num_of_Z 4)) /\
  fst (AD true binop_impl builtin_impl 10 nested ex_g ex_g [VNum (num_of_Z 1)] st) = Ok (VNum (num_of_Z 4)).
Proof. vm_compute. split; reflexivity. Qed.

Example C04_documented_shape_example :
  documented_shape [AReq "a"; AReq "b"; AOpt "c"; ARest "r"] = true /\
  documented_shape [AOpt "a"; AReq "b"] = false.
Proof. split; reflexivity. Qed.

(* ---- ... and the same two theorems for the evaluator with EVERY built-in of the table and `^`
   (EvalAll.v), for every oracle o: the function may also call the libm functions, trim / uppercase /
   lowercase, format, print, time_now, and stringify values that contain functions ---- *)
Require Import Blots.EvalAll Blots.proofs.AllAgree.
Theorem C04_call_site_independent_all : forall o release d fr1 fr2 this f args st,
  lookup fr1 "inputs" = lookup fr2 "inputs" ->
  (forall v, lookup fr1 "inputs" = Some v -> closed_value st v) ->
  closed_value st this -> closed_value st f -> closed_list st args ->
  AD release (binop_all o) (builtin_all o) d fr1 this f args st =
  AD release (binop_all o) (builtin_all o) d fr2 this f args st.
Proof. exact call_site_independent_all. Qed.
Check C04_call_site_independent_all : forall o release d fr1 fr2 this f args st,
  lookup fr1 "inputs" = lookup fr2 "inputs" ->
  (forall v, lookup fr1 "inputs" = Some v -> closed_value st v) ->
  closed_value st this -> closed_value st f -> closed_list st args ->
  AD release (binop_all o) (builtin_all o) d fr1 this f args st =
  AD release (binop_all o) (builtin_all o) d fr2 this f args st.
Print Assumptions C04_call_site_independent_all.

Theorem C04_call_result_closed_all : forall o release d fr this f args st r st',
  (forall v, lookup fr "inputs" = Some v -> closed_value st v) ->
  closed_value st this -> closed_value st f -> closed_list st args ->
  AD release (binop_all o) (builtin_all o) d fr this f args st = (r, st') ->
  store_le st st' /\ (forall v, r = Ok v -> closed_value st' v).
Proof. exact call_result_closed_all. Qed.
Check C04_call_result_closed_all : forall o release d fr this f args st r st',
  (forall v, lookup fr "inputs" = Some v -> closed_value st v) ->
  closed_value st this -> closed_value st f -> closed_list st args ->
  AD release (binop_all o) (builtin_all o) d fr this f args st = (r, st') ->
  store_le st st' /\ (forall v, r = Ok v -> closed_value st' v).
Print Assumptions C04_call_result_closed_all.

(* ---- F9 (known/C04.json; REPAIRED in this model, fixes/C04-captured-inputs.diff): FunctionDef::call copied
   the CALLER's `inputs` binding into the callee's local bindings, where it outranked the captured scope: a
   function that captured `inputs` at creation read the `inputs` of its call site whenever a parameter or
   do-block local of the caller is spelled `inputs` (reproduced on the real binary before the repair:
   `f = x => #a + x` returns 2 at top level and 101 from `(inputs => f(1))({a: 100})`).  The repaired code
   copies the caller's `inputs` only when the function did not capture the name (mirror of 2d884d7: the
   captured value wins); the former refutation witness (proofs/C04Inputs.v) now returns 2 at both call sites.
   The theorems above keep their hypothesis `lookup fr1 "inputs" = lookup fr2 "inputs"`: they remain true,
   the hypothesis is merely stronger than the repaired code needs; the statement without it is kept as
   C04_call_site_independent_any_inputs_full. ---- *)
Require Import Blots.proofs.C04Inputs.
Definition C04_call_site_independent_any_inputs_full : Prop := call_site_independent_any_inputs.
Theorem C04_f9_witness_repaired :
  fst (AD true binop_impl builtin_impl 5 (f9_chain 1) VNull f9_fun [VNum (num_of_Z 1)] f9_store)
    = Ok (VNum (num_of_Z 2)) /\
  fst (AD true binop_impl builtin_impl 5 (f9_chain 100) VNull f9_fun [VNum (num_of_Z 1)] f9_store)
    = Ok (VNum (num_of_Z 2)).
Proof. exact f9_results_agree. Qed.
Check C04_f9_witness_repaired :
  fst (AD true binop_impl builtin_impl 5 (f9_chain 1) VNull f9_fun [VNum (num_of_Z 1)] f9_store)
    = Ok (VNum (num_of_Z 2)) /\
  fst (AD true binop_impl builtin_impl 5 (f9_chain 100) VNull f9_fun [VNum (num_of_Z 1)] f9_store)
    = Ok (VNum (num_of_Z 2)).
Print Assumptions C04_f9_witness_repaired.
Example C04_f9_witness_is_closed :
  closed_value f9_store f9_fun /\ closed_value f9_store VNull /\ closed_list f9_store [VNum (num_of_Z 1)] /\
  (forall k v, lookup (f9_chain k) "inputs" = Some v -> closed_value f9_store v).
Proof. exact f9_closed. Qed.
