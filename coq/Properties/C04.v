(* C04 — Closures capture definition-time values; calls are call-site independent.
   Property theorems only.  Model: Env.v (free_vars = collect_free_variables, capture),
   Eval.v (bind_params, call_passed = FunctionDef::call, the Expr::Lambda arm of evalE).
   PARTIAL: the headline consequence "a function all of whose free names were bound at
   definition returns the same result from every call site" is stated below as
   [C04_call_site_independent_full] and decided by the implementation-level context search;
   the theorems proved here are the mechanisms it rests on (capture by value, lookup order,
   argument binding and arity for every parameter list). *)
From Coq Require Import String List ZArith Bool.
Require Import Blots.Num Blots.gen.Builtins Blots.Ast Blots.Value Blots.Outcome Blots.Binop
               Blots.Env Blots.Eval Blots.proofs.Closures.
Import ListNotations.
Open Scope string_scope.

(* When a function is created, every referenced name bound at that moment (other than a
   built-in name) is captured with the value it has then. *)
Theorem C04_capture_by_value : forall fr vars acc x v,
  In x vars -> lookup fr x = Some v -> is_builtin_name x = false ->
  lookup_frame (capture fr vars acc) x = Some v.
Proof. exact capture_sound. Qed.
Check C04_capture_by_value : forall fr vars acc x v,
  In x vars -> lookup fr x = Some v -> is_builtin_name x = false ->
  lookup_frame (capture fr vars acc) x = Some v.
Print Assumptions C04_capture_by_value.

(* ... and nothing else: a captured binding is a referenced name with its definition-time value *)
Theorem C04_capture_only_referenced : forall fr vars x v,
  lookup_frame (capture fr vars []) x = Some v -> In x vars /\ lookup fr x = Some v.
Proof.
  intros fr vars x v H. destruct (capture_only fr vars [] x v H) as [Ha|Hb]; [discriminate|exact Hb].
Qed.
Check C04_capture_only_referenced : forall fr vars x v,
  lookup_frame (capture fr vars []) x = Some v -> In x vars /\ lookup fr x = Some v.
Print Assumptions C04_capture_only_referenced.

(* In every later call the body sees: its parameters first, then (its own name, inputs), then
   the captured values, and only then the caller's scope chain. *)
Theorem C04_lookup_order : forall (local scope : frame) (fr : frames) x,
  lookup ((FOwned, local) :: match scope with [] => fr | _ => (FShared, scope) :: fr end) x =
  match lookup_frame local x with
  | Some v => Some v
  | None => match lookup_frame scope x with Some v => Some v | None => lookup fr x end
  end.
Proof. exact lookup_order. Qed.
Check C04_lookup_order : forall (local scope : frame) (fr : frames) x,
  lookup ((FOwned, local) :: match scope with [] => fr | _ => (FShared, scope) :: fr end) x =
  match lookup_frame local x with
  | Some v => Some v
  | None => match lookup_frame scope x with Some v => Some v | None => lookup fr x end
  end.
Print Assumptions C04_lookup_order.

(* Arguments bind positionally: parameter k gets argument k, an omitted optional parameter is
   null, a rest parameter is the list of the remaining arguments. *)
Theorem C04_positional_binding : forall ps idx args acc fr,
  bind_params ps idx args acc = Some fr -> NoDup (map arg_name ps) ->
  forall k p, nth_error ps k = Some p ->
    lookup_frame fr (arg_name p) = Some (param_value p (idx + k) args).
Proof. exact bind_params_positional. Qed.
Check C04_positional_binding : forall ps idx args acc fr,
  bind_params ps idx args acc = Some fr -> NoDup (map arg_name ps) ->
  forall k p, nth_error ps k = Some p ->
    lookup_frame fr (arg_name p) = Some (param_value p (idx + k) args).
Print Assumptions C04_positional_binding.

(* Arity of the documented shape (required, then optional, then at most one rest): the call
   is admitted iff every required parameter is supplied and, without a rest parameter, there are
   no surplus arguments; any other count is the arity error (FunctionDef::call checks it
   before anything else). *)
Theorem C04_arity_classes : forall ps n, documented_shape ps = true ->
  can_accept (lambda_arity ps) n =
  (Nat.leb (n_required ps) n && (has_rest ps || Nat.leb n (Datatypes.length ps))).
Proof. exact documented_arity. Qed.
Check C04_arity_classes : forall ps n, documented_shape ps = true ->
  can_accept (lambda_arity ps) n =
  (Nat.leb (n_required ps) n && (has_rest ps || Nat.leb n (Datatypes.length ps))).
Print Assumptions C04_arity_classes.

(* For EVERY parameter list (also undocumented orders such as (a?, b) or (...r, b)): once the
   arity check has passed, binding the parameters cannot index past the argument vector. *)
Theorem C04_binding_total : forall ps args acc,
  can_accept (lambda_arity ps) (Datatypes.length args) = true ->
  bind_params ps 0 args acc <> None.
Proof. exact bind_params_total. Qed.
Check C04_binding_total : forall ps args acc,
  can_accept (lambda_arity ps) (Datatypes.length args) = true ->
  bind_params ps 0 args acc <> None.
Print Assumptions C04_binding_total.

(* the full statement (kept, not yet a theorem): see DESIGN.md section 6 C04 *)
Definition C04_call_site_independent_full : Prop :=
  forall release bi bu d fr1 fr2 this f args st,
    (* f hereditarily closed after capture, args closed, same inputs *)
    lookup fr1 "inputs" = lookup fr2 "inputs" ->
    AD release bi bu d fr1 this f args st = AD release bi bu d fr2 this f args st.

Example C04_documented_shape_example :
  documented_shape [AReq "a"; AReq "b"; AOpt "c"; ARest "r"] = true /\
  documented_shape [AOpt "a"; AReq "b"] = false.
Proof. split; reflexivity. Qed.
