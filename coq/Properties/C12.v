(* C12 — Equality and ordering are coherent.
   Property theorems only: each is closed by [exact lemma], pinned by [Check], and followed by
   [Print Assumptions].  The model objects are Value.equals / Value.compare and the
   dot operators / unchecked built-ins defined from them in Value.v, all transcribed from
   blots-core/src/values.rs and expressions.rs and tied to the code by the C12 correspondence
   stream (checks/c12.py). *)
From Coq Require Import String List ZArith Bool Permutation.
Require Import Blots.Num Blots.gen.Builtins Blots.Ast Blots.Value Blots.proofs.ValueInd Blots.proofs.Order.
Import ListNotations.

(* .== is an equivalence on data values (NaN-free numbers, strings, booleans, null, lists,
   records with unique keys) *)
Theorem C12_equals_refl : forall v, data v = true -> equals v v = true.
Proof. exact equals_refl. Qed.
Check C12_equals_refl : forall v, data v = true -> equals v v = true.
Print Assumptions C12_equals_refl.

Theorem C12_equals_sym : forall a b, data a = true -> data b = true -> equals a b = equals b a.
Proof. exact equals_sym. Qed.
Check C12_equals_sym : forall a b, data a = true -> data b = true -> equals a b = equals b a.
Print Assumptions C12_equals_sym.

Theorem C12_equals_trans : forall a b c,
  data a = true -> data b = true -> data c = true ->
  equals a b = true -> equals b c = true -> equals a c = true.
Proof. exact equals_trans. Qed.
Check C12_equals_trans : forall a b c,
  data a = true -> data b = true -> data c = true ->
  equals a b = true -> equals b c = true -> equals a c = true.
Print Assumptions C12_equals_trans.

(* ... that ignores record key order *)
Theorem C12_equals_record_perm : forall r1 r2,
  data (VRec r1) = true -> Permutation r1 r2 -> equals (VRec r1) (VRec r2) = true.
Proof. exact equals_record_perm. Qed.
Check C12_equals_record_perm : forall r1 r2,
  data (VRec r1) = true -> Permutation r1 r2 -> equals (VRec r1) (VRec r2) = true.
Print Assumptions C12_equals_record_perm.

(* .!= is its negation *)
Theorem C12_neq_is_negation : forall a b, dot_ne a b = negb (dot_eq a b).
Proof. exact neq_is_negb. Qed.
Check C12_neq_is_negation : forall a b, dot_ne a b = negb (dot_eq a b).
Print Assumptions C12_neq_is_negation.

(* on mutually comparable values exactly one of .< .== .> holds *)
Theorem C12_trichotomy : forall a b o,
  compare a b = Some o ->
  match o with
  | Lt => dot_lt a b = Some true /\ dot_eq a b = false /\ dot_gt a b = Some false
  | Eq => dot_lt a b = Some false /\ dot_eq a b = true /\ dot_gt a b = Some false
  | Gt => dot_lt a b = Some false /\ dot_eq a b = false /\ dot_gt a b = Some true
  end.
Proof. exact trichotomy. Qed.
Check C12_trichotomy : forall a b o,
  compare a b = Some o ->
  match o with
  | Lt => dot_lt a b = Some true /\ dot_eq a b = false /\ dot_gt a b = Some false
  | Eq => dot_lt a b = Some false /\ dot_eq a b = true /\ dot_gt a b = Some false
  | Gt => dot_lt a b = Some false /\ dot_eq a b = false /\ dot_gt a b = Some true
  end.
Print Assumptions C12_trichotomy.

(* .<= and .>= are the corresponding unions *)
Theorem C12_le_is_union : forall a b o,
  compare a b = Some o ->
  dot_le a b = Some (match dot_lt a b with Some true => true | _ => dot_eq a b end).
Proof. exact le_is_lt_or_eq. Qed.
Check C12_le_is_union : forall a b o,
  compare a b = Some o ->
  dot_le a b = Some (match dot_lt a b with Some true => true | _ => dot_eq a b end).
Print Assumptions C12_le_is_union.

Theorem C12_ge_is_union : forall a b o,
  compare a b = Some o ->
  dot_ge a b = Some (match dot_gt a b with Some true => true | _ => dot_eq a b end).
Proof. exact ge_is_gt_or_eq. Qed.
Check C12_ge_is_union : forall a b o,
  compare a b = Some o ->
  dot_ge a b = Some (match dot_gt a b with Some true => true | _ => dot_eq a b end).
Print Assumptions C12_ge_is_union.

(* the order is antisymmetric and transitive (Lt/Eq compositions proved together) *)
Theorem C12_compare_antisym : forall a b, compare b a = option_map CompOpp (compare a b).
Proof. exact compare_antisym. Qed.
Check C12_compare_antisym : forall a b, compare b a = option_map CompOpp (compare a b).
Print Assumptions C12_compare_antisym.

Theorem C12_compare_trans : forall a b c o1 o2,
  compare a b = Some o1 -> compare b c = Some o2 -> o1 <> Gt -> o2 <> Gt ->
  compare a c = Some (comb o1 o2).
Proof. exact compare_trans. Qed.
Check C12_compare_trans : forall a b c o1 o2,
  compare a b = Some o1 -> compare b c = Some o2 -> o1 <> Gt -> o2 <> Gt ->
  compare a c = Some (comb o1 o2).
Print Assumptions C12_compare_trans.

(* lists and strings compare lexicographically with a proper prefix first *)
Theorem C12_list_prefix_first : forall l x r,
  Forall self_comparable l -> compare (VList l) (VList (l ++ x :: r)) = Some Lt.
Proof. exact prefix_first. Qed.
Check C12_list_prefix_first : forall l x r,
  Forall self_comparable l -> compare (VList l) (VList (l ++ x :: r)) = Some Lt.
Print Assumptions C12_list_prefix_first.

Theorem C12_list_lexicographic : forall p q x y l m,
  Forall2 (fun a b => compare a b = Some Eq) p q -> compare x y = Some Lt ->
  compare (VList (p ++ x :: l)) (VList (q ++ y :: m)) = Some Lt.
Proof. exact list_lex_first_difference. Qed.
Check C12_list_lexicographic : forall p q x y l m,
  Forall2 (fun a b => compare a b = Some Eq) p q -> compare x y = Some Lt ->
  compare (VList (p ++ x :: l)) (VList (q ++ y :: m)) = Some Lt.
Print Assumptions C12_list_lexicographic.

Theorem C12_string_prefix_first : forall s c r,
  compare (VStr s) (VStr (s ++ String c r)) = Some Lt.
Proof. exact string_prefix_first. Qed.
Check C12_string_prefix_first : forall s c r,
  compare (VStr s) (VStr (s ++ String c r)) = Some Lt.
Print Assumptions C12_string_prefix_first.

(* values of different types are never equal and make the ordering operators fail;
   null, records and functions are unordered *)
Theorem C12_cross_type : forall a b,
  type_of a <> type_of b -> equals a b = false /\ compare a b = None.
Proof. exact cross_type. Qed.
Check C12_cross_type : forall a b,
  type_of a <> type_of b -> equals a b = false /\ compare a b = None.
Print Assumptions C12_cross_type.

Theorem C12_unordered_types : forall a b,
  match type_of a with TNull | TRec | TLam | TBuiltin | TSpread => True | _ => False end ->
  compare a b = None /\ compare b a = None.
Proof. exact unordered_types. Qed.
Check C12_unordered_types : forall a b,
  match type_of a with TNull | TRec | TLam | TBuiltin | TSpread => True | _ => False end ->
  compare a b = None /\ compare b a = None.
Print Assumptions C12_unordered_types.

Theorem C12_ordering_fails_iff_incomparable : forall a b,
  (dot_lt a b = None <-> compare a b = None) /\ (dot_le a b = None <-> compare a b = None) /\
  (dot_gt a b = None <-> compare a b = None) /\ (dot_ge a b = None <-> compare a b = None).
Proof. exact ordering_fails_iff_incomparable. Qed.
Check C12_ordering_fails_iff_incomparable : forall a b,
  (dot_lt a b = None <-> compare a b = None) /\ (dot_le a b = None <-> compare a b = None) /\
  (dot_gt a b = None <-> compare a b = None) /\ (dot_ge a b = None <-> compare a b = None).
Print Assumptions C12_ordering_fails_iff_incomparable.

(* ugt/ult/ugte/ulte agree with the operators whenever those succeed, false otherwise *)
Theorem C12_unchecked_agree : forall a b,
  ugt a b = match dot_gt a b with Some r => r | None => false end /\
  ult a b = match dot_lt a b with Some r => r | None => false end /\
  ugte a b = match dot_ge a b with Some r => r | None => false end /\
  ulte a b = match dot_le a b with Some r => r | None => false end.
Proof. exact unchecked_agree. Qed.
Check C12_unchecked_agree : forall a b,
  ugt a b = match dot_gt a b with Some r => r | None => false end /\
  ult a b = match dot_lt a b with Some r => r | None => false end /\
  ugte a b = match dot_ge a b with Some r => r | None => false end /\
  ulte a b = match dot_le a b with Some r => r | None => false end.
Print Assumptions C12_unchecked_agree.

(* ---- non-vacuity: concrete non-trivial objects satisfy the hypotheses ---- *)
Open Scope string_scope.
Definition one := nb 0x3ff0000000000000.
Definition two := nb 0x4000000000000000.
Example ex_perm_records :
  let r1 := [("a", VNum one); ("b", VList [VStr "x"; VNull])] in
  let r2 := [("b", VList [VStr "x"; VNull]); ("a", VNum one)] in
  data (VRec r1) = true /\ Permutation r1 r2 /\ equals (VRec r1) (VRec r2) = true.
Proof. cbn. repeat split. apply perm_swap. Qed.
Example ex_prefix : compare (VList [VNum one; VNum two]) (VList [VNum one; VNum two; VNum nzero]) = Some Lt.
Proof. vm_compute. reflexivity. Qed.
Example ex_zero_eq : equals (VNum nnzero) (VNum nzero) = true /\ data (VNum nnzero) = true.
Proof. vm_compute. split; reflexivity. Qed.
Example ex_comparable : exists o, compare (VList [VStr "ab"; VBool false]) (VList [VStr "ab"; VBool true]) = Some o.
Proof. eexists. vm_compute. reflexivity. Qed.
