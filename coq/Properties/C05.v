(* C05 — function outputs are portable: emitted source reloads to an equivalent function.
   Property theorems only.  Model: Emit.v (value -> literal AST, the inlining performed by
   expr_to_source_with_scope, emit / reload at AST level, the text of string literals) over the
   evaluator model Eval.v.  The text layer (print an AST, parse it back) belongs to C07; it is
   tied to this model by the EMIT correspondence (checks/c05.py). *)
From Coq Require Import String Ascii List ZArith Bool Permutation.
Require Import Blots.Num Blots.gen.Builtins Blots.Ast Blots.Value Blots.Outcome Blots.Binop
               Blots.Env Blots.Eval Blots.Emit Blots.proofs.ValueInd Blots.proofs.EmitLit
               Blots.proofs.EmitSubst.
Import ListNotations.

(* P0. The literal written for a captured first-order value evaluates to exactly that value
   (bit-equal numbers incl. -0 and the infinities, same key order), in every environment, for
   every implementation of the operators and of function calls.  Excluded here: NaN and
   strings/keys containing both quote characters, whose (repaired) literals are operator
   expressions — see C05_lit_roundtrip_inst. *)
Theorem C05_lit_roundtrip : forall release binop_impl apply nanfix dofix v,
  emittable_gen v = true ->
  forall c, evalE release binop_impl apply c (value_to_ast nanfix dofix v) = (Ok v, c).
Proof. exact lit_roundtrip. Qed.
Check C05_lit_roundtrip : forall release binop_impl apply nanfix dofix v,
  emittable_gen v = true ->
  forall c, evalE release binop_impl apply c (value_to_ast nanfix dofix v) = (Ok v, c).
Print Assumptions C05_lit_roundtrip.

Example C05_lit_example :
  emittable_gen (VList [VNum (nb 0xc014000000000000); VNum nninf; VNum nnzero;
                        VRec [("a b"%string, VStr "q'"%string); ("k"%string, VBuiltin B_map)]]) = true.
Proof. vm_compute. reflexivity. Qed.

(* F10 (current code): NaN is written as the identifier NaN, unbound where the text is loaded *)
Lemma C05_lit_nan_current_refuted : forall release binop_impl apply st,
  fst (evalE release binop_impl apply (st, [(FOwned, [])])
             (value_to_ast false false (VNum nnan))) = Err.
Proof. exact lit_nan_current_refuted. Qed.

(* P0. Built-ins are emitted by name and the name is read back as the same built-in.
   Finite: exhaustive over the table gen/Builtins.v regenerated from the built crate. *)
Theorem C05_builtin_name_roundtrip : forall b, builtin_of_name (builtin_name b) = Some b.
Proof. exact builtin_name_roundtrip. Qed.
Check C05_builtin_name_roundtrip : forall b, builtin_of_name (builtin_name b) = Some b.
Print Assumptions C05_builtin_name_roundtrip.

(* P0 (text). The repaired string literal — the quote character that does not occur in the
   string, nothing escaped — is read back by the grammar's `string` rule as the string, whatever
   follows it.  Strings with both quote characters cannot be one literal. *)
Theorem C05_string_literal_roundtrip : forall s rest, both_quotes s = false ->
  read_string_lit (string_lit_src true s ++ rest)%string = Some (s, rest).
Proof. exact string_lit_roundtrip. Qed.
Check C05_string_literal_roundtrip : forall s rest, both_quotes s = false ->
  read_string_lit (string_lit_src true s ++ rest)%string = Some (s, rest).
Print Assumptions C05_string_literal_roundtrip.

(* F11 (current code): backslash doubled / quote escaped although the grammar has no escapes *)
Lemma C05_string_literal_current_refuted :
  exists s, read_string_lit (string_lit_src false s) <> Some (s, ""%string).
Proof. exact string_lit_current_refuted. Qed.

(* The inlining depends on the captured scope only through its lookup function: the iteration
   order of the HashMap that holds the scope cannot matter. *)
Theorem C05_emit_scope_order_insensitive : forall nanfix dofix id args body sc sc',
  NoDup (map fst sc) -> Permutation sc sc' ->
  emit_ast nanfix dofix (VLam id args body sc) = emit_ast nanfix dofix (VLam id args body sc').
Proof. exact emit_scope_order_insensitive. Qed.
Check C05_emit_scope_order_insensitive : forall nanfix dofix id args body sc sc',
  NoDup (map fst sc) -> Permutation sc sc' ->
  emit_ast nanfix dofix (VLam id args body sc) = emit_ast nanfix dofix (VLam id args body sc').
Print Assumptions C05_emit_scope_order_insensitive.

(* Emitting a reloaded function again gives back the AST it was loaded from (its scope is
   empty, nothing is inlined): the third generation is the second. *)
Theorem C05_reemit_identity : forall nanfix dofix id e v,
  reload_ast id e = Some v -> emit_ast nanfix dofix v = Some e.
Proof. exact reemit_identity. Qed.
Check C05_reemit_identity : forall nanfix dofix id e v,
  reload_ast id e = Some v -> emit_ast nanfix dofix v = Some e.
Print Assumptions C05_reemit_identity.
