(* C05 — function outputs are portable: emitted source reloads to an equivalent function.
   Property theorems only.  Model: Emit.v (value -> literal AST, the inlining performed by
   expr_to_source_with_scope, emit / reload at AST level, the text of string literals) over the
   evaluator model Eval.v.  The text layer (print an AST, parse it back) belongs to C07; it is
   tied to this model by the EMIT correspondence (checks/c05.py). *)
From Coq Require Import String Ascii List ZArith Bool Permutation.
Require Import Blots.Num Blots.gen.Builtins Blots.Ast Blots.Value Blots.Outcome Blots.Binop
               Blots.Env Blots.Eval Blots.Emit Blots.proofs.ValueInd Blots.proofs.EmitLit
               Blots.proofs.EmitSubst.
Import ListNotations.

(* P0. The literal written for a captured first-order value evaluates to exactly that value
   (bit-equal numbers incl. -0 and the infinities, same key order), in every environment, for
   every implementation of the operators and of function calls.  Excluded here: NaN and
   strings/keys containing both quote characters, whose (repaired) literals are operator
   expressions — see C05_lit_roundtrip_inst. *)
Theorem C05_lit_roundtrip : forall release binop_impl apply nanfix dofix v,
  emittable_gen v = true ->
  forall c, evalE release binop_impl apply c (value_to_ast nanfix dofix v) = (Ok v, c).
Proof. exact lit_roundtrip. Qed.
Check C05_lit_roundtrip : forall release binop_impl apply nanfix dofix v,
  emittable_gen v = true ->
  forall c, evalE release binop_impl apply c (value_to_ast nanfix dofix v) = (Ok v, c).
Print Assumptions C05_lit_roundtrip.

Example C05_lit_example :
  emittable_gen (VList [VNum (nb 0xc014000000000000); VNum nninf; VNum nnzero;
                        VRec [("a b"%string, VStr "q'"%string); ("k"%string, VBuiltin B_map)]]) = true.
Proof. vm_compute. reflexivity. Qed.

(* F10 (current code): NaN is written as the identifier NaN, unbound where the text is loaded *)
Lemma C05_lit_nan_current_refuted : forall release binop_impl apply st,
  fst (evalE release binop_impl apply (st, [(FOwned, [])])
             (value_to_ast false false (VNum nnan))) = Err.
Proof. exact lit_nan_current_refuted. Qed.

(* P0. Built-ins are emitted by name and the name is read back as the same built-in.
   Finite: exhaustive over the table gen/Builtins.v regenerated from the built crate. *)
Theorem C05_builtin_name_roundtrip : forall b, builtin_of_name (builtin_name b) = Some b.
Proof. exact builtin_name_roundtrip. Qed.
Check C05_builtin_name_roundtrip : forall b, builtin_of_name (builtin_name b) = Some b.
Print Assumptions C05_builtin_name_roundtrip.

(* P0 (text). The repaired string literal — the quote character that does not occur in the
   string, nothing escaped — is read back by the grammar's `string` rule as the string, whatever
   follows it.  Strings with both quote characters cannot be one literal. *)
Theorem C05_string_literal_roundtrip : forall s rest, both_quotes s = false ->
  read_string_lit (string_lit_src true s ++ rest)%string = Some (s, rest).
Proof. exact string_lit_roundtrip. Qed.
Check C05_string_literal_roundtrip : forall s rest, both_quotes s = false ->
  read_string_lit (string_lit_src true s ++ rest)%string = Some (s, rest).
Print Assumptions C05_string_literal_roundtrip.

(* F11 (current code): backslash doubled / quote escaped although the grammar has no escapes *)
Lemma C05_string_literal_current_refuted :
  exists s, read_string_lit (string_lit_src false s) <> Some (s, ""%string).
Proof. exact string_lit_current_refuted. Qed.

(* The inlining depends on the captured scope only through its lookup function: the iteration
   order of the HashMap that holds the scope cannot matter. *)
Theorem C05_emit_scope_order_insensitive : forall nanfix dofix id args body sc sc',
  NoDup (map fst sc) -> Permutation sc sc' ->
  emit_ast nanfix dofix (VLam id args body sc) = emit_ast nanfix dofix (VLam id args body sc').
Proof. exact emit_scope_order_insensitive. Qed.
Check C05_emit_scope_order_insensitive : forall nanfix dofix id args body sc sc',
  NoDup (map fst sc) -> Permutation sc sc' ->
  emit_ast nanfix dofix (VLam id args body sc) = emit_ast nanfix dofix (VLam id args body sc').
Print Assumptions C05_emit_scope_order_insensitive.

(* Emitting a reloaded function again gives back the AST it was loaded from (its scope is
   empty, nothing is inlined): the third generation is the second. *)
Theorem C05_reemit_identity : forall nanfix dofix id e v,
  reload_ast id e = Some v -> emit_ast nanfix dofix v = Some e.
Proof. exact reemit_identity. Qed.
Check C05_reemit_identity : forall nanfix dofix id e v,
  reload_ast id e = Some v -> emit_ast nanfix dofix v = Some e.
Print Assumptions C05_reemit_identity.

(* ------------------------------------------------------------------------------------------ *)
Require Import Blots.proofs.EmitSound Blots.proofs.LfInst Blots.EvalInst.

(* P2, first-order part (the repaired inlining, dofix = true).  A call of a closure and a call of
   its reloaded emission give the SAME outcome and the SAME store — at every call depth d, from
   any two call sites (fr / fr': different sessions, different `inputs`), whatever the two
   functions are named — provided
     - the body is first-order (creates no function, no #input, assignments only as do-block
       statements) and closed after capture (the code's own collect_free_variables finds
       nothing outside parameters and captured names),
     - the captured values are first-order literals (emittable_gen),
     - capture-avoidance: captured names are not parameters (true of every closure the
       evaluator creates: C04_capture_only_referenced), not `inputs` (finding F9), not the
       function's own display name (finding F8), not inf/infinity/constants,
     - the arguments are lambda-free,
     - the operator and built-in implementations use their callback only through its behaviour
       on lambda-free values and return lambda-free values from lambda-free arguments
       (impl_lf_respecting; C05_impl_respecting_example shows implementations that do call it).
   Do-block locals and parameters that shadow a captured name are handled by the inlining
   itself (no premise about them). *)
Theorem C05_emit_equiv_first_order_partial :
  forall release binop_impl builtin_impl, impl_lf_respecting binop_impl builtin_impl ->
  forall nanfix d fr fr' this this' id id' params body sv args st,
    first_order_body body = true ->
    free_vars body (map arg_name params ++ map fst sv) = [] ->
    forallb (fun kv => emittable_gen (snd kv)) sv = true ->
    (forall x, special_name x = true -> rec_get sv x = None) ->
    (forall x, In x (map arg_name params) -> rec_get sv x = None) ->
    rec_get sv "inputs"%string = None ->
    (forall n, lam_name st id = Some n -> rec_get sv n = None) ->
    lfs args = true ->
    AD release binop_impl builtin_impl d fr this (VLam id params body sv) args st =
    AD release binop_impl builtin_impl d fr' this'
       (VLam id' params (subst true (scope_map nanfix true sv) body) []) args st.
Proof. exact emit_equiv_first_order. Qed.
Check C05_emit_equiv_first_order_partial :
  forall release binop_impl builtin_impl, impl_lf_respecting binop_impl builtin_impl ->
  forall nanfix d fr fr' this this' id id' params body sv args st,
    first_order_body body = true ->
    free_vars body (map arg_name params ++ map fst sv) = [] ->
    forallb (fun kv => emittable_gen (snd kv)) sv = true ->
    (forall x, special_name x = true -> rec_get sv x = None) ->
    (forall x, In x (map arg_name params) -> rec_get sv x = None) ->
    rec_get sv "inputs"%string = None ->
    (forall n, lam_name st id = Some n -> rec_get sv n = None) ->
    lfs args = true ->
    AD release binop_impl builtin_impl d fr this (VLam id params body sv) args st =
    AD release binop_impl builtin_impl d fr' this'
       (VLam id' params (subst true (scope_map nanfix true sv) body) []) args st.
Print Assumptions C05_emit_equiv_first_order_partial.

Example C05_impl_respecting_example : impl_lf_respecting ex_binop ex_builtin.
Proof. exact impl_lf_respecting_example. Qed.
(* a closure satisfying the premises: the F50 witness (do-block local shadowing the captured k) *)
Example C05_emit_equiv_premises_example :
  first_order_body f50_body = true /\
  free_vars f50_body (map arg_name [AReq "x"%string] ++ map fst [("k"%string, VNum (nb 0x4014000000000000))]) = [].
Proof. vm_compute. split; reflexivity. Qed.

(* The transcribed operators and built-ins of EvalInst.v DO satisfy that hypothesis (LfInst.v: an
   instance of GenOps.v, the parametricity proof of ClosedOps.v for an arbitrary value predicate) ... *)
Theorem C05_impl_respecting_inst : impl_lf_respecting binop_impl builtin_impl.
Proof. exact impl_lf_respecting_inst. Qed.
Check C05_impl_respecting_inst : impl_lf_respecting binop_impl builtin_impl.
Print Assumptions C05_impl_respecting_inst.

(* ... so for the evaluator the first-order equivalence holds without any hypothesis on the
   implementations *)
Theorem C05_emit_equiv_first_order_evaluator :
  forall release nanfix d fr fr' this this' id id' params body sv args st,
    first_order_body body = true ->
    free_vars body (map arg_name params ++ map fst sv) = [] ->
    forallb (fun kv => emittable_gen (snd kv)) sv = true ->
    (forall x, special_name x = true -> rec_get sv x = None) ->
    (forall x, In x (map arg_name params) -> rec_get sv x = None) ->
    rec_get sv "inputs"%string = None ->
    (forall n, lam_name st id = Some n -> rec_get sv n = None) ->
    lfs args = true ->
    AD release binop_impl builtin_impl d fr this (VLam id params body sv) args st =
    AD release binop_impl builtin_impl d fr' this'
       (VLam id' params (subst true (scope_map nanfix true sv) body) []) args st.
Proof. intros release. exact (emit_equiv_first_order release binop_impl builtin_impl impl_lf_respecting_inst). Qed.
Check C05_emit_equiv_first_order_evaluator :
  forall release nanfix d fr fr' this this' id id' params body sv args st,
    first_order_body body = true ->
    free_vars body (map arg_name params ++ map fst sv) = [] ->
    forallb (fun kv => emittable_gen (snd kv)) sv = true ->
    (forall x, special_name x = true -> rec_get sv x = None) ->
    (forall x, In x (map arg_name params) -> rec_get sv x = None) ->
    rec_get sv "inputs"%string = None ->
    (forall n, lam_name st id = Some n -> rec_get sv n = None) ->
    lfs args = true ->
    AD release binop_impl builtin_impl d fr this (VLam id params body sv) args st =
    AD release binop_impl builtin_impl d fr' this'
       (VLam id' params (subst true (scope_map nanfix true sv) body) []) args st.
Print Assumptions C05_emit_equiv_first_order_evaluator.

(* kept, not proved: the full property — any closed-after-capture function (higher-order
   captured values, bodies that create closures) and its reloaded emission are observationally
   equivalent; needs a logical relation between closures over inlined and captured scopes. *)
Definition C05_full : Prop :=
  forall nanfix d fr fr' id id' params body sv args st,
    closed_after_capture (VLam id params body sv) = true ->
    v_has_both_quotes (VLam id params body sv) = false ->
    (nanfix = true \/ v_has_nan (VLam id params body sv) = false) ->
    v_self_shadow st (VLam id params body sv) = false ->
    exists e f', emit_ast nanfix true (VLam id params body sv) = Some e /\ reload_ast id' e = Some f' /\
      forall r st', AD true binop_impl builtin_impl d fr (VLam id params body sv) (VLam id params body sv) args st = (r, st') ->
        exists r' st'', AD true binop_impl builtin_impl d fr' f' f' args st = (r', st'') /\
          (forall v, r = Ok v -> fo v = true -> r' = Ok v) /\ (is_ok r = is_ok r').

(* F50 (current code, dofix = false): a do-block local shadowing a captured name is inlined.
   k = 5; f = x => do { y = k; k = x; return k + y }: f(1) = 6, the reloaded emission gives 10;
   the repaired inlining gives 6. *)
Lemma C05_subst_do_shadow_current_refuted :
  closed_after_capture f50_fun = true /\
  call_on f50_fun (VNum (nb 0x3ff0000000000000)) = Ok (VNum (nb 0x4018000000000000)) /\
  call_on (reloaded false false f50_fun) (VNum (nb 0x3ff0000000000000)) = Ok (VNum (nb 0x4024000000000000)).
Proof. exact do_shadow_current_refuted. Qed.
Lemma C05_subst_do_shadow_fixed :
  call_on (reloaded true true f50_fun) (VNum (nb 0x3ff0000000000000)) = Ok (VNum (nb 0x4018000000000000)).
Proof. exact do_shadow_fixed_witness. Qed.

(* F15 (current code): a negative literal under a postfix operator; `-5!` is -(5!) = -120 *)
Lemma C05_neg_postfix_current_refuted :
  fst (eval_release ([], [(FOwned, [])]) (EUn Negate (EFact (ENum (nb 0x4014000000000000)))))
    = Ok (VNum (nb 0xc05e000000000000)) /\
  fst (eval_release ([], [(FOwned, [])]) (EFact (EUn Negate (ENum (nb 0x4014000000000000))))) = Err.
Proof. exact neg_postfix_refuted. Qed.

(* P0 for the two literal forms that are operator expressions, with the transcribed operators *)
Theorem C05_lit_nan_inst : forall c, eval_release c (value_to_ast true true (VNum nnan)) = (Ok (VNum nnan), c).
Proof. exact lit_nan_inst. Qed.
Check C05_lit_nan_inst : forall c, eval_release c (value_to_ast true true (VNum nnan)) = (Ok (VNum nnan), c).
Print Assumptions C05_lit_nan_inst.

(* ------------------------------------------------------------------------------------------ *)
Require Import Blots.proofs.EmitClosed.

(* P1 (closedness).  The free names of an inlined expression are free names of the original that
   are not in the inlining scope (and not bound) — for every expression form: lambdas whose
   parameters shadow a captured name, do-blocks whose locals shadow one, shorthand, spreads ... *)
Theorem C05_inlined_free_vars : forall e m bound x,
  lits_closed m ->
  In x (free_vars (subst true m e) bound) ->
  In x (free_vars e bound) /\ rec_get m x = None /\ mem x bound = false.
Proof. exact subst_fv. Qed.
Check C05_inlined_free_vars : forall e m bound x,
  lits_closed m ->
  In x (free_vars (subst true m e) bound) ->
  In x (free_vars e bound) /\ rec_get m x = None /\ mem x bound = false.
Print Assumptions C05_inlined_free_vars.

(* ... hence, for first-order captured values: if every free name of the body is a parameter or
   captured, the emitted body has NO free name (by the code's own collect_free_variables): it can
   never fail with an unknown identifier where it is loaded.  (Captured closures: the literal of a
   closure is closed under the same argument applied recursively; not carried out in Coq.) *)
Theorem C05_emitted_body_closed : forall nanfix params body sv,
  forallb (fun kv => fo (snd kv)) sv = true ->
  (nanfix = true \/ existsb (fun kv => has_nan (snd kv)) sv = false) ->
  (forall z, In z (free_vars body (map arg_name params)) -> rec_get sv z <> None) ->
  free_vars (subst true (scope_map nanfix true sv) body) (map arg_name params) = [].
Proof. exact emitted_body_closed. Qed.
Check C05_emitted_body_closed : forall nanfix params body sv,
  forallb (fun kv => fo (snd kv)) sv = true ->
  (nanfix = true \/ existsb (fun kv => has_nan (snd kv)) sv = false) ->
  (forall z, In z (free_vars body (map arg_name params)) -> rec_get sv z <> None) ->
  free_vars (subst true (scope_map nanfix true sv) body) (map arg_name params) = [].
Print Assumptions C05_emitted_body_closed.

(* ------------------------------------------------------------------------------------------ *)
(* HIGHER-ORDER captured values (closures capturing closures to any depth, bodies that create
   closures, functions as results).  proofs/EmitHO*.v. *)
Require Import Blots.EvalFull Blots.proofs.EmitHO Blots.proofs.EmitHOSim Blots.proofs.EmitHOOps
               Blots.proofs.EmitHOTop.

(* P2, the simulation.  [vrel v v'] = "v' is v after emit + reload": data equal; a closure
   VLam _ ps b sc related to VLam _ ps (subst m b) sc' where m inlines some captured names as the
   literals of their (emittable) values and the other captured names are captured on the right with
   related values.  For EVERY implementation of operators / built-ins that takes related callbacks
   and operands to related outcomes (impl_rel_respecting), related functions applied to related
   arguments — at every depth d, from any two scope chains, any two stores, any self values — give
   related outcomes: Ok with related values, or the same error class (in particular the depth
   error on both sides or on neither: both runs are at the same depth and the inlined literals call
   nothing, so F23 does not enter). *)
Theorem C05_ho_simulation :
  forall opok biok nanfix release binop_impl builtin_impl,
    impl_rel_respecting opok biok nanfix binop_impl builtin_impl ->
    forall d fr fr' this this' f f' args args' st st',
      vrel opok biok nanfix f f' -> lrel opok biok nanfix args args' ->
      orel opok biok nanfix (fst (AD release binop_impl builtin_impl d fr this f args st))
                            (fst (AD release binop_impl builtin_impl d fr' this' f' args' st')).
Proof. exact ho_simulation. Qed.
Check C05_ho_simulation :
  forall opok biok nanfix release binop_impl builtin_impl,
    impl_rel_respecting opok biok nanfix binop_impl builtin_impl ->
    forall d fr fr' this this' f f' args args' st st',
      vrel opok biok nanfix f f' -> lrel opok biok nanfix args args' ->
      orel opok biok nanfix (fst (AD release binop_impl builtin_impl d fr this f args st))
                            (fst (AD release binop_impl builtin_impl d fr' this' f' args' st')).
Print Assumptions C05_ho_simulation.

(* The transcribed operators (all but == != .== .!=, finding F53) and the built-ins of biok_inst
   (map filter reduce every some, abs floor ceil trunc sqrt, typeof arity to_bool, ugt ult ugte ulte,
   any all) satisfy that hypothesis, also through the dispatcher with every transcribed built-in. *)
Theorem C05_impl_rel_respecting_inst : forall nanfix,
  impl_rel_respecting eqfree biok_inst nanfix binop_impl EvalFull.builtin_full.
Proof. exact impl_rel_full. Qed.
Check C05_impl_rel_respecting_inst : forall nanfix,
  impl_rel_respecting eqfree biok_inst nanfix binop_impl EvalFull.builtin_full.
Print Assumptions C05_impl_rel_respecting_inst.

(* C05_full, proved, with its exclusions.  For a function value that is [emit_ok] — closed after
   capture at every level of nesting; bodies: no == != .== .!= (F53), only built-ins of biok_inst,
   no `inputs` / #ref (F9 of C04), no assignment outside do-block statements (F32 of C04), no
   `output`; captured data without NaN and both-quote strings (their literals are operator
   expressions), records with unique keys; captured names are not parameters / inf infinity
   constants — and arguments that are emittable values themselves (functions included): the
   original and the reloaded emission return related outcomes from any two call sites, stores and
   depths; first-order results are EQUAL, the depth error occurs on both sides or on neither.
   No premise about function names (F8 is repaired) and none about the store. *)
Theorem C05_emit_equiv_higher_order :
  forall release nanfix d fr fr' this this' id id' ps b sc args st st' r,
    emit_ok eqfree biok_inst (VLam id ps b sc) = true ->
    forallb (emit_ok eqfree biok_inst) args = true ->
    fst (AD release binop_impl EvalFull.builtin_full d fr this (VLam id ps b sc) args st) = r ->
    exists r', fst (AD release binop_impl EvalFull.builtin_full d fr' this'
                       (VLam id' ps (subst true (scope_map nanfix true sc) b) []) args st') = r' /\
      orel eqfree biok_inst nanfix r r' /\
      (forall v, r = Ok v -> lf v = true -> r' = Ok v) /\ (r = ErrDepth <-> r' = ErrDepth).
Proof. exact emit_equiv_ho_same_args. Qed.
Check C05_emit_equiv_higher_order :
  forall release nanfix d fr fr' this this' id id' ps b sc args st st' r,
    emit_ok eqfree biok_inst (VLam id ps b sc) = true ->
    forallb (emit_ok eqfree biok_inst) args = true ->
    fst (AD release binop_impl EvalFull.builtin_full d fr this (VLam id ps b sc) args st) = r ->
    exists r', fst (AD release binop_impl EvalFull.builtin_full d fr' this'
                       (VLam id' ps (subst true (scope_map nanfix true sc) b) []) args st') = r' /\
      orel eqfree biok_inst nanfix r r' /\
      (forall v, r = Ok v -> lf v = true -> r' = Ok v) /\ (r = ErrDepth <-> r' = ErrDepth).
Print Assumptions C05_emit_equiv_higher_order.

(* a closure capturing a closure capturing a closure satisfies the premise *)
Example C05_emit_ok_depth3_example :
  emit_ok eqfree biok_inst
    (VLam 0%nat [AReq "x"%string] (ECall (EId "g"%string) [EId "x"%string])
       [("g"%string, VLam 1%nat [AReq "y"%string] (ECall (EId "h"%string) [EBin Add (EId "y"%string) (EId "a"%string)])
          [("h"%string, VLam 2%nat [AReq "z"%string] (EBin Multiply (EId "z"%string) (EId "k"%string))
                          [("k"%string, VNum (nb 0x4008000000000000))]);
           ("a"%string, VNum (nb 0x3ff0000000000000))])]) = true.
Proof. vm_compute. reflexivity. Qed.

(* re-emission: emit (reload (emit f)) is the same AST, and every generation is related to the
   ORIGINAL — so (by the simulation) chains of any length behave like f *)
Theorem C05_reemit_related : forall nanfix id id1 id2 ps b sc e1 f1 e2 f2,
  emit_ok eqfree biok_inst (VLam id ps b sc) = true ->
  emit_ast nanfix true (VLam id ps b sc) = Some e1 -> reload_ast id1 e1 = Some f1 ->
  emit_ast nanfix true f1 = Some e2 -> reload_ast id2 e2 = Some f2 ->
  e2 = e1 /\ vrel eqfree biok_inst nanfix (VLam id ps b sc) f1 /\
  vrel eqfree biok_inst nanfix (VLam id ps b sc) f2.
Proof. exact reemit_related. Qed.
Check C05_reemit_related : forall nanfix id id1 id2 ps b sc e1 f1 e2 f2,
  emit_ok eqfree biok_inst (VLam id ps b sc) = true ->
  emit_ast nanfix true (VLam id ps b sc) = Some e1 -> reload_ast id1 e1 = Some f1 ->
  emit_ast nanfix true f1 = Some e2 -> reload_ast id2 e2 = Some f2 ->
  e2 = e1 /\ vrel eqfree biok_inst nanfix (VLam id ps b sc) f1 /\
  vrel eqfree biok_inst nanfix (VLam id ps b sc) f2.
Print Assumptions C05_reemit_related.

(* related data is equal data: what the relation says about a first-order result *)
Theorem C05_related_data_equal : forall nanfix v v',
  vrel eqfree biok_inst nanfix v v' -> lf v = true -> v = v'.
Proof. intros nanfix. exact (vrel_lf_eq eqfree biok_inst nanfix). Qed.
Check C05_related_data_equal : forall nanfix v v',
  vrel eqfree biok_inst nanfix v v' -> lf v = true -> v = v'.
Print Assumptions C05_related_data_equal.

(* the free names of an inlined expression are EXACTLY the un-inlined free names of the original
   (converse of C05_inlined_free_vars): a closure created by a reloaded body captures exactly what
   the original captured and the emission did not inline *)
Theorem C05_inlined_free_vars_conv : forall e m bound x,
  lits_closed m -> In x (free_vars e bound) -> rec_get m x = None ->
  In x (free_vars (subst true m e) bound).
Proof. exact EmitHOFv.subst_fv_conv. Qed.
Check C05_inlined_free_vars_conv : forall e m bound x,
  lits_closed m -> In x (free_vars e bound) -> rec_get m x = None ->
  In x (free_vars (subst true m e) bound).
Print Assumptions C05_inlined_free_vars_conv.

(* F53 (current code): Value::equals on two functions compares parameter lists and body ASTs and
   ignores captured values.  mk = a => (y => y + a); k1 = mk(1); k2 = mk(2); f = x => k1 == k2:
   f(0) = true, the reloaded emission (x) => ((y) => y + 1) == ((y) => y + 2) gives false. *)
Lemma C05_function_equality_refuted :
  closed_after_capture f52_fun = true /\
  call_on f52_fun (VNum nzero) = Ok (VBool true) /\
  call_on (reloaded true true f52_fun) (VNum nzero) = Ok (VBool false).
Proof. exact f52_refuted. Qed.

(* ... hence the statement C05_full above, which has no exclusion for function equality, is FALSE *)
Lemma C05_full_refuted : ~ C05_full.
Proof.
  intros H.
  destruct (H true LIMIT [(FOwned, [])] [(FOwned, [])] 0%nat 1%nat [AReq "x"%string]
              (EBin Equal (EId "k1"%string) (EId "k2"%string))
              [("k1"%string, f52_k 1%Z); ("k2"%string, f52_k 2%Z)] [VNum nzero] [None; None]
              ltac:(vm_compute; reflexivity) ltac:(vm_compute; reflexivity) (or_introl eq_refl)
              ltac:(vm_compute; reflexivity)) as (e & f' & E & R & HH).
  cbn in E. inversion E; subst e. cbn in R. inversion R; subst f'. clear E R.
  match type of HH with forall r st', ?X = _ -> _ =>
    destruct (HH (fst X) (snd X) (surjective_pairing X)) as (r' & st'' & E2 & Hfo & _);
    assert (Hr : fst X = Ok (VBool true)) by (vm_compute; reflexivity) end.
  specialize (Hfo _ Hr eq_refl). subst r'.
  apply (f_equal fst) in E2. cbn [fst] in E2. vm_compute in E2. discriminate.
Qed.

(* kept, not proved: the relation-respecting property for the remaining arms of builtin_full
   (aggregates, list / string / record built-ins, sort_by group_by count_by; `unique` and `includes`
   apply Value::equals and belong to F53), and NaN / both-quote captured data (their literals are
   0/0 and a `+` chain: needs the instantiated `/` and `+` inside lit_rel) *)
Definition C05_all_builtins_rel_full : Prop :=
  forall nanfix,
    impl_rel_respecting eqfree
      (fun b => match b with B_unique | B_includes => false | _ => true end)
      nanfix binop_impl EvalFull.builtin_full.

(* ================================================================================================
   REL round: [C05_all_builtins_rel_full] is PROVED (proofs/RelPure.v: every pure arm of
   EvalFull.builtin_full and sort_by / group_by / count_by respect any structural value relation;
   proofs/EmitHOOpsFull.v: the instance R := vrel).  [biok_full] = every built-in except unique and
   includes, whose arms apply Value::equals to argument elements (finding F53) — the exclusion is
   necessary: [C05_includes_function_equality_refuted], [C05_all_builtins_unrestricted_refuted].
   Hence the simulation and the emission equivalence hold for bodies that mention ANY other built-in
   (aggregates, list / string / record built-ins, convert round random to_number to_string join,
   sort_by group_by count_by, and the untranscribed ones, which are Unmodelled on both sides).
   ================================================================================================ *)
Require Import Blots.proofs.RelPure Blots.proofs.EmitHOOpsFull.

Theorem C05_all_builtins_rel_full_proved : C05_all_builtins_rel_full.
Proof. exact impl_rel_full_all. Qed.
Check C05_all_builtins_rel_full_proved : forall nanfix,
  impl_rel_respecting eqfree biok_full nanfix binop_impl EvalFull.builtin_full.
Print Assumptions C05_all_builtins_rel_full_proved.

(* the shortcut behind most arms: related values with no function inside are EQUAL *)
Theorem C05_related_function_free_equal : forall opok biok nanfix v v',
  vrel opok biok nanfix v v' -> BuiltinsText.has_function v = false -> v = v'.
Proof. exact vrel_nofun_eq. Qed.
Check C05_related_function_free_equal : forall opok biok nanfix v v',
  vrel opok biok nanfix v v' -> BuiltinsText.has_function v = false -> v = v'.
Print Assumptions C05_related_function_free_equal.

Theorem C05_ho_simulation_full : forall release nanfix d fr fr' this this' f f' args args' st st',
  vrel eqfree biok_full nanfix f f' -> lrel eqfree biok_full nanfix args args' ->
  orel eqfree biok_full nanfix (fst (AD release binop_impl EvalFull.builtin_full d fr this f args st))
                               (fst (AD release binop_impl EvalFull.builtin_full d fr' this' f' args' st')).
Proof. exact ho_simulation_all. Qed.
Check C05_ho_simulation_full : forall release nanfix d fr fr' this this' f f' args args' st st',
  vrel eqfree biok_full nanfix f f' -> lrel eqfree biok_full nanfix args args' ->
  orel eqfree biok_full nanfix (fst (AD release binop_impl EvalFull.builtin_full d fr this f args st))
                               (fst (AD release binop_impl EvalFull.builtin_full d fr' this' f' args' st')).
Print Assumptions C05_ho_simulation_full.

Theorem C05_emit_equiv_higher_order_full :
  forall release nanfix d fr fr' this this' id id' ps b sc args st st' r,
    emit_ok eqfree biok_full (VLam id ps b sc) = true ->
    forallb (emit_ok eqfree biok_full) args = true ->
    fst (AD release binop_impl EvalFull.builtin_full d fr this (VLam id ps b sc) args st) = r ->
    exists r', fst (AD release binop_impl EvalFull.builtin_full d fr' this'
                       (VLam id' ps (subst true (scope_map nanfix true sc) b) []) args st') = r' /\
      orel eqfree biok_full nanfix r r' /\
      (forall v, r = Ok v -> lf v = true -> r' = Ok v) /\ (r = ErrDepth <-> r' = ErrDepth).
Proof. exact emit_equiv_ho_same_args_all. Qed.
Check C05_emit_equiv_higher_order_full :
  forall release nanfix d fr fr' this this' id id' ps b sc args st st' r,
    emit_ok eqfree biok_full (VLam id ps b sc) = true ->
    forallb (emit_ok eqfree biok_full) args = true ->
    fst (AD release binop_impl EvalFull.builtin_full d fr this (VLam id ps b sc) args st) = r ->
    exists r', fst (AD release binop_impl EvalFull.builtin_full d fr' this'
                       (VLam id' ps (subst true (scope_map nanfix true sc) b) []) args st') = r' /\
      orel eqfree biok_full nanfix r r' /\
      (forall v, r = Ok v -> lf v = true -> r' = Ok v) /\ (r = ErrDepth <-> r' = ErrDepth).
Print Assumptions C05_emit_equiv_higher_order_full.

(* a closure whose body uses the newly covered built-ins (sort_by with a captured key function, sum,
   group_by, to_string, slice) satisfies the premise *)
Example C05_emit_ok_full_example :
  emit_ok eqfree biok_full
    (VLam 0%nat [AReq "l"%string]
       (EList [Cm [] (ECall (EBuiltin B_sort_by) [EId "l"%string; EId "key"%string]) None;
               Cm [] (ECall (EBuiltin B_sum) [ECall (EBuiltin B_slice) [EId "l"%string; ENum nzero; EId "n"%string]]) None;
               Cm [] (ECall (EBuiltin B_group_by)
                        [EId "l"%string; ELam [AReq "k"%string] (ECall (EBuiltin B_to_string) [EId "k"%string])]) None])
       [("key"%string, VLam 1%nat [AReq "y"%string] (EBin Multiply (EId "y"%string) (EId "s"%string))
                         [("s"%string, VNum (nb 0xbff0000000000000))]);
        ("n"%string, VNum (nb 0x4000000000000000))]) = true.
Proof. vm_compute. reflexivity. Qed.

(* F53 through a built-in: includes([k1], k2) / len(unique([k1, k2])) with k1, k2 closures that differ
   only in a captured value — true / 1 before emission, false / 2 after reload *)
Lemma C05_includes_function_equality_refuted :
  closed_after_capture f53_includes_fun = true /\
  call_on_full f53_includes_fun (VNum nzero) = Ok (VBool true) /\
  call_on_full (reloaded true true f53_includes_fun) (VNum nzero) = Ok (VBool false).
Proof. exact f53_includes_refuted. Qed.
Lemma C05_unique_function_equality_refuted :
  closed_after_capture f53_unique_fun = true /\
  call_on_full f53_unique_fun (VNum nzero) = Ok (VNum (num_of_Z 1)) /\
  call_on_full (reloaded true true f53_unique_fun) (VNum nzero) = Ok (VNum (num_of_Z 2)).
Proof. exact f53_unique_refuted. Qed.
(* ... hence the hypothesis with NO built-in excluded is false: the exclusion in biok_full is exact *)
Lemma C05_all_builtins_unrestricted_refuted : ~ all_builtins_rel_unrestricted.
Proof. exact all_builtins_rel_unrestricted_refuted. Qed.

(* The exclusion is exact with respect to the CODE as well: the built-ins excluded from [biok_full] are exactly the arms
   of BuiltInFunction::call whose source text applies Value::equals (coq/gen/ArmObservers.v, regenerated from
   blots-core/src/functions.rs on every run; exhaustive over the regenerated built-in table). *)
Require Import Blots.gen.ArmObservers.
Theorem C05_equality_exclusion_matches_source : forall b, biok_full b = negb (src_applies_equals b).
Proof. destruct b; reflexivity. Qed.
Check C05_equality_exclusion_matches_source : forall b, biok_full b = negb (src_applies_equals b).
Print Assumptions C05_equality_exclusion_matches_source.
(* ---- F54 repaired (known/C05.json): input references ----
   `#field` is `inputs.field`.  Repaired code: the free-variable scan counts it as a use of `inputs` (so the
   Lambda arm captures `inputs`), and emission prints it the way it prints `inputs.field`, with the captured
   `inputs` inlined.  The emitted form evaluates in EVERY configuration — whatever inputs the loading program
   has — to what `#field` gave where `inputs` was the captured value (lit_roundtrip does the work). *)
Require Import Blots.proofs.EmitInRef.
Theorem C05_input_reference_emission : forall release binop_impl apply n d sc f v c0 c,
  rec_get sc "inputs"%string = Some v -> emittable_gen v = true -> both_quotes f = false ->
  lookup (snd c0) "inputs"%string = Some v ->
  (* the emitted form: `<inputs>.f`, exactly what `inputs.f` emits — or, for a field spelled like a reserved
     word, which cannot follow `.`, the index `<inputs>["f"]`, exactly what `inputs["f"]` emits *)
  (is_valid_identifier f = true ->
   subst d (scope_map n d sc) (EInRef f) = subst d (scope_map n d sc) (EDot (EId "inputs"%string) f)) /\
  (is_valid_identifier f = false ->
   subst d (scope_map n d sc) (EInRef f) = subst d (scope_map n d sc) (EAccess (EId "inputs"%string) (str_to_ast f))) /\
  (* the same VALUE always, in every configuration *)
  evalE release binop_impl apply c (subst d (scope_map n d sc) (EInRef f)) =
    (fst (evalE release binop_impl apply c0 (EInRef f)), c).
Proof.
  intros release binop_impl apply n d sc f v c0 c Hsc Hem Hq Hin.
  destruct (subst_inref n d sc f v Hsc) as (_ & A & B). split; [exact A|split; [exact B|]].
  exact (inref_emission_sound release binop_impl apply n d sc f v c0 c Hsc Hem Hq Hin).
Qed.
Check C05_input_reference_emission : forall release binop_impl apply n d sc f v c0 c,
  rec_get sc "inputs"%string = Some v -> emittable_gen v = true -> both_quotes f = false ->
  lookup (snd c0) "inputs"%string = Some v ->
  (is_valid_identifier f = true ->
   subst d (scope_map n d sc) (EInRef f) = subst d (scope_map n d sc) (EDot (EId "inputs"%string) f)) /\
  (is_valid_identifier f = false ->
   subst d (scope_map n d sc) (EInRef f) = subst d (scope_map n d sc) (EAccess (EId "inputs"%string) (str_to_ast f))) /\
  evalE release binop_impl apply c (subst d (scope_map n d sc) (EInRef f)) =
    (fst (evalE release binop_impl apply c0 (EInRef f)), c).
Print Assumptions C05_input_reference_emission.

Theorem C05_input_reference_captures_inputs : forall fr f v,
  lookup fr "inputs"%string = Some v -> capture fr (free_vars (EInRef f) []) [] = [("inputs"%string, v)].
Proof. exact inref_captures_inputs. Qed.
Check C05_input_reference_captures_inputs : forall fr f v,
  lookup fr "inputs"%string = Some v -> capture fr (free_vars (EInRef f) []) [] = [("inputs"%string, v)].
Print Assumptions C05_input_reference_captures_inputs.

(* the witness of F54 end to end in the model: with inputs {rate: 2}, `x => x * #rate` captures inputs, is emitted
   as (x) => x * {rate: 2}.rate, and the reloaded function applied to 3 in a program WITHOUT inputs gives 6
   (as the original does); a parameter named `inputs` keeps its `#rate` *)
Definition f54_inputs : value := VRec [("rate"%string, VNum (num_of_Z 2))].
Definition f54_cfg : cfg := ([], [(FOwned, [("inputs"%string, f54_inputs)])]).
Definition f54_lam : expr := ELam [AReq "x"%string] (EBin Multiply (EId "x"%string) (EInRef "rate"%string)).
Example C05_F54_repaired :
  let r := evalD true binop_impl builtin_impl 4 f54_cfg f54_lam in
  match fst r with
  | Ok fv =>
      (match fv with VLam _ _ _ sc => sc | _ => [] end) = [("inputs"%string, f54_inputs)] /\
      emit_ast true true fv =
        Some (ELam [AReq "x"%string]
                (EBin Multiply (EId "x"%string)
                   (EDot (ERec [Cm [] (REntry (KStatic "rate"%string) (ENum (num_of_Z 2))) None]) "rate"%string))) /\
      match emit_ast true true fv with
      | Some e =>
          match reload_ast 0%nat e with
          | Some g =>
              fst (evalD true binop_impl builtin_impl 4 ([None], [(FOwned, [("g"%string, g)])])
                     (ECall (EId "g"%string) [ENum (num_of_Z 3)])) = Ok (VNum (num_of_Z 6)) /\
              fst (evalD true binop_impl builtin_impl 4 (snd r)
                     (ECall f54_lam [ENum (num_of_Z 3)])) = Ok (VNum (num_of_Z 6))
          | None => False
          end
      | None => False
      end
  | _ => False
  end /\
  subst true [("inputs"%string, ENull)] (ELam [AReq "inputs"%string] (EInRef "rate"%string)) =
    ELam [AReq "inputs"%string] (EInRef "rate"%string).
Proof. vm_compute. repeat split. Qed.

(* a field spelled like a reserved word: `#if` parses, `{..}.if` does not; emitted as an index.  With inputs
   {"if": 2, rate: 3}: `x => x * #if + #rate` is emitted as (x) => x * {"if": 2, rate: 3}["if"] + {"if": 2, rate: 3}.rate
   and the reloaded function applied to 5 in a program without those inputs gives 13, as the original does *)
Definition f54r_inputs : value := VRec [("if"%string, VNum (num_of_Z 2)); ("rate"%string, VNum (num_of_Z 3))].
Definition f54r_lit : expr :=
  ERec [Cm [] (REntry (KStatic "if"%string) (ENum (num_of_Z 2))) None;
        Cm [] (REntry (KStatic "rate"%string) (ENum (num_of_Z 3))) None].
Definition f54r_lam : expr :=
  ELam [AReq "x"%string] (EBin Add (EBin Multiply (EId "x"%string) (EInRef "if"%string)) (EInRef "rate"%string)).
Example C05_F54_reserved_word_field :
  is_valid_identifier "if"%string = false /\ is_valid_identifier "rate"%string = true /\
  let r := evalD true binop_impl builtin_impl 4 ([], [(FOwned, [("inputs"%string, f54r_inputs)])]) f54r_lam in
  match fst r with
  | Ok fv =>
      emit_ast true true fv =
        Some (ELam [AReq "x"%string]
                (EBin Add (EBin Multiply (EId "x"%string) (EAccess f54r_lit (EStr "if"%string)))
                          (EDot f54r_lit "rate"%string))) /\
      match emit_ast true true fv with
      | Some e =>
          match reload_ast 0%nat e with
          | Some g =>
              fst (evalD true binop_impl builtin_impl 4 ([None], [(FOwned, [("g"%string, g)])])
                     (ECall (EId "g"%string) [ENum (num_of_Z 5)])) = Ok (VNum (num_of_Z 13)) /\
              fst (evalD true binop_impl builtin_impl 4 (snd r)
                     (ECall f54r_lam [ENum (num_of_Z 5)])) = Ok (VNum (num_of_Z 13))
          | None => False
          end
      | None => False
      end
  | _ => False
  end.
Proof. vm_compute. repeat split. Qed.

(* ---- ... and for the COMPLETE operator table and built-in set (EvalAll.v: every built-in of the
   regenerated table, `^` through the oracle's powf; libm, Unicode tables, clock and lambda text are
   fields of the oracle record o), for every oracle: AllLf.v, from FullClosed.v / FullAgree.v generalised
   to an arbitrary value predicate (AllGenClosed.v) ---- *)
Require Import Blots.EvalFull Blots.EvalAll Blots.proofs.AllLf.
Theorem C05_impl_respecting_all : forall o, impl_lf_respecting (binop_all o) (builtin_all o).
Proof. exact impl_lf_respecting_all. Qed.
Check C05_impl_respecting_all : forall o, impl_lf_respecting (binop_all o) (builtin_all o).
Print Assumptions C05_impl_respecting_all.

Theorem C05_emit_equiv_first_order_evaluator_all :
  forall o release nanfix d fr fr' this this' id id' params body sv args st,
    first_order_body body = true ->
    free_vars body (map arg_name params ++ map fst sv) = [] ->
    forallb (fun kv => emittable_gen (snd kv)) sv = true ->
    (forall x, special_name x = true -> rec_get sv x = None) ->
    (forall x, In x (map arg_name params) -> rec_get sv x = None) ->
    rec_get sv "inputs"%string = None ->
    (forall n, lam_name st id = Some n -> rec_get sv n = None) ->
    lfs args = true ->
    AD release (binop_all o) (builtin_all o) d fr this (VLam id params body sv) args st =
    AD release (binop_all o) (builtin_all o) d fr' this'
       (VLam id' params (subst true (scope_map nanfix true sv) body) []) args st.
Proof.
  intros o release.
  exact (emit_equiv_first_order release (binop_all o) (builtin_all o) (impl_lf_respecting_all o)).
Qed.
Check C05_emit_equiv_first_order_evaluator_all :
  forall o release nanfix d fr fr' this this' id id' params body sv args st,
    first_order_body body = true ->
    free_vars body (map arg_name params ++ map fst sv) = [] ->
    forallb (fun kv => emittable_gen (snd kv)) sv = true ->
    (forall x, special_name x = true -> rec_get sv x = None) ->
    (forall x, In x (map arg_name params) -> rec_get sv x = None) ->
    rec_get sv "inputs"%string = None ->
    (forall n, lam_name st id = Some n -> rec_get sv n = None) ->
    lfs args = true ->
    AD release (binop_all o) (builtin_all o) d fr this (VLam id params body sv) args st =
    AD release (binop_all o) (builtin_all o) d fr' this'
       (VLam id' params (subst true (scope_map nanfix true sv) body) []) args st.
Print Assumptions C05_emit_equiv_first_order_evaluator_all.

(* ============================================================================================
   NaN / both-quote captured data (builder xc05nan; proofs/EmitNqLit.v, EmitNqSound.v, EmitNqHO*.v;
   definitions coq/EmitNq.v).  The two classes the earlier theorems exclude through emittable_gen /
   emit_ok are now INSIDE: their literals are the operator expressions `(0/0)` and the `+` chain of string literals,
   related to the value through the two facts about `/` and `+` in [binop_lit_ok].
   ============================================================================================ *)
(* the modules of the copies are Required, NOT Imported: their lemma / relation names coincide with those of
   EmitSound.v / EmitHO*.v and must not shadow them for text appended after this block *)
Require Import Blots.EmitNq Blots.proofs.EmitNqLit.
Require Blots.proofs.EmitNqSound Blots.proofs.EmitNqHO Blots.proofs.EmitNqHOSim Blots.proofs.EmitNqHOOps
        Blots.proofs.EmitNqHOTop Blots.proofs.EmitNqHOOpsFull Blots.proofs.EmitNqHOWiden.

(* (1) For EVERY string s — whatever mixture of quote characters — the text value_to_ast writes for it (a plain literal, or
   the parenthesised `+` chain of the pieces between its double quotes) evaluates to exactly VStr s and leaves store and
   scope chain unchanged: for every configuration c, every call depth (the depth lives in `apply`), every implementation
   of the operators that concatenates two strings with `+` (binop_lit_ok; nothing else about the operators is used).
   Induction over the split of s at double quotes (split_dq_chain).  Record keys use the same text as a computed key. *)
Theorem C05_lit_both_quote_evaluates :
  forall release (binop_impl : (callback -> binop -> value -> value -> store -> outcome value * store)) apply, binop_lit_ok binop_impl ->
  forall s c, evalE release binop_impl apply c (str_to_ast s) = (Ok (VStr s), c).
Proof. exact lit_both_quote_evaluates. Qed.
Check C05_lit_both_quote_evaluates :
  forall release (binop_impl : (callback -> binop -> value -> value -> store -> outcome value * store)) apply, binop_lit_ok binop_impl ->
  forall s c, evalE release binop_impl apply c (str_to_ast s) = (Ok (VStr s), c).
Print Assumptions C05_lit_both_quote_evaluates.

(* the repaired NaN literal `(0/0)`: NaN, configuration unchanged.  The model's num has ONE NaN (Num.v: spec_float):
   sign and payload of a NaN are not represented because blots-core cannot observe them (see notes/ext-c05nan.md) *)
Theorem C05_lit_nan_evaluates :
  forall release (binop_impl : (callback -> binop -> value -> value -> store -> outcome value * store)) apply, binop_lit_ok binop_impl ->
  forall c, evalE release binop_impl apply c (num_to_ast true nnan) = (Ok (VNum nnan), c).
Proof. exact lit_nan_evaluates. Qed.
Check C05_lit_nan_evaluates :
  forall release (binop_impl : (callback -> binop -> value -> value -> store -> outcome value * store)) apply, binop_lit_ok binop_impl ->
  forall c, evalE release binop_impl apply c (num_to_ast true nnan) = (Ok (VNum nnan), c).
Print Assumptions C05_lit_nan_evaluates.

(* C05_lit_roundtrip without its two exclusions: first-order data (unique record keys) holding NaN (with the repaired
   literal: emittable_nq nanfix v = fo v && (nanfix || no NaN)) and strings / record keys with both quote kinds, nested
   in lists and records at any depth: the literal evaluates to EXACTLY v (same key order) and changes nothing *)
Theorem C05_lit_roundtrip_nan_quote :
  forall release (binop_impl : (callback -> binop -> value -> value -> store -> outcome value * store)) apply, binop_lit_ok binop_impl ->
  forall nanfix dofix v, emittable_nq nanfix v = true ->
  forall c, evalE release binop_impl apply c (value_to_ast nanfix dofix v) = (Ok v, c).
Proof. exact lit_roundtrip_nq. Qed.
Check C05_lit_roundtrip_nan_quote :
  forall release (binop_impl : (callback -> binop -> value -> value -> store -> outcome value * store)) apply, binop_lit_ok binop_impl ->
  forall nanfix dofix v, emittable_nq nanfix v = true ->
  forall c, evalE release binop_impl apply c (value_to_ast nanfix dofix v) = (Ok v, c).
Print Assumptions C05_lit_roundtrip_nan_quote.

(* the transcribed `/` and `+` (EvalInst.binop_impl = Binop.eval_binop, and the complete table of EvalAll) satisfy the hypothesis *)
Theorem C05_binop_lit_ok_inst :
  binop_lit_ok binop_impl /\ forall o, binop_lit_ok (binop_all o).
Proof. split; [exact binop_lit_ok_inst|exact binop_lit_ok_all]. Qed.
Check C05_binop_lit_ok_inst :
  binop_lit_ok binop_impl /\ forall o, binop_lit_ok (binop_all o).
Print Assumptions C05_binop_lit_ok_inst.

(* the class of the earlier theorems is inside the new one *)
Theorem C05_emittable_gen_inside_nq :
  forall nanfix v, emittable_gen v = true -> emittable_nq nanfix v = true.
Proof. exact emittable_gen_nq. Qed.
Check C05_emittable_gen_inside_nq :
  forall nanfix v, emittable_gen v = true -> emittable_nq nanfix v = true.
Print Assumptions C05_emittable_gen_inside_nq.

(* (2) C05_emit_equiv_first_order_partial with NaN-holding and both-quote-holding captured data INSIDE: same statement,
   captured values emittable_nq instead of emittable_gen, and one more hypothesis on the operator implementation
   (binop_lit_ok).  Same outcome AND same store, every depth, any two call sites.  proofs/EmitNqSound.v *)
Theorem C05_emit_equiv_first_order_nan_quote_generic :
  forall release binop_impl builtin_impl, impl_lf_respecting binop_impl builtin_impl -> binop_lit_ok binop_impl ->
  forall nanfix d fr fr' this this' id id' params body sv args st,
    first_order_body body = true ->
    free_vars body (map arg_name params ++ map fst sv) = [] ->
    forallb (fun kv => emittable_nq nanfix (snd kv)) sv = true ->
    (forall x, special_name x = true -> rec_get sv x = None) ->
    (forall x, In x (map arg_name params) -> rec_get sv x = None) ->
    rec_get sv "inputs"%string = None ->
    (forall n, lam_name st id = Some n -> rec_get sv n = None) ->
    lfs args = true ->
    AD release binop_impl builtin_impl d fr this (VLam id params body sv) args st =
    AD release binop_impl builtin_impl d fr' this'
       (VLam id' params (subst true (scope_map nanfix true sv) body) []) args st.
Proof. exact Blots.proofs.EmitNqSound.emit_equiv_first_order_nq. Qed.
Check C05_emit_equiv_first_order_nan_quote_generic :
  forall release binop_impl builtin_impl, impl_lf_respecting binop_impl builtin_impl -> binop_lit_ok binop_impl ->
  forall nanfix d fr fr' this this' id id' params body sv args st,
    first_order_body body = true ->
    free_vars body (map arg_name params ++ map fst sv) = [] ->
    forallb (fun kv => emittable_nq nanfix (snd kv)) sv = true ->
    (forall x, special_name x = true -> rec_get sv x = None) ->
    (forall x, In x (map arg_name params) -> rec_get sv x = None) ->
    rec_get sv "inputs"%string = None ->
    (forall n, lam_name st id = Some n -> rec_get sv n = None) ->
    lfs args = true ->
    AD release binop_impl builtin_impl d fr this (VLam id params body sv) args st =
    AD release binop_impl builtin_impl d fr' this'
       (VLam id' params (subst true (scope_map nanfix true sv) body) []) args st.
Print Assumptions C05_emit_equiv_first_order_nan_quote_generic.

(* ... for the transcribed evaluator, no hypothesis on the implementations (C05_emit_equiv_first_order_evaluator widened) *)
Theorem C05_emit_equiv_first_order_nan_quote :
  forall release nanfix d fr fr' this this' id id' params body sv args st,
    first_order_body body = true ->
    free_vars body (map arg_name params ++ map fst sv) = [] ->
    forallb (fun kv => emittable_nq nanfix (snd kv)) sv = true ->
    (forall x, special_name x = true -> rec_get sv x = None) ->
    (forall x, In x (map arg_name params) -> rec_get sv x = None) ->
    rec_get sv "inputs"%string = None ->
    (forall n, lam_name st id = Some n -> rec_get sv n = None) ->
    lfs args = true ->
    AD release binop_impl builtin_impl d fr this (VLam id params body sv) args st =
    AD release binop_impl builtin_impl d fr' this'
       (VLam id' params (subst true (scope_map nanfix true sv) body) []) args st.
Proof. exact Blots.proofs.EmitNqSound.emit_equiv_first_order_nq_evaluator. Qed.
Check C05_emit_equiv_first_order_nan_quote :
  forall release nanfix d fr fr' this this' id id' params body sv args st,
    first_order_body body = true ->
    free_vars body (map arg_name params ++ map fst sv) = [] ->
    forallb (fun kv => emittable_nq nanfix (snd kv)) sv = true ->
    (forall x, special_name x = true -> rec_get sv x = None) ->
    (forall x, In x (map arg_name params) -> rec_get sv x = None) ->
    rec_get sv "inputs"%string = None ->
    (forall n, lam_name st id = Some n -> rec_get sv n = None) ->
    lfs args = true ->
    AD release binop_impl builtin_impl d fr this (VLam id params body sv) args st =
    AD release binop_impl builtin_impl d fr' this'
       (VLam id' params (subst true (scope_map nanfix true sv) body) []) args st.
Print Assumptions C05_emit_equiv_first_order_nan_quote.

(* ... and for the complete operator table / built-in set of EvalAll.v, every oracle *)
Theorem C05_emit_equiv_first_order_nan_quote_all :
  forall o release nanfix d fr fr' this this' id id' params body sv args st,
    first_order_body body = true ->
    free_vars body (map arg_name params ++ map fst sv) = [] ->
    forallb (fun kv => emittable_nq nanfix (snd kv)) sv = true ->
    (forall x, special_name x = true -> rec_get sv x = None) ->
    (forall x, In x (map arg_name params) -> rec_get sv x = None) ->
    rec_get sv "inputs"%string = None ->
    (forall n, lam_name st id = Some n -> rec_get sv n = None) ->
    lfs args = true ->
    AD release (binop_all o) (builtin_all o) d fr this (VLam id params body sv) args st =
    AD release (binop_all o) (builtin_all o) d fr' this'
       (VLam id' params (subst true (scope_map nanfix true sv) body) []) args st.
Proof. exact Blots.proofs.EmitNqSound.emit_equiv_first_order_nq_all. Qed.
Check C05_emit_equiv_first_order_nan_quote_all :
  forall o release nanfix d fr fr' this this' id id' params body sv args st,
    first_order_body body = true ->
    free_vars body (map arg_name params ++ map fst sv) = [] ->
    forallb (fun kv => emittable_nq nanfix (snd kv)) sv = true ->
    (forall x, special_name x = true -> rec_get sv x = None) ->
    (forall x, In x (map arg_name params) -> rec_get sv x = None) ->
    rec_get sv "inputs"%string = None ->
    (forall n, lam_name st id = Some n -> rec_get sv n = None) ->
    lfs args = true ->
    AD release (binop_all o) (builtin_all o) d fr this (VLam id params body sv) args st =
    AD release (binop_all o) (builtin_all o) d fr' this'
       (VLam id' params (subst true (scope_map nanfix true sv) body) []) args st.
Print Assumptions C05_emit_equiv_first_order_nan_quote_all.

(* (3) the hypotheses are satisfiable: a closure capturing a record that holds [NaN, a string with both quote kinds] and a key with both
   quote kinds; outside emittable_gen, inside emittable_nq; original and reloaded emission computed *)
Definition nq_data : value :=
  VRec [("d"%string, VList [VNum nnan; VStr "a""b'c"%string]); ("k""'"%string, VBool true)].
Definition nq_body : expr :=
  EList [Cm [] (EDot (EId "r"%string) "d"%string) None; Cm [] (EAccess (EId "r"%string) (EId "x"%string)) None].
Definition nq_fun : value := VLam 0%nat [AReq "x"%string] nq_body [("r"%string, nq_data)].
Example C05_nan_quote_premises_example :
  emittable_gen nq_data = false /\ emittable_nq true nq_data = true /\
  first_order_body nq_body = true /\
  free_vars nq_body (map arg_name [AReq "x"%string] ++ map fst [("r"%string, nq_data)]) = [] /\
  call_on nq_fun (VStr "k""'"%string) = Ok (VList [VList [VNum nnan; VStr "a""b'c"%string]; VBool true]) /\
  call_on (reloaded true true nq_fun) (VStr "k""'"%string) = call_on nq_fun (VStr "k""'"%string).
Proof. vm_compute. repeat split; reflexivity. Qed.

(* ---- higher-order: the value relation "after emit + reload" over the widened class ----
   emit_ok_nq opok biok nanfix v  = EmitHO.emit_ok with  VNum x => nanfix || not NaN,  VStr _ => true,  no condition on
   record keys (still unique); everything else (hob bodies, closed after capture, captured names) unchanged.
   vrel_nq = EmitHO.vrel over that class (R_lam: the inlined captured values are emit_ok_nq).  The proofs are the
   tower EmitHO / Fv / Sim / Ops / OpsFull / Top re-checked over the new class (proofs/EmitNqHO*.v); what changes is
   lit_rel (the literal of an emittable value evaluates to a related value): its NaN, string and record-key cases use
   C05_lit_nan_evaluates / C05_lit_both_quote_evaluates, hence the extra hypothesis binop_lit_ok. *)
Notation emit_ok_nq := Blots.proofs.EmitNqHO.emit_ok.
Notation vrel_nq := Blots.proofs.EmitNqHO.vrel.
Notation lrel_nq := Blots.proofs.EmitNqHO.lrel.
Notation orel_nq := Blots.proofs.EmitNqHO.orel.
Notation impl_rel_respecting_nq := Blots.proofs.EmitNqHOSim.impl_rel_respecting.

(* the earlier class is inside the new one (closures at any capture depth) *)
Theorem C05_emit_ok_widened :
  forall opok biok nanfix v, emit_ok opok biok v = true -> emit_ok_nq opok biok nanfix v = true.
Proof. exact Blots.proofs.EmitNqHOWiden.emit_ok_widens. Qed.
Check C05_emit_ok_widened :
  forall opok biok nanfix v, emit_ok opok biok v = true -> emit_ok_nq opok biok nanfix v = true.
Print Assumptions C05_emit_ok_widened.

(* C05_ho_simulation over the widened relation: generic in the implementations up to impl_rel_respecting and binop_lit_ok *)
Theorem C05_ho_simulation_nan_quote :
  forall opok biok nanfix release binop_impl builtin_impl,
    impl_rel_respecting_nq opok biok nanfix binop_impl builtin_impl -> binop_lit_ok binop_impl ->
    forall d fr fr' this this' f f' args args' st st',
      vrel_nq opok biok nanfix f f' -> lrel_nq opok biok nanfix args args' ->
      orel_nq opok biok nanfix (fst (AD release binop_impl builtin_impl d fr this f args st))
                               (fst (AD release binop_impl builtin_impl d fr' this' f' args' st')).
Proof. exact Blots.proofs.EmitNqHOSim.ho_simulation. Qed.
Check C05_ho_simulation_nan_quote :
  forall opok biok nanfix release binop_impl builtin_impl,
    impl_rel_respecting_nq opok biok nanfix binop_impl builtin_impl -> binop_lit_ok binop_impl ->
    forall d fr fr' this this' f f' args args' st st',
      vrel_nq opok biok nanfix f f' -> lrel_nq opok biok nanfix args args' ->
      orel_nq opok biok nanfix (fst (AD release binop_impl builtin_impl d fr this f args st))
                               (fst (AD release binop_impl builtin_impl d fr' this' f' args' st')).
Print Assumptions C05_ho_simulation_nan_quote.

(* the transcribed operators (all but == != .== .!=) and every built-in but unique / includes respect the widened relation: the SAME exclusion (F53) as before, nothing new *)
Theorem C05_impl_rel_respecting_nan_quote :
  forall nanfix, impl_rel_respecting_nq eqfree biok_full nanfix binop_impl EvalFull.builtin_full.
Proof. exact Blots.proofs.EmitNqHOOpsFull.impl_rel_full_all. Qed.
Check C05_impl_rel_respecting_nan_quote :
  forall nanfix, impl_rel_respecting_nq eqfree biok_full nanfix binop_impl EvalFull.builtin_full.
Print Assumptions C05_impl_rel_respecting_nan_quote.

(* C05_emit_equiv_higher_order_full with NaN-holding and both-quote-holding captured data INSIDE (nested in lists /
   records / captured closures at any depth; also in the arguments): original and reloaded emission give related outcomes
   from any call sites / stores / depths, first-order results EQUAL (the model has one NaN), depth error on both sides
   or on neither.  The only exclusion left is the F53 equality exclusion (eqfree, biok_full; exact by
   C05_all_builtins_unrestricted_refuted / C05_equality_exclusion_matches_source) and the body conditions of hob
   (inputs / #ref: F9 of C04; stray assignment: F32 of C04; output).  For nanfix = false (the code before b235c37) NaN
   stays excluded, as it must (C05_lit_nan_current_refuted) *)
Theorem C05_emit_equiv_higher_order_nan_quote :
  forall release nanfix d fr fr' this this' id id' ps b sc args st st' r,
    emit_ok_nq eqfree biok_full nanfix (VLam id ps b sc) = true ->
    forallb (emit_ok_nq eqfree biok_full nanfix) args = true ->
    fst (AD release binop_impl EvalFull.builtin_full d fr this (VLam id ps b sc) args st) = r ->
    exists r', fst (AD release binop_impl EvalFull.builtin_full d fr' this'
                       (VLam id' ps (subst true (scope_map nanfix true sc) b) []) args st') = r' /\
      orel_nq eqfree biok_full nanfix r r' /\
      (forall v, r = Ok v -> lf v = true -> r' = Ok v) /\ (r = ErrDepth <-> r' = ErrDepth).
Proof. exact Blots.proofs.EmitNqHOOpsFull.emit_equiv_ho_same_args_all. Qed.
Check C05_emit_equiv_higher_order_nan_quote :
  forall release nanfix d fr fr' this this' id id' ps b sc args st st' r,
    emit_ok_nq eqfree biok_full nanfix (VLam id ps b sc) = true ->
    forallb (emit_ok_nq eqfree biok_full nanfix) args = true ->
    fst (AD release binop_impl EvalFull.builtin_full d fr this (VLam id ps b sc) args st) = r ->
    exists r', fst (AD release binop_impl EvalFull.builtin_full d fr' this'
                       (VLam id' ps (subst true (scope_map nanfix true sc) b) []) args st') = r' /\
      orel_nq eqfree biok_full nanfix r r' /\
      (forall v, r = Ok v -> lf v = true -> r' = Ok v) /\ (r = ErrDepth <-> r' = ErrDepth).
Print Assumptions C05_emit_equiv_higher_order_nan_quote.

(* related function-free values are EQUAL also in the widened relation (NaN included: one NaN in the model) *)
Theorem C05_related_nan_quote_function_free_equal :
  forall opok biok nanfix v v', vrel_nq opok biok nanfix v v' -> BuiltinsText.has_function v = false -> v = v'.
Proof. exact Blots.proofs.EmitNqHOOpsFull.vrel_nofun_eq. Qed.
Check C05_related_nan_quote_function_free_equal :
  forall opok biok nanfix v v', vrel_nq opok biok nanfix v v' -> BuiltinsText.has_function v = false -> v = v'.
Print Assumptions C05_related_nan_quote_function_free_equal.

(* the reloaded emission of a widened-emittable closure is related to it *)
Theorem C05_reload_related_nan_quote :
  forall opok biok nanfix id id' ps b sc,
    emit_ok_nq opok biok nanfix (VLam id ps b sc) = true ->
    vrel_nq opok biok nanfix (VLam id ps b sc) (VLam id' ps (subst true (scope_map nanfix true sc) b) []).
Proof. exact Blots.proofs.EmitNqHOTop.reload_rel. Qed.
Check C05_reload_related_nan_quote :
  forall opok biok nanfix id id' ps b sc,
    emit_ok_nq opok biok nanfix (VLam id ps b sc) = true ->
    vrel_nq opok biok nanfix (VLam id ps b sc) (VLam id' ps (subst true (scope_map nanfix true sc) b) []).
Print Assumptions C05_reload_related_nan_quote.

(* (3) satisfiable: a closure capturing (a) the record nq_data = {d: [NaN, both-quote string], both-quote key: true} and
   (b) a closure g that itself captures nq_data and returns a closure over it; outside emit_ok, inside emit_ok_nq;
   the original and the reloaded emission computed by the evaluator agree *)
Definition nq_g : value :=
  VLam 1%nat [AReq "y"%string]
    (ELam [AReq "z"%string] (EList [Cm [] (EId "y"%string) None; Cm [] (EDot (EId "r"%string) "d"%string) None;
                                    Cm [] (EId "z"%string) None]))
    [("r"%string, nq_data)].
Definition nq_ho_body : expr :=
  EList [Cm [] (ECall (ECall (EId "g"%string) [EId "x"%string]) [EStr "k""'"%string]) None;
         Cm [] (EAccess (EId "r"%string) (EId "x"%string)) None].
Definition nq_ho_fun : value := VLam 0%nat [AReq "x"%string] nq_ho_body [("g"%string, nq_g); ("r"%string, nq_data)].
Example C05_nan_quote_higher_order_example :
  emit_ok eqfree biok_full nq_ho_fun = false /\ emit_ok_nq eqfree biok_full true nq_ho_fun = true /\
  emit_ok_nq eqfree biok_full true (VStr "k""'"%string) = true /\
  call_on nq_ho_fun (VStr "k""'"%string) =
    Ok (VList [VList [VStr "k""'"%string; VList [VNum nnan; VStr "a""b'c"%string]; VStr "k""'"%string]; VBool true]) /\
  call_on (reloaded true true nq_ho_fun) (VStr "k""'"%string) = call_on nq_ho_fun (VStr "k""'"%string).
Proof. vm_compute. repeat split; reflexivity. Qed.
