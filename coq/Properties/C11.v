(* C11 — Scalar operator semantics and the broadcasting law.
   Property theorems only: each is closed by [exact lemma], pinned by [Check], and followed by
   [Print Assumptions].  Model objects: [eval_binop] (Binop.v) is the transcription of
   blots-core/src/expressions.rs::evaluate_binary_op_ast after operand evaluation (dot
   operators, then the list∘list, list∘scalar/scalar∘list and scalar arms, operator by
   operator); [scalar_op] (BinopSpec.v) is the independent spec of one operator on two whole
   values.  Every theorem quantifies over ALL operators named, ALL lists (any length), ALL
   element values, every state and every oracle (call, fn_accepts2, powf).  The tie to the code
   is the C11 correspondence stream (checks/c11.py). *)
From Coq Require Import String List ZArith Bool.
Require Import Blots.Num Blots.gen.Builtins Blots.Ast Blots.Value Blots.Outcome Blots.Binop Blots.BinopSpec.
Require Import Blots.proofs.ValueInd Blots.proofs.Order Blots.proofs.Broadcast.
Import ListNotations.
Local Open Scope list_scope.

(* on non-list operands each of the 17 operators computes the spec *)
Theorem C11_scalar_arm_is_spec :
  forall St call acc powf op a b (st : St),
    broadcasting op = true -> is_list a = false -> is_list b = false ->
    eval_binop St call acc powf op a b st = (scalar_op powf op a b, st).
Proof. exact scalar_arm_is_spec. Qed.
Check C11_scalar_arm_is_spec :
  forall St call acc powf op a b (st : St),
    broadcasting op = true -> is_list a = false -> is_list b = false ->
    eval_binop St call acc powf op a b st = (scalar_op powf op a b, st).
Print Assumptions C11_scalar_arm_is_spec.

(* list op scalar = the list of (x op scalar), in order, failing at the first failing element *)
Theorem C11_broadcast_list_scalar :
  forall St call acc powf op l s (st : St),
    broadcasting op = true -> is_list s = false ->
    eval_binop St call acc powf op (VList l) s st
    = (omap VList (mapM (fun x => scalar_op powf op x s) l), st).
Proof. exact broadcast_list_scalar. Qed.
Check C11_broadcast_list_scalar :
  forall St call acc powf op l s (st : St),
    broadcasting op = true -> is_list s = false ->
    eval_binop St call acc powf op (VList l) s st
    = (omap VList (mapM (fun x => scalar_op powf op x s) l), st).
Print Assumptions C11_broadcast_list_scalar.

(* scalar op list = the list of (scalar op x): the scalar stays the LEFT operand *)
Theorem C11_broadcast_scalar_list :
  forall St call acc powf op s l (st : St),
    broadcasting op = true -> is_list s = false -> eq_sym_on op s l ->
    eval_binop St call acc powf op s (VList l) st
    = (omap VList (mapM (fun x => scalar_op powf op s x) l), st).
Proof. exact broadcast_scalar_list. Qed.
Check C11_broadcast_scalar_list :
  forall St call acc powf op s l (st : St),
    broadcasting op = true -> is_list s = false -> eq_sym_on op s l ->
    eval_binop St call acc powf op s (VList l) st
    = (omap VList (mapM (fun x => scalar_op powf op s x) l), st).
Print Assumptions C11_broadcast_scalar_list.

(* two lists of equal length: element by element; different lengths: error *)
Theorem C11_broadcast_list_list :
  forall St call acc powf op l m (st : St),
    broadcasting op = true -> length l = length m ->
    eval_binop St call acc powf op (VList l) (VList m) st
    = (omap VList (mapM2 (scalar_op powf op) l m), st).
Proof. exact broadcast_list_list. Qed.
Check C11_broadcast_list_list :
  forall St call acc powf op l m (st : St),
    broadcasting op = true -> length l = length m ->
    eval_binop St call acc powf op (VList l) (VList m) st
    = (omap VList (mapM2 (scalar_op powf op) l m), st).
Print Assumptions C11_broadcast_list_list.

Theorem C11_broadcast_length_mismatch :
  forall St call acc powf op l m (st : St),
    broadcasting op = true -> length l <> length m ->
    eval_binop St call acc powf op (VList l) (VList m) st = (Err, st).
Proof. exact broadcast_length_mismatch. Qed.
Check C11_broadcast_length_mismatch :
  forall St call acc powf op l m (st : St),
    broadcasting op = true -> length l <> length m ->
    eval_binop St call acc powf op (VList l) (VList m) st = (Err, st).
Print Assumptions C11_broadcast_length_mismatch.

(* the dot-prefixed comparisons never broadcast: whole values, whatever their shape *)
Theorem C11_dot_never_broadcasts :
  forall St call acc powf op a b (st : St),
    is_dot op = true -> eval_binop St call acc powf op a b st = (scalar_op powf op a b, st).
Proof. exact dot_never_broadcasts. Qed.
Check C11_dot_never_broadcasts :
  forall St call acc powf op a b (st : St),
    is_dot op = true -> eval_binop St call acc powf op a b st = (scalar_op powf op a b, st).
Print Assumptions C11_dot_never_broadcasts.

(* ------------------------------------------------------------------ the whole law in one statement *)
(* for every broadcasting operator and operands of ANY shape, on well-formed values (record keys
   unique at every depth — the IndexMap invariant; numbers incl. NaN, strings, booleans, null,
   lists, records, functions, built-ins all allowed); the hypothesis is needed only because the
   list∘scalar arm computes v.equals(&scalar) even when the scalar is the left operand *)
Theorem C11_broadcasting_law :
  forall St call acc powf op a b (st : St),
    broadcasting op = true -> wf_value a = true -> wf_value b = true ->
    eval_binop St call acc powf op a b st = (broadcast_spec powf op a b, st).
Proof. exact broadcasting_law_wf. Qed.
Check C11_broadcasting_law :
  forall St call acc powf op a b (st : St),
    broadcasting op = true -> wf_value a = true -> wf_value b = true ->
    eval_binop St call acc powf op a b st = (broadcast_spec powf op a b, st).
Print Assumptions C11_broadcasting_law.

Theorem C11_broadcast_scalar_list_wf :
  forall St call acc powf op s l (st : St),
    broadcasting op = true -> is_list s = false -> wf_value s = true -> forallb wf_value l = true ->
    eval_binop St call acc powf op s (VList l) st
    = (omap VList (mapM (fun x => scalar_op powf op s x) l), st).
Proof. exact broadcast_scalar_list_wf. Qed.
Check C11_broadcast_scalar_list_wf :
  forall St call acc powf op s l (st : St),
    broadcasting op = true -> is_list s = false -> wf_value s = true -> forallb wf_value l = true ->
    eval_binop St call acc powf op s (VList l) st
    = (omap VList (mapM (fun x => scalar_op powf op s x) l), st).
Print Assumptions C11_broadcast_scalar_list_wf.

Theorem C11_equals_sym_wf :
  forall a b, wf_value a = true -> wf_value b = true -> equals a b = equals b a.
Proof. exact equals_sym_wf. Qed.
Check C11_equals_sym_wf :
  forall a b, wf_value a = true -> wf_value b = true -> equals a b = equals b a.
Print Assumptions C11_equals_sym_wf.

(* the hypothesis is about the model's value terms only (a record term with a repeated key) *)
Theorem C11_scalar_list_eq_needs_unique_keys :
  exists s x, equals x s <> equals s x /\
    forall St call acc powf (st : St),
      eval_binop St call acc powf Equal s (VList [x]) st
      <> (omap VList (mapM (fun y => scalar_op powf Equal s y) [x]), st).
Proof. exact scalar_list_eq_needs_unique_keys. Qed.
Check C11_scalar_list_eq_needs_unique_keys :
  exists s x, equals x s <> equals s x /\
    forall St call acc powf (st : St),
      eval_binop St call acc powf Equal s (VList [x]) st
      <> (omap VList (mapM (fun y => scalar_op powf Equal s y) [x]), st).
Print Assumptions C11_scalar_list_eq_needs_unique_keys.

(* ------------------------------------------------------------------ "fails exactly when some element
   operation fails or the lengths differ"; results position by position; first failure wins *)
Theorem C11_mapM_ok_iff :
  forall (A B : Type) (f : A -> outcome B) l ys,
    mapM f l = Ok ys <-> Forall2 (fun x y => f x = Ok y) l ys.
Proof. exact @mapM_ok_iff. Qed.
Check C11_mapM_ok_iff :
  forall (A B : Type) (f : A -> outcome B) l ys,
    mapM f l = Ok ys <-> Forall2 (fun x y => f x = Ok y) l ys.
Print Assumptions C11_mapM_ok_iff.

Theorem C11_list_scalar_ok_iff :
  forall St call acc powf op l s (st : St),
    broadcasting op = true -> is_list s = false ->
    is_ok (fst (eval_binop St call acc powf op (VList l) s st))
    = forallb (fun x => is_ok (scalar_op powf op x s)) l.
Proof. exact list_scalar_ok_iff. Qed.
Check C11_list_scalar_ok_iff :
  forall St call acc powf op l s (st : St),
    broadcasting op = true -> is_list s = false ->
    is_ok (fst (eval_binop St call acc powf op (VList l) s st))
    = forallb (fun x => is_ok (scalar_op powf op x s)) l.
Print Assumptions C11_list_scalar_ok_iff.

Theorem C11_scalar_list_ok_iff :
  forall St call acc powf op s l (st : St),
    broadcasting op = true -> is_list s = false -> eq_sym_on op s l ->
    is_ok (fst (eval_binop St call acc powf op s (VList l) st))
    = forallb (fun x => is_ok (scalar_op powf op s x)) l.
Proof. exact scalar_list_ok_iff. Qed.
Check C11_scalar_list_ok_iff :
  forall St call acc powf op s l (st : St),
    broadcasting op = true -> is_list s = false -> eq_sym_on op s l ->
    is_ok (fst (eval_binop St call acc powf op s (VList l) st))
    = forallb (fun x => is_ok (scalar_op powf op s x)) l.
Print Assumptions C11_scalar_list_ok_iff.

Theorem C11_list_list_ok_iff :
  forall St call acc powf op l m (st : St),
    broadcasting op = true ->
    is_ok (fst (eval_binop St call acc powf op (VList l) (VList m) st))
    = Nat.eqb (length l) (length m) && forallb (fun p => is_ok (scalar_op powf op (fst p) (snd p))) (combine l m).
Proof. exact list_list_ok_iff. Qed.
Check C11_list_list_ok_iff :
  forall St call acc powf op l m (st : St),
    broadcasting op = true ->
    is_ok (fst (eval_binop St call acc powf op (VList l) (VList m) st))
    = Nat.eqb (length l) (length m) && forallb (fun p => is_ok (scalar_op powf op (fst p) (snd p))) (combine l m).
Print Assumptions C11_list_list_ok_iff.

Theorem C11_list_scalar_elementwise :
  forall St call acc powf op l s (st : St) v st',
    broadcasting op = true -> is_list s = false ->
    eval_binop St call acc powf op (VList l) s st = (Ok v, st') ->
    st' = st /\ exists r, v = VList r /\ length r = length l /\
      forall i x, nth_error l i = Some x -> exists y, nth_error r i = Some y /\ scalar_op powf op x s = Ok y.
Proof. exact list_scalar_elementwise. Qed.
Check C11_list_scalar_elementwise :
  forall St call acc powf op l s (st : St) v st',
    broadcasting op = true -> is_list s = false ->
    eval_binop St call acc powf op (VList l) s st = (Ok v, st') ->
    st' = st /\ exists r, v = VList r /\ length r = length l /\
      forall i x, nth_error l i = Some x -> exists y, nth_error r i = Some y /\ scalar_op powf op x s = Ok y.
Print Assumptions C11_list_scalar_elementwise.

Theorem C11_scalar_list_elementwise :
  forall St call acc powf op s l (st : St) v st',
    broadcasting op = true -> is_list s = false -> eq_sym_on op s l ->
    eval_binop St call acc powf op s (VList l) st = (Ok v, st') ->
    st' = st /\ exists r, v = VList r /\ length r = length l /\
      forall i x, nth_error l i = Some x -> exists y, nth_error r i = Some y /\ scalar_op powf op s x = Ok y.
Proof. exact scalar_list_elementwise. Qed.
Check C11_scalar_list_elementwise :
  forall St call acc powf op s l (st : St) v st',
    broadcasting op = true -> is_list s = false -> eq_sym_on op s l ->
    eval_binop St call acc powf op s (VList l) st = (Ok v, st') ->
    st' = st /\ exists r, v = VList r /\ length r = length l /\
      forall i x, nth_error l i = Some x -> exists y, nth_error r i = Some y /\ scalar_op powf op s x = Ok y.
Print Assumptions C11_scalar_list_elementwise.

Theorem C11_list_list_elementwise :
  forall St call acc powf op l m (st : St) v st',
    broadcasting op = true ->
    eval_binop St call acc powf op (VList l) (VList m) st = (Ok v, st') ->
    st' = st /\ length l = length m /\ exists r, v = VList r /\ length r = length l /\
      forall i x y, nth_error l i = Some x -> nth_error m i = Some y ->
                    exists z, nth_error r i = Some z /\ scalar_op powf op x y = Ok z.
Proof. exact list_list_elementwise. Qed.
Check C11_list_list_elementwise :
  forall St call acc powf op l m (st : St) v st',
    broadcasting op = true ->
    eval_binop St call acc powf op (VList l) (VList m) st = (Ok v, st') ->
    st' = st /\ length l = length m /\ exists r, v = VList r /\ length r = length l /\
      forall i x y, nth_error l i = Some x -> nth_error m i = Some y ->
                    exists z, nth_error r i = Some z /\ scalar_op powf op x y = Ok z.
Print Assumptions C11_list_list_elementwise.

Theorem C11_list_scalar_first_failure :
  forall St call acc powf op pre x post s (st : St) ys,
    broadcasting op = true -> is_list s = false ->
    mapM (fun e => scalar_op powf op e s) pre = Ok ys -> is_ok (scalar_op powf op x s) = false ->
    eval_binop St call acc powf op (VList (pre ++ x :: post)) s st = (Err, st).
Proof. exact list_scalar_first_failure. Qed.
Check C11_list_scalar_first_failure :
  forall St call acc powf op pre x post s (st : St) ys,
    broadcasting op = true -> is_list s = false ->
    mapM (fun e => scalar_op powf op e s) pre = Ok ys -> is_ok (scalar_op powf op x s) = false ->
    eval_binop St call acc powf op (VList (pre ++ x :: post)) s st = (Err, st).
Print Assumptions C11_list_scalar_first_failure.

(* ------------------------------------------------------------------ totality / purity / no abort *)
Theorem C11_pure_ops_total :
  forall St call acc powf op a b (st : St),
    broadcasting op = true \/ is_dot op = true ->
    snd (eval_binop St call acc powf op a b st) = st /\
    ((exists v, fst (eval_binop St call acc powf op a b st) = Ok v) \/
     fst (eval_binop St call acc powf op a b st) = Err).
Proof. exact pure_ops_total. Qed.
Check C11_pure_ops_total :
  forall St call acc powf op a b (st : St),
    broadcasting op = true \/ is_dot op = true ->
    snd (eval_binop St call acc powf op a b st) = st /\
    ((exists v, fst (eval_binop St call acc powf op a b st) = Ok v) \/
     fst (eval_binop St call acc powf op a b st) = Err).
Print Assumptions C11_pure_ops_total.

(* all 26 operators: the unreachable!() arms are unreachable, every list[idx] is in range *)
Theorem C11_binop_never_panics :
  forall St call acc powf,
    (forall t f args (st : St), fst (call t f args st) <> Panic) ->
    forall op a b st, fst (eval_binop St call acc powf op a b st) <> Panic.
Proof. exact binop_never_panics. Qed.
Check C11_binop_never_panics :
  forall St call acc powf,
    (forall t f args (st : St), fst (call t f args st) <> Panic) ->
    forall op a b st, fst (eval_binop St call acc powf op a b st) <> Panic.
Print Assumptions C11_binop_never_panics.

(* ------------------------------------------------------------------ the spec says what the property says *)
Theorem C11_scalar_numbers :
  forall powf x y,
    scalar_op powf Add (VNum x) (VNum y) = Ok (VNum (SpecFloat.SFadd 53 1024 x y)) /\
    scalar_op powf Subtract (VNum x) (VNum y) = Ok (VNum (SpecFloat.SFsub 53 1024 x y)) /\
    scalar_op powf Multiply (VNum x) (VNum y) = Ok (VNum (SpecFloat.SFmul 53 1024 x y)) /\
    scalar_op powf Divide (VNum x) (VNum y) = Ok (VNum (SpecFloat.SFdiv 53 1024 x y)) /\
    scalar_op powf Modulo (VNum x) (VNum y) = Ok (VNum (nfmod x y)) /\
    scalar_op powf Power (VNum x) (VNum y) = Ok (VNum (powf x y)).
Proof. exact scalar_numbers. Qed.
Check C11_scalar_numbers :
  forall powf x y,
    scalar_op powf Add (VNum x) (VNum y) = Ok (VNum (SpecFloat.SFadd 53 1024 x y)) /\
    scalar_op powf Subtract (VNum x) (VNum y) = Ok (VNum (SpecFloat.SFsub 53 1024 x y)) /\
    scalar_op powf Multiply (VNum x) (VNum y) = Ok (VNum (SpecFloat.SFmul 53 1024 x y)) /\
    scalar_op powf Divide (VNum x) (VNum y) = Ok (VNum (SpecFloat.SFdiv 53 1024 x y)) /\
    scalar_op powf Modulo (VNum x) (VNum y) = Ok (VNum (nfmod x y)) /\
    scalar_op powf Power (VNum x) (VNum y) = Ok (VNum (powf x y)).
Print Assumptions C11_scalar_numbers.

Theorem C11_scalar_arith_domain :
  forall powf op a b v,
    is_arith op = true -> scalar_op powf op a b = Ok v ->
    (exists x y, a = VNum x /\ b = VNum y) \/ (op = Add /\ exists s t, a = VStr s /\ b = VStr t).
Proof. exact scalar_arith_domain. Qed.
Check C11_scalar_arith_domain :
  forall powf op a b v,
    is_arith op = true -> scalar_op powf op a b = Ok v ->
    (exists x y, a = VNum x /\ b = VNum y) \/ (op = Add /\ exists s t, a = VStr s /\ b = VStr t).
Print Assumptions C11_scalar_arith_domain.

Theorem C11_scalar_string_concat :
  forall powf s t, scalar_op powf Add (VStr s) (VStr t) = Ok (VStr (s ++ t)%string).
Proof. exact scalar_string_concat. Qed.
Check C11_scalar_string_concat :
  forall powf s t, scalar_op powf Add (VStr s) (VStr t) = Ok (VStr (s ++ t)%string).
Print Assumptions C11_scalar_string_concat.

Theorem C11_scalar_comparisons :
  forall powf a b,
    scalar_op powf Equal a b = Ok (VBool (equals a b)) /\
    scalar_op powf NotEqual a b = Ok (VBool (negb (equals a b))) /\
    match compare a b with
    | Some o =>
        scalar_op powf Less a b = Ok (VBool (match o with Lt => true | _ => false end)) /\
        scalar_op powf LessEq a b = Ok (VBool (match o with Gt => false | _ => true end)) /\
        scalar_op powf Greater a b = Ok (VBool (match o with Gt => true | _ => false end)) /\
        scalar_op powf GreaterEq a b = Ok (VBool (match o with Lt => false | _ => true end))
    | None =>
        scalar_op powf Less a b = Err /\ scalar_op powf LessEq a b = Err /\
        scalar_op powf Greater a b = Err /\ scalar_op powf GreaterEq a b = Err
    end.
Proof. exact scalar_comparisons. Qed.
Check C11_scalar_comparisons :
  forall powf a b,
    scalar_op powf Equal a b = Ok (VBool (equals a b)) /\
    scalar_op powf NotEqual a b = Ok (VBool (negb (equals a b))) /\
    match compare a b with
    | Some o =>
        scalar_op powf Less a b = Ok (VBool (match o with Lt => true | _ => false end)) /\
        scalar_op powf LessEq a b = Ok (VBool (match o with Gt => false | _ => true end)) /\
        scalar_op powf Greater a b = Ok (VBool (match o with Gt => true | _ => false end)) /\
        scalar_op powf GreaterEq a b = Ok (VBool (match o with Lt => false | _ => true end))
    | None =>
        scalar_op powf Less a b = Err /\ scalar_op powf LessEq a b = Err /\
        scalar_op powf Greater a b = Err /\ scalar_op powf GreaterEq a b = Err
    end.
Print Assumptions C11_scalar_comparisons.

Theorem C11_scalar_and_or_booleans :
  forall powf x y,
    scalar_op powf And (VBool x) (VBool y) = Ok (VBool (x && y)) /\
    scalar_op powf NaturalAnd (VBool x) (VBool y) = Ok (VBool (x && y)) /\
    scalar_op powf Or (VBool x) (VBool y) = Ok (VBool (x || y)) /\
    scalar_op powf NaturalOr (VBool x) (VBool y) = Ok (VBool (x || y)).
Proof. exact scalar_and_or_booleans. Qed.
Check C11_scalar_and_or_booleans :
  forall powf x y,
    scalar_op powf And (VBool x) (VBool y) = Ok (VBool (x && y)) /\
    scalar_op powf NaturalAnd (VBool x) (VBool y) = Ok (VBool (x && y)) /\
    scalar_op powf Or (VBool x) (VBool y) = Ok (VBool (x || y)) /\
    scalar_op powf NaturalOr (VBool x) (VBool y) = Ok (VBool (x || y)).
Print Assumptions C11_scalar_and_or_booleans.

Theorem C11_scalar_and_or_require_booleans :
  forall powf op a b v,
    (op = And \/ op = NaturalAnd \/ op = Or \/ op = NaturalOr) -> scalar_op powf op a b = Ok v ->
    exists x r, a = VBool x /\ v = VBool r /\
      ((exists y, b = VBool y) \/ x = (match op with And | NaturalAnd => false | _ => true end)).
Proof. exact scalar_and_or_require_booleans. Qed.
Check C11_scalar_and_or_require_booleans :
  forall powf op a b v,
    (op = And \/ op = NaturalAnd \/ op = Or \/ op = NaturalOr) -> scalar_op powf op a b = Ok v ->
    exists x r, a = VBool x /\ v = VBool r /\
      ((exists y, b = VBool y) \/ x = (match op with And | NaturalAnd => false | _ => true end)).
Print Assumptions C11_scalar_and_or_require_booleans.

Theorem C11_scalar_and_or_left_not_boolean :
  forall powf op a b,
    (op = And \/ op = NaturalAnd \/ op = Or \/ op = NaturalOr) ->
    (forall x, a <> VBool x) -> scalar_op powf op a b = Err.
Proof. exact scalar_and_or_left_not_boolean. Qed.
Check C11_scalar_and_or_left_not_boolean :
  forall powf op a b,
    (op = And \/ op = NaturalAnd \/ op = Or \/ op = NaturalOr) ->
    (forall x, a <> VBool x) -> scalar_op powf op a b = Err.
Print Assumptions C11_scalar_and_or_left_not_boolean.

Theorem C11_scalar_coalesce :
  forall powf a b,
    (a = VNull -> scalar_op powf Coalesce a b = Ok b) /\ (a <> VNull -> scalar_op powf Coalesce a b = Ok a).
Proof. exact scalar_coalesce. Qed.
Check C11_scalar_coalesce :
  forall powf a b,
    (a = VNull -> scalar_op powf Coalesce a b = Ok b) /\ (a <> VNull -> scalar_op powf Coalesce a b = Ok a).
Print Assumptions C11_scalar_coalesce.

(* ------------------------------------------------------------------ Examples: the hypotheses are
   satisfiable and the statements say something on concrete inputs (powf := constant oracle) *)
Definition pw0 (_ _ : num) : num := nzero.
Definition ev0 := eval_binop unit (fun _ _ _ st => (Unmodelled, st)) fn_accepts2_of_value pw0.
Definition n (z : Z) : value := VNum (num_of_Z z).

Example ex_operand_order_scalar_left :       (* 10 - [1, 4] = [9, 6], 10 / [2, 5] = [5, 2], 2 < [1, 3] *)
  ev0 Subtract (n 10) (VList [n 1; n 4]) tt = (Ok (VList [n 9; n 6]), tt) /\
  ev0 Divide (n 10) (VList [n 2; n 5]) tt = (Ok (VList [n 5; n 2]), tt) /\
  ev0 Less (n 2) (VList [n 1; n 3]) tt = (Ok (VList [VBool false; VBool true]), tt) /\
  ev0 Modulo (n 7) (VList [n 2; n 4]) tt = (Ok (VList [n 1; n 3]), tt).
Proof. vm_compute. repeat split. Qed.

Example ex_first_failure_and_lengths :
  ev0 Add (VList [n 1; VStr "a"; n 2]) (n 1) tt = (Err, tt) /\
  ev0 Add (VList [n 1; n 2]) (VList [n 1]) tt = (Err, tt) /\
  ev0 Add (VList [VStr "a"; VStr "b"]) (VStr "c") tt = (Ok (VList [VStr "ac"; VStr "bc"]), tt) /\
  ev0 Add (VStr "c") (VList [VStr "a"; VStr "b"]) tt = (Ok (VList [VStr "ca"; VStr "cb"]), tt).
Proof. vm_compute. repeat split. Qed.

Example ex_and_or_left_first :               (* `false && 1` is false; `true && 1` fails *)
  ev0 And (VBool false) (n 1) tt = (Ok (VBool false), tt) /\
  ev0 And (VBool true) (n 1) tt = (Err, tt) /\
  ev0 And (VList [VBool false; VBool true]) (n 1) tt = (Err, tt) /\
  ev0 Or (VBool true) (VList [n 1; VNull]) tt = (Ok (VList [VBool true; VBool true]), tt).
Proof. vm_compute. repeat split. Qed.

Example ex_one_level_deep :                  (* an element that is a list is a whole value *)
  ev0 Equal (VList [VList [n 1; n 2]; n 3]) (n 3) tt = (Ok (VList [VBool false; VBool true]), tt) /\
  ev0 Add (VList [VList [n 1]]) (n 1) tt = (Err, tt) /\
  ev0 Less (VList [VList [n 1]]) (VList [VList [n 1; n 0]]) tt = (Ok (VList [VBool true]), tt) /\
  ev0 Coalesce (VList [VNull; VList []]) (n 0) tt = (Ok (VList [n 0; VList []]), tt).
Proof. vm_compute. repeat split. Qed.

Example ex_dot_whole_values :
  ev0 DotEqual (VList [n 1; n 2]) (VList [n 1; n 2]) tt = (Ok (VBool true), tt) /\
  ev0 DotLess (VList [n 1]) (VList [n 1; n 2]) tt = (Ok (VBool true), tt) /\
  ev0 DotEqual (VList [n 1]) (n 1) tt = (Ok (VBool false), tt) /\
  ev0 DotLess (VList [n 1]) (n 1) tt = (Err, tt).
Proof. vm_compute. repeat split. Qed.

Example ex_wf_nontrivial :
  wf_value (VList [VRec [("k"%string, VNum nnan); ("j"%string, VList [VNull])]; VStr "x"; VBuiltin B_sum;
                   VLam 0%nat [AReq "x"%string] (EBin Add (EId "x"%string) (ENum (num_of_Z 1))) []]) = true.
Proof. reflexivity. Qed.
