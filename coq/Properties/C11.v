(* C11 — Scalar operator semantics and the broadcasting law.
   Property theorems only: each is closed by [exact lemma], pinned by [Check], and followed by
   [Print Assumptions].  Model objects: [eval_binop] (Binop.v) is the transcription of
   blots-core/src/expressions.rs::evaluate_binary_op_ast after operand evaluation (dot
   operators, then the list∘list, list∘scalar/scalar∘list and scalar arms, operator by
   operator); [scalar_op] (BinopSpec.v) is the independent spec of one operator on two whole
   values.  Every theorem quantifies over ALL operators named, ALL lists (any length), ALL
   element values, every state and every oracle (call, fn_accepts2, powf).  The tie to the code
   is the C11 correspondence stream (checks/c11.py). *)
From Coq Require Import String List ZArith Bool.
Require Import Blots.Num Blots.gen.Builtins Blots.Ast Blots.Value Blots.Outcome Blots.Binop Blots.BinopSpec.
Require Import Blots.proofs.ValueInd Blots.proofs.Order Blots.proofs.Broadcast.
Import ListNotations.
Local Open Scope list_scope.

(* on non-list operands each of the 17 operators computes the spec *)
Theorem C11_scalar_arm_is_spec :
  forall St call acc powf op a b (st : St),
    broadcasting op = true -> is_list a = false -> is_list b = false ->
    eval_binop St call acc powf op a b st = (scalar_op powf op a b, st).
Proof. exact scalar_arm_is_spec. Qed.
Check C11_scalar_arm_is_spec :
  forall St call acc powf op a b (st : St),
    broadcasting op = true -> is_list a = false -> is_list b = false ->
    eval_binop St call acc powf op a b st = (scalar_op powf op a b, st).
Print Assumptions C11_scalar_arm_is_spec.

(* list op scalar = the list of (x op scalar), in order, failing at the first failing element *)
Theorem C11_broadcast_list_scalar :
  forall St call acc powf op l s (st : St),
    broadcasting op = true -> is_list s = false ->
    eval_binop St call acc powf op (VList l) s st
    = (omap VList (mapM (fun x => scalar_op powf op x s) l), st).
Proof. exact broadcast_list_scalar. Qed.
Check C11_broadcast_list_scalar :
  forall St call acc powf op l s (st : St),
    broadcasting op = true -> is_list s = false ->
    eval_binop St call acc powf op (VList l) s st
    = (omap VList (mapM (fun x => scalar_op powf op x s) l), st).
Print Assumptions C11_broadcast_list_scalar.

(* scalar op list = the list of (scalar op x): the scalar stays the LEFT operand *)
Theorem C11_broadcast_scalar_list :
  forall St call acc powf op s l (st : St),
    broadcasting op = true -> is_list s = false -> eq_sym_on op s l ->
    eval_binop St call acc powf op s (VList l) st
    = (omap VList (mapM (fun x => scalar_op powf op s x) l), st).
Proof. exact broadcast_scalar_list. Qed.
Check C11_broadcast_scalar_list :
  forall St call acc powf op s l (st : St),
    broadcasting op = true -> is_list s = false -> eq_sym_on op s l ->
    eval_binop St call acc powf op s (VList l) st
    = (omap VList (mapM (fun x => scalar_op powf op s x) l), st).
Print Assumptions C11_broadcast_scalar_list.

(* two lists of equal length: element by element; different lengths: error *)
Theorem C11_broadcast_list_list :
  forall St call acc powf op l m (st : St),
    broadcasting op = true -> length l = length m ->
    eval_binop St call acc powf op (VList l) (VList m) st
    = (omap VList (mapM2 (scalar_op powf op) l m), st).
Proof. exact broadcast_list_list. Qed.
Check C11_broadcast_list_list :
  forall St call acc powf op l m (st : St),
    broadcasting op = true -> length l = length m ->
    eval_binop St call acc powf op (VList l) (VList m) st
    = (omap VList (mapM2 (scalar_op powf op) l m), st).
Print Assumptions C11_broadcast_list_list.

Theorem C11_broadcast_length_mismatch :
  forall St call acc powf op l m (st : St),
    broadcasting op = true -> length l <> length m ->
    eval_binop St call acc powf op (VList l) (VList m) st = (Err, st).
Proof. exact broadcast_length_mismatch. Qed.
Check C11_broadcast_length_mismatch :
  forall St call acc powf op l m (st : St),
    broadcasting op = true -> length l <> length m ->
    eval_binop St call acc powf op (VList l) (VList m) st = (Err, st).
Print Assumptions C11_broadcast_length_mismatch.

(* the dot-prefixed comparisons never broadcast: whole values, whatever their shape *)
Theorem C11_dot_never_broadcasts :
  forall St call acc powf op a b (st : St),
    is_dot op = true -> eval_binop St call acc powf op a b st = (scalar_op powf op a b, st).
Proof. exact dot_never_broadcasts. Qed.
Check C11_dot_never_broadcasts :
  forall St call acc powf op a b (st : St),
    is_dot op = true -> eval_binop St call acc powf op a b st = (scalar_op powf op a b, st).
Print Assumptions C11_dot_never_broadcasts.
