(* C20 — displayed numbers are well-formed and accurate to 15 significant digits.
   Property theorems only (see notes/C20.md).  Model: coq/DisplayNum.v. *)
From Coq Require Import ZArith Bool String Ascii List.
Require Import Blots.Num Blots.Outcome Blots.DisplayNum Blots.proofs.DisplayNumGroup.
Import ListNotations.
Open Scope char_scope.

(* the separator loop yields d{1,3}(,ddd)* on every non-empty digit string *)
Theorem C20_group3_wellformed : forall s,
  s <> [] -> forallb is_digit s = true -> wf_grouped_int (group3 s) = true.
Proof. exact group3_wellformed. Qed.
Check C20_group3_wellformed : forall s,
  s <> [] -> forallb is_digit s = true -> wf_grouped_int (group3 s) = true.
Print Assumptions C20_group3_wellformed.

(* removing the separators gives the digits back *)
Theorem C20_ungroup_group3 : forall s, contains "," s = false -> ungroup (group3 s) = s.
Proof. exact ungroup_group3. Qed.
Check C20_ungroup_group3 : forall s, contains "," s = false -> ungroup (group3 s) = s.
Print Assumptions C20_ungroup_group3.
