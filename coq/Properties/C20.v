(* C20 — displayed numbers are well-formed and accurate to 15 significant digits.
   Property theorems only: each is closed by [exact lemma], pinned by [Check], followed by
   [Print Assumptions].  Model: coq/DisplayNum.v (format_display_number and helpers transcribed
   from blots-core/src/values.rs; library calls log10, powi, {:.N}, {:.14e}, parse::<f64> are
   universally quantified oracles).  Grammar and denotation: coq/proofs/DisplayNumSpec.v.
   See notes/C20.md for what is proved, partial and refuted. *)
From Coq Require Import ZArith Reals Bool String Ascii List QArith Qabs Qpower Floats.SpecFloat.
From Flocq Require Import Core.Core.
Require Import Blots.Num Blots.Outcome Blots.DisplayNum.
Require Import Blots.proofs.DisplayNumGroup Blots.proofs.DisplayNumSpec Blots.proofs.DisplayNumText
               Blots.proofs.DisplayNumInt Blots.proofs.DisplayNum Blots.proofs.DisplayNumAcc
               Blots.proofs.DisplayNumFloat Blots.proofs.DisplayNumFinite Blots.proofs.DisplayNumAccStd
               Blots.proofs.DisplayNumAccAll Blots.proofs.DisplayNumExec.
From Coq Require Import Qreals.
Import ListNotations.
Open Scope char_scope.
Open Scope Z_scope.

(* ---- the separator loop yields d{1,3}(,ddd)* on every non-empty digit string ---- *)
Theorem C20_group3_wellformed : forall s,
  s <> [] -> forallb is_digit s = true -> wf_grouped_int (group3 s) = true.
Proof. exact group3_wellformed. Qed.
Check C20_group3_wellformed : forall s,
  s <> [] -> forallb is_digit s = true -> wf_grouped_int (group3 s) = true.
Print Assumptions C20_group3_wellformed.

(* ---- removing the separators gives the digits back ---- *)
Theorem C20_ungroup_group3 : forall s, contains "," s = false -> ungroup (group3 s) = s.
Proof. exact ungroup_group3. Qed.
Check C20_ungroup_group3 : forall s, contains "," s = false -> ungroup (group3 s) = s.
Print Assumptions C20_ungroup_group3.

(* ---- trimming trailing zeros (and a bare '.') keeps the shape -?d+(.d+)? and the value ---- *)
Theorem C20_trim_zeros_preserves_value : forall s,
  plain_shape s = true ->
  plain_shape (trim_fraction s) = true /\ (denote_plain (trim_fraction s) == denote_plain s)%Q.
Proof. exact trim_fraction_preserves_value. Qed.
Check C20_trim_zeros_preserves_value : forall s,
  plain_shape s = true ->
  plain_shape (trim_fraction s) = true /\ (denote_plain (trim_fraction s) == denote_plain s)%Q.
Print Assumptions C20_trim_zeros_preserves_value.

(* ---- separator insertion gives a well-formed standard numeral of the same value ---- *)
Theorem C20_separators_preserve_value : forall s,
  plain_shape s = true ->
  wf_numeral (add_thousand_separators s) = true /\
  (denote (add_thousand_separators s) == denote_plain s)%Q.
Proof. exact separators_preserve_value. Qed.
Check C20_separators_preserve_value : forall s,
  plain_shape s = true ->
  wf_numeral (add_thousand_separators s) = true /\
  (denote (add_thousand_separators s) == denote_plain s)%Q.
Print Assumptions C20_separators_preserve_value.

(* ---- NaN, the infinities and the zeros are shown by name, for every oracle ---- *)
Theorem C20_names : forall log10 powi fmt_prec fmt_exp14 parse_f64 fx,
  let fdn := format_display_number log10 powi fmt_prec fmt_exp14 parse_f64 fx in
  fdn S754_nan = Ok (tx "NaN") /\
  fdn (S754_infinity false) = Ok (tx "Infinity") /\
  fdn (S754_infinity true) = Ok (tx "-Infinity") /\
  fdn (S754_zero false) = Ok (tx "0") /\
  fdn (S754_zero true) = Ok (tx "-0").
Proof. exact display_names. Qed.
Check C20_names : forall log10 powi fmt_prec fmt_exp14 parse_f64 fx,
  let fdn := format_display_number log10 powi fmt_prec fmt_exp14 parse_f64 fx in
  fdn S754_nan = Ok (tx "NaN") /\
  fdn (S754_infinity false) = Ok (tx "Infinity") /\
  fdn (S754_infinity true) = Ok (tx "-Infinity") /\
  fdn (S754_zero false) = Ok (tx "0") /\
  fdn (S754_zero true) = Ok (tx "-0").
Print Assumptions C20_names.

(* ---- WELL-FORMEDNESS: for ALL doubles x, both variants of the code (fx), and ALL library
        oracles whose output on finite arguments has the documented digit shape, the display
        text matches the numeral grammar — unless the rounding step itself produced a
        non-finite number from the oracle values (excluded for real powi/log10 by the DISPLAY
        correspondence, not by proof; see notes/C20.md). ---- *)
Theorem C20_wellformed : forall log10 powi fmt_prec fmt_exp14 parse_f64 fx,
  (forall x n, is_finite x = true -> 0 <= n -> prec_shape n (fmt_prec x n) = true) ->
  (forall x, is_finite x = true -> exp_shape (fmt_exp14 x) = true) ->
  (forall s m, mant_shape s = true -> parse_f64 s = Some m -> is_finite m = true) ->
  forall x t,
  format_display_number log10 powi fmt_prec fmt_exp14 parse_f64 fx x = Ok t ->
  wf_numeral t = true \/
  (std_nonint_path x = true /\
   exists r, round_to_significant_figures log10 powi fx x = Ok r /\ is_finite r = false).
Proof. exact display_wellformed. Qed.
Check C20_wellformed : forall log10 powi fmt_prec fmt_exp14 parse_f64 fx,
  (forall x n, is_finite x = true -> 0 <= n -> prec_shape n (fmt_prec x n) = true) ->
  (forall x, is_finite x = true -> exp_shape (fmt_exp14 x) = true) ->
  (forall s m, mant_shape s = true -> parse_f64 s = Some m -> is_finite m = true) ->
  forall x t,
  format_display_number log10 powi fmt_prec fmt_exp14 parse_f64 fx x = Ok t ->
  wf_numeral t = true \/
  (std_nonint_path x = true /\
   exists r, round_to_significant_figures log10 powi fx x = Ok r /\ is_finite r = false).
Print Assumptions C20_wellformed.

(* ---- WELL-FORMEDNESS WITH NO SIDE CONDITION: if moreover the two numeric oracles are coarsely
        sane on the standard path (floor(log10 a) of a double in [0.0001, 1e15) lies in [-5, 15];
        powi(10, j) for -2 <= j <= 21 is a finite non-zero double of magnitude 2^-80 .. 2^80), the
        rounding step (value * scale).round() / scale yields a finite double (Flocq: no overflow),
        so the display text of EVERY valid double matches the numeral grammar.
        RV x is the real number a double denotes (Flocq SF2R). ---- *)
Theorem C20_wellformed_total : forall log10 powi fmt_prec fmt_exp14 parse_f64 fx,
  (forall x n, is_finite x = true -> 0 <= n -> prec_shape n (fmt_prec x n) = true) ->
  (forall x, is_finite x = true -> exp_shape (fmt_exp14 x) = true) ->
  (forall s m, mant_shape s = true -> parse_f64 s = Some m -> is_finite m = true) ->
  (forall a, valid a -> is_finite a = true -> scientific_range a = false ->
             -5 <= as_i32 (nfloor (log10 a)) <= 15) ->
  (forall j, -2 <= j <= 21 ->
     exists s m e, powi c_ten j = S754_finite s m e /\ valid (powi c_ten j) /\
       (bpow radix2 (-80) <= Rabs (RV (powi c_ten j)) <= bpow radix2 80)%R) ->
  forall x t,
  valid_binary 53 1024 x = true ->
  format_display_number log10 powi fmt_prec fmt_exp14 parse_f64 fx x = Ok t ->
  wf_numeral t = true.
Proof. exact display_wellformed_total. Qed.
Check C20_wellformed_total : forall log10 powi fmt_prec fmt_exp14 parse_f64 fx,
  (forall x n, is_finite x = true -> 0 <= n -> prec_shape n (fmt_prec x n) = true) ->
  (forall x, is_finite x = true -> exp_shape (fmt_exp14 x) = true) ->
  (forall s m, mant_shape s = true -> parse_f64 s = Some m -> is_finite m = true) ->
  (forall a, valid a -> is_finite a = true -> scientific_range a = false ->
             -5 <= as_i32 (nfloor (log10 a)) <= 15) ->
  (forall j, -2 <= j <= 21 ->
     exists s m e, powi c_ten j = S754_finite s m e /\ valid (powi c_ten j) /\
       (bpow radix2 (-80) <= Rabs (RV (powi c_ten j)) <= bpow radix2 80)%R) ->
  forall x t,
  valid_binary 53 1024 x = true ->
  format_display_number log10 powi fmt_prec fmt_exp14 parse_f64 fx x = Ok t ->
  wf_numeral t = true.
Print Assumptions C20_wellformed_total.
(* terminates the axiom block for the driver's Print-Assumptions parser (checks/common.py) *)
Print Assumptions C20_names.

(* ---- the model never yields an error value: Ok or (overflow) Panic ---- *)
Theorem C20_ok_or_panic : forall log10 powi fmt_prec fmt_exp14 parse_f64 fx x,
  (exists t, format_display_number log10 powi fmt_prec fmt_exp14 parse_f64 fx x = Ok t) \/
  format_display_number log10 powi fmt_prec fmt_exp14 parse_f64 fx x = Panic.
Proof. exact display_ok_or_panic. Qed.
Check C20_ok_or_panic : forall log10 powi fmt_prec fmt_exp14 parse_f64 fx x,
  (exists t, format_display_number log10 powi fmt_prec fmt_exp14 parse_f64 fx x = Ok t) \/
  format_display_number log10 powi fmt_prec fmt_exp14 parse_f64 fx x = Panic.
Print Assumptions C20_ok_or_panic.

(* ---- no i32/i64 overflow panic for any valid double when floor(log10 a) as i32 is within
        +-2000 (the real function's range on finite doubles is [-324, 308]) ---- *)
Theorem C20_no_panic : forall log10 powi fmt_prec fmt_exp14 parse_f64 fx,
  (forall a, Z.abs (as_i32 (nfloor (log10 a))) <= 2000) ->
  forall x, valid_binary prec emax x = true ->
  exists t, format_display_number log10 powi fmt_prec fmt_exp14 parse_f64 fx x = Ok t.
Proof. exact display_no_panic. Qed.
Check C20_no_panic : forall log10 powi fmt_prec fmt_exp14 parse_f64 fx,
  (forall a, Z.abs (as_i32 (nfloor (log10 a))) <= 2000) ->
  forall x, valid_binary prec emax x = true ->
  exists t, format_display_number log10 powi fmt_prec fmt_exp14 parse_f64 fx x = Ok t.
Print Assumptions C20_no_panic.

(* ---- INTEGERS: every integral double in the standard range (hence below 2^53) is shown
        exactly, as a well-formed grouped numeral; no oracle is consulted ---- *)
Theorem C20_integers_exact : forall log10 powi fmt_prec fmt_exp14 parse_f64 fx s m e,
  let x := S754_finite s m e in
  valid_binary prec emax x = true ->
  scientific_range (nabs x) = false ->
  nfract_is_zero x = true ->
  exists t, format_display_number log10 powi fmt_prec fmt_exp14 parse_f64 fx x = Ok t /\
            wf_numeral t = true /\ (denote t == num_to_Q x)%Q.
Proof. exact display_integers_exact. Qed.
Check C20_integers_exact : forall log10 powi fmt_prec fmt_exp14 parse_f64 fx s m e,
  let x := S754_finite s m e in
  valid_binary prec emax x = true ->
  scientific_range (nabs x) = false ->
  nfract_is_zero x = true ->
  exists t, format_display_number log10 powi fmt_prec fmt_exp14 parse_f64 fx x = Ok t /\
            wf_numeral t = true /\ (denote t == num_to_Q x)%Q.
Print Assumptions C20_integers_exact.

(* ---- POST-PROCESSING IS VALUE-EXACT, standard notation: the text denotes exactly the
        decimal that format!("{:.dp$}", rounded) printed ---- *)
Theorem C20_post_processing_exact_standard : forall log10 powi fmt_prec fmt_exp14 parse_f64 fx,
  (forall x n, is_finite x = true -> 0 <= n -> prec_shape n (fmt_prec x n) = true) ->
  forall x t,
  std_nonint_path x = true ->
  format_display_number log10 powi fmt_prec fmt_exp14 parse_f64 fx x = Ok t ->
  exists r dp, round_to_significant_figures log10 powi fx x = Ok r /\
    decimal_places_of log10 powi fx r = Ok dp /\ 0 <= dp /\
    (is_finite r = true ->
     wf_numeral t = true /\ (denote t == denote_plain (fmt_prec r dp))%Q).
Proof. exact display_standard_value. Qed.
Check C20_post_processing_exact_standard : forall log10 powi fmt_prec fmt_exp14 parse_f64 fx,
  (forall x n, is_finite x = true -> 0 <= n -> prec_shape n (fmt_prec x n) = true) ->
  forall x t,
  std_nonint_path x = true ->
  format_display_number log10 powi fmt_prec fmt_exp14 parse_f64 fx x = Ok t ->
  exists r dp, round_to_significant_figures log10 powi fx x = Ok r /\
    decimal_places_of log10 powi fx r = Ok dp /\ 0 <= dp /\
    (is_finite r = true ->
     wf_numeral t = true /\ (denote t == denote_plain (fmt_prec r dp))%Q).
Print Assumptions C20_post_processing_exact_standard.

(* ---- POST-PROCESSING IS VALUE-EXACT, scientific notation: the text denotes exactly
        (what {:.14} printed for the re-parsed mantissa) * 10^(re-parsed exponent) ---- *)
Theorem C20_post_processing_exact_scientific : forall log10 powi fmt_prec fmt_exp14 parse_f64 fx,
  (forall x n, is_finite x = true -> 0 <= n -> prec_shape n (fmt_prec x n) = true) ->
  (forall x, is_finite x = true -> exp_shape (fmt_exp14 x) = true) ->
  (forall s m, mant_shape s = true -> parse_f64 s = Some m -> is_finite m = true) ->
  forall x,
  is_finite x = true -> neqb x nzero = false -> scientific_range (nabs x) = true ->
  exists ms es t,
    split_once "e" (fmt_exp14 x) = Some (ms, es) /\
    format_display_number log10 powi fmt_prec fmt_exp14 parse_f64 fx x = Ok t /\
    wf_numeral t = true /\
    (denote t == denote_plain (fmt_prec (sci_mantissa parse_f64 x ms) 14%Z) *
                 Qpower (10 # 1) (sci_exponent es))%Q.
Proof. exact display_scientific_value. Qed.
Check C20_post_processing_exact_scientific : forall log10 powi fmt_prec fmt_exp14 parse_f64 fx,
  (forall x n, is_finite x = true -> 0 <= n -> prec_shape n (fmt_prec x n) = true) ->
  (forall x, is_finite x = true -> exp_shape (fmt_exp14 x) = true) ->
  (forall s m, mant_shape s = true -> parse_f64 s = Some m -> is_finite m = true) ->
  forall x,
  is_finite x = true -> neqb x nzero = false -> scientific_range (nabs x) = true ->
  exists ms es t,
    split_once "e" (fmt_exp14 x) = Some (ms, es) /\
    format_display_number log10 powi fmt_prec fmt_exp14 parse_f64 fx x = Ok t /\
    wf_numeral t = true /\
    (denote t == denote_plain (fmt_prec (sci_mantissa parse_f64 x ms) 14%Z) *
                 Qpower (10 # 1) (sci_exponent es))%Q.
Print Assumptions C20_post_processing_exact_scientific.

(* ====================================================================================
   The oracle hypotheses are satisfiable (a trivial library), and hold for the executable
   library models at sample points (the ORACLE streams test them against Rust std).
   ==================================================================================== *)
Example C20_hyp_prec_satisfiable : forall x n,
  is_finite x = true -> 0 <= n -> prec_shape n (toy_prec x n) = true.
Proof. exact toy_prec_shape. Qed.
Example C20_hyp_exp_satisfiable : forall x, is_finite x = true -> exp_shape (toy_exp x) = true.
Proof. exact toy_exp_shape. Qed.
Example C20_hyp_parse_satisfiable : forall s m,
  mant_shape s = true -> toy_parse s = Some m -> is_finite m = true.
Proof. exact toy_parse_finite. Qed.
(* the executable models at sample points: 1234.5, -0.000123..., 1e21 *)
Example C20_hyp_exec_samples :
  prec_shape 11 (fmt_prec_exec (num_of_bits 0x40934a0000000000) 11) = true /\
  prec_shape 0 (fmt_prec_exec (num_of_bits 0x42d6bcc41e900000) 0) = true /\
  exp_shape (fmt_exp14_exec (num_of_bits 0xbf202e85be180b74)) = true /\
  exp_shape (fmt_exp14_exec (num_of_bits 0x444b1ae4d6e2ef50)) = true /\
  mant_shape (tx "-1.23400000000000") = true.
Proof. vm_compute. repeat split. Qed.
(* hypotheses of C20_integers_exact: 1234567 *)
Example C20_hyp_integer_sample :
  let x := num_of_bits 0x4132d68700000000 in
  valid_binary prec emax x = true /\ scientific_range (nabs x) = false /\ nfract_is_zero x = true /\
  display_exec false [] x = Ok (tx "1,234,567").
Proof. vm_compute. repeat split. Qed.

(* ====================================================================================
   ACCURACY to 15 significant digits — partial (see notes/C20.md).
   ==================================================================================== *)
(* in_decade x k :  10^k <= |x| < 10^(k+1)   (proofs/DisplayNumAcc.v) *)
(* f64::log10 is off by less than one: floor(log10 a) is the decimal exponent or one more *)
Definition log10_sane (log10 : num -> num) : Prop :=
  forall a k, valid_binary prec emax a = true -> in_decade a k ->
              k <= as_i32 (nfloor (log10 a)) <= k + 1.
(* the text is within one unit of the 15th significant digit of x *)
Definition accurate15 (x : num) (t : text) : Prop :=
  forall k, in_decade x k -> (Qabs (denote t - num_to_Q x) < Qpower (10 # 1) (k - 14)%Z)%Q.

(* The statement of the accuracy clause for the code as it is (repaired by
   fixes/C20-decimal-exponent.diff = /repo 60da55e), with the exact library models.  NOT PROVED as stated (the executable library models are
   not proved to satisfy the oracle specifications; they are tested by the ORACLE streams).  What
   IS proved is this statement with the library models replaced by any oracles meeting explicit
   specifications: C20_accuracy_partial_integers / _scientific / _standard below cover every
   finite non-zero double.  On the implementation the clause is decided by the exact-rational
   search of checks/c20.py. *)
Definition C20_accuracy_full : Prop :=
  forall log10, log10_sane log10 ->
  forall x t, valid_binary prec emax x = true -> is_finite x = true -> neqb x nzero = false ->
    format_display_number log10 powi_exec fmt_prec_exec fmt_exp14_exec parse_f64_exec true x = Ok t ->
    accurate15 x t.

(* Proved part of the accuracy clause: integers in the standard range have error 0 *)
Theorem C20_accuracy_partial_integers : forall log10 powi fmt_prec fmt_exp14 parse_f64 fx s m e,
  let x := S754_finite s m e in
  valid_binary prec emax x = true ->
  scientific_range (nabs x) = false ->
  nfract_is_zero x = true ->
  exists t, format_display_number log10 powi fmt_prec fmt_exp14 parse_f64 fx x = Ok t /\
            (Qabs (denote t - num_to_Q x) == 0)%Q.
Proof. exact display_integers_error_zero. Qed.
Check C20_accuracy_partial_integers : forall log10 powi fmt_prec fmt_exp14 parse_f64 fx s m e,
  let x := S754_finite s m e in
  valid_binary prec emax x = true ->
  scientific_range (nabs x) = false ->
  nfract_is_zero x = true ->
  exists t, format_display_number log10 powi fmt_prec fmt_exp14 parse_f64 fx x = Ok t /\
            (Qabs (denote t - num_to_Q x) == 0)%Q.
Print Assumptions C20_accuracy_partial_integers.

(* Proved part of the accuracy clause: the SCIENTIFIC range (|x| < 0.0001 or |x| >= 1e15, i.e.
   all but 64 of the 2046 binades).  If {:.14e} is x correctly rounded to 15 significant digits
   (HE), parse::<f64> of the 15-digit mantissa is within 2e-15 (HP) and {:.14} prints the nearest
   multiple of 10^-14 (HF), then the display is within HALF a unit of the 15th significant digit
   of x: re-parsing and re-printing the mantissa gives back the same 15 digits. *)
Theorem C20_accuracy_partial_scientific : forall log10 powi fmt_prec fmt_exp14 parse_f64 fx,
  (forall x k, is_finite x = true -> in_decade x k ->
    exists ms es kk, split_once "e" (fmt_exp14 x) = Some (ms, es) /\ mant14_shape ms = true /\
      parse_i32 es = Some kk /\
      (Qabs (denote_plain ms * Qpower (10 # 1) kk - num_to_Q x) <= (1 # 2) * Qpower (10 # 1) (k - 14)%Z)%Q) ->
  (forall s, mant14_shape s = true ->
    exists m, parse_f64 s = Some m /\ is_finite m = true /\
      (Qabs (num_to_Q m - denote_plain s) <= 2 # 1000000000000000)%Q) ->
  (forall m, is_finite m = true ->
    prec_shape 14 (fmt_prec m 14) = true /\
    (Qabs (denote_plain (fmt_prec m 14%Z) - num_to_Q m) <= 1 # 200000000000000)%Q) ->
  forall x k,
  is_finite x = true -> neqb x nzero = false -> scientific_range (nabs x) = true ->
  in_decade x k ->
  exists t, format_display_number log10 powi fmt_prec fmt_exp14 parse_f64 fx x = Ok t /\
    (Qabs (denote t - num_to_Q x) <= (1 # 2) * Qpower (10 # 1) (k - 14)%Z)%Q /\
    (Qabs (denote t - num_to_Q x) < Qpower (10 # 1) (k - 14)%Z)%Q.
Proof. exact display_scientific_accurate. Qed.
Check C20_accuracy_partial_scientific : forall log10 powi fmt_prec fmt_exp14 parse_f64 fx,
  (forall x k, is_finite x = true -> in_decade x k ->
    exists ms es kk, split_once "e" (fmt_exp14 x) = Some (ms, es) /\ mant14_shape ms = true /\
      parse_i32 es = Some kk /\
      (Qabs (denote_plain ms * Qpower (10 # 1) kk - num_to_Q x) <= (1 # 2) * Qpower (10 # 1) (k - 14)%Z)%Q) ->
  (forall s, mant14_shape s = true ->
    exists m, parse_f64 s = Some m /\ is_finite m = true /\
      (Qabs (num_to_Q m - denote_plain s) <= 2 # 1000000000000000)%Q) ->
  (forall m, is_finite m = true ->
    prec_shape 14 (fmt_prec m 14) = true /\
    (Qabs (denote_plain (fmt_prec m 14%Z) - num_to_Q m) <= 1 # 200000000000000)%Q) ->
  forall x k,
  is_finite x = true -> neqb x nzero = false -> scientific_range (nabs x) = true ->
  in_decade x k ->
  exists t, format_display_number log10 powi fmt_prec fmt_exp14 parse_f64 fx x = Ok t /\
    (Qabs (denote t - num_to_Q x) <= (1 # 2) * Qpower (10 # 1) (k - 14)%Z)%Q /\
    (Qabs (denote t - num_to_Q x) < Qpower (10 # 1) (k - 14)%Z)%Q.
Print Assumptions C20_accuracy_partial_scientific.
(* the three hypotheses hold for the executable library models at a sample point, x = 1.5e-7:
   {:.14e} gives 1.50000000000000e-7 (error 0 at this point is not required; bound checked) *)
Example C20_hyp_sci_sample :
  let x := num_of_bits 0x3e8421f5f40d8376 in
  let m := match parse_f64_exec (tx "1.50000000000000") with Some m => m | None => S754_nan end in
  split_once "e" (fmt_exp14_exec x) = Some (tx "1.50000000000000", tx "-7") /\
  mant14_shape (tx "1.50000000000000") = true /\ parse_i32 (tx "-7") = Some (-7) /\
  Qle_bool (Qabs (denote_plain (tx "1.50000000000000") * Qpower (10 # 1) (-7) - num_to_Q x))
           ((1 # 2) * Qpower (10 # 1) (-7 - 14)) = true /\
  is_finite m = true /\
  Qle_bool (Qabs (num_to_Q m - denote_plain (tx "1.50000000000000"))) (2 # 1000000000000000) = true /\
  prec_shape 14 (fmt_prec_exec m 14) = true /\
  Qle_bool (Qabs (denote_plain (fmt_prec_exec m 14) - num_to_Q m)) (1 # 200000000000000) = true.
Proof. vm_compute. repeat split. Qed.

(* Proved part of the accuracy clause: the STANDARD range, non-integers (0.0001 <= |x| < 1e15),
   for the code as it is (fx = true, /repo 60da55e).  Real-valued specifications of the oracles
   (p10 k = 10^k, RV = the real a double denotes, rnd64 = round-to-nearest-even to binary64):
     - f64::log10 is off by less than one: floor(log10 a) is the decimal exponent or one more;
     - powi(10, j) is exact for 0 <= j <= 22 and, for -4 <= j <= -1, the correctly rounded 10^j
       which is not below 10^j (true of the four doubles 0.1, 0.01, 0.001, 0.0001);
     - {:.dp$} has the documented shape and prints the nearest multiple of 10^-dp (dp <= 18).
   Then the text is within 5/8 of a unit of the 15th significant digit of x (< 1 unit).
   Proof (proofs/DisplayNumAccStd.v, Flocq): the repaired decimal_exponent is exact; value*scale
   errs by < 1/8, .round() by <= 1/2, so n = the 15-digit integer is within 5/8; n < 2^53 is a
   double exactly; n/scale is within 2^-53 relative of the decimal n * 10^(K-14); its decade and
   hence the number of decimal places are right (also in the carry case n = 10^15); the printed
   decimal and n * 10^(K-14) lie on the same grid less than one step apart, hence are equal. *)
Theorem C20_accuracy_partial_standard : forall log10 powi fmt_prec fmt_exp14 parse_f64,
  (forall a K, valid a -> is_finite a = true -> (p10 K <= RV a < p10 (K + 1))%R ->
               K <= as_i32 (nfloor (log10 a)) <= K + 1) ->
  (forall j, 0 <= j <= 22 ->
     valid (powi c_ten j) /\ (exists s m e, powi c_ten j = S754_finite s m e) /\
     RV (powi c_ten j) = p10 j) ->
  (forall j, -4 <= j <= -1 ->
     valid (powi c_ten j) /\ (exists s m e, powi c_ten j = S754_finite s m e) /\
     RV (powi c_ten j) = rnd64 (p10 j) /\ (p10 j <= RV (powi c_ten j))%R) ->
  (forall x n, is_finite x = true -> 0 <= n -> prec_shape n (fmt_prec x n) = true) ->
  (forall m dp, is_finite m = true -> 0 <= dp <= 18 ->
     (Rabs (Q2R (denote_plain (fmt_prec m dp)) - RV m) <= / 2 * p10 (- dp))%R) ->
  forall x K t,
  valid x -> std_nonint_path x = true ->
  (p10 K <= Rabs (RV x) < p10 (K + 1))%R ->
  format_display_number log10 powi fmt_prec fmt_exp14 parse_f64 true x = Ok t ->
  (Rabs (Q2R (denote t) - RV x) <= 5 / 8 * p10 (K - 14))%R /\
  (Rabs (Q2R (denote t) - RV x) < p10 (K - 14))%R.
Proof. exact display_standard_accurate'. Qed.
Check C20_accuracy_partial_standard : forall log10 powi fmt_prec fmt_exp14 parse_f64,
  (forall a K, valid a -> is_finite a = true -> (p10 K <= RV a < p10 (K + 1))%R ->
               K <= as_i32 (nfloor (log10 a)) <= K + 1) ->
  (forall j, 0 <= j <= 22 ->
     valid (powi c_ten j) /\ (exists s m e, powi c_ten j = S754_finite s m e) /\
     RV (powi c_ten j) = p10 j) ->
  (forall j, -4 <= j <= -1 ->
     valid (powi c_ten j) /\ (exists s m e, powi c_ten j = S754_finite s m e) /\
     RV (powi c_ten j) = rnd64 (p10 j) /\ (p10 j <= RV (powi c_ten j))%R) ->
  (forall x n, is_finite x = true -> 0 <= n -> prec_shape n (fmt_prec x n) = true) ->
  (forall m dp, is_finite m = true -> 0 <= dp <= 18 ->
     (Rabs (Q2R (denote_plain (fmt_prec m dp)) - RV m) <= / 2 * p10 (- dp))%R) ->
  forall x K t,
  valid x -> std_nonint_path x = true ->
  (p10 K <= Rabs (RV x) < p10 (K + 1))%R ->
  format_display_number log10 powi fmt_prec fmt_exp14 parse_f64 true x = Ok t ->
  (Rabs (Q2R (denote t) - RV x) <= 5 / 8 * p10 (K - 14))%R /\
  (Rabs (Q2R (denote t) - RV x) < p10 (K - 14))%R.
Print Assumptions C20_accuracy_partial_standard.
(* terminates the axiom block for the driver's Print-Assumptions parser *)
Print Assumptions C20_names.
(* the powi hypotheses hold for the executable powi model (exact rational comparison), and the
   {:.dp$} accuracy hypothesis at a sample point (1234.5678 with 11 places) *)
Example C20_hyp_std_sample :
  forallb (fun j => Qeq_bool (num_to_Q (powi_exec c_ten j)) (inject_Z (10 ^ j)))
          [0;1;2;3;4;5;6;7;8;9;10;11;12;13;14;15;16;17;18;19;20;21;22] = true /\
  forallb (fun j => Qle_bool (Qpower (10 # 1) j) (num_to_Q (powi_exec c_ten j))) [-4;-3;-2;-1] = true /\
  (let m := num_of_bits 0x40934a456d5cfaad in
   Qle_bool (Qabs (denote_plain (fmt_prec_exec m 11) - num_to_Q m)) ((1 # 2) * Qpower (10 # 1) (-11)) = true).
Proof. vm_compute. repeat split. Qed.

(* ---- THE ACCURACY CLAUSE AS ONE THEOREM: for EVERY valid finite non-zero double x with
        10^K <= |x| < 10^(K+1), the text displayed by the code as it is (fx = true) denotes a number
        less than one unit of the 15th significant digit (10^(K-14)) away from x — relative to the
        listed specifications of the library calls (core::fmt, parse::<f64>, log10, powi), which
        are hypotheses, not proved facts about Rust's std/libm (they are exercised by the ORACLE
        streams).  Combines the three partial theorems above. ---- *)
Theorem C20_accuracy : forall log10 powi fmt_prec fmt_exp14 parse_f64,
  (* {:.14e} is x correctly rounded to 15 significant digits *)
  (forall x k, is_finite x = true -> in_decade x k ->
    exists ms es kk, split_once "e" (fmt_exp14 x) = Some (ms, es) /\ mant14_shape ms = true /\
      parse_i32 es = Some kk /\
      (Qabs (denote_plain ms * Qpower (10 # 1) kk - num_to_Q x) <= (1 # 2) * Qpower (10 # 1) (k - 14)%Z)%Q) ->
  (* parse::<f64> of a 15-digit mantissa is within 2e-15 *)
  (forall s, mant14_shape s = true ->
    exists m, parse_f64 s = Some m /\ is_finite m = true /\
      (Qabs (num_to_Q m - denote_plain s) <= 2 # 1000000000000000)%Q) ->
  (* floor(log10 a) is the decimal exponent or one more *)
  (forall a K, valid a -> is_finite a = true -> (p10 K <= RV a < p10 (K + 1))%R ->
               K <= as_i32 (nfloor (log10 a)) <= K + 1) ->
  (* powi(10, j): exact for 0..22; correctly rounded and not below 10^j for -4..-1 *)
  (forall j, 0 <= j <= 22 ->
     valid (powi c_ten j) /\ (exists s m e, powi c_ten j = S754_finite s m e) /\
     RV (powi c_ten j) = p10 j) ->
  (forall j, -4 <= j <= -1 ->
     valid (powi c_ten j) /\ (exists s m e, powi c_ten j = S754_finite s m e) /\
     RV (powi c_ten j) = rnd64 (p10 j) /\ (p10 j <= RV (powi c_ten j))%R) ->
  (* {:.N$}: documented shape; nearest multiple of 10^-N for N <= 18 *)
  (forall x n, is_finite x = true -> 0 <= n -> prec_shape n (fmt_prec x n) = true) ->
  (forall m dp, is_finite m = true -> 0 <= dp <= 18 ->
     (Rabs (Q2R (denote_plain (fmt_prec m dp)) - RV m) <= / 2 * p10 (- dp))%R) ->
  forall x K t,
  valid x -> is_finite x = true -> neqb x nzero = false ->
  (p10 K <= Rabs (RV x) < p10 (K + 1))%R ->
  format_display_number log10 powi fmt_prec fmt_exp14 parse_f64 true x = Ok t ->
  (Rabs (Q2R (denote t) - RV x) < p10 (K - 14))%R.
Proof. exact display_accurate. Qed.
Check C20_accuracy : forall log10 powi fmt_prec fmt_exp14 parse_f64,
  (* {:.14e} is x correctly rounded to 15 significant digits *)
  (forall x k, is_finite x = true -> in_decade x k ->
    exists ms es kk, split_once "e" (fmt_exp14 x) = Some (ms, es) /\ mant14_shape ms = true /\
      parse_i32 es = Some kk /\
      (Qabs (denote_plain ms * Qpower (10 # 1) kk - num_to_Q x) <= (1 # 2) * Qpower (10 # 1) (k - 14)%Z)%Q) ->
  (* parse::<f64> of a 15-digit mantissa is within 2e-15 *)
  (forall s, mant14_shape s = true ->
    exists m, parse_f64 s = Some m /\ is_finite m = true /\
      (Qabs (num_to_Q m - denote_plain s) <= 2 # 1000000000000000)%Q) ->
  (* floor(log10 a) is the decimal exponent or one more *)
  (forall a K, valid a -> is_finite a = true -> (p10 K <= RV a < p10 (K + 1))%R ->
               K <= as_i32 (nfloor (log10 a)) <= K + 1) ->
  (* powi(10, j): exact for 0..22; correctly rounded and not below 10^j for -4..-1 *)
  (forall j, 0 <= j <= 22 ->
     valid (powi c_ten j) /\ (exists s m e, powi c_ten j = S754_finite s m e) /\
     RV (powi c_ten j) = p10 j) ->
  (forall j, -4 <= j <= -1 ->
     valid (powi c_ten j) /\ (exists s m e, powi c_ten j = S754_finite s m e) /\
     RV (powi c_ten j) = rnd64 (p10 j) /\ (p10 j <= RV (powi c_ten j))%R) ->
  (* {:.N$}: documented shape; nearest multiple of 10^-N for N <= 18 *)
  (forall x n, is_finite x = true -> 0 <= n -> prec_shape n (fmt_prec x n) = true) ->
  (forall m dp, is_finite m = true -> 0 <= dp <= 18 ->
     (Rabs (Q2R (denote_plain (fmt_prec m dp)) - RV m) <= / 2 * p10 (- dp))%R) ->
  forall x K t,
  valid x -> is_finite x = true -> neqb x nzero = false ->
  (p10 K <= Rabs (RV x) < p10 (K + 1))%R ->
  format_display_number log10 powi fmt_prec fmt_exp14 parse_f64 true x = Ok t ->
  (Rabs (Q2R (denote t) - RV x) < p10 (K - 14))%R.
Print Assumptions C20_accuracy.
(* terminates the axiom block for the driver's Print-Assumptions parser *)
Print Assumptions C20_names.

(* ---- the powi hypotheses of C20_accuracy hold for the executable powi model (compiler-builtins
        __powidf2 over SFmul/SFdiv), which the ORACLE-powi stream compares with Rust's f64::powi
        on 10^-30 .. 10^30 and random bases on every run ---- *)
Theorem C20_powi_model_exact : forall j, 0 <= j <= 22 ->
  valid (powi_exec c_ten j) /\ (exists s m e, powi_exec c_ten j = S754_finite s m e) /\
  RV (powi_exec c_ten j) = p10 j.
Proof. exact powi_exec_exact. Qed.
Check C20_powi_model_exact : forall j, 0 <= j <= 22 ->
  valid (powi_exec c_ten j) /\ (exists s m e, powi_exec c_ten j = S754_finite s m e) /\
  RV (powi_exec c_ten j) = p10 j.
Print Assumptions C20_powi_model_exact.
Print Assumptions C20_names.
Theorem C20_powi_model_negative : forall j, -4 <= j <= -1 ->
  valid (powi_exec c_ten j) /\ (exists s m e, powi_exec c_ten j = S754_finite s m e) /\
  RV (powi_exec c_ten j) = rnd64 (p10 j) /\ (p10 j <= RV (powi_exec c_ten j))%R.
Proof. exact powi_exec_neg. Qed.
Check C20_powi_model_negative : forall j, -4 <= j <= -1 ->
  valid (powi_exec c_ten j) /\ (exists s m e, powi_exec c_ten j = S754_finite s m e) /\
  RV (powi_exec c_ten j) = rnd64 (p10 j) /\ (p10 j <= RV (powi_exec c_ten j))%R.
Print Assumptions C20_powi_model_negative.
Print Assumptions C20_names.

(* ====================================================================================
   EXTENSION ROUND — the executable library models of coq/DisplayNum.v (the ones the DISPLAY
   correspondence runs against the Rust code) are PROVED to satisfy the specifications that
   C20_accuracy assumes of core::fmt / dec2flt, one theorem per specification
   (proofs/DisplayNumDischarge1..4.v).  With them C20_accuracy_full is a theorem
   (C20_accuracy_exec); its only remaining hypothesis is log10_sane on libm's log10.
   ==================================================================================== *)
Require Import Blots.proofs.DisplayNumDischarge1 Blots.proofs.DisplayNumDischarge2
               Blots.proofs.DisplayNumDischarge3 Blots.proofs.DisplayNumDischarge4
               Blots.proofs.DisplayNumDischarge5 Blots.proofs.DisplayNumDischarge6
               Blots.proofs.DisplayNumDischarge7.
(* the imported proof files open R_scope; restore the scopes of this file *)
Open Scope char_scope.
Open Scope Z_scope.

(* ---- {:.N$}: the model has the documented shape -?d+(.d{N})? for every finite x, every N >= 0 ---- *)
Theorem C20_fmt_prec_model_shape : forall x n,
  is_finite x = true -> 0 <= n -> prec_shape n (fmt_prec_exec x n) = true.
Proof. exact fmt_prec_exec_shape. Qed.
Check C20_fmt_prec_model_shape : forall x n,
  is_finite x = true -> 0 <= n -> prec_shape n (fmt_prec_exec x n) = true.
Print Assumptions C20_fmt_prec_model_shape.

(* ---- {:.N$}: the model prints the integer round_half_even(|x| * 10^N) (prec_q, exact Z arithmetic
        on the binary expansion m * 2^e) over 10^N, with the sign of x: an exact rational identity ---- *)
Theorem C20_fmt_prec_model_value : forall x n, is_finite x = true -> 0 <= n ->
  denote_plain (fmt_prec_exec x n) = Qmake (cond_Zopp (nsign x) (prec_q x n)) (Z.to_pos (10 ^ n)).
Proof. exact fmt_prec_exec_value. Qed.
Check C20_fmt_prec_model_value : forall x n, is_finite x = true -> 0 <= n ->
  denote_plain (fmt_prec_exec x n) = Qmake (cond_Zopp (nsign x) (prec_q x n)) (Z.to_pos (10 ^ n)).
Print Assumptions C20_fmt_prec_model_value.

(* ---- {:.N$}: ties go to the even digit (round-half-to-even, as core::fmt's exact mode does): when
        |x| * 10^N is exactly halfway between two integers the even one is printed ---- *)
Theorem C20_fmt_prec_model_half_even : forall s m e n N D, 0 <= n -> mag_frac m e = (N, D) ->
  2 * ((N * 10 ^ n) mod D) = D -> Z.even (prec_q (S754_finite s m e) n) = true.
Proof. exact fmt_prec_exec_half_even. Qed.
Check C20_fmt_prec_model_half_even : forall s m e n N D, 0 <= n -> mag_frac m e = (N, D) ->
  2 * ((N * 10 ^ n) mod D) = D -> Z.even (prec_q (S754_finite s m e) n) = true.
Print Assumptions C20_fmt_prec_model_half_even.
(* e.g. {:.0} of 2.5 is "2" and {:.1} of 0.25 is "0.2" in the model *)
Example C20_half_even_samples :
  fmt_prec_exec (num_of_bits 0x4004000000000000) 0 = tx "2" /\
  fmt_prec_exec (num_of_bits 0x3fd0000000000000) 1 = tx "0.2" /\
  fmt_prec_exec (num_of_bits 0x3fd8000000000000) 2 = tx "0.38".
Proof. vm_compute. repeat split. Qed.

(* ---- {:.N$}: hence the printed decimal is a nearest multiple of 10^-N of x — for EVERY N >= 0
        (C20_accuracy needs N <= 18 only) ---- *)
Theorem C20_fmt_prec_model_accurate : forall m dp, is_finite m = true -> 0 <= dp ->
  (Rabs (Q2R (denote_plain (fmt_prec_exec m dp)) - RV m) <= / 2 * p10 (- dp))%R.
Proof. exact fmt_prec_exec_accurate. Qed.
Check C20_fmt_prec_model_accurate : forall m dp, is_finite m = true -> 0 <= dp ->
  (Rabs (Q2R (denote_plain (fmt_prec_exec m dp)) - RV m) <= / 2 * p10 (- dp))%R.
Print Assumptions C20_fmt_prec_model_accurate.
Print Assumptions C20_names.

(* ---- the decimal exponent the {:.14e} model computes (bit-length estimate * 1233/4096, corrected by
        at most 8 unit steps) IS floor(log10 |x|) for every VALID double (the estimate is checked
        exhaustively over the 2110 bit-length differences binary64 allows; fuel 8 is not enough for
        arbitrary (m, e) pairs, which is why validity is assumed) ---- *)
Theorem C20_e10_model_exact : forall s m e N D,
  valid (S754_finite s m e) -> mag_frac m e = (N, D) ->
  (p10 (e10_frac N D) <= IZR N / IZR D < p10 (e10_frac N D + 1))%R /\ -340 <= e10_frac N D <= 320.
Proof. exact e10_frac_spec. Qed.
Check C20_e10_model_exact : forall s m e N D,
  valid (S754_finite s m e) -> mag_frac m e = (N, D) ->
  (p10 (e10_frac N D) <= IZR N / IZR D < p10 (e10_frac N D + 1))%R /\ -340 <= e10_frac N D <= 320.
Print Assumptions C20_e10_model_exact.
Print Assumptions C20_names.

(* ---- {:.14e}: for every valid finite double in a decade the model prints  -?d.d{14}e<k>  whose
        exponent parse::<i32> reads back and whose value is x correctly rounded to 15 significant
        digits (error <= 1/2 unit of the 15th digit; carry 9.99..95 -> 1.00..0e(k+1) included):
        the first hypothesis of C20_accuracy, for valid x ---- *)
Theorem C20_fmt_exp14_model_correct : forall x k,
  valid x -> is_finite x = true -> in_decade x k ->
  exists ms es kk, split_once "e" (fmt_exp14_exec x) = Some (ms, es) /\ mant14_shape ms = true /\
    parse_i32 es = Some kk /\
    (Qabs (denote_plain ms * Qpower (10 # 1) kk - num_to_Q x) <= (1 # 2) * Qpower (10 # 1) (k - 14)%Z)%Q.
Proof. exact fmt_exp14_exec_correct. Qed.
Check C20_fmt_exp14_model_correct : forall x k,
  valid x -> is_finite x = true -> in_decade x k ->
  exists ms es kk, split_once "e" (fmt_exp14_exec x) = Some (ms, es) /\ mant14_shape ms = true /\
    parse_i32 es = Some kk /\
    (Qabs (denote_plain ms * Qpower (10 # 1) kk - num_to_Q x) <= (1 # 2) * Qpower (10 # 1) (k - 14)%Z)%Q.
Print Assumptions C20_fmt_exp14_model_correct.
Print Assumptions C20_names.

(* ---- parse::<f64>: the model's rn_ratio s N D is the IEEE round-to-nearest-even double of N/D
        (Flocq: Fdiv_core_correct + binary_round_aux_correct'), finite unless the rounding overflows ---- *)
Theorem C20_parse_model_nearest : forall s N D, 0 < N -> 0 < D ->
  let v := (IZR N / IZR D)%R in
  valid (rn_ratio s N D) /\
  ((Rabs (rnd64 v) < bpow radix2 1024)%R ->
   RV (rn_ratio s N D) = cond_Ropp s (rnd64 v) /\ is_finite (rn_ratio s N D) = true).
Proof. exact rn_ratio_correct. Qed.
Check C20_parse_model_nearest : forall s N D, 0 < N -> 0 < D ->
  let v := (IZR N / IZR D)%R in
  valid (rn_ratio s N D) /\
  ((Rabs (rnd64 v) < bpow radix2 1024)%R ->
   RV (rn_ratio s N D) = cond_Ropp s (rnd64 v) /\ is_finite (rn_ratio s N D) = true).
Print Assumptions C20_parse_model_nearest.
Print Assumptions C20_names.

(* ---- parse::<f64> of a 15-digit mantissa text is within 2e-15 of it: the second hypothesis of
        C20_accuracy ---- *)
Theorem C20_parse_model_close : forall t, mant14_shape t = true ->
  exists m, parse_f64_exec t = Some m /\ is_finite m = true /\
    (Qabs (num_to_Q m - denote_plain t) <= 2 # 1000000000000000)%Q.
Proof. exact parse_f64_exec_close. Qed.
Check C20_parse_model_close : forall t, mant14_shape t = true ->
  exists m, parse_f64_exec t = Some m /\ is_finite m = true /\
    (Qabs (num_to_Q m - denote_plain t) <= 2 # 1000000000000000)%Q.
Print Assumptions C20_parse_model_close.
Print Assumptions C20_names.

(* ---- two models of str::parse::<f64> agree: on every mantissa text -?d.d+ the display model's parser
        returns exactly C16's reference value rn_decimal (NumText.v; proved to be IEEE nearest-even in
        C16_rn_decimal_correct and compared with Rust's from_str by the C16 NUMTEXT stream) ---- *)
Require Blots.NumText Blots.proofs.DisplayNumDischarge8.
Theorem C20_parse_model_is_C16_reference : forall neg d fp,
  is_digit d = true -> all_digits fp = true ->
  parse_f64_exec (mk_plain neg [d] (Some fp)) =
  Some (NumText.rn_decimal neg (digits_value (d :: fp)) (- Z.of_nat (length fp))).
Proof. exact DisplayNumDischarge8.parse_f64_exec_is_rn_decimal. Qed.
Check C20_parse_model_is_C16_reference : forall neg d fp,
  is_digit d = true -> all_digits fp = true ->
  parse_f64_exec (mk_plain neg [d] (Some fp)) =
  Some (NumText.rn_decimal neg (digits_value (d :: fp)) (- Z.of_nat (length fp))).
Print Assumptions C20_parse_model_is_C16_reference.
Print Assumptions C20_names.

(* ---- the remaining hypotheses of C20_wellformed_total, for the executable models: {:.14e} has the
        documented shape -?d.d+e-?d+ on every valid finite double (zeros included) ---- *)
Theorem C20_fmt_exp14_model_shape : forall x,
  valid x -> is_finite x = true -> exp_shape (fmt_exp14_exec x) = true.
Proof. exact fmt_exp14_exec_shape. Qed.
Check C20_fmt_exp14_model_shape : forall x,
  valid x -> is_finite x = true -> exp_shape (fmt_exp14_exec x) = true.
Print Assumptions C20_fmt_exp14_model_shape.
Print Assumptions C20_names.

(* ---- parse::<f64> of a mantissa text -?d.d+ (any number of fraction digits) is a finite double ---- *)
Theorem C20_parse_model_finite : forall s m,
  mant_shape s = true -> parse_f64_exec s = Some m -> is_finite m = true.
Proof. exact parse_f64_exec_finite. Qed.
Check C20_parse_model_finite : forall s m,
  mant_shape s = true -> parse_f64_exec s = Some m -> is_finite m = true.
Print Assumptions C20_parse_model_finite.
Print Assumptions C20_names.

(* ---- powi(10, j), -2 <= j <= 21, is a finite non-zero double of magnitude 2^-80 .. 2^80 ---- *)
Theorem C20_powi_model_bounds : forall j, -2 <= j <= 21 ->
  exists s m e, powi_exec c_ten j = S754_finite s m e /\ valid (powi_exec c_ten j) /\
    (bpow radix2 (-80) <= Rabs (RV (powi_exec c_ten j)) <= bpow radix2 80)%R.
Proof. exact powi_exec_std_bounds. Qed.
Check C20_powi_model_bounds : forall j, -2 <= j <= 21 ->
  exists s m e, powi_exec c_ten j = S754_finite s m e /\ valid (powi_exec c_ten j) /\
    (bpow radix2 (-80) <= Rabs (RV (powi_exec c_ten j)) <= bpow radix2 80)%R.
Print Assumptions C20_powi_model_bounds.
Print Assumptions C20_names.

(* ---- WELL-FORMEDNESS FOR THE EXECUTABLE MODEL: every valid double (NaN, infinities, zeros, subnormals
        included), both variants of the code, is displayed as a well-formed numeral by
        format_display_number running on the executable library models.  Only hypothesis: log10_sane. ---- *)
Theorem C20_wellformed_exec : forall log10 fx, log10_sane log10 ->
  forall x t, valid_binary 53 1024 x = true ->
  format_display_number log10 powi_exec fmt_prec_exec fmt_exp14_exec parse_f64_exec fx x = Ok t ->
  wf_numeral t = true.
Proof. exact display_wellformed_exec. Qed.
Check C20_wellformed_exec : forall log10 fx, log10_sane log10 ->
  forall x t, valid_binary 53 1024 x = true ->
  format_display_number log10 powi_exec fmt_prec_exec fmt_exp14_exec parse_f64_exec fx x = Ok t ->
  wf_numeral t = true.
Print Assumptions C20_wellformed_exec.
Print Assumptions C20_names.

(* ---- THE ACCURACY CLAUSE FOR THE EXECUTABLE MODEL (= C20_accuracy_full): for every valid finite
        non-zero double the text produced by format_display_number running on the executable library
        models is less than one unit of the 15th significant digit away from x.  Only hypothesis:
        log10_sane (libm's log10 is off by less than one at the floor). ---- *)
Theorem C20_accuracy_exec : forall log10, log10_sane log10 ->
  forall x t, valid_binary prec emax x = true -> is_finite x = true -> neqb x nzero = false ->
    format_display_number log10 powi_exec fmt_prec_exec fmt_exp14_exec parse_f64_exec true x = Ok t ->
    accurate15 x t.
Proof. exact display_accurate_exec. Qed.
Check C20_accuracy_exec : forall log10, log10_sane log10 ->
  forall x t, valid_binary prec emax x = true -> is_finite x = true -> neqb x nzero = false ->
    format_display_number log10 powi_exec fmt_prec_exec fmt_exp14_exec parse_f64_exec true x = Ok t ->
    accurate15 x t.
Print Assumptions C20_accuracy_exec.
Print Assumptions C20_names.
Lemma C20_accuracy_full_holds : C20_accuracy_full.
Proof. exact display_accurate_exec. Qed.

(* ---- NO PANIC FOR THE EXECUTABLE MODEL: the code as it is (fx = true) returns a text for every valid
        double under log10_sane alone (C20_no_panic needs a bound on floor(log10 a) for EVERY a; here the
        two arguments log10 is actually called on are shown to be valid non-zero doubles of known decade) ---- *)
Theorem C20_total_exec : forall log10, log10_sane log10 ->
  forall x, valid_binary prec emax x = true ->
  exists t, format_display_number log10 powi_exec fmt_prec_exec fmt_exp14_exec parse_f64_exec true x = Ok t.
Proof. exact display_total_exec. Qed.
Check C20_total_exec : forall log10, log10_sane log10 ->
  forall x, valid_binary prec emax x = true ->
  exists t, format_display_number log10 powi_exec fmt_prec_exec fmt_exp14_exec parse_f64_exec true x = Ok t.
Print Assumptions C20_total_exec.
Print Assumptions C20_names.

(* ---- SUMMARY for the executable model, code as it is: under log10_sane EVERY valid double is displayed
        (no panic), as a well-formed numeral, which for finite non-zero x is less than one unit of the 15th
        significant digit away from x ---- *)
Theorem C20_exec_complete : forall log10, log10_sane log10 ->
  forall x, valid_binary prec emax x = true ->
  exists t,
    format_display_number log10 powi_exec fmt_prec_exec fmt_exp14_exec parse_f64_exec true x = Ok t /\
    wf_numeral t = true /\
    (is_finite x = true -> neqb x nzero = false -> accurate15 x t).
Proof. exact display_exec_complete. Qed.
Check C20_exec_complete : forall log10, log10_sane log10 ->
  forall x, valid_binary prec emax x = true ->
  exists t,
    format_display_number log10 powi_exec fmt_prec_exec fmt_exp14_exec parse_f64_exec true x = Ok t /\
    wf_numeral t = true /\
    (is_finite x = true -> neqb x nzero = false -> accurate15 x t).
Print Assumptions C20_exec_complete.
Print Assumptions C20_names.

(* ---- THE HYPOTHESIS ON libm, AS THE REAL FUNCTION SATISFIES IT.  log10_sane (above, kept as it was stated) asks
        floor(log10 a) to be right for negative a too, but f64::log10 returns NaN on negative arguments, so the real
        function does NOT satisfy it (C20_log10_sane_too_strong).  format_display_number only ever applies log10 to
        absolute values, and every *_exec theorem holds under the weaker log10_sane_pos (sign bit clear), which is
        what the LOG10SANE stream evaluates on the real f64::log10.  The theorems above are corollaries. ---- *)
Definition log10_sane_pos (log10 : num -> num) : Prop :=
  forall a k, valid_binary prec emax a = true -> nsign a = false -> in_decade a k ->
              k <= as_i32 (nfloor (log10 a)) <= k + 1.
Lemma C20_log10_sane_implies_pos : forall log10, log10_sane log10 -> log10_sane_pos log10.
Proof. intros log10 H a k V _ D. exact (H a k V D). Qed.
Example C20_log10_sane_too_strong : forall log10,
  log10 (num_of_bits 0xc07f400000000000) = S754_nan ->       (* log10(-500.0) = NaN *)
  ~ log10_sane log10.
Proof.
  intros log10 Hn HS.
  assert (D : in_decade (num_of_bits 0xc07f400000000000) 2).
  { split; [apply Qle_bool_iff|apply Qlt_alt]; vm_compute; reflexivity. }
  assert (V : valid_binary prec emax (num_of_bits 0xc07f400000000000) = true) by (vm_compute; reflexivity).
  specialize (HS _ 2 V D). rewrite Hn in HS. cbn in HS. destruct HS as [H1 _]. apply H1. reflexivity.
Qed.

Theorem C20_accuracy_exec_pos : forall log10, log10_sane_pos log10 ->
  forall x t, valid_binary prec emax x = true -> is_finite x = true -> neqb x nzero = false ->
    format_display_number log10 powi_exec fmt_prec_exec fmt_exp14_exec parse_f64_exec true x = Ok t ->
    accurate15 x t.
Proof. exact display_accurate_exec_pos. Qed.
Check C20_accuracy_exec_pos : forall log10, log10_sane_pos log10 ->
  forall x t, valid_binary prec emax x = true -> is_finite x = true -> neqb x nzero = false ->
    format_display_number log10 powi_exec fmt_prec_exec fmt_exp14_exec parse_f64_exec true x = Ok t ->
    accurate15 x t.
Print Assumptions C20_accuracy_exec_pos.
Print Assumptions C20_names.

Theorem C20_wellformed_exec_pos : forall log10 fx, log10_sane_pos log10 ->
  forall x t, valid_binary 53 1024 x = true ->
  format_display_number log10 powi_exec fmt_prec_exec fmt_exp14_exec parse_f64_exec fx x = Ok t ->
  wf_numeral t = true.
Proof. exact display_wellformed_exec_pos. Qed.
Check C20_wellformed_exec_pos : forall log10 fx, log10_sane_pos log10 ->
  forall x t, valid_binary 53 1024 x = true ->
  format_display_number log10 powi_exec fmt_prec_exec fmt_exp14_exec parse_f64_exec fx x = Ok t ->
  wf_numeral t = true.
Print Assumptions C20_wellformed_exec_pos.
Print Assumptions C20_names.

(* the summary theorem under the hypothesis the real libm meets: total, well-formed, accurate *)
Theorem C20_exec_complete_pos : forall log10, log10_sane_pos log10 ->
  forall x, valid_binary prec emax x = true ->
  exists t,
    format_display_number log10 powi_exec fmt_prec_exec fmt_exp14_exec parse_f64_exec true x = Ok t /\
    wf_numeral t = true /\
    (is_finite x = true -> neqb x nzero = false -> accurate15 x t).
Proof. exact display_exec_complete_pos. Qed.
Check C20_exec_complete_pos : forall log10, log10_sane_pos log10 ->
  forall x, valid_binary prec emax x = true ->
  exists t,
    format_display_number log10 powi_exec fmt_prec_exec fmt_exp14_exec parse_f64_exec true x = Ok t /\
    wf_numeral t = true /\
    (is_finite x = true -> neqb x nzero = false -> accurate15 x t).
Print Assumptions C20_exec_complete_pos.
Print Assumptions C20_names.

(* ---- log10_sane is satisfiable: a log10 returning floor(log10 a) exactly, as a double ---- *)
Example C20_hyp_log10_satisfiable : log10_sane log10_floor_model.
Proof. exact log10_floor_model_sane. Qed.

(* ---- ... and with that exact log10 NO hypothesis is left: the display algorithm of values.rs, run on
        exact models of every library call it makes, is accurate to 15 significant digits for every
        valid finite non-zero double ---- *)
Theorem C20_accuracy_exact_library : forall x t,
  valid_binary prec emax x = true -> is_finite x = true -> neqb x nzero = false ->
  format_display_number log10_floor_model powi_exec fmt_prec_exec fmt_exp14_exec parse_f64_exec true x = Ok t ->
  accurate15 x t.
Proof. exact display_accurate_exact_log10. Qed.
Check C20_accuracy_exact_library : forall x t,
  valid_binary prec emax x = true -> is_finite x = true -> neqb x nzero = false ->
  format_display_number log10_floor_model powi_exec fmt_prec_exec fmt_exp14_exec parse_f64_exec true x = Ok t ->
  accurate15 x t.
Print Assumptions C20_accuracy_exact_library.
Print Assumptions C20_names.

(* REFUTED on the code before /repo commit 60da55e (fx = false), finding C20-F1 (now fixed):
   x = 999999999999998.875 (bits 430c6bf52633fff7).  f64::log10 returns 15.0 both on x and on
   the rounded value 1e15 (these two table entries are re-validated against the real function
   by the check on every run; 15.0 is also the correctly rounded value of log10 x, so no
   better libm helps).  The display is "1,000,000,000,000,000": 1.125 away from x, while one
   unit of the 15th significant digit of x is 1. *)
Definition C20_F1_witness : num := num_of_bits 0x430c6bf52633fff7.
Definition C20_F1_log10_table : list (Z * Z) :=
  [(0x430c6bf52633fff7, 0x402e000000000000); (0x430c6bf526340000, 0x402e000000000000)].
Lemma C20_F1_before_repair :
  display_exec false C20_F1_log10_table C20_F1_witness = Ok (tx "1,000,000,000,000,000") /\
  Qle_bool (Qpower (10 # 1) 14) (Qabs (num_to_Q C20_F1_witness)) = true /\
  Qle_bool (Qpower (10 # 1) 15) (Qabs (num_to_Q C20_F1_witness)) = false /\
  Qle_bool (Qpower (10 # 1) (14 - 14))
           (Qabs (denote (tx "1,000,000,000,000,000") - num_to_Q C20_F1_witness)) = true.
Proof. vm_compute. repeat split. Qed.
(* with the repair (fx = true, the code as it is now) the same input, same log10 values,
   displays within 0.125 *)
Lemma C20_F1_repaired :
  display_exec true C20_F1_log10_table C20_F1_witness = Ok (tx "999,999,999,999,999") /\
  Qle_bool (Qpower (10 # 1) (14 - 14))
           (Qabs (denote (tx "999,999,999,999,999") - num_to_Q C20_F1_witness)) = false.
Proof. vm_compute. repeat split. Qed.
