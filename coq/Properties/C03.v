(* C03 — Bindings are immutable and scoped: a bound name never changes or leaks.
   Property theorems only (each closed by [exact lemma], pinned by [Check], followed by
   [Print Assumptions]).  Model: coq/Eval.v (evaluate_ast / FunctionDef::call), coq/Program.v
   (the statement loop).  The theorems about expressions hold for EVERY call depth d and EVERY
   implementation of operators and built-ins (they are Section parameters of the evaluator), so
   no change confined to evaluate_binary_op_ast or BuiltInFunction::call can invalidate them;
   the evaluator transcription itself is tied to the code by the EVAL / SESSION streams
   (checks/c03.py). *)
From Coq Require Import String List ZArith Bool.
Require Import Blots.Num Blots.gen.Builtins Blots.Ast Blots.Value Blots.Outcome Blots.Binop
               Blots.Env Blots.Eval Blots.Program Blots.EvalInst
               Blots.EvalFull
               Blots.proofs.Frames Blots.proofs.StoreMono Blots.proofs.InstMono Blots.proofs.Scoping
               Blots.proofs.FullInst.
Import ListNotations.
Open Scope string_scope.

(* Evaluating any expression — successfully or not — changes the scope chain only by pushing
   names that pass the assignment guards (not a built-in, not a keyword / inputs / constants,
   not already bound anywhere in the chain) onto the innermost frame. *)
Theorem C03_eval_only_extends : forall release bi bu d c e r c',
  evalD release bi bu d c e = (r, c') -> ext (snd c) (snd c').
Proof. exact evalD_ext. Qed.
Check C03_eval_only_extends : forall release bi bu d c e r c',
  evalD release bi bu d c e = (r, c') -> ext (snd c) (snd c').
Print Assumptions C03_eval_only_extends.

(* ... hence a name bound before is bound to the same value after (one expression) *)
Theorem C03_binding_survives_expression : forall release bi bu d c e r c' x v,
  evalD release bi bu d c e = (r, c') -> lookup (snd c) x = Some v -> lookup (snd c') x = Some v.
Proof. exact evalD_binding_survives. Qed.
Check C03_binding_survives_expression : forall release bi bu d c e r c' x v,
  evalD release bi bu d c e = (r, c') -> lookup (snd c) x = Some v -> lookup (snd c') x = Some v.
Print Assumptions C03_binding_survives_expression.

(* Across any sequence of statements, including failing ones (the loop stops there; the state
   it leaves is the one inspected), a top-level name once bound keeps its value. *)
Theorem C03_binding_survives_session : forall release bi bu d prog s x v,
  lookup (snd (s_cfg s)) x = Some v ->
  lookup (snd (s_cfg (fst (run (evalD release bi bu d) s prog)))) x = Some v.
Proof. exact evalD_session_stable. Qed.
Check C03_binding_survives_session : forall release bi bu d prog s x v,
  lookup (snd (s_cfg s)) x = Some v ->
  lookup (snd (s_cfg (fst (run (evalD release bi bu d) s prog)))) x = Some v.
Print Assumptions C03_binding_survives_session.

(* Keywords, built-in function names, `inputs` and `constants` can never become bound. *)
Theorem C03_forbidden_never_bound : forall release bi bu d prog s x,
  lookup (snd (s_cfg s)) x = None ->
  lookup (snd (s_cfg (fst (run (evalD release bi bu d) s prog)))) x <> None ->
  forbidden x = false.
Proof. exact evalD_forbidden. Qed.
Check C03_forbidden_never_bound : forall release bi bu d prog s x,
  lookup (snd (s_cfg s)) x = None ->
  lookup (snd (s_cfg (fst (run (evalD release bi bu d) s prog)))) x <> None ->
  forbidden x = false.
Print Assumptions C03_forbidden_never_bound.

(* `inputs` keeps the record it was given *)
Theorem C03_inputs_constant : forall release bi bu d prog inputs,
  lookup (snd (s_cfg (fst (run (evalD release bi bu d) (init_session inputs) prog)))) "inputs"
  = Some (VRec inputs).
Proof. exact evalD_inputs_constant. Qed.
Check C03_inputs_constant : forall release bi bu d prog inputs,
  lookup (snd (s_cfg (fst (run (evalD release bi bu d) (init_session inputs) prog)))) "inputs"
  = Some (VRec inputs).
Print Assumptions C03_inputs_constant.

(* Names bound inside a do-block are never visible afterwards: whatever the block did
   (shadowing, nested assignments, failure), the caller's chain comes back exactly. *)
Theorem C03_do_block_no_leak : forall release bi bu d stmts ret c r c',
  evalD release bi bu d c (EDo stmts ret) = (r, c') -> snd c' = snd c.
Proof. exact evalD_do_no_leak. Qed.
Check C03_do_block_no_leak : forall release bi bu d stmts ret c r c',
  evalD release bi bu d c (EDo stmts ret) = (r, c') -> snd c' = snd c.
Print Assumptions C03_do_block_no_leak.

(* Function parameters / locals never leak either: an expression without a direct assignment
   (assignments inside function bodies and do-blocks are allowed) — in particular any call
   f(a1..an) of such shape — leaves the chain exactly as it was. *)
Theorem C03_calls_do_not_leak : forall release bi bu d e c r c',
  no_assign e = true -> evalD release bi bu d c e = (r, c') -> snd c' = snd c.
Proof. exact evalD_pure_frames. Qed.
Check C03_calls_do_not_leak : forall release bi bu d e c r c',
  no_assign e = true -> evalD release bi bu d c e = (r, c') -> snd c' = snd c.
Print Assumptions C03_calls_do_not_leak.

(* The value observed through a bound name is the bound value (the three spellings the
   evaluator answers before looking at the environment are excluded explicitly). *)
Theorem C03_bound_name_reads_back : forall release bi bu d c x v,
  lookup (snd c) x = Some v ->
  String.eqb x "infinity" = false -> String.eqb x "inf" = false ->
  String.eqb x "constants" = false ->
  evalD release bi bu d c (EId x) = (Ok v, c).
Proof. exact evalD_reads_back. Qed.
Check C03_bound_name_reads_back : forall release bi bu d c x v,
  lookup (snd c) x = Some v ->
  String.eqb x "infinity" = false -> String.eqb x "inf" = false ->
  String.eqb x "constants" = false ->
  evalD release bi bu d c (EId x) = (Ok v, c).
Print Assumptions C03_bound_name_reads_back.

(* Values are trees, so the only thing about an existing value that evaluation could alter is
   the display/self name of a function cell: it is write-once.  (For the transcribed
   operators and built-ins of EvalInst.v.) *)
Theorem C03_function_names_write_once : forall release d prog s,
  store_le (fst (s_cfg s)) (fst (s_cfg (fst (run (evalD release binop_impl builtin_impl d) s prog)))).
Proof.
  intros release d. apply run_store.
  exact (evalD_store_le release binop_impl builtin_impl binop_impl_mono builtin_impl_mono d).
Qed.
Check C03_function_names_write_once : forall release d prog s,
  store_le (fst (s_cfg s)) (fst (s_cfg (fst (run (evalD release binop_impl builtin_impl d) s prog)))).
Print Assumptions C03_function_names_write_once.

(* ... and for the evaluator with every transcribed built-in (EvalFull.v) *)
Theorem C03_function_names_write_once_full : forall release d prog s,
  store_le (fst (s_cfg s)) (fst (s_cfg (fst (run (evalD release binop_impl builtin_full d) s prog)))).
Proof.
  intros release d. apply run_store.
  exact (evalD_store_le release binop_impl builtin_full binop_impl_mono builtin_full_mono d).
Qed.
Check C03_function_names_write_once_full : forall release d prog s,
  store_le (fst (s_cfg s)) (fst (s_cfg (fst (run (evalD release binop_impl builtin_full d) s prog)))).
Print Assumptions C03_function_names_write_once_full.

(* ---- non-vacuity: a session with a failing statement in the middle ---- *)
Definition n (z : Z) : expr := ENum (num_of_Z z).
Definition ex_prog : list stmt :=
  [ SExpr (EAssign "a" (n 1));
    SExpr (EAssign "f" (ELam [AReq "x"] (EBin Add (EId "x") (EId "a"))));
    SExpr (EAssign "a" (n 2));                       (* fails: already defined *)
    SExpr (EAssign "b" (ECall (EId "f") [n 10])) ].
Example ex_session :
  let s := fst (run eval_release (init_session []) [nth 0 ex_prog SComment; nth 1 ex_prog SComment]) in
  lookup (snd (s_cfg s)) "a" = Some (VNum (num_of_Z 1)) /\
  (* the failing statement leaves `a` alone, and the loop stops *)
  lookup (snd (s_cfg (fst (run eval_release s [nth 2 ex_prog SComment; nth 3 ex_prog SComment])))) "a"
    = Some (VNum (num_of_Z 1)) /\
  lookup (snd (s_cfg (fst (run eval_release s [nth 3 ex_prog SComment])))) "b"
    = Some (VNum (num_of_Z 11)).
Proof. vm_compute. repeat split; reflexivity. Qed.

(* ---- ... and for the evaluator with EVERY built-in of the table and `^` (EvalAll.v: libm, Unicode
        tables, clock, lambda text are fields of the oracle record o), for every oracle ---- *)
Require Import Blots.EvalAll Blots.proofs.AllInst.
Theorem C03_function_names_write_once_all : forall o release d prog s,
  store_le (fst (s_cfg s))
           (fst (s_cfg (fst (run (evalD release (binop_all o) (builtin_all o) d) s prog)))).
Proof.
  intros o release d. apply run_store.
  exact (evalD_store_le release (binop_all o) (builtin_all o) (binop_all_mono o) (builtin_all_mono o) d).
Qed.
Check C03_function_names_write_once_all : forall o release d prog s,
  store_le (fst (s_cfg s))
           (fst (s_cfg (fst (run (evalD release (binop_all o) (builtin_all o) d) s prog)))).
Print Assumptions C03_function_names_write_once_all.
