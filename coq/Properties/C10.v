(* C10 — Parsing: fixed precedence table, layout-insensitive, all plain names usable.
   Property theorems only (each closed by [exact lemma], pinned by [Check], followed by
   [Print Assumptions]).  Model: Pratt.v (pest's Pratt parser + pairs_to_expr_inner over a token
   stream), PrattRender.v (spec_table, renderings), gen/PrecTable.v (GENERATED from precedence.rs /
   expressions.rs / pest on every run). *)
From Coq Require Import String List Bool Arith.
Require Import Blots.Num Blots.gen.Builtins Blots.Ast Blots.Outcome Blots.PrattTypes Blots.gen.PrecTable
               Blots.Pratt Blots.PrattRender Blots.proofs.PrattTable.
Import ListNotations.
Local Open Scope nat_scope.

(* The table of the property text, written once by hand (PrattRender.v); pinned here. *)
Example spec_table_is :
  spec_table =
  [ (Infix ALeft,  [R_natural_and; R_natural_or; R_and; R_or; R_via; R_into; R_where_]);
    (Infix ALeft,  [R_equal; R_not_equal; R_less; R_less_eq; R_greater; R_greater_eq;
                    R_dot_equal; R_dot_not_equal; R_dot_less; R_dot_less_eq; R_dot_greater; R_dot_greater_eq]);
    (Infix ALeft,  [R_add; R_subtract]);
    (Infix ALeft,  [R_multiply; R_divide; R_modulo]);
    (Infix ARight, [R_power]);
    (Infix ALeft,  [R_coalesce]);
    (Prefix,       [R_negation; R_invert; R_natural_not; R_spread_operator]);
    (Postfix,      [R_factorial]);
    (Postfix,      [R_call_list; R_access; R_dot_access]) ].
Proof. reflexivity. Qed.

(* P0  Every operator rule has, in the Pratt table that build_pratt_parser constructs from the
   GENERATED rows, the affix, associativity and level of spec_table (level n <-> binding power
   10n+10, pest's PREC_STEP numbering).  Finite: all 34 operator rules. *)
Theorem C10_table_refines_spec :
  forall r, exists a n, spec_level r = Some (a, n) /\ assoc_find r impl_table = Some (a, 10 * n + 10).
Proof. exact table_refines_spec. Qed.
Check C10_table_refines_spec :
  forall r, exists a n, spec_level r = Some (a, n) /\ assoc_find r impl_table = Some (a, 10 * n + 10).
Print Assumptions C10_table_refines_spec.

(* The printer's copy of the levels (operator_info) as reported by the BUILT crate equals the rows
   the translator read from the source text.  Finite: the 26 binary operators. *)
Theorem C10_operator_info_consistent : forallb opinfo_agrees all_binops = true.
Proof. exact operator_info_consistent. Qed.
Check C10_operator_info_consistent : forallb opinfo_agrees all_binops = true.
Print Assumptions C10_operator_info_consistent.
