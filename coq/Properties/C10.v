(* C10 — Parsing: fixed precedence table, layout-insensitive, all plain names usable.
   Property theorems only (each closed by [exact lemma], pinned by [Check], followed by
   [Print Assumptions]).
   Model: Pratt.v (pest 2.8.3 PrattParserMap::{parse,expr,nud,led,lbp} and blots-core
   pairs_to_expr_inner over a token stream = pest Pairs), PrattRender.v (spec_table, renderings),
   gen/PrecTable.v (GENERATED on every run from precedence.rs / expressions.rs / pest).
   What is NOT proved here and is decided by correspondence + search on the real parser
   (checks/c10.py): the character level (pest PEG: blanks, line breaks, comments, trailing commas,
   identifiers) — see notes/C10.md. *)
From Coq Require Import String List Bool Arith ZArith.
Require Import Blots.Num Blots.gen.Builtins Blots.Ast Blots.Outcome Blots.PrattTypes Blots.gen.PrecTable
               Blots.Pratt Blots.PrattRender Blots.proofs.PrattTable Blots.proofs.PrattAdequacy
               Blots.proofs.PrattRT.
Import ListNotations.
Local Open Scope nat_scope.
Local Open Scope string_scope.

(* The table of the property text, written once by hand (PrattRender.v); pinned here. *)
Example spec_table_is :
  spec_table =
  [ (Infix ALeft,  [R_natural_and; R_natural_or; R_and; R_or; R_via; R_into; R_where_]);
    (Infix ALeft,  [R_equal; R_not_equal; R_less; R_less_eq; R_greater; R_greater_eq;
                    R_dot_equal; R_dot_not_equal; R_dot_less; R_dot_less_eq; R_dot_greater; R_dot_greater_eq]);
    (Infix ALeft,  [R_add; R_subtract]);
    (Infix ALeft,  [R_multiply; R_divide; R_modulo]);
    (Infix ARight, [R_power]);
    (Infix ALeft,  [R_coalesce]);
    (Prefix,       [R_negation; R_invert; R_natural_not; R_spread_operator]);
    (Postfix,      [R_factorial]);
    (Postfix,      [R_call_list; R_access; R_dot_access]) ].
Proof. reflexivity. Qed.

(* P0  Every operator rule has, in the Pratt table that build_pratt_parser constructs from the
   GENERATED rows, the affix, associativity and level of spec_table (level n <-> binding power
   10n+10, pest's PREC_STEP numbering).  Finite: all 34 operator rules.  A moved level or a flipped
   associativity in precedence.rs changes gen/PrecTable.v and breaks this proof. *)
Theorem C10_table_refines_spec :
  forall r, exists a n, spec_level r = Some (a, n) /\ assoc_find r impl_table = Some (a, 10 * n + 10).
Proof. exact table_refines_spec. Qed.
Check C10_table_refines_spec :
  forall r, exists a n, spec_level r = Some (a, n) /\ assoc_find r impl_table = Some (a, 10 * n + 10).
Print Assumptions C10_table_refines_spec.

(* The printer's copy of the levels (operator_info) as reported by the BUILT crate equals the rows
   the translator read from the source text.  Finite: the 26 binary operators. *)
Theorem C10_operator_info_consistent : forallb opinfo_agrees all_binops = true.
Proof. exact operator_info_consistent. Qed.
Check C10_operator_info_consistent : forallb opinfo_agrees all_binops = true.
Print Assumptions C10_operator_info_consistent.

(* P0  For every tree the parser can produce (wf), EVERY rendering that carries at least the
   parentheses spec_table requires — any number of redundant layers anywhere (par), either spelling
   of `not` (wn) — is converted back to the tree by the crate's Pratt parser (impl_table built from
   the generated rows, generated map_infix / map_prefix arms), for every large enough fuel (fuel is
   an artefact of the model; Rust has none).  Unbounded: induction over trees. *)
Theorem C10_pratt_roundtrip_all : forall par wn t, wf t = true ->
  exists n, forall m, n <= m -> parse_impl m (spec_render par wn t) = Ok (Some t).
Proof. exact pratt_spec_roundtrip_all. Qed.
Check C10_pratt_roundtrip_all : forall par wn t, wf t = true ->
  exists n, forall m, n <= m -> parse_impl m (spec_render par wn t) = Ok (Some t).
Print Assumptions C10_pratt_roundtrip_all.

(* ... in particular from the minimally and from the fully parenthesised rendering *)
Theorem C10_pratt_spec_roundtrip : forall t, wf t = true ->
  exists n, forall m, n <= m ->
    parse_impl m (flat_min t) = Ok (Some t) /\ parse_impl m (flat_full t) = Ok (Some t).
Proof. exact pratt_spec_roundtrip. Qed.
Check C10_pratt_spec_roundtrip : forall t, wf t = true ->
  exists n, forall m, n <= m ->
    parse_impl m (flat_min t) = Ok (Some t) /\ parse_impl m (flat_full t) = Ok (Some t).
Print Assumptions C10_pratt_spec_roundtrip.

(* ... hence "an expression and its fully parenthesised form under this table parse identically" *)
Theorem C10_min_full_parse_identically : forall t, wf t = true ->
  exists n, forall m, n <= m -> parse_impl m (flat_min t) = parse_impl m (flat_full t).
Proof. exact min_full_parse_identically. Qed.
Check C10_min_full_parse_identically : forall t, wf t = true ->
  exists n, forall m, n <= m -> parse_impl m (flat_min t) = parse_impl m (flat_full t).
Print Assumptions C10_min_full_parse_identically.

(* ... and redundant parentheses / the spelling of `not` never change the parsed program *)
Theorem C10_redundant_parens_irrelevant : forall par1 wn1 par2 wn2 t, wf t = true ->
  exists n, forall m, n <= m ->
    parse_impl m (spec_render par1 wn1 t) = parse_impl m (spec_render par2 wn2 t).
Proof. exact renderings_parse_identically. Qed.
Check C10_redundant_parens_irrelevant : forall par1 wn1 par2 wn2 t, wf t = true ->
  exists n, forall m, n <= m ->
    parse_impl m (spec_render par1 wn1 t) = parse_impl m (spec_render par2 wn2 t).
Print Assumptions C10_redundant_parens_irrelevant.

(* The relational transcription is sound for the function (so the theorems above are about the
   executable model that the correspondence runs). *)
Theorem C10_relations_sound : forall tbl imap pmap its t,
  Items tbl imap pmap its t -> exists n, forall m, n <= m -> parse_items tbl imap pmap m its = Ok (Some t).
Proof. exact items_sound. Qed.
Check C10_relations_sound : forall tbl imap pmap its t,
  Items tbl imap pmap its t -> exists n, forall m, n <= m -> parse_items tbl imap pmap m its = Ok (Some t).
Print Assumptions C10_relations_sound.

(* P0  and/&&, or/||, not/!: the two spellings have the same Pratt entry (affix, associativity,
   level) and are mapped by map_infix / map_prefix to constructors of one evaluator class
   (And|NaturalAnd, Or|NaturalOr, Not|Invert).  Finite: all pairs of the 34 operator rules. *)
Theorem C10_word_symbol_same : forall r1 r2, same_spelling r1 r2 = true ->
  opt_entry_eqb (assoc_find r1 impl_table) (assoc_find r2 impl_table) = true /\
  token_sem_eqb (token_sem_of r1) (token_sem_of r2) = true.
Proof. exact word_symbol_same. Qed.
Check C10_word_symbol_same : forall r1 r2, same_spelling r1 r2 = true ->
  opt_entry_eqb (assoc_find r1 impl_table) (assoc_find r2 impl_table) = true /\
  token_sem_eqb (token_sem_of r1) (token_sem_of r2) = true.
Print Assumptions C10_word_symbol_same.

(* ---- the hypotheses are satisfiable: a tree using every operator kind and nested form ---- *)
Definition sample_tree : expr :=
  EBin NaturalOr
    (EBin Less (EBin Add (EId "a") (EBin Power (EUn Negate (EId "b")) (EBin Power (EFact (EId "c")) (EId "d"))))
               (EBin Coalesce (ECall (EBuiltin B_sum) [EList [Cm [] (ENum (num_of_Z 1%Z)) None;
                                                               Cm [] (ESpread (EId "xs")) None]]) (EId "z")))
    (EUn Not (EDot (EAccess (ERec [Cm [] (REntry (KStatic "k") (ELam [AReq "x"] (EBin Via (EId "x") (EId "f")))) None;
                                   Cm [] (REntry (KShort "q") ENull) None]) (EStr "k")) "fld")).
Example sample_tree_wf : wf sample_tree = true.
Proof. vm_compute. reflexivity. Qed.
Example sample_tree_min : items_text (flat_min sample_tree) =
  "a + -b ^ c! ^ d < sum([1, ...xs]) ?? z or !{""k"": (x) => x via f, q}[""k""].fld".
Proof. vm_compute. reflexivity. Qed.
Example sample_tree_parses :
  pratt_impl (flat_min sample_tree) = Ok (Some sample_tree) /\
  pratt_impl (flat_full sample_tree) = Ok (Some sample_tree).
Proof. vm_compute. split; reflexivity. Qed.

(* The same with the concrete fuel the correspondence uses (pratt: 4 * token count + 4) — no
   "large enough": the model's fuel never runs out on a rendering (explicit bound 3 * size + 2,
   proofs/PrattFuel.v). *)
Theorem C10_pratt_roundtrip_ample_fuel : forall par wn t, wf t = true ->
  pratt_impl (spec_render par wn t) = Ok (Some t).
Proof. exact pratt_spec_roundtrip_ample. Qed.
Check C10_pratt_roundtrip_ample_fuel : forall par wn t, wf t = true ->
  pratt_impl (spec_render par wn t) = Ok (Some t).
Print Assumptions C10_pratt_roundtrip_ample_fuel.

(* ---------------------------------------------------------------------------------------------
   Names.  Model: C10Ident.v — the grammar rules identifier / identifier_rest / reserved_word /
   bool / null as PEG matchers and the ordered choice among bool / null / identifier in `term`;
   the reserved-word list, the presence of the word-boundary look-ahead on bool / null and the
   order of the alternatives are GENERATED from grammar.pest (gen/IdentRules.v). *)
Require Import Blots.C10Ident Blots.gen.IdentRules Blots.C10IdentImpl Blots.proofs.C10IdentProofs.

(* P1  Every name made of letters, digits and underscores (not starting with a digit) other than the
   reserved words, followed by the end of input or a character that cannot continue a name, is
   read whole as `identifier` by the ordered choice of `term`.  Symbolic in the name: unbounded.
   (Until /repo commit 52e01fd this was refuted for names extending true / false / null — known
   finding C10-bool-null-prefix, now fixed: `bool` / `null` carry the look-ahead `~ !identifier_rest`,
   which the translator reads as bool_boundary = null_boundary = true.  A regression flips the
   generated flags and breaks this proof; proofs/C10IdentProofs.v keeps the conditional lemma
   ident_rule_full_refuted : bool_boundary = false -> ~ ident_rule_full with the witness `trueish + 1`.) *)
Theorem C10_ident_rule : forall s rest,
  valid_name s = true -> is_reserved reserved_words s = false -> boundary rest = true ->
  term_word_impl (s ++ rest) = Some (AIdent, rest).
Proof. exact (ident_rule_full_when_guarded eq_refl eq_refl). Qed.
Check C10_ident_rule : forall s rest,
  valid_name s = true -> is_reserved reserved_words s = false -> boundary rest = true ->
  term_word_impl (s ++ rest) = Some (AIdent, rest).
Print Assumptions C10_ident_rule.

Example ident_rule_hyps : valid_name "trueish" = true /\ is_reserved reserved_words "trueish" = false /\
                          boundary " + 1" = true.
Proof. vm_compute. repeat split. Qed.
Example ident_rule_trueish : term_word_impl "trueish + 1" = Some (AIdent, " + 1").
Proof. vm_compute. reflexivity. Qed.
(* the reserved words themselves are not names *)
Example reserved_not_names :
  forallb (fun w => match term_word_impl w with Some (AIdent, _) => false | _ => true end) reserved_words = true.
Proof. vm_compute. reflexivity. Qed.

(* ---------------------------------------------------------------------------------------------
   More consequences at the token level. *)
Require Import Blots.PrattStrip Blots.proofs.PrattStripProofs.

(* Comments never change the parsed program: for every fuel and EVERY token stream (not only
   renderings), removing all comment pairs and comment annotations — comment lines inside lists,
   records and do-blocks, end-of-line comments of items and statements, at any depth — leaves the
   outcome of pairs_to_expr unchanged (Ok tree / Err / panic).  Induction on fuel. *)
Theorem C10_comments_irrelevant : forall fuel its,
  parse_impl fuel (strip_items its) = parse_impl fuel its.
Proof. exact (comments_irrelevant impl_table infix_map prefix_map). Qed.
Check C10_comments_irrelevant : forall fuel its,
  parse_impl fuel (strip_items its) = parse_impl fuel its.
Print Assumptions C10_comments_irrelevant.

(* The specification table is unambiguous: no token stream is a rendering of two different trees. *)
Theorem C10_renderings_unambiguous : forall par1 wn1 par2 wn2 t1 t2,
  wf t1 = true -> wf t2 = true ->
  spec_render par1 wn1 t1 = spec_render par2 wn2 t2 -> t1 = t2.
Proof. exact renderings_unambiguous. Qed.
Check C10_renderings_unambiguous : forall par1 wn1 par2 wn2 t1 t2,
  wf t1 = true -> wf t2 = true ->
  spec_render par1 wn1 t1 = spec_render par2 wn2 t2 -> t1 = t2.
Print Assumptions C10_renderings_unambiguous.

(* Every tree the crate's parser builds, from any token stream, satisfies wf: the round-trip
   theorems cover all outputs of the parser, and re-parsing the minimal / full rendering of an
   output under spec_table gives the output back. *)
Theorem C10_outputs_wf : forall its t, Items impl_table infix_map prefix_map its t -> wf t = true.
Proof. exact impl_outputs_wf. Qed.
Check C10_outputs_wf : forall its t, Items impl_table infix_map prefix_map its t -> wf t = true.
Print Assumptions C10_outputs_wf.

Theorem C10_reparse_of_output : forall its t, Items impl_table infix_map prefix_map its t ->
  pratt_impl (flat_min t) = Ok (Some t) /\ pratt_impl (flat_full t) = Ok (Some t).
Proof. exact reparse_of_output. Qed.
Check C10_reparse_of_output : forall its t, Items impl_table infix_map prefix_map its t ->
  pratt_impl (flat_min t) = Ok (Some t) /\ pratt_impl (flat_full t) = Ok (Some t).
Print Assumptions C10_reparse_of_output.

Example strip_example :
  strip_items [IList [LCom "// c"; LItem [IIdent "a"] (Some "// e"); LCom "// d"; LItem [IIdent "b"] None]]
  = [IList [LItem [IIdent "a"] None; LItem [IIdent "b"] None]].
Proof. reflexivity. Qed.

(* ---------------------------------------------------------------------------------------------
   Symbol operators written without blanks.  Model: C10Ident.v after_operand_lex — after a term the
   greedy `postfix_op*` (factorial | access | call_list | dot_access, GENERATED order and form of
   `factorial`) and then the symbol alternative of `infix_usage` with the GENERATED ordered choice
   `infix_op` and the literal of each operator rule. *)

(* P0  Every symbol operator, written directly after an operand (also after a factorial or a field
   access) and directly before the next operand, is read as itself: no shorter alternative of the
   ordered choice wins (`<=` vs `<`, `.<=` vs `.<`, ...) and no postfix operator takes its first
   character; likewise with blanks.  Finite: the 21 alternatives of infix_op.
   (Until /repo commit 8d3b092 this was refuted for `!=` — known finding C10-bang-equals, now fixed:
   `factorial = { "!" ~ !("=" ~ !"=") }`, read as factorial_guard = 2.  proofs/C10IdentProofs.v keeps
   tight_ops_full_refuted : factorial_guard = 0 -> ~ tight_ops_full with the witness `!=b`.) *)
Theorem C10_tight_operators :
  forallb (fun rw => after_is (after_operand_impl (snd rw ++ "b")) 0 0 (fst rw) "b") infix_ops = true
  /\
  forallb (fun rw => after_is (after_operand_impl ("!" ++ snd rw ++ "b")) 1 0 (fst rw) "b" &&
                     after_is (after_operand_impl (".f" ++ snd rw ++ "b")) 0 1 (fst rw) "b") infix_ops = true
  /\
  forallb (fun rw => after_is (after_operand_impl (" " ++ snd rw ++ " b")) 0 0 (fst rw) "b" &&
                     after_is (after_operand_impl (" " ++ snd rw ++ "b")) 0 0 (fst rw) "b") infix_ops = true.
Proof. vm_compute. repeat split. Qed.
Check C10_tight_operators :
  forallb (fun rw => after_is (after_operand_impl (snd rw ++ "b")) 0 0 (fst rw) "b") infix_ops = true
  /\
  forallb (fun rw => after_is (after_operand_impl ("!" ++ snd rw ++ "b")) 1 0 (fst rw) "b" &&
                     after_is (after_operand_impl (".f" ++ snd rw ++ "b")) 0 1 (fst rw) "b") infix_ops = true
  /\
  forallb (fun rw => after_is (after_operand_impl (" " ++ snd rw ++ " b")) 0 0 (fst rw) "b" &&
                     after_is (after_operand_impl (" " ++ snd rw ++ "b")) 0 0 (fst rw) "b") infix_ops = true.
Print Assumptions C10_tight_operators.

(* all 21 symbol operators of the precedence table are alternatives of infix_op *)
Example infix_ops_cover_table :
  forallb (fun r => match assoc_find r infix_ops with Some _ => true | None => false end)
          [R_add; R_subtract; R_multiply; R_divide; R_modulo; R_power; R_equal; R_not_equal; R_less; R_less_eq;
           R_greater; R_greater_eq; R_dot_equal; R_dot_not_equal; R_dot_less; R_dot_less_eq; R_dot_greater;
           R_dot_greater_eq; R_and; R_or; R_coalesce] = true.
Proof. exact infix_ops_complete. Qed.

(* ---------------------------------------------------------------------------------------------
   Soundness of the parser with respect to the table, for EVERY token stream (the converse of the
   round trip). *)
Require Import Blots.proofs.PrattComplete Blots.proofs.PrattConverse Blots.proofs.PrattIff.

(* The relations derive everything the function returns (with C10_relations_sound: the two
   transcriptions agree on successful conversions). *)
Theorem C10_relations_complete : forall tbl imap pmap fuel its t,
  parse_items tbl imap pmap fuel its = Ok (Some t) -> Items tbl imap pmap its t.
Proof. exact rel_complete. Qed.
Check C10_relations_complete : forall tbl imap pmap fuel its t,
  parse_items tbl imap pmap fuel its = Ok (Some t) -> Items tbl imap pmap its t.
Print Assumptions C10_relations_complete.

(* P0  Whatever token stream `its` the crate's parser converts successfully, with whatever result t:
   `its` is a rendering of t that carries at least the parentheses spec_table requires.
   RendSpec m its t (proofs/PrattConverse.v, relation Rend; m = 1: any operand): `its` is
     - a single non-operator pair whose own conversion gives t (a literal, a name, a parenthesised
       group, a list, ... — nested streams are converted by the same parser), or
     - il ++ op :: ir with op an infix token of constructor o, m <= level(o), il rendering the left
       operand at the level o requires on its left (level(o), or level(o)+1 for the right-associative
       ^) and ir the right operand likewise, or
     - a prefix token followed by a rendering of its operand at the prefix level, m <= prefix level, or
     - a rendering of the operand at a level above the prefix level, followed by a postfix token.
   So no input is ever grouped against the table.  Induction on the parse derivation. *)
Theorem C10_parse_sound : forall fuel its t,
  parse_impl fuel its = Ok (Some t) -> RendSpec 1 its t.
Proof. intros fuel its t H. apply parse_sound_impl. exact (rel_complete _ _ _ fuel its t H). Qed.
Check C10_parse_sound : forall fuel its t,
  parse_impl fuel its = Ok (Some t) -> RendSpec 1 its t.
Print Assumptions C10_parse_sound.

(* P0  ... and conversely every such rendering is converted to the tree it renders: the parser accepts
   EXACTLY the renderings that carry at least the parentheses spec_table requires, and returns the
   rendered tree (a complete characterisation of the token level). *)
Theorem C10_parse_iff : forall its t,
  (exists n, forall m, n <= m -> parse_impl m its = Ok (Some t)) <-> RendSpec 1 its t.
Proof.
  intros its t. split.
  - intros [n Hn]. exact (C10_parse_sound n its t (Hn n (le_n n))).
  - intro H. apply items_sound. apply rend_parses_impl. exact H.
Qed.
Check C10_parse_iff : forall its t,
  (exists n, forall m, n <= m -> parse_impl m its = Ok (Some t)) <-> RendSpec 1 its t.
Print Assumptions C10_parse_iff.

(* ... and every result of the function satisfies wf *)
Theorem C10_function_outputs_wf : forall fuel its t, parse_impl fuel its = Ok (Some t) -> wf t = true.
Proof. intros fuel its t H. apply (impl_outputs_wf its). exact (rel_complete _ _ _ fuel its t H). Qed.
Check C10_function_outputs_wf : forall fuel its t, parse_impl fuel its = Ok (Some t) -> wf t = true.
Print Assumptions C10_function_outputs_wf.

(* an instance: a + b * c renders Add a (Multiply b c) *)
Example rend_example :
  RendSpec 1 [IIdent "a"; IOp R_add; IIdent "b"; IOp R_multiply; IIdent "c"]
           (EBin Add (EId "a") (EBin Multiply (EId "b") (EId "c"))).
Proof. apply (C10_parse_sound 20). vm_compute. reflexivity. Qed.

(* ======================================================================================================
   THE GRAMMAR LAYER.  coq/Peg.v is an executable transcription of pest 2.8.3 (parser_state.rs, stack.rs,
   position.rs, and how pest_generator compiles rules); coq/gen/Grammar.v is grammar.pest after pest_meta's
   optimizer, REGENERATED on every run by translate/pest2coq.py; the PEG-tree / PEG-malformed streams of
   checks/c10.py compare the model's pair tree with `get_pairs` on every generated program text and on
   mutated texts.  The theorems below are (a) facts about the interpreter for EVERY grammar, (b) the name
   rules of the regenerated grammar = the specification functions of C10Ident.v, (c) implicit whitespace.
   Imports are kept inside a module: Peg.v and Grammar.v reuse short names (Ok, Seq, ...). *)
Require Blots.Peg Blots.PegWf Blots.gen.Grammar Blots.proofs.PegGeneric Blots.proofs.PegPure Blots.proofs.PegIdent
        Blots.proofs.PegShift Blots.proofs.PegLayout Blots.proofs.PegBlots Blots.proofs.PegNumber Blots.proofs.PegString.
Require Blots.PegTerm Blots.proofs.PegFuel Blots.proofs.PegFuelBlots.
Module PegLayer.
Import Blots.Peg Blots.PegWf Blots.gen.Grammar Blots.proofs.PegGeneric Blots.proofs.PegPure Blots.proofs.PegIdent.
Import Blots.proofs.PegShift Blots.proofs.PegLayout Blots.proofs.PegBlots Blots.proofs.PegString.
Import Blots.C10Ident Blots.gen.IdentRules.

(* (a1) more fuel never changes a result other than OutOfFuel — every grammar, every rule, every text.
   (Determinism needs no theorem: [parse] is a function.) *)
Theorem C10_peg_fuel_monotone : forall (R : Type) (g : grammar R) f f' r text,
  f <= f' -> parse g f r text <> OutOfFuel -> parse g f' r text = parse g f r text.
Proof. exact parse_fuel_mono. Qed.
Check C10_peg_fuel_monotone : forall (R : Type) (g : grammar R) f f' r text,
  f <= f' -> parse g f r text <> OutOfFuel -> parse g f' r text = parse g f r text.
Print Assumptions C10_peg_fuel_monotone.

(* (a2) a failing expression leaves position, remaining input and the produced pairs untouched — what
   pest's `optional`, `repeat` and `or_else`, which do not restore anything, rely on. *)
Theorem C10_peg_failure_restores : forall (R : Type) (g : grammar R) f m a la e s s',
  run g f m a la e s = Fail s' -> pos s' = pos s /\ rest s' = rest s /\ out s' = out s.
Proof. exact run_fail_unchanged. Qed.
Check C10_peg_failure_restores : forall (R : Type) (g : grammar R) f m a la e s s',
  run g f m a la e s = Fail s' -> pos s' = pos s /\ rest s' = rest s /\ out s' = out s.
Print Assumptions C10_peg_failure_restores.

(* (a3) every success consumes a prefix of the remaining input, and the pairs it adds are ordered,
   nested (children inside parents) and inside the consumed span. *)
Theorem C10_peg_success_consumes_prefix : forall (R : Type) (g : grammar R) f m a la e s s',
  run g f m a la e s = Ok s' ->
  (pos s <= pos s')%N /\ (pos s' + slen (rest s') = pos s + slen (rest s))%N /\
  (exists k, rest s' = sdrop k (rest s)) /\
  exists new, out s' = (new ++ out s)%list /\ forest_ok R (pos s) (pos s') (rev new).
Proof. exact run_spans. Qed.
Check C10_peg_success_consumes_prefix : forall (R : Type) (g : grammar R) f m a la e s s',
  run g f m a la e s = Ok s' ->
  (pos s <= pos s')%N /\ (pos s' + slen (rest s') = pos s + slen (rest s))%N /\
  (exists k, rest s' = sdrop k (rest s)) /\
  exists new, out s' = (new ++ out s)%list /\ forest_ok R (pos s) (pos s') (rev new).
Print Assumptions C10_peg_success_consumes_prefix.

(* (a4) the parser's share of C01 "locations lie inside the text": every pair of every successful parse, of
   any grammar from any rule, has 0 <= start <= end <= length of the text in bytes, siblings ordered. *)
Theorem C10_peg_pairs_inside_text : forall (R : Type) (g : grammar R) f r text s',
  parse g f r text = Ok s' -> forest_ok R 0 (slen text) (rev (out s')) /\ (pos s' <= slen text)%N.
Proof. exact parse_spans_inside_text. Qed.
Check C10_peg_pairs_inside_text : forall (R : Type) (g : grammar R) f r text s',
  parse g f r text = Ok s' -> forest_ok R 0 (slen text) (rev (out s')) /\ (pos s' <= slen text)%N.
Print Assumptions C10_peg_pairs_inside_text.

(* (b1) the rule `identifier` of the regenerated grammar accepts exactly what C10Ident.identifier (the
   specification the name theorems are about) accepts, with the same remainder, in every calling context,
   with fuel = a constant + the number of bytes left. *)
Theorem C10_peg_identifier_rule : exists n, forall fuel a la s,
  n + String.length (rest s) <= fuel ->
  call_with blots_grammar (run blots_grammar fuel) a la PG_identifier s
  = rule_wrap PG_identifier a la (fun s' => pure_out grule s' (identifier reserved_words (rest s'))) s.
Proof. exact peg_identifier_call. Qed.
Check C10_peg_identifier_rule : exists n, forall fuel a la s,
  n + String.length (rest s) <= fuel ->
  call_with blots_grammar (run blots_grammar fuel) a la PG_identifier s
  = rule_wrap PG_identifier a la (fun s' => pure_out grule s' (identifier reserved_words (rest s'))) s.
Print Assumptions C10_peg_identifier_rule.

Theorem C10_peg_identifier_language : exists n, forall text fuel,
  n + String.length text <= fuel ->
  parse blots_grammar fuel PG_identifier text =
  match identifier reserved_words text with
  | Some r => Ok (mkst (slen text - slen r) r stack_new [Node PG_identifier 0 (slen text - slen r) []])
  | None => Fail (init text)
  end.
Proof. exact peg_identifier_language. Qed.
Check C10_peg_identifier_language : exists n, forall text fuel,
  n + String.length text <= fuel ->
  parse blots_grammar fuel PG_identifier text =
  match identifier reserved_words text with
  | Some r => Ok (mkst (slen text - slen r) r stack_new [Node PG_identifier 0 (slen text - slen r) []])
  | None => Fail (init text)
  end.
Print Assumptions C10_peg_identifier_language.

(* (b2) bool, null, identifier_rest, reserved_word of the regenerated grammar = bool_rule / null_rule /
   identifier_rest / first_lit of C10Ident.v with the flags of gen/IdentRules.v (two independent translators
   of grammar.pest meet here), wherever no implicit whitespace is skipped (inside `expression`). *)
Theorem C10_peg_word_rules : forall a, a <> NonAtomic -> exists n, forall fuel la s,
  n + String.length (rest s) <= fuel ->
  run blots_grammar fuel false a la (rd_body (grule_def PG_bool)) s = pure_out grule s (bool_rule bool_boundary (rest s)) /\
  run blots_grammar fuel false a la (rd_body (grule_def PG_null)) s = pure_out grule s (null_rule null_boundary (rest s)) /\
  run blots_grammar fuel false a la (Ident PG_identifier_rest) s = pure_out grule s (identifier_rest (rest s)) /\
  run blots_grammar fuel false a la (Ident PG_reserved_word) s = pure_out grule s (first_lit reserved_words (rest s)).
Proof. exact peg_word_rules. Qed.
Check C10_peg_word_rules : forall a, a <> NonAtomic -> exists n, forall fuel la s,
  n + String.length (rest s) <= fuel ->
  run blots_grammar fuel false a la (rd_body (grule_def PG_bool)) s = pure_out grule s (bool_rule bool_boundary (rest s)) /\
  run blots_grammar fuel false a la (rd_body (grule_def PG_null)) s = pure_out grule s (null_rule null_boundary (rest s)) /\
  run blots_grammar fuel false a la (Ident PG_identifier_rest) s = pure_out grule s (identifier_rest (rest s)) /\
  run blots_grammar fuel false a la (Ident PG_reserved_word) s = pure_out grule s (first_lit reserved_words (rest s)).
Print Assumptions C10_peg_word_rules.

(* (b3) C10_ident_rule over the grammar text: a plain name that is not a reserved word, followed by
   something that cannot continue a name, is rejected by `bool` and by `null` and read whole by
   `identifier` (so reserved words are the only plain names the rule refuses: see the Examples). *)
Theorem C10_peg_plain_name_is_identifier : forall a, a <> NonAtomic -> exists n, forall name after fuel la s,
  valid_name name = true -> is_reserved reserved_words name = false -> boundary after = true ->
  rest s = (name ++ after)%string -> n + String.length (rest s) <= fuel ->
  run blots_grammar fuel false a la (rd_body (grule_def PG_bool)) s = Fail s /\
  run blots_grammar fuel false a la (rd_body (grule_def PG_null)) s = Fail s /\
  call_with blots_grammar (run blots_grammar fuel) a la PG_identifier s
  = rule_wrap PG_identifier a la (fun s' => Ok (set_pos s' (pos s' + slen name) after)) s.
Proof. exact peg_plain_name_is_identifier. Qed.
Check C10_peg_plain_name_is_identifier : forall a, a <> NonAtomic -> exists n, forall name after fuel la s,
  valid_name name = true -> is_reserved reserved_words name = false -> boundary after = true ->
  rest s = (name ++ after)%string -> n + String.length (rest s) <= fuel ->
  run blots_grammar fuel false a la (rd_body (grule_def PG_bool)) s = Fail s /\
  run blots_grammar fuel false a la (rd_body (grule_def PG_null)) s = Fail s /\
  call_with blots_grammar (run blots_grammar fuel) a la PG_identifier s
  = rule_wrap PG_identifier a la (fun s' => Ok (set_pos s' (pos s' + slen name) after)) s.
Print Assumptions C10_peg_plain_name_is_identifier.

(* every reserved word is rejected by the rule `identifier` when a boundary follows; `iffy` is a name *)
Example peg_reserved_words_rejected :
  forallb (fun w => match parse blots_grammar 200 PG_identifier (w ++ " + 1") with Fail _ => true | _ => false end)
          reserved_words = true.
Proof. vm_compute. reflexivity. Qed.
Example peg_iffy_is_a_name :
  show_res grule_name (parse blots_grammar 200 PG_identifier "iffy") = "OK (identifier 0 4)"%string.
Proof. vm_compute. reflexivity. Qed.

(* (b5) the string literal, through pest's stack (PUSH / PEEK / POP): where the text starts with a quote character
   q the rule `string` scans character by character to the first q — there are NO escape sequences — and
   succeeds iff that q exists: the pair `string` spans both quotes, its only inner pair `string_value` the text
   between; the stack is left as found, ALSO on failure (POP pops before it compares).  Another first character:
   failure.  [scan] stops only at q or at the end of the text (second theorem). *)
Theorem C10_peg_string_rule : forall fuel a q r (s : st grule),
  rest s = String q r -> stack_ok (stk s) -> 12 + String.length (rest s) <= fuel ->
  call_with blots_grammar (run blots_grammar fuel) a false PG_string s
  = if is_quote q then string_result s q r else Fail s.
Proof. exact peg_string_rule. Qed.
Check C10_peg_string_rule : forall fuel a q r (s : st grule),
  rest s = String q r -> stack_ok (stk s) -> 12 + String.length (rest s) <= fuel ->
  call_with blots_grammar (run blots_grammar fuel) a false PG_string s
  = if is_quote q then string_result s q r else Fail s.
Print Assumptions C10_peg_string_rule.

Theorem C10_peg_string_scan_stops : forall q t, scan q t = EmptyString \/ exists r', scan q t = String q r'.
Proof. exact scan_stops. Qed.
Check C10_peg_string_scan_stops : forall q t, scan q t = EmptyString \/ exists r', scan q t = String q r'.
Print Assumptions C10_peg_string_scan_stops.

Example peg_string_no_escapes :
  show_res grule_name (parse blots_grammar 300 PG_input ("x = 'it\'s'")%string) = "ERR"%string
  /\ show_res grule_name (parse blots_grammar 300 PG_string ("'a" ++ String (Ascii.ascii_of_nat 34) "b' + 1")%string)
     = "OK (string 0 5 (string_value 1 4))"%string.
Proof. vm_compute. split; reflexivity. Qed.

(* (c1) POSITION INDEPENDENCE, every grammar: away from the very start of the input (where SOI holds), moving
   the byte offset by d with the same remaining input and stack gives the same result with the final offset and
   the spans of all produced pairs moved by d — "the same tree up to spans". *)
Theorem C10_peg_position_independent : forall (R : Type) (g : grammar R) (d : N) f m a la e o o' s s',
  rel R d o o' s s' -> (0 < pos s)%N -> rel_res R d o o' (run g f m a la e s) (run g f m a la e s').
Proof. exact run_shift. Qed.
Check C10_peg_position_independent : forall (R : Type) (g : grammar R) (d : N) f m a la e o o' s s',
  rel R d o o' s s' -> (0 < pos s)%N -> rel_res R d o o' (run g f m a la e s) (run g f m a la e s').
Print Assumptions C10_peg_position_independent.

(* (c2) for EVERY grammar whose WHITESPACE is a silent ordered choice of single characters and that has no
   COMMENT rule: `skip` over (blanks ++ t) at offset p ends in the state of `skip` over t at offset p + |blanks|. *)
Theorem C10_peg_skip_absorbs_blanks : forall (R : Type) (g : grammar R) (w : R) c0 cs,
  g_ws g = Some w -> g_comment g = None -> g_def g w = mkdef MSilent true (char_choice c0 cs) ->
  forall f n la p b t k o,
  S (List.length cs) + String.length (b ++ t) <= f -> String.length (b ++ t) < n ->
  all_in (is_ws c0 cs) b = true ->
  skip_with g n (call_with g (run g f)) NonAtomic la (mkst p (b ++ t)%string k o)
  = skip_with g n (call_with g (run g f)) NonAtomic la (mkst (p + slen b)%N t k o).
Proof. exact skip_absorbs. Qed.
Check C10_peg_skip_absorbs_blanks : forall (R : Type) (g : grammar R) (w : R) c0 cs,
  g_ws g = Some w -> g_comment g = None -> g_def g w = mkdef MSilent true (char_choice c0 cs) ->
  forall f n la p b t k o,
  S (List.length cs) + String.length (b ++ t) <= f -> String.length (b ++ t) < n ->
  all_in (is_ws c0 cs) b = true ->
  skip_with g n (call_with g (run g f)) NonAtomic la (mkst p (b ++ t)%string k o)
  = skip_with g n (call_with g (run g f)) NonAtomic la (mkst (p + slen b)%N t k o).
Print Assumptions C10_peg_skip_absorbs_blanks.

(* (c3) LAYOUT for a non-atomic sequence x ~ y of such a grammar: additional blanks b between the two tokens
   (right after what x consumed — where skip runs) change nothing but positions: if x ends at the same offset
   with the same stack and pairs on the text with b inserted, then x ~ y gives on that text the result it gave
   before with x's pairs unchanged and everything after the junction moved by |b|; failure, Panic and OutOfFuel
   are preserved.  (0 < offset: not before the first byte of the input, where SOI is observable.) *)
Theorem C10_peg_blanks_between_tokens : forall (R : Type) (g : grammar R) (w : R) c0 cs,
  g_ws g = Some w -> g_comment g = None -> g_def g w = mkdef MSilent true (char_choice c0 cs) ->
  forall f la x y (s sb s1 : st R) b,
  run g f false NonAtomic la x s = Ok s1 ->
  run g f false NonAtomic la x sb = Ok (mkst (pos s1) (b ++ rest s1)%string (stk s1) (out s1)) ->
  all_in (is_ws c0 cs) b = true -> (0 < pos s1)%N ->
  S (List.length cs) + String.length (b ++ rest s1) < f ->
  layout_equiv R (slen b) (out s1) s sb
               (run g (S f) false NonAtomic la (Seq x y) s) (run g (S f) false NonAtomic la (Seq x y) sb).
Proof. exact seq_layout. Qed.
Check C10_peg_blanks_between_tokens : forall (R : Type) (g : grammar R) (w : R) c0 cs,
  g_ws g = Some w -> g_comment g = None -> g_def g w = mkdef MSilent true (char_choice c0 cs) ->
  forall f la x y (s sb s1 : st R) b,
  run g f false NonAtomic la x s = Ok s1 ->
  run g f false NonAtomic la x sb = Ok (mkst (pos s1) (b ++ rest s1)%string (stk s1) (out s1)) ->
  all_in (is_ws c0 cs) b = true -> (0 < pos s1)%N ->
  S (List.length cs) + String.length (b ++ rest s1) < f ->
  layout_equiv R (slen b) (out s1) s sb
               (run g (S f) false NonAtomic la (Seq x y) s) (run g (S f) false NonAtomic la (Seq x y) sb).
Print Assumptions C10_peg_blanks_between_tokens.

(* ... and the regenerated grammar IS such a grammar (blank = " " | "\t"): the instance for gen/Grammar.v;
   a changed WHITESPACE rule in grammar.pest breaks this proof. *)
Theorem C10_peg_blots_blanks_between_tokens : forall f la x y (s sb s1 : st grule) b,
  run blots_grammar f false NonAtomic la x s = Ok s1 ->
  run blots_grammar f false NonAtomic la x sb = Ok (mkst (pos s1) (b ++ rest s1)%string (stk s1) (out s1)) ->
  all_in blank b = true -> (0 < pos s1)%N ->
  2 + String.length (b ++ rest s1) < f ->
  layout_equiv grule (slen b) (out s1) s sb
               (run blots_grammar (S f) false NonAtomic la (Seq x y) s)
               (run blots_grammar (S f) false NonAtomic la (Seq x y) sb).
Proof. exact blots_seq_layout. Qed.
Check C10_peg_blots_blanks_between_tokens : forall f la x y (s sb s1 : st grule) b,
  run blots_grammar f false NonAtomic la x s = Ok s1 ->
  run blots_grammar f false NonAtomic la x sb = Ok (mkst (pos s1) (b ++ rest s1)%string (stk s1) (out s1)) ->
  all_in blank b = true -> (0 < pos s1)%N ->
  2 + String.length (b ++ rest s1) < f ->
  layout_equiv grule (slen b) (out s1) s sb
               (run blots_grammar (S f) false NonAtomic la (Seq x y) s)
               (run blots_grammar (S f) false NonAtomic la (Seq x y) sb).
Print Assumptions C10_peg_blots_blanks_between_tokens.

(* (b4) C16's number token: the rule `number` of the regenerated grammar, run by the pest interpreter, accepts
   exactly the language of gen/NumGrammar.v (the PEG-combinator term Properties/C16.v is about, regenerated
   from grammar.pest by checks/c16.py — a third independent reading of the same source text), with the same
   remainder, in every calling context. *)
Theorem C10_peg_number_rule : exists n, forall fuel a la s,
  n + String.length (rest s) <= fuel ->
  call_with blots_grammar (run blots_grammar fuel) a la PG_number s
  = rule_wrap PG_number a la (fun s' => pure_out grule s' (Blots.gen.NumGrammar.gen_number (rest s'))) s.
Proof. exact Blots.proofs.PegNumber.peg_number_call. Qed.
Check C10_peg_number_rule : exists n, forall fuel a la s,
  n + String.length (rest s) <= fuel ->
  call_with blots_grammar (run blots_grammar fuel) a la PG_number s
  = rule_wrap PG_number a la (fun s' => pure_out grule s' (Blots.gen.NumGrammar.gen_number (rest s'))) s.
Print Assumptions C10_peg_number_rule.

Theorem C10_peg_number_language : exists n, forall text fuel,
  n + String.length text <= fuel ->
  parse blots_grammar fuel PG_number text =
  match Blots.gen.NumGrammar.gen_number text with
  | Some r => Ok (mkst (slen text - slen r) r stack_new [Node PG_number 0 (slen text - slen r) []])
  | None => Fail (init text)
  end.
Proof. exact Blots.proofs.PegNumber.peg_number_language. Qed.
Check C10_peg_number_language : exists n, forall text fuel,
  n + String.length text <= fuel ->
  parse blots_grammar fuel PG_number text =
  match Blots.gen.NumGrammar.gen_number text with
  | Some r => Ok (mkst (slen text - slen r) r stack_new [Node PG_number 0 (slen text - slen r) []])
  | None => Fail (init text)
  end.
Print Assumptions C10_peg_number_language.

(* (c4) the hypothesis of (c3) discharged for a literal token: "lit" ~ y with additional blanks after the
   literal — unconditional. *)
Theorem C10_peg_blanks_after_literal : forall (R : Type) (g : grammar R) (w : R) c0 cs,
  g_ws g = Some w -> g_comment g = None -> g_def g w = mkdef MSilent true (char_choice c0 cs) ->
  forall f la lit y p t b k o,
  all_in (is_ws c0 cs) b = true -> (0 < p + slen lit)%N ->
  S (List.length cs) + String.length (b ++ t) < f ->
  layout_equiv R (slen b) o (mkst p (lit ++ t)%string k o) (mkst p (lit ++ b ++ t)%string k o)
               (run g (S f) false NonAtomic la (Seq (Str lit) y) (mkst p (lit ++ t)%string k o))
               (run g (S f) false NonAtomic la (Seq (Str lit) y) (mkst p (lit ++ b ++ t)%string k o)).
Proof. exact seq_layout_literal. Qed.
Check C10_peg_blanks_after_literal : forall (R : Type) (g : grammar R) (w : R) c0 cs,
  g_ws g = Some w -> g_comment g = None -> g_def g w = mkdef MSilent true (char_choice c0 cs) ->
  forall f la lit y p t b k o,
  all_in (is_ws c0 cs) b = true -> (0 < p + slen lit)%N ->
  S (List.length cs) + String.length (b ++ t) < f ->
  layout_equiv R (slen b) o (mkst p (lit ++ t)%string k o) (mkst p (lit ++ b ++ t)%string k o)
               (run g (S f) false NonAtomic la (Seq (Str lit) y) (mkst p (lit ++ t)%string k o))
               (run g (S f) false NonAtomic la (Seq (Str lit) y) (mkst p (lit ++ b ++ t)%string k o)).
Print Assumptions C10_peg_blanks_after_literal.

(* (d) termination.  The regenerated grammar passes the computed well-formedness check (no left recursion, no
   nullable repetition body, WHITESPACE not nullable); the fuel-sufficiency statement is kept as a Prop — NOT
   proved; the PEG-* correspondence streams count OutOfFuel (0) with fuel 128 + 48 * bytes. *)
Example peg_grammar_well_formed : wf_grammar blots_grammar all_grules grule_index = true.
Proof. exact blots_grammar_wf. Qed.
Definition fuel_sufficient_full : Prop :=
  forall (R : Type) (g : grammar R) (rules : list R) (idx : R -> N),
    (forall r, In r rules) -> (forall r r', idx r = idx r' -> r = r') ->
    wf_grammar g rules idx = true ->
    exists c, forall r text, parse g (c * (String.length text + 1) * List.length rules) r text <> OutOfFuel.

(* (d') termination PROVED (proofs/PegFuel.v, PegFuelBlots.v) from a computed TERMINATION CERTIFICATE
   (coq/PegTerm.v) instead of [wf_grammar]: [term_cert g rules idx nl C dz] checks that the nullable set [nl] is
   closed under the rules, no repetition body and no WHITESPACE / COMMENT rule is nullable, C >= 1, and that the
   per-rule depth budgets [dz] dominate the left depth [dl] of every rule body (a rule call costs its callee's
   budget + 1; whatever can only run after a consumed byte is discounted by C).  Such budgets cannot exist for a
   left-recursive grammar, so the certificate implies what [wf_grammar] checks; what is NOT proved is the
   converse direction needed for [fuel_sufficient_full] (that the depth-first search of [wf_grammar] finding no
   cycle implies that budgets exist) — [fuel_sufficient_full] stays a Prop. *)
Import Blots.PegTerm Blots.proofs.PegFuel Blots.proofs.PegFuelBlots.

(* every grammar, every certificate: the interpreter never runs out of a fuel of |text| * C + dz r *)
Theorem C10_peg_fuel_sufficient : forall (R : Type) (g : grammar R) (rules : list R) (idx : R -> N)
    (nl : list R) (C : nat) (dz : R -> nat),
  (forall r, In r rules) -> term_cert g rules idx nl C dz = true ->
  forall fuel r text, String.length text * C + dz r <= fuel -> parse g fuel r text <> OutOfFuel.
Proof. exact parse_total. Qed.
Check C10_peg_fuel_sufficient : forall (R : Type) (g : grammar R) (rules : list R) (idx : R -> N)
    (nl : list R) (C : nat) (dz : R -> nat),
  (forall r, In r rules) -> term_cert g rules idx nl C dz = true ->
  forall fuel r text, String.length text * C + dz r <= fuel -> parse g fuel r text <> OutOfFuel.
Print Assumptions C10_peg_fuel_sufficient.

(* the same for [run] on an arbitrary expression in an arbitrary state (L bytes left: L * C + dl e levels) *)
Theorem C10_peg_run_fuel_sufficient : forall (R : Type) (g : grammar R) (rules : list R) (idx : R -> N)
    (nl : list R) (C : nat) (dz : R -> nat),
  (forall r, In r rules) -> term_cert g rules idx nl C dz = true ->
  forall fuel m a la e (s : st R),
    String.length (rest s) * C + dl g idx nl C dz e <= fuel -> reps_progress R idx nl e = true ->
    run g fuel m a la e s <> OutOfFuel.
Proof. exact run_total. Qed.
Check C10_peg_run_fuel_sufficient : forall (R : Type) (g : grammar R) (rules : list R) (idx : R -> N)
    (nl : list R) (C : nat) (dz : R -> nat),
  (forall r, In r rules) -> term_cert g rules idx nl C dz = true ->
  forall fuel m a la e (s : st R),
    String.length (rest s) * C + dl g idx nl C dz e <= fuel -> reps_progress R idx nl e = true ->
    run g fuel m a la e s <> OutOfFuel.
Print Assumptions C10_peg_run_fuel_sufficient.

(* soundness of the nullable analysis w.r.t. the interpreter: what it calls non-nullable consumes on success *)
Theorem C10_peg_nonnullable_consumes : forall (R : Type) (g : grammar R) (rules : list R) (idx : R -> N)
    (nl : list R) (C : nat) (dz : R -> nat),
  (forall r, In r rules) -> term_cert g rules idx nl C dz = true ->
  forall f m a la e (s s' : st R),
    run g f m a la e s = Ok s' -> nullable R idx nl e = false ->
    String.length (rest s') < String.length (rest s).
Proof. exact run_progress. Qed.
Check C10_peg_nonnullable_consumes : forall (R : Type) (g : grammar R) (rules : list R) (idx : R -> N)
    (nl : list R) (C : nat) (dz : R -> nat),
  (forall r, In r rules) -> term_cert g rules idx nl C dz = true ->
  forall f m a la e (s s' : st R),
    run g f m a la e s = Ok s' -> nullable R idx nl e = false ->
    String.length (rest s') < String.length (rest s).
Print Assumptions C10_peg_nonnullable_consumes.

(* the regenerated grammar has a certificate with C = 48 whose budgets are all <= 128 (recomputed and re-checked
   by vm_compute on every build) ... *)
Example peg_grammar_certified :
  term_cert blots_grammar all_grules grule_index blots_nl 48 blots_dz = true
  /\ forallb (fun r => Nat.leb (blots_dz r) 128) all_grules = true.
Proof. split; [exact blots_term_cert|exact blots_dz_le_128]. Qed.
(* ... and the check does refuse left recursion, a nullable repetition body, and a C below the cycle depth *)
Example cert_rejects_left_recursion : forall C d,
  term_cert (mkgrammar (fun _ : unit => mkdef MNormal false (Seq (Ident tt) (Str "x"))) None None) [tt] (fun _ => 0%N)
            [] C (fun _ => d) = false.
Proof. exact cert_refuses_left_recursion. Qed.
Example cert_rejects_nullable_repetition : forall nl C dz,
  term_cert (mkgrammar (fun _ : unit => mkdef MNormal false (Rep (Opt (Str "x")))) None None) [tt] (fun _ => 0%N)
            nl C dz = false.
Proof. exact cert_refuses_nullable_repetition. Qed.

(* C10_peg_total: on gen/Grammar.v, with the fuel [peg_fuel text] = 128 + 48 * bytes that the model
   (PegToItems.parse_text, TextRun.run_text) and every PEG correspondence stream use, the parser model NEVER
   returns OutOfFuel — for EVERY text and every start rule: acceptance is a total function of the text. *)
Theorem C10_peg_total : forall r text, parse blots_grammar (peg_fuel text) r text <> OutOfFuel.
Proof. exact blots_peg_total. Qed.
Check C10_peg_total : forall r text, parse blots_grammar (peg_fuel text) r text <> OutOfFuel.
Print Assumptions C10_peg_total.

(* ... and the result does not depend on the fuel above that bound *)
Theorem C10_peg_fuel_independent : forall fuel r text,
  peg_fuel text <= fuel -> parse blots_grammar fuel r text = parse blots_grammar (peg_fuel text) r text.
Proof. exact blots_parse_fuel_independent. Qed.
Check C10_peg_fuel_independent : forall fuel r text,
  peg_fuel text <= fuel -> parse blots_grammar fuel r text = parse blots_grammar (peg_fuel text) r text.
Print Assumptions C10_peg_fuel_independent.
End PegLayer.

(* text -> pairs (Peg.v on gen/Grammar.v) -> items (PegToItems.v) -> AST (Pratt.v): ONE executable model of
   `parse` + `pairs_to_expr`; the PARSE-text stream compares it with the real parser on every generated and
   mutated program text.  An evaluated instance (blanks, a comment, two statements): *)
Require Blots.PegToItems.
Example peg_text_to_ast :
  Blots.PegToItems.parse_text ("a  +  b*c  // note" ++ String (Ascii.ascii_of_nat 10) "output y = [1, 2]")
  = "E (EBin Add (EId (hx ""61"")) (EBin Multiply (EId (hx ""62"")) (EId (hx ""63"")))) ;; O (EAssign (hx ""79"") (EList [(Cm [] (ENum (nb 0x3ff0000000000000)) None); (Cm [] (ENum (nb 0x4000000000000000)) None)]))".
Proof. vm_compute. reflexivity. Qed.
