(* C17 — Unit conversion is consistent across the whole unit table.
   Property theorems only: each is closed by [exact lemma], pinned by [Check], and followed by
   [Print Assumptions].  Model: coq/Units.v (resolve_unit / convert / convert_to_base /
   convert_from_base / temperature functions transcribed from blots-core/src/units.rs) over the
   table coq/gen/UnitsTable.v, which is REGENERATED from the built crate on every run
   (`harness dump-units`); "finite" theorems below are exhaustive vm_compute checks whose bound is
   that table, re-checked whenever it changes.  The model is tied to the code by the
   UNITS / RESOLVE / LOWER correspondence streams of checks/c17.py. *)
From Coq Require Import ZArith QArith String List Bool.
Require Import Blots.Num Blots.UnitsBase Blots.gen.UnitsTable Blots.Units Blots.proofs.UnitsLaws.
Import ListNotations.
Open Scope Z_scope.

(* ---- every identifier listed for a unit resolves to that unit ------------------------------
   Exclusion [dup_listed i = false] = known-finding class C17-dup-ident (an identifier listed for
   two units: today "c" for celsius and coulombs).  Finite: all identifiers of the table. *)
Theorem C17_every_identifier_resolves : forall u i,
  In u all_units -> In i (u_ids u) -> dup_listed i = false -> resolve_unit i = UOk u.
Proof. exact every_identifier_resolves. Qed.
Check C17_every_identifier_resolves : forall u i,
  In u all_units -> In i (u_ids u) -> dup_listed i = false -> resolve_unit i = UOk u.
Print Assumptions C17_every_identifier_resolves.

(* ... and the excluded class is exactly an ambiguity error, never a guess (any table) *)
Theorem C17_dup_ident_is_error : forall u i,
  In u all_units -> In i (u_ids u) -> dup_listed i = true -> resolve_unit i = UErr EAmbigExact.
Proof. exact dup_ident_is_error. Qed.
Check C17_dup_ident_is_error : forall u i,
  In u all_units -> In i (u_ids u) -> dup_listed i = true -> resolve_unit i = UErr EAmbigExact.
Print Assumptions C17_dup_ident_is_error.

(* ---- case-insensitively when unambiguous: any spelling s (unbounded) of a listed identifier i
   whose lower-casing is listed for one unit only resolves to that unit *)
Theorem C17_case_insensitive_when_unambiguous : forall u i s,
  In u all_units -> In i (u_ids u) -> to_lowercase s = to_lowercase i ->
  case_count (to_lowercase i) = 1%nat -> resolve_unit s = UOk u.
Proof. exact case_insensitive_when_unambiguous. Qed.
Check C17_case_insensitive_when_unambiguous : forall u i s,
  In u all_units -> In i (u_ids u) -> to_lowercase s = to_lowercase i ->
  case_count (to_lowercase i) = 1%nat -> resolve_unit s = UOk u.
Print Assumptions C17_case_insensitive_when_unambiguous.
Example C17_case_insensitive_example : resolve_unit "KiLoMeTrEs" = resolve_unit "km".
Proof. vm_compute. reflexivity. Qed.

(* ---- what an answer of resolve_unit means, for every table and every identifier *)
Theorem C17_resolve_never_guesses : forall units s l,
  let ex := filter (fun u => matches_exact u s) units in
  let cs := filter (fun u => matches_case u l) units in
  match resolve_in units s l with
  | UOk u => ex = [u] \/ (ex = [] /\ cs = [u])
  | UErr EUnknown => ex = [] /\ cs = []
  | UErr EAmbigExact => (2 <= List.length ex)%nat
  | UErr EAmbigCase => ex = [] /\ (2 <= List.length cs)%nat
  | UErr _ => False
  end.
Proof. exact resolve_spec. Qed.
Check C17_resolve_never_guesses : forall units s l,
  let ex := filter (fun u => matches_exact u s) units in
  let cs := filter (fun u => matches_case u l) units in
  match resolve_in units s l with
  | UOk u => ex = [u] \/ (ex = [] /\ cs = [u])
  | UErr EUnknown => ex = [] /\ cs = []
  | UErr EAmbigExact => (2 <= List.length ex)%nat
  | UErr EAmbigCase => ex = [] /\ (2 <= List.length cs)%nat
  | UErr _ => False
  end.
Print Assumptions C17_resolve_never_guesses.

Theorem C17_unknown_is_error : forall s,
  (forall u, In u all_units -> ~ In (to_lowercase s) (u_lower u)) -> resolve_unit s = UErr EUnknown.
Proof. exact unknown_is_error. Qed.
Check C17_unknown_is_error : forall s,
  (forall u, In u all_units -> ~ In (to_lowercase s) (u_lower u)) -> resolve_unit s = UErr EUnknown.
Print Assumptions C17_unknown_is_error.

(* ---- all identifiers of a unit behave identically (any arithmetic instance A: binary64 or Q) *)
Theorem C17_aliases_same_unit : forall A u i j (v : T A) x,
  In u all_units -> In i (u_ids u) -> In j (u_ids u) -> dup_listed i = false -> dup_listed j = false ->
  resolve_unit i = resolve_unit j /\
  convert A v i x = convert A v j x /\ convert A v x i = convert A v x j.
Proof. exact aliases_same_unit. Qed.
Check C17_aliases_same_unit : forall A u i j (v : T A) x,
  In u all_units -> In i (u_ids u) -> In j (u_ids u) -> dup_listed i = false -> dup_listed j = false ->
  resolve_unit i = resolve_unit j /\
  convert A v i x = convert A v j x /\ convert A v x i = convert A v x j.
Print Assumptions C17_aliases_same_unit.

Theorem C17_aliases_behave_identically : forall A a a' u,
  resolve_unit a = UOk u -> resolve_unit a' = UOk u ->
  forall v x, convert A v a x = convert A v a' x /\ convert A v x a = convert A v x a'.
Proof. exact aliases_behave_identically. Qed.
Check C17_aliases_behave_identically : forall A a a' u,
  resolve_unit a = UOk u -> resolve_unit a' = UOk u ->
  forall v x, convert A v a x = convert A v a' x /\ convert A v x a = convert A v x a'.
Print Assumptions C17_aliases_behave_identically.

(* ---- units of different categories never convert; unresolved identifiers are errors *)
Theorem C17_different_categories_never_convert : forall A v a b ua ub,
  resolve_unit a = UOk ua -> resolve_unit b = UOk ub -> u_cat ua <> u_cat ub ->
  convert A v a b = UErr ECategory.
Proof. exact different_categories_never_convert. Qed.
Check C17_different_categories_never_convert : forall A v a b ua ub,
  resolve_unit a = UOk ua -> resolve_unit b = UOk ub -> u_cat ua <> u_cat ub ->
  convert A v a b = UErr ECategory.
Print Assumptions C17_different_categories_never_convert.

Theorem C17_same_category_converts : forall A v a b ua ub,
  resolve_unit a = UOk ua -> resolve_unit b = UOk ub -> u_cat ua = u_cat ub ->
  convert A v a b = UOk (convert_from_base A ub (convert_to_base A ua v)).
Proof. exact same_category_converts. Qed.
Check C17_same_category_converts : forall A v a b ua ub,
  resolve_unit a = UOk ua -> resolve_unit b = UOk ub -> u_cat ua = u_cat ub ->
  convert A v a b = UOk (convert_from_base A ub (convert_to_base A ua v)).
Print Assumptions C17_same_category_converts.

Theorem C17_unresolved_is_error : forall A v a b e,
  (resolve_unit a = UErr e \/ (exists ua, resolve_unit a = UOk ua) /\ resolve_unit b = UErr e) ->
  convert A v a b = UErr e.
Proof. exact unresolved_is_error. Qed.
Check C17_unresolved_is_error : forall A v a b e,
  (resolve_unit a = UErr e \/ (exists ua, resolve_unit a = UOk ua) /\ resolve_unit b = UErr e) ->
  convert A v a b = UErr e.
Print Assumptions C17_unresolved_is_error.

Theorem C17_builtin_is_convert : forall v a b,
  builtin_convert (ANum v) (AStr a) (AStr b) = convert fl v a b.
Proof. exact builtin_is_convert. Qed.
Check C17_builtin_is_convert : forall v a b,
  builtin_convert (ANum v) (AStr a) (AStr b) = convert fl v a b.
Print Assumptions C17_builtin_is_convert.

(* ---- binary64: converting a unit to itself.  The statement of the property,
        forall v a u, resolve_unit a = UOk u -> convert fl v a a = UOk v,
   is REFUTED by the code as it is (v * c / c, no short-circuit; known-finding class
   C17-self-float); it holds for the repaired convert of fixes/C17-self-conversion-identity.diff *)
Definition C17_self_identity_float_full : Prop :=
  forall v a b u, resolve_unit a = UOk u -> resolve_unit b = UOk u -> convert fl v a b = UOk v.
Lemma C17_self_identity_float_refuted :
  exists u v, literal_ok (match u_conv u with Linear c => c | _ => lit_5 end) = true /\
              convert_units fl v u u <> UOk v.
Proof. exact self_identity_float_refuted. Qed.

Theorem C17_self_identity_fixed : forall A v a b u,
  resolve_unit a = UOk u -> resolve_unit b = UOk u -> convert_fixed A v a b = UOk v.
Proof. exact self_identity_fixed. Qed.
Check C17_self_identity_fixed : forall A v a b u,
  resolve_unit a = UOk u -> resolve_unit b = UOk u -> convert_fixed A v a b = UOk v.
Print Assumptions C17_self_identity_fixed.

Theorem C17_fixed_agrees_elsewhere : forall A v a b ua ub,
  resolve_unit a = UOk ua -> resolve_unit b = UOk ub -> u_ids ua <> u_ids ub ->
  convert_fixed A v a b = convert A v a b.
Proof. exact fixed_agrees_elsewhere. Qed.
Check C17_fixed_agrees_elsewhere : forall A v a b ua ub,
  resolve_unit a = UOk ua -> resolve_unit b = UOk ub -> u_ids ua <> u_ids ub ->
  convert_fixed A v a b = convert A v a b.
Print Assumptions C17_fixed_agrees_elsewhere.
