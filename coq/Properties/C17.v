(* C17 — Unit conversion is consistent across the whole unit table.
   Property theorems only: each is closed by [exact lemma], pinned by [Check], and followed by
   [Print Assumptions].  Model: coq/Units.v (resolve_unit / convert / convert_to_base /
   convert_from_base / temperature functions transcribed from blots-core/src/units.rs) over the
   table coq/gen/UnitsTable.v, which is REGENERATED from the built crate on every run
   (`harness dump-units`); "finite" theorems below are exhaustive vm_compute checks whose bound is
   that table, re-checked whenever it changes.  The model is tied to the code by the
   UNITS / RESOLVE / LOWER correspondence streams of checks/c17.py. *)
From Coq Require Import ZArith QArith String List Bool Reals.
From Flocq Require Import Core BinarySingleNaN.
Require Import Blots.Num Blots.UnitsBase Blots.gen.UnitsTable Blots.Units Blots.proofs.UnitsLaws Blots.proofs.UnitsFloat Blots.proofs.UnitsFloat2.
Import ListNotations.
Open Scope Z_scope.

(* ---- every identifier listed for a unit resolves to that unit --------------------------------
   Finite: all identifiers of the table.  (Until fix 478f22e "the coulomb symbol is C" this needed the
   exclusion of the identifier "c", listed for celsius and coulombs: finding F27, now fixed.) *)
Theorem C17_every_identifier_resolves : forall u i,
  In u all_units -> In i (u_ids u) -> resolve_unit i = UOk u.
Proof. exact every_identifier_resolves. Qed.
Check C17_every_identifier_resolves : forall u i,
  In u all_units -> In i (u_ids u) -> resolve_unit i = UOk u.
Print Assumptions C17_every_identifier_resolves.

(* no identifier is listed for two units *)
Theorem C17_no_duplicate_identifiers : forall u i,
  In u all_units -> In i (u_ids u) -> dup_listed i = false.
Proof. exact no_duplicate_identifiers. Qed.
Check C17_no_duplicate_identifiers : forall u i,
  In u all_units -> In i (u_ids u) -> dup_listed i = false.
Print Assumptions C17_no_duplicate_identifiers.

(* ... and if one ever is, it is an ambiguity error, never a guess (holds for any table) *)
Theorem C17_dup_ident_is_error : forall u i,
  In u all_units -> In i (u_ids u) -> dup_listed i = true -> resolve_unit i = UErr EAmbigExact.
Proof. exact dup_ident_is_error. Qed.
Check C17_dup_ident_is_error : forall u i,
  In u all_units -> In i (u_ids u) -> dup_listed i = true -> resolve_unit i = UErr EAmbigExact.
Print Assumptions C17_dup_ident_is_error.

(* two units of the table with the same identifier list are the same unit: the self-conversion
   short-circuit (from.identifiers == to.identifiers) fires exactly for a unit and itself *)
Theorem C17_same_ids_same_unit : forall u x,
  In u all_units -> In x all_units -> u_ids u = u_ids x -> u = x.
Proof. exact same_ids_same_unit. Qed.
Check C17_same_ids_same_unit : forall u x,
  In u all_units -> In x all_units -> u_ids u = u_ids x -> u = x.
Print Assumptions C17_same_ids_same_unit.

(* ---- case-insensitively when unambiguous: any spelling s (unbounded) of a listed identifier i
   whose lower-casing is listed for one unit only resolves to that unit *)
Theorem C17_case_insensitive_when_unambiguous : forall u i s,
  In u all_units -> In i (u_ids u) -> to_lowercase s = to_lowercase i ->
  case_count (to_lowercase i) = 1%nat -> resolve_unit s = UOk u.
Proof. exact case_insensitive_when_unambiguous. Qed.
Check C17_case_insensitive_when_unambiguous : forall u i s,
  In u all_units -> In i (u_ids u) -> to_lowercase s = to_lowercase i ->
  case_count (to_lowercase i) = 1%nat -> resolve_unit s = UOk u.
Print Assumptions C17_case_insensitive_when_unambiguous.
Example C17_case_insensitive_example : resolve_unit "KiLoMeTrEs" = resolve_unit "km".
Proof. vm_compute. reflexivity. Qed.

(* ---- what an answer of resolve_unit means, for every table and every identifier *)
Theorem C17_resolve_never_guesses : forall units s l,
  let ex := filter (fun u => matches_exact u s) units in
  let cs := filter (fun u => matches_case u l) units in
  match resolve_in units s l with
  | UOk u => ex = [u] \/ (ex = [] /\ cs = [u])
  | UErr EUnknown => ex = [] /\ cs = []
  | UErr EAmbigExact => (2 <= List.length ex)%nat
  | UErr EAmbigCase => ex = [] /\ (2 <= List.length cs)%nat
  | UErr _ => False
  end.
Proof. exact resolve_spec. Qed.
Check C17_resolve_never_guesses : forall units s l,
  let ex := filter (fun u => matches_exact u s) units in
  let cs := filter (fun u => matches_case u l) units in
  match resolve_in units s l with
  | UOk u => ex = [u] \/ (ex = [] /\ cs = [u])
  | UErr EUnknown => ex = [] /\ cs = []
  | UErr EAmbigExact => (2 <= List.length ex)%nat
  | UErr EAmbigCase => ex = [] /\ (2 <= List.length cs)%nat
  | UErr _ => False
  end.
Print Assumptions C17_resolve_never_guesses.

Theorem C17_unknown_is_error : forall s,
  (forall u, In u all_units -> ~ In (to_lowercase s) (u_lower u)) -> resolve_unit s = UErr EUnknown.
Proof. exact unknown_is_error. Qed.
Check C17_unknown_is_error : forall s,
  (forall u, In u all_units -> ~ In (to_lowercase s) (u_lower u)) -> resolve_unit s = UErr EUnknown.
Print Assumptions C17_unknown_is_error.

(* ---- all identifiers of a unit behave identically (any arithmetic instance A: binary64 or Q) *)
Theorem C17_aliases_same_unit : forall A u i j (v : T A) x,
  In u all_units -> In i (u_ids u) -> In j (u_ids u) ->
  resolve_unit i = resolve_unit j /\
  convert A v i x = convert A v j x /\ convert A v x i = convert A v x j.
Proof. exact aliases_same_unit. Qed.
Check C17_aliases_same_unit : forall A u i j (v : T A) x,
  In u all_units -> In i (u_ids u) -> In j (u_ids u) ->
  resolve_unit i = resolve_unit j /\
  convert A v i x = convert A v j x /\ convert A v x i = convert A v x j.
Print Assumptions C17_aliases_same_unit.

Theorem C17_aliases_behave_identically : forall A a a' u,
  resolve_unit a = UOk u -> resolve_unit a' = UOk u ->
  forall v x, convert A v a x = convert A v a' x /\ convert A v x a = convert A v x a'.
Proof. exact aliases_behave_identically. Qed.
Check C17_aliases_behave_identically : forall A a a' u,
  resolve_unit a = UOk u -> resolve_unit a' = UOk u ->
  forall v x, convert A v a x = convert A v a' x /\ convert A v x a = convert A v x a'.
Print Assumptions C17_aliases_behave_identically.

(* ---- units of different categories never convert; unresolved identifiers are errors *)
Theorem C17_different_categories_never_convert : forall A v a b ua ub,
  resolve_unit a = UOk ua -> resolve_unit b = UOk ub -> u_cat ua <> u_cat ub ->
  convert A v a b = UErr ECategory.
Proof. exact different_categories_never_convert. Qed.
Check C17_different_categories_never_convert : forall A v a b ua ub,
  resolve_unit a = UOk ua -> resolve_unit b = UOk ub -> u_cat ua <> u_cat ub ->
  convert A v a b = UErr ECategory.
Print Assumptions C17_different_categories_never_convert.

Theorem C17_same_category_converts : forall A v a b ua ub,
  resolve_unit a = UOk ua -> resolve_unit b = UOk ub -> u_cat ua = u_cat ub ->
  convert A v a b = UOk (if same_ids ua ub then v else through_base A v ua ub).
Proof. exact same_category_converts. Qed.
Check C17_same_category_converts : forall A v a b ua ub,
  resolve_unit a = UOk ua -> resolve_unit b = UOk ub -> u_cat ua = u_cat ub ->
  convert A v a b = UOk (if same_ids ua ub then v else through_base A v ua ub).
Print Assumptions C17_same_category_converts.

Theorem C17_unresolved_is_error : forall A v a b e,
  (resolve_unit a = UErr e \/ (exists ua, resolve_unit a = UOk ua) /\ resolve_unit b = UErr e) ->
  convert A v a b = UErr e.
Proof. exact unresolved_is_error. Qed.
Check C17_unresolved_is_error : forall A v a b e,
  (resolve_unit a = UErr e \/ (exists ua, resolve_unit a = UOk ua) /\ resolve_unit b = UErr e) ->
  convert A v a b = UErr e.
Print Assumptions C17_unresolved_is_error.

Theorem C17_builtin_is_convert : forall v a b,
  builtin_convert (ANum v) (AStr a) (AStr b) = convert fl v a b.
Proof. exact builtin_is_convert. Qed.
Check C17_builtin_is_convert : forall v a b,
  builtin_convert (ANum v) (AStr a) (AStr b) = convert fl v a b.
Print Assumptions C17_builtin_is_convert.

(* ---- converting a unit to itself is the identity: in every arithmetic instance, in particular in
   binary64 bit for bit ([A := fl]) and exactly over Q ([A := qa]); a and b are any two identifiers
   of the unit.  (Refuted before fix e6d26e9: the code computed v * c / c; finding F28.) *)
Theorem C17_self_identity : forall A v a b u,
  resolve_unit a = UOk u -> resolve_unit b = UOk u -> convert A v a b = UOk v.
Proof. exact self_identity. Qed.
Check C17_self_identity : forall A v a b u,
  resolve_unit a = UOk u -> resolve_unit b = UOk u -> convert A v a b = UOk v.
Print Assumptions C17_self_identity.

(* why the short-circuit is needed: through the base unit, binary64 does not give the identity *)
Lemma C17_through_base_not_identity :
  exists u v, literal_ok (match u_conv u with Linear c => c | _ => lit_5 end) = true /\
              through_base fl v u u <> v.
Proof. exact through_base_not_identity. Qed.

(* ---- the regenerated table is well formed (finite: every unit of the table) ------------------
   every coefficient is positive, non-zero, and its dumped decimal rounds (rn_decimal) to its dumped
   bits; the two function pointers of every temperature unit are an inverse pair *)
Theorem C17_table_wellformed : forall u, In u all_units -> unit_wf u = true.
Proof. exact table_wellformed. Qed.
Check C17_table_wellformed : forall u, In u all_units -> unit_wf u = true.
Print Assumptions C17_table_wellformed.

(* the five transcribed temperature functions reproduce, bit for bit, what the function pointers of
   the built crate returned on the probe points (ties the translator's identification to the code) *)
Theorem C17_temperature_functions_identified : temp_probes_ok = true.
Proof. exact temp_probes_ok_true. Qed.
Check C17_temperature_functions_identified : temp_probes_ok = true.
Print Assumptions C17_temperature_functions_identified.

(* ---- prefix ratios (finite: every prefixed/base pair of identifiers found in the table) -------
   whenever an identifier reads [dim]prefix+rest and [dim]rest is an identifier of another unit, the
   two units are linear units of one category (so they convert) and their coefficients are in the
   ratio of the prefix: metric over the decimals as typed; binary (kibi..yobi) over the exact values
   of the f64s *)
Theorem C17_prefix_ratio_metric : forall u b k,
  In (u, b, k) (prefix_hits metric_prefixes) ->
  same_linear_category u b = true /\ (coef_dec u == coef_dec b * Qpow10 k)%Q.
Proof. exact prefix_ratio_metric. Qed.
Check C17_prefix_ratio_metric : forall u b k,
  In (u, b, k) (prefix_hits metric_prefixes) ->
  same_linear_category u b = true /\ (coef_dec u == coef_dec b * Qpow10 k)%Q.
Print Assumptions C17_prefix_ratio_metric.

Theorem C17_prefix_ratio_binary : forall u b k,
  In (u, b, k) (prefix_hits binary_prefixes) ->
  same_linear_category u b = true /\ (coef_exact u == coef_exact b * Qpow2 k)%Q.
Proof. exact prefix_ratio_binary. Qed.
Check C17_prefix_ratio_binary : forall u b k,
  In (u, b, k) (prefix_hits binary_prefixes) ->
  same_linear_category u b = true /\ (coef_exact u == coef_exact b * Qpow2 k)%Q.
Print Assumptions C17_prefix_ratio_binary.
Example C17_prefix_hits_nonempty : prefix_hits metric_prefixes <> [] /\ prefix_hits binary_prefixes <> [].
Proof. split; intros H; apply (f_equal (@List.length _)) in H; vm_compute in H; discriminate. Qed.

(* ---- the algebraic laws, exact over Q (with a point at infinity for the reciprocal kind),
   unbounded over the value v, for every identifier pair / triple that resolves; [qa] is the exact
   instance of the very code ([convert]) that the UNITS stream runs in binary64 *)
Theorem C17_there_and_back_Q : forall a b ua ub v,
  resolve_unit a = UOk ua -> resolve_unit b = UOk ub -> u_cat ua = u_cat ub ->
  exists r1 r2, convert qa v a b = UOk r1 /\ convert qa r1 b a = UOk r2 /\ qx_eq r2 v.
Proof. exact there_and_back_Q. Qed.
Check C17_there_and_back_Q : forall a b ua ub v,
  resolve_unit a = UOk ua -> resolve_unit b = UOk ub -> u_cat ua = u_cat ub ->
  exists r1 r2, convert qa v a b = UOk r1 /\ convert qa r1 b a = UOk r2 /\ qx_eq r2 v.
Print Assumptions C17_there_and_back_Q.

Theorem C17_composition_Q : forall a b c ua ub uc v,
  resolve_unit a = UOk ua -> resolve_unit b = UOk ub -> resolve_unit c = UOk uc ->
  u_cat ua = u_cat ub -> u_cat ub = u_cat uc ->
  exists r1 r2 r3, convert qa v a b = UOk r1 /\ convert qa r1 b c = UOk r2 /\
                   convert qa v a c = UOk r3 /\ qx_eq r2 r3.
Proof. exact composition_Q. Qed.
Check C17_composition_Q : forall a b c ua ub uc v,
  resolve_unit a = UOk ua -> resolve_unit b = UOk ub -> resolve_unit c = UOk uc ->
  u_cat ua = u_cat ub -> u_cat ub = u_cat uc ->
  exists r1 r2 r3, convert qa v a b = UOk r1 /\ convert qa r1 b c = UOk r2 /\
                   convert qa v a c = UOk r3 /\ qx_eq r2 r3.
Print Assumptions C17_composition_Q.

(* the hypotheses of the laws are satisfiable: the first unit of the table and another unit of its
   category are both reached through their first identifiers *)
Example C17_law_hypotheses_satisfiable :
  match all_units with
  | u :: rest =>
      existsb (fun x => if String.eqb (u_cat u) (u_cat x)
                        then resolves_to (hd EmptyString (u_ids u)) u && resolves_to (hd EmptyString (u_ids x)) x
                        else false) rest
  | [] => false
  end = true.
Proof. vm_cast_no_check (eq_refl true). Qed.

(* the batched evaluator printed by the UNITS correspondence stream is [convert],
   magnitude by magnitude (so the stream validates exactly the functions the theorems are about) *)
Theorem C17_convert_many_spec : forall A vs a b,
  convert_many A vs a b = map (fun v => convert A v a b) vs.
Proof. exact convert_many_spec. Qed.
Check C17_convert_many_spec : forall A vs a b,
  convert_many A vs a b = map (fun v => convert A v a b) vs.
Print Assumptions C17_convert_many_spec.

(* ---- binary64: "there and back returns the original value within floating-point rounding" ----
   for the linear kind: four roundings, each of relative error at most u53 = 2^-53, provided no
   intermediate result leaves the normal range [2^-1022, 2^1023] (true for every table coefficient and
   |v| in [1e-12, 1e12] by a wide margin; the side conditions are stated on the computed values).
   Uses Flocq, hence the four standard real-number/classical axioms (allow-listed). *)
Theorem C17_table_coefficients_finite : forall u c,
  In u all_units -> coef_of u = Some c -> fin (num_of_bits (l_bits c)).
Proof. exact table_coefficients_finite. Qed.
Check C17_table_coefficients_finite : forall u c,
  In u all_units -> coef_of u = Some c -> fin (num_of_bits (l_bits c)).
Print Assumptions C17_table_coefficients_finite.

Theorem C17_there_and_back_float_linear : forall ua ub la lb v,
  u_conv ua = Linear la -> u_conv ub = Linear lb ->
  let ca := num_of_bits (l_bits la) in
  let cb := num_of_bits (l_bits lb) in
  fin v -> fin ca -> fin cb ->
  let r1 := nmul v ca in
  let r2 := through_base fl v ua ub in
  let r3 := nmul r2 cb in
  let r4 := through_base fl r2 ub ua in
  in_range (Rv v * Rv ca) -> in_range (Rv r1 / Rv cb) ->
  in_range (Rv r2 * Rv cb) -> in_range (Rv r3 / Rv ca) ->
  exists e1 e2 e3 e4,
    (Rabs e1 <= u53 /\ Rabs e2 <= u53 /\ Rabs e3 <= u53 /\ Rabs e4 <= u53 /\
    Rv r4 = Rv v * ((1 + e1) * (1 + e2) * (1 + e3) * (1 + e4)) /\
    Rabs (Rv r4 - Rv v) <= ((1 + u53) * (1 + u53) * (1 + u53) * (1 + u53) - 1) * Rabs (Rv v))%R.
Proof. exact there_and_back_float_linear. Qed.
Check C17_there_and_back_float_linear : forall ua ub la lb v,
  u_conv ua = Linear la -> u_conv ub = Linear lb ->
  let ca := num_of_bits (l_bits la) in
  let cb := num_of_bits (l_bits lb) in
  fin v -> fin ca -> fin cb ->
  let r1 := nmul v ca in
  let r2 := through_base fl v ua ub in
  let r3 := nmul r2 cb in
  let r4 := through_base fl r2 ub ua in
  in_range (Rv v * Rv ca) -> in_range (Rv r1 / Rv cb) ->
  in_range (Rv r2 * Rv cb) -> in_range (Rv r3 / Rv ca) ->
  exists e1 e2 e3 e4,
    (Rabs e1 <= u53 /\ Rabs e2 <= u53 /\ Rabs e3 <= u53 /\ Rabs e4 <= u53 /\
    Rv r4 = Rv v * ((1 + e1) * (1 + e2) * (1 + e3) * (1 + e4)) /\
    Rabs (Rv r4 - Rv v) <= ((1 + u53) * (1 + u53) * (1 + u53) * (1 + u53) - 1) * Rabs (Rv v))%R.
Print Assumptions C17_there_and_back_float_linear.

(* ==== binary64, continued (coq/proofs/UnitsFloat2.v) =========================================================
   Notation: [win a b x] is 2^a <= |x| <= 2^b;  [qq] = 1/(1 - 2^-53), so qq^n - 1 = n*2^-53 + O(2^-106) is the
   accumulated relative error of n rounded operations whose factors (1+e) may also appear inverted (reciprocal
   kind);  [is_lr u] = the unit is linear or reciprocal;  [cnum u] its coefficient as the binary64 the code holds;
   [fin x] = valid, finite, non-zero binary64;  [finz x] = valid and finite (zero allowed);  [Kv] = 40. *)

(* ---- (3) a decidable sufficient condition for "no intermediate leaves the normal range", on exponents only:
   [tab_ok ua ub (a, b)] computes the exponent window of each of the four rounded operations of v -> B -> A from
   floor(log2) of the two coefficients and the window [2^a, 2^b] of |v|, and checks each against [-1022, 1023].
   It is sufficient ... *)
Theorem C17_range_condition_sufficient : forall ua ub v w,
  is_lr ua = true -> is_lr ub = true -> fin (cnum ua) -> fin (cnum ub) ->
  fin v -> win (fst w) (snd w) (Rv v) -> tab_ok ua ub w = true ->
  let r2 := through_base fl v ua ub in
  let r4 := through_base fl r2 ub ua in
  fin r2 /\ fin r4 /\ (Rabs (Rv r4 - Rv v) <= (qq ^ 4 - 1) * Rabs (Rv v))%R.
Proof. exact there_and_back_float_lr. Qed.
Check C17_range_condition_sufficient : forall ua ub v w,
  is_lr ua = true -> is_lr ub = true -> fin (cnum ua) -> fin (cnum ub) ->
  fin v -> win (fst w) (snd w) (Rv v) -> tab_ok ua ub w = true ->
  let r2 := through_base fl v ua ub in
  let r4 := through_base fl r2 ub ua in
  fin r2 /\ fin r4 /\ (Rabs (Rv r4 - Rv v) <= (qq ^ 4 - 1) * Rabs (Rv v))%R.
Print Assumptions C17_range_condition_sufficient.

(* ... and it holds on the regenerated table (finite, exhaustive by vm_compute; bound = the table: every ordered
   pair / triple of linear or reciprocal units of one category) for every |v| in [2^-40, 2^40] *)
Theorem C17_table_ranges_ok : forall ua ub,
  In ua all_units -> In ub all_units -> u_cat ua = u_cat ub -> is_lr ua = true -> is_lr ub = true ->
  fin (cnum ua) /\ fin (cnum ub) /\ tab_ok ua ub (- Kv, Kv) = true.
Proof. exact table_pair. Qed.
Check C17_table_ranges_ok : forall ua ub,
  In ua all_units -> In ub all_units -> u_cat ua = u_cat ub -> is_lr ua = true -> is_lr ub = true ->
  fin (cnum ua) /\ fin (cnum ub) /\ tab_ok ua ub (- Kv, Kv) = true.
Print Assumptions C17_table_ranges_ok.

Theorem C17_table_ranges_ok_triples : forall ua ub uc,
  In ua all_units -> In ub all_units -> In uc all_units -> u_cat ua = u_cat ub -> u_cat ub = u_cat uc ->
  is_lr ua = true -> is_lr ub = true -> is_lr uc = true -> comp_ok ua ub uc (- Kv, Kv) = true.
Proof. exact table_triple. Qed.
Check C17_table_ranges_ok_triples : forall ua ub uc,
  In ua all_units -> In ub all_units -> In uc all_units -> u_cat ua = u_cat ub -> u_cat ub = u_cat uc ->
  is_lr ua = true -> is_lr ub = true -> is_lr uc = true -> comp_ok ua ub uc (- Kv, Kv) = true.
Print Assumptions C17_table_ranges_ok_triples.

(* hence C17_there_and_back_float_linear without any range hypothesis, for every pair of linear units of one
   category of the table *)
Theorem C17_there_and_back_float_linear_table : forall ua ub la lb v,
  In ua all_units -> In ub all_units -> u_cat ua = u_cat ub ->
  u_conv ua = Linear la -> u_conv ub = Linear lb ->
  fin v -> win (- Kv) Kv (Rv v) ->
  let r2 := through_base fl v ua ub in
  let r4 := through_base fl r2 ub ua in
  exists e1 e2 e3 e4,
    (Rabs e1 <= u53 /\ Rabs e2 <= u53 /\ Rabs e3 <= u53 /\ Rabs e4 <= u53 /\
    Rv r4 = Rv v * ((1 + e1) * (1 + e2) * (1 + e3) * (1 + e4)) /\
    Rabs (Rv r4 - Rv v) <= ((1 + u53) * (1 + u53) * (1 + u53) * (1 + u53) - 1) * Rabs (Rv v))%R.
Proof. exact there_and_back_float_linear_table. Qed.
Check C17_there_and_back_float_linear_table : forall ua ub la lb v,
  In ua all_units -> In ub all_units -> u_cat ua = u_cat ub ->
  u_conv ua = Linear la -> u_conv ub = Linear lb ->
  fin v -> win (- Kv) Kv (Rv v) ->
  let r2 := through_base fl v ua ub in
  let r4 := through_base fl r2 ub ua in
  exists e1 e2 e3 e4,
    (Rabs e1 <= u53 /\ Rabs e2 <= u53 /\ Rabs e3 <= u53 /\ Rabs e4 <= u53 /\
    Rv r4 = Rv v * ((1 + e1) * (1 + e2) * (1 + e3) * (1 + e4)) /\
    Rabs (Rv r4 - Rv v) <= ((1 + u53) * (1 + u53) * (1 + u53) * (1 + u53) - 1) * Rabs (Rv v))%R.
Print Assumptions C17_there_and_back_float_linear_table.

(* ---- (1a) the reciprocal kind too: linear and reciprocal units in any mix (the reciprocal kind inverts
   factors, hence qq) *)
Theorem C17_there_and_back_float_table : forall ua ub v,
  In ua all_units -> In ub all_units -> u_cat ua = u_cat ub -> is_lr ua = true -> is_lr ub = true ->
  fin v -> win (- Kv) Kv (Rv v) ->
  let r2 := through_base fl v ua ub in
  let r4 := through_base fl r2 ub ua in
  fin r2 /\ fin r4 /\ (Rabs (Rv r4 - Rv v) <= (qq ^ 4 - 1) * Rabs (Rv v))%R.
Proof. exact there_and_back_float_table. Qed.
Check C17_there_and_back_float_table : forall ua ub v,
  In ua all_units -> In ub all_units -> u_cat ua = u_cat ub -> is_lr ua = true -> is_lr ub = true ->
  fin v -> win (- Kv) Kv (Rv v) ->
  let r2 := through_base fl v ua ub in
  let r4 := through_base fl r2 ub ua in
  fin r2 /\ fin r4 /\ (Rabs (Rv r4 - Rv v) <= (qq ^ 4 - 1) * Rabs (Rv v))%R.
Print Assumptions C17_there_and_back_float_table.

(* ---- (2) float-level composition: fl(A->B->C) against fl(A->C), six rounded operations *)
Theorem C17_composition_float : forall ua ub uc v w,
  is_lr ua = true -> is_lr ub = true -> is_lr uc = true ->
  fin (cnum ua) -> fin (cnum ub) -> fin (cnum uc) ->
  fin v -> win (fst w) (snd w) (Rv v) -> comp_ok ua ub uc w = true ->
  let r_ab := through_base fl v ua ub in
  let r_abc := through_base fl r_ab ub uc in
  let r_ac := through_base fl v ua uc in
  fin r_abc /\ fin r_ac /\ (Rabs (Rv r_abc - Rv r_ac) <= (qq ^ 6 - 1) * Rabs (Rv r_ac))%R.
Proof. exact composition_float_lr. Qed.
Check C17_composition_float : forall ua ub uc v w,
  is_lr ua = true -> is_lr ub = true -> is_lr uc = true ->
  fin (cnum ua) -> fin (cnum ub) -> fin (cnum uc) ->
  fin v -> win (fst w) (snd w) (Rv v) -> comp_ok ua ub uc w = true ->
  let r_ab := through_base fl v ua ub in
  let r_abc := through_base fl r_ab ub uc in
  let r_ac := through_base fl v ua uc in
  fin r_abc /\ fin r_ac /\ (Rabs (Rv r_abc - Rv r_ac) <= (qq ^ 6 - 1) * Rabs (Rv r_ac))%R.
Print Assumptions C17_composition_float.

Theorem C17_composition_float_table : forall ua ub uc v,
  In ua all_units -> In ub all_units -> In uc all_units ->
  u_cat ua = u_cat ub -> u_cat ub = u_cat uc ->
  is_lr ua = true -> is_lr ub = true -> is_lr uc = true ->
  fin v -> win (- Kv) Kv (Rv v) ->
  let r_ab := through_base fl v ua ub in
  let r_abc := through_base fl r_ab ub uc in
  let r_ac := through_base fl v ua uc in
  fin r_abc /\ fin r_ac /\ (Rabs (Rv r_abc - Rv r_ac) <= (qq ^ 6 - 1) * Rabs (Rv r_ac))%R.
Proof. exact composition_float_table. Qed.
Check C17_composition_float_table : forall ua ub uc v,
  In ua all_units -> In ub all_units -> In uc all_units ->
  u_cat ua = u_cat ub -> u_cat ub = u_cat uc ->
  is_lr ua = true -> is_lr ub = true -> is_lr uc = true ->
  fin v -> win (- Kv) Kv (Rv v) ->
  let r_ab := through_base fl v ua ub in
  let r_abc := through_base fl r_ab ub uc in
  let r_ac := through_base fl v ua uc in
  fin r_abc /\ fin r_ac /\ (Rabs (Rv r_abc - Rv r_ac) <= (qq ^ 6 - 1) * Rabs (Rv r_ac))%R.
Print Assumptions C17_composition_float_table.

(* ---- (1b) the temperature (affine) kind: an ABSOLUTE bound (relative error is meaningless near the offsets:
   -273.15 C is 0 K).  [temp_bound ta tb a] = 2^-53 * (1 + 1/1024) * (A * a + B) with (A, B) by the to_kelvin
   functions of the two units: K<->C (2, 274); K->F->K (8, 2037); F->K->F (8, 3666); C->C (4, 1093);
   C->F->C (10, 4495); F->C->F (10, 5205); F->F (16, 11521); every finite v (zero, the offsets) up to 2^1000.
   Each rounded operation contributes 2^-53 * |its exact result| (+ 2^-1075 in the subnormal range); the
   constants are the accumulated sums, the offsets 273.15 / 32 and the factors 9/5, 5/9 entering B. *)
Theorem C17_there_and_back_float_temperature : forall ua ub ta fa tb fb v,
  u_conv ua = Temperature ta fa -> u_conv ub = Temperature tb fb ->
  inverse_pair ta fa = true -> inverse_pair tb fb = true ->
  finz v -> (Rabs (Rv v) <= bpow radix2 1000)%R ->
  let r2 := through_base fl v ua ub in
  let r4 := through_base fl r2 ub ua in
  finz r4 /\ (Rabs (Rv r4 - Rv v) <= temp_bound ta tb (Rabs (Rv v)))%R.
Proof. exact there_and_back_float_temperature. Qed.
Check C17_there_and_back_float_temperature : forall ua ub ta fa tb fb v,
  u_conv ua = Temperature ta fa -> u_conv ub = Temperature tb fb ->
  inverse_pair ta fa = true -> inverse_pair tb fb = true ->
  finz v -> (Rabs (Rv v) <= bpow radix2 1000)%R ->
  let r2 := through_base fl v ua ub in
  let r4 := through_base fl r2 ub ua in
  finz r4 /\ (Rabs (Rv r4 - Rv v) <= temp_bound ta tb (Rabs (Rv v)))%R.
Print Assumptions C17_there_and_back_float_temperature.
(* the constants, pinned *)
Example C17_temp_bound_constants :
  (temp_bound TF_celsius_to_kelvin TF_kelvin_to_kelvin 1 = u53 * (1 + / 1024) * (2 * 1 + 274) /\
   temp_bound TF_celsius_to_kelvin TF_fahrenheit_to_kelvin 1 = u53 * (1 + / 1024) * (10 * 1 + 4495) /\
   temp_bound TF_fahrenheit_to_kelvin TF_celsius_to_kelvin 1 = u53 * (1 + / 1024) * (10 * 1 + 5205) /\
   temp_bound TF_kelvin_to_kelvin TF_fahrenheit_to_kelvin 1 = u53 * (1 + / 1024) * (8 * 1 + 2037) /\
   temp_bound TF_fahrenheit_to_kelvin TF_kelvin_to_kelvin 1 = u53 * (1 + / 1024) * (8 * 1 + 3666))%R.
Proof. repeat split; reflexivity. Qed.

(* ---- (4) at the level of what a user calls: the `convert` built-in on identifiers.  ANY two identifiers that
   resolve to units of one category (aliases, case variants, the same unit twice: then the result is v itself),
   every kind; [tab_bound ua ub a] is temp_bound for two temperature units and (qq^4 - 1) * a otherwise *)
Theorem C17_builtin_there_and_back_float : forall a b ua ub v,
  resolve_unit a = UOk ua -> resolve_unit b = UOk ub -> u_cat ua = u_cat ub ->
  fin v -> win (- Kv) Kv (Rv v) ->
  exists r1 r2,
    builtin_convert (ANum v) (AStr a) (AStr b) = UOk r1 /\
    builtin_convert (ANum r1) (AStr b) (AStr a) = UOk r2 /\
    (Rabs (Rv r2 - Rv v) <= tab_bound ua ub (Rabs (Rv v)))%R.
Proof. exact builtin_there_and_back_all_kinds. Qed.
Check C17_builtin_there_and_back_float : forall a b ua ub v,
  resolve_unit a = UOk ua -> resolve_unit b = UOk ub -> u_cat ua = u_cat ub ->
  fin v -> win (- Kv) Kv (Rv v) ->
  exists r1 r2,
    builtin_convert (ANum v) (AStr a) (AStr b) = UOk r1 /\
    builtin_convert (ANum r1) (AStr b) (AStr a) = UOk r2 /\
    (Rabs (Rv r2 - Rv v) <= tab_bound ua ub (Rabs (Rv v)))%R.
Print Assumptions C17_builtin_there_and_back_float.

Theorem C17_builtin_there_and_back_temperature : forall a b ua ub ta fa tb fb v,
  resolve_unit a = UOk ua -> resolve_unit b = UOk ub -> u_cat ua = u_cat ub ->
  u_conv ua = Temperature ta fa -> u_conv ub = Temperature tb fb ->
  finz v -> (Rabs (Rv v) <= bpow radix2 1000)%R ->
  exists r1 r2,
    builtin_convert (ANum v) (AStr a) (AStr b) = UOk r1 /\
    builtin_convert (ANum r1) (AStr b) (AStr a) = UOk r2 /\
    (Rabs (Rv r2 - Rv v) <= temp_bound ta tb (Rabs (Rv v)))%R.
Proof. exact builtin_there_and_back_temperature. Qed.
Check C17_builtin_there_and_back_temperature : forall a b ua ub ta fa tb fb v,
  resolve_unit a = UOk ua -> resolve_unit b = UOk ub -> u_cat ua = u_cat ub ->
  u_conv ua = Temperature ta fa -> u_conv ub = Temperature tb fb ->
  finz v -> (Rabs (Rv v) <= bpow radix2 1000)%R ->
  exists r1 r2,
    builtin_convert (ANum v) (AStr a) (AStr b) = UOk r1 /\
    builtin_convert (ANum r1) (AStr b) (AStr a) = UOk r2 /\
    (Rabs (Rv r2 - Rv v) <= temp_bound ta tb (Rabs (Rv v)))%R.
Print Assumptions C17_builtin_there_and_back_temperature.

Theorem C17_builtin_composition_float : forall a b c ua ub uc v,
  resolve_unit a = UOk ua -> resolve_unit b = UOk ub -> resolve_unit c = UOk uc ->
  u_cat ua = u_cat ub -> u_cat ub = u_cat uc ->
  is_lr ua = true -> is_lr ub = true -> is_lr uc = true -> fin v -> win (- Kv) Kv (Rv v) ->
  exists r1 r2 r3,
    builtin_convert (ANum v) (AStr a) (AStr b) = UOk r1 /\
    builtin_convert (ANum r1) (AStr b) (AStr c) = UOk r2 /\
    builtin_convert (ANum v) (AStr a) (AStr c) = UOk r3 /\
    (Rabs (Rv r2 - Rv r3) <= (qq ^ 6 - 1) * Rabs (Rv r3))%R.
Proof. exact builtin_composition_float. Qed.
Check C17_builtin_composition_float : forall a b c ua ub uc v,
  resolve_unit a = UOk ua -> resolve_unit b = UOk ub -> resolve_unit c = UOk uc ->
  u_cat ua = u_cat ub -> u_cat ub = u_cat uc ->
  is_lr ua = true -> is_lr ub = true -> is_lr uc = true -> fin v -> win (- Kv) Kv (Rv v) ->
  exists r1 r2 r3,
    builtin_convert (ANum v) (AStr a) (AStr b) = UOk r1 /\
    builtin_convert (ANum r1) (AStr b) (AStr c) = UOk r2 /\
    builtin_convert (ANum v) (AStr a) (AStr c) = UOk r3 /\
    (Rabs (Rv r2 - Rv r3) <= (qq ^ 6 - 1) * Rabs (Rv r3))%R.
Print Assumptions C17_builtin_composition_float.

(* ---- composition for the temperature kind too (beyond the assignment): fl(A->B->C) and fl(A->C) both approximate
   the same exact value; [tcomp_bound ta tb tc a] = 2^-53 * (1 + 1/1024) * (A * a + B), 27 constant pairs (A, B) by
   the to_kelvin functions of A, B, C (coq/proofs/UnitsFloat2.v: tcomp_A, tcomp_B) *)
Theorem C17_composition_float_temperature : forall ua ub uc ta fa tb fb tc fc v,
  u_conv ua = Temperature ta fa -> u_conv ub = Temperature tb fb -> u_conv uc = Temperature tc fc ->
  inverse_pair ta fa = true -> inverse_pair tb fb = true -> inverse_pair tc fc = true ->
  finz v -> (Rabs (Rv v) <= bpow radix2 1000)%R ->
  let r_ab := through_base fl v ua ub in
  let r_abc := through_base fl r_ab ub uc in
  let r_ac := through_base fl v ua uc in
  finz r_abc /\ finz r_ac /\ (Rabs (Rv r_abc - Rv r_ac) <= tcomp_bound ta tb tc (Rabs (Rv v)))%R.
Proof. exact composition_float_temperature. Qed.
Check C17_composition_float_temperature : forall ua ub uc ta fa tb fb tc fc v,
  u_conv ua = Temperature ta fa -> u_conv ub = Temperature tb fb -> u_conv uc = Temperature tc fc ->
  inverse_pair ta fa = true -> inverse_pair tb fb = true -> inverse_pair tc fc = true ->
  finz v -> (Rabs (Rv v) <= bpow radix2 1000)%R ->
  let r_ab := through_base fl v ua ub in
  let r_abc := through_base fl r_ab ub uc in
  let r_ac := through_base fl v ua uc in
  finz r_abc /\ finz r_ac /\ (Rabs (Rv r_abc - Rv r_ac) <= tcomp_bound ta tb tc (Rabs (Rv v)))%R.
Print Assumptions C17_composition_float_temperature.

Theorem C17_builtin_composition_temperature : forall a b c ua ub uc ta fa tb fb tc fc v,
  resolve_unit a = UOk ua -> resolve_unit b = UOk ub -> resolve_unit c = UOk uc ->
  u_cat ua = u_cat ub -> u_cat ub = u_cat uc ->
  u_conv ua = Temperature ta fa -> u_conv ub = Temperature tb fb -> u_conv uc = Temperature tc fc ->
  finz v -> (Rabs (Rv v) <= bpow radix2 1000)%R ->
  exists r1 r2 r3,
    builtin_convert (ANum v) (AStr a) (AStr b) = UOk r1 /\
    builtin_convert (ANum r1) (AStr b) (AStr c) = UOk r2 /\
    builtin_convert (ANum v) (AStr a) (AStr c) = UOk r3 /\
    (Rabs (Rv r2 - Rv r3) <= tcomp_bound ta tb tc (Rabs (Rv v)))%R.
Proof. exact builtin_composition_temperature. Qed.
Check C17_builtin_composition_temperature : forall a b c ua ub uc ta fa tb fb tc fc v,
  resolve_unit a = UOk ua -> resolve_unit b = UOk ub -> resolve_unit c = UOk uc ->
  u_cat ua = u_cat ub -> u_cat ub = u_cat uc ->
  u_conv ua = Temperature ta fa -> u_conv ub = Temperature tb fb -> u_conv uc = Temperature tc fc ->
  finz v -> (Rabs (Rv v) <= bpow radix2 1000)%R ->
  exists r1 r2 r3,
    builtin_convert (ANum v) (AStr a) (AStr b) = UOk r1 /\
    builtin_convert (ANum r1) (AStr b) (AStr c) = UOk r2 /\
    builtin_convert (ANum v) (AStr a) (AStr c) = UOk r3 /\
    (Rabs (Rv r2 - Rv r3) <= tcomp_bound ta tb tc (Rabs (Rv v)))%R.
Print Assumptions C17_builtin_composition_temperature.
Example C17_tcomp_bound_constants :
  (tcomp_bound TF_celsius_to_kelvin TF_fahrenheit_to_kelvin TF_kelvin_to_kelvin 1 = u53 * (1 + / 1024) * (10 * 1 + 4769) /\
   tcomp_bound TF_fahrenheit_to_kelvin TF_celsius_to_kelvin TF_kelvin_to_kelvin 1 = u53 * (1 + / 1024) * (6 * 1 + 1544) /\
   tcomp_bound TF_kelvin_to_kelvin TF_celsius_to_kelvin TF_fahrenheit_to_kelvin 1 = u53 * (1 + / 1024) * (18 * 1 + 4490))%R.
Proof. repeat split; reflexivity. Qed.

(* ---- the same on a much wider window: 2^-800 <= |v| <= 2^800 ([Kw] = 800; exhaustive over the table like the
   2^-40 .. 2^40 statements above, which are the ones the assignment asked for and stay valid for tables with far larger
   coefficient ratios) *)

Theorem C17_table_ranges_ok_wide : forall ua ub,
  In ua all_units -> In ub all_units -> u_cat ua = u_cat ub -> is_lr ua = true -> is_lr ub = true ->
  fin (cnum ua) /\ fin (cnum ub) /\ tab_ok ua ub (- Kw, Kw) = true.
Proof. exact table_pair_wide. Qed.
Check C17_table_ranges_ok_wide : forall ua ub,
  In ua all_units -> In ub all_units -> u_cat ua = u_cat ub -> is_lr ua = true -> is_lr ub = true ->
  fin (cnum ua) /\ fin (cnum ub) /\ tab_ok ua ub (- Kw, Kw) = true.
Print Assumptions C17_table_ranges_ok_wide.

Theorem C17_table_ranges_ok_triples_wide : forall ua ub uc,
  In ua all_units -> In ub all_units -> In uc all_units -> u_cat ua = u_cat ub -> u_cat ub = u_cat uc ->
  is_lr ua = true -> is_lr ub = true -> is_lr uc = true -> comp_ok ua ub uc (- Kw, Kw) = true.
Proof. exact table_triple_wide. Qed.
Check C17_table_ranges_ok_triples_wide : forall ua ub uc,
  In ua all_units -> In ub all_units -> In uc all_units -> u_cat ua = u_cat ub -> u_cat ub = u_cat uc ->
  is_lr ua = true -> is_lr ub = true -> is_lr uc = true -> comp_ok ua ub uc (- Kw, Kw) = true.
Print Assumptions C17_table_ranges_ok_triples_wide.

Theorem C17_there_and_back_float_linear_table_wide : forall ua ub la lb v,
  In ua all_units -> In ub all_units -> u_cat ua = u_cat ub ->
  u_conv ua = Linear la -> u_conv ub = Linear lb ->
  fin v -> win (- Kw) Kw (Rv v) ->
  let r2 := through_base fl v ua ub in
  let r4 := through_base fl r2 ub ua in
  exists e1 e2 e3 e4,
    (Rabs e1 <= u53 /\ Rabs e2 <= u53 /\ Rabs e3 <= u53 /\ Rabs e4 <= u53 /\
    Rv r4 = Rv v * ((1 + e1) * (1 + e2) * (1 + e3) * (1 + e4)) /\
    Rabs (Rv r4 - Rv v) <= ((1 + u53) * (1 + u53) * (1 + u53) * (1 + u53) - 1) * Rabs (Rv v))%R.
Proof. exact there_and_back_float_linear_table_wide. Qed.
Check C17_there_and_back_float_linear_table_wide : forall ua ub la lb v,
  In ua all_units -> In ub all_units -> u_cat ua = u_cat ub ->
  u_conv ua = Linear la -> u_conv ub = Linear lb ->
  fin v -> win (- Kw) Kw (Rv v) ->
  let r2 := through_base fl v ua ub in
  let r4 := through_base fl r2 ub ua in
  exists e1 e2 e3 e4,
    (Rabs e1 <= u53 /\ Rabs e2 <= u53 /\ Rabs e3 <= u53 /\ Rabs e4 <= u53 /\
    Rv r4 = Rv v * ((1 + e1) * (1 + e2) * (1 + e3) * (1 + e4)) /\
    Rabs (Rv r4 - Rv v) <= ((1 + u53) * (1 + u53) * (1 + u53) * (1 + u53) - 1) * Rabs (Rv v))%R.
Print Assumptions C17_there_and_back_float_linear_table_wide.

Theorem C17_builtin_there_and_back_float_wide : forall a b ua ub v,
  resolve_unit a = UOk ua -> resolve_unit b = UOk ub -> u_cat ua = u_cat ub ->
  fin v -> win (- Kw) Kw (Rv v) ->
  exists r1 r2,
    builtin_convert (ANum v) (AStr a) (AStr b) = UOk r1 /\
    builtin_convert (ANum r1) (AStr b) (AStr a) = UOk r2 /\
    (Rabs (Rv r2 - Rv v) <= tab_bound ua ub (Rabs (Rv v)))%R.
Proof. exact builtin_there_and_back_all_kinds_wide. Qed.
Check C17_builtin_there_and_back_float_wide : forall a b ua ub v,
  resolve_unit a = UOk ua -> resolve_unit b = UOk ub -> u_cat ua = u_cat ub ->
  fin v -> win (- Kw) Kw (Rv v) ->
  exists r1 r2,
    builtin_convert (ANum v) (AStr a) (AStr b) = UOk r1 /\
    builtin_convert (ANum r1) (AStr b) (AStr a) = UOk r2 /\
    (Rabs (Rv r2 - Rv v) <= tab_bound ua ub (Rabs (Rv v)))%R.
Print Assumptions C17_builtin_there_and_back_float_wide.

Theorem C17_builtin_composition_float_wide : forall a b c ua ub uc v,
  resolve_unit a = UOk ua -> resolve_unit b = UOk ub -> resolve_unit c = UOk uc ->
  u_cat ua = u_cat ub -> u_cat ub = u_cat uc ->
  is_lr ua = true -> is_lr ub = true -> is_lr uc = true -> fin v -> win (- Kw) Kw (Rv v) ->
  exists r1 r2 r3,
    builtin_convert (ANum v) (AStr a) (AStr b) = UOk r1 /\
    builtin_convert (ANum r1) (AStr b) (AStr c) = UOk r2 /\
    builtin_convert (ANum v) (AStr a) (AStr c) = UOk r3 /\
    (Rabs (Rv r2 - Rv r3) <= (qq ^ 6 - 1) * Rabs (Rv r3))%R.
Proof. exact builtin_composition_float_wide. Qed.
Check C17_builtin_composition_float_wide : forall a b c ua ub uc v,
  resolve_unit a = UOk ua -> resolve_unit b = UOk ub -> resolve_unit c = UOk uc ->
  u_cat ua = u_cat ub -> u_cat ub = u_cat uc ->
  is_lr ua = true -> is_lr ub = true -> is_lr uc = true -> fin v -> win (- Kw) Kw (Rv v) ->
  exists r1 r2 r3,
    builtin_convert (ANum v) (AStr a) (AStr b) = UOk r1 /\
    builtin_convert (ANum r1) (AStr b) (AStr c) = UOk r2 /\
    builtin_convert (ANum v) (AStr a) (AStr c) = UOk r3 /\
    (Rabs (Rv r2 - Rv r3) <= (qq ^ 6 - 1) * Rabs (Rv r3))%R.
Print Assumptions C17_builtin_composition_float_wide.

(* ---- Examples: the hypotheses are decidable and hold on real rows of the table *)
(* 123456.789 km -> mi -> km (linear/linear), 30 mpg -> l/100km -> mpg (reciprocal/linear),
   30 mpg -> imp mpg -> mpg (reciprocal/reciprocal) *)
Example C17_float_hypotheses_hold :
  lr_hyps_b "km" "mi" = true /\ vwin_b (num_of_bits 0x40fe240c9fbe76c9) = true /\
  lr_hyps_b "mpg" "l/100km" = true /\ lr_hyps_b "mpg" "imp mpg" = true /\ vwin_b (num_of_bits 0x403e000000000000) = true.
Proof. vm_compute. repeat split; reflexivity. Qed.
Example C17_float_example_km_mi :
  let v := num_of_bits 0x40fe240c9fbe76c9 in
  exists r1 r2,
    builtin_convert (ANum v) (AStr "km") (AStr "mi") = UOk r1 /\
    builtin_convert (ANum r1) (AStr "mi") (AStr "km") = UOk r2 /\
    (Rabs (Rv r2 - Rv v) <= (qq ^ 4 - 1) * Rabs (Rv v))%R.
Proof.
  intros v.
  destruct (lr_hyps_b_ok "km" "mi") as [ua [ub [Ra [Rb [C [La Lb]]]]]]; [vm_compute; reflexivity|].
  destruct (vwin_b_ok v) as [Fv Wv]; [vm_compute; reflexivity|].
  exact (builtin_there_and_back_float "km" "mi" ua ub v Ra Rb C La Lb Fv Wv).
Qed.
Example C17_float_example_mpg :
  let v := num_of_bits 0x403e000000000000 in
  exists r1 r2,
    builtin_convert (ANum v) (AStr "mpg") (AStr "l/100km") = UOk r1 /\
    builtin_convert (ANum r1) (AStr "l/100km") (AStr "mpg") = UOk r2 /\
    (Rabs (Rv r2 - Rv v) <= (qq ^ 4 - 1) * Rabs (Rv v))%R.
Proof.
  intros v.
  destruct (lr_hyps_b_ok "mpg" "l/100km") as [ua [ub [Ra [Rb [C [La Lb]]]]]]; [vm_compute; reflexivity|].
  destruct (vwin_b_ok v) as [Fv Wv]; [vm_compute; reflexivity|].
  exact (builtin_there_and_back_float "mpg" "l/100km" ua ub v Ra Rb C La Lb Fv Wv).
Qed.
Example C17_float_example_composition :
  let v := num_of_bits 0x40fe240c9fbe76c9 in
  exists r1 r2 r3,
    builtin_convert (ANum v) (AStr "km") (AStr "mi") = UOk r1 /\
    builtin_convert (ANum r1) (AStr "mi") (AStr "ft") = UOk r2 /\
    builtin_convert (ANum v) (AStr "km") (AStr "ft") = UOk r3 /\
    (Rabs (Rv r2 - Rv r3) <= (qq ^ 6 - 1) * Rabs (Rv r3))%R.
Proof.
  intros v.
  destruct (lr_hyps_b_ok "km" "mi") as [ua [ub [Ra [Rb [C [La Lb]]]]]]; [vm_compute; reflexivity|].
  destruct (lr_hyps_b_ok "mi" "ft") as [ub' [uc [Rb' [Rc [C' [_ Lc]]]]]]; [vm_compute; reflexivity|].
  rewrite Rb in Rb'. injection Rb' as <-.
  destruct (vwin_b_ok v) as [Fv Wv]; [vm_compute; reflexivity|].
  exact (builtin_composition_float "km" "mi" "ft" ua ub uc v Ra Rb Rc C C' La Lb Lc Fv Wv).
Qed.
(* -40 C -> F -> C, and the offset itself: -273.15 C -> K -> C *)
Example C17_float_example_temperature :
  let v := num_of_bits 0xc044000000000000 in
  exists r1 r2,
    builtin_convert (ANum v) (AStr "celsius") (AStr "fahrenheit") = UOk r1 /\
    builtin_convert (ANum r1) (AStr "fahrenheit") (AStr "celsius") = UOk r2 /\
    (Rabs (Rv r2 - Rv v) <= temp_bound TF_celsius_to_kelvin TF_fahrenheit_to_kelvin (Rabs (Rv v)))%R.
Proof.
  intros v.
  destruct (resolve_unit "celsius") as [ua|] eqn:Ra; [|vm_compute in Ra; discriminate].
  destruct (resolve_unit "fahrenheit") as [ub|] eqn:Rb; [|vm_compute in Rb; discriminate].
  pose proof Ra as Ea. vm_compute in Ea. injection Ea as Ea.
  pose proof Rb as Eb. vm_compute in Eb. injection Eb as Eb.
  assert (Ca : u_conv ua = Temperature TF_celsius_to_kelvin TF_kelvin_to_celsius) by (rewrite <- Ea; reflexivity).
  assert (Cb : u_conv ub = Temperature TF_fahrenheit_to_kelvin TF_kelvin_to_fahrenheit) by (rewrite <- Eb; reflexivity).
  assert (C : u_cat ua = u_cat ub) by (rewrite <- Ea, <- Eb; reflexivity).
  apply (builtin_there_and_back_temperature "celsius" "fahrenheit" ua ub _ _ _ _ v Ra Rb C Ca Cb).
  - split; reflexivity.
  - destruct (vwin_b_ok v) as [_ [_ W]]; [vm_compute; reflexivity|].
    eapply Rle_trans; [exact W|apply bpow_le; discriminate].
Qed.
