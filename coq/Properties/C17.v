(* C17 — Unit conversion is consistent across the whole unit table.
   Property theorems only: each is closed by [exact lemma], pinned by [Check], and followed by
   [Print Assumptions].  Model: coq/Units.v (resolve_unit / convert / convert_to_base /
   convert_from_base / temperature functions transcribed from blots-core/src/units.rs) over the
   table coq/gen/UnitsTable.v, which is REGENERATED from the built crate on every run
   (`harness dump-units`); "finite" theorems below are exhaustive vm_compute checks whose bound is
   that table, re-checked whenever it changes.  The model is tied to the code by the
   UNITS / RESOLVE / LOWER correspondence streams of checks/c17.py. *)
From Coq Require Import ZArith QArith String List Bool Reals.
From Flocq Require Import Core BinarySingleNaN.
Require Import Blots.Num Blots.UnitsBase Blots.gen.UnitsTable Blots.Units Blots.proofs.UnitsLaws Blots.proofs.UnitsFloat.
Import ListNotations.
Open Scope Z_scope.

(* ---- every identifier listed for a unit resolves to that unit --------------------------------
   Finite: all identifiers of the table.  (Until fix 478f22e "the coulomb symbol is C" this needed the
   exclusion of the identifier "c", listed for celsius and coulombs: finding F27, now fixed.) *)
Theorem C17_every_identifier_resolves : forall u i,
  In u all_units -> In i (u_ids u) -> resolve_unit i = UOk u.
Proof. exact every_identifier_resolves. Qed.
Check C17_every_identifier_resolves : forall u i,
  In u all_units -> In i (u_ids u) -> resolve_unit i = UOk u.
Print Assumptions C17_every_identifier_resolves.

(* no identifier is listed for two units *)
Theorem C17_no_duplicate_identifiers : forall u i,
  In u all_units -> In i (u_ids u) -> dup_listed i = false.
Proof. exact no_duplicate_identifiers. Qed.
Check C17_no_duplicate_identifiers : forall u i,
  In u all_units -> In i (u_ids u) -> dup_listed i = false.
Print Assumptions C17_no_duplicate_identifiers.

(* ... and if one ever is, it is an ambiguity error, never a guess (holds for any table) *)
Theorem C17_dup_ident_is_error : forall u i,
  In u all_units -> In i (u_ids u) -> dup_listed i = true -> resolve_unit i = UErr EAmbigExact.
Proof. exact dup_ident_is_error. Qed.
Check C17_dup_ident_is_error : forall u i,
  In u all_units -> In i (u_ids u) -> dup_listed i = true -> resolve_unit i = UErr EAmbigExact.
Print Assumptions C17_dup_ident_is_error.

(* two units of the table with the same identifier list are the same unit: the self-conversion
   short-circuit (from.identifiers == to.identifiers) fires exactly for a unit and itself *)
Theorem C17_same_ids_same_unit : forall u x,
  In u all_units -> In x all_units -> u_ids u = u_ids x -> u = x.
Proof. exact same_ids_same_unit. Qed.
Check C17_same_ids_same_unit : forall u x,
  In u all_units -> In x all_units -> u_ids u = u_ids x -> u = x.
Print Assumptions C17_same_ids_same_unit.

(* ---- case-insensitively when unambiguous: any spelling s (unbounded) of a listed identifier i
   whose lower-casing is listed for one unit only resolves to that unit *)
Theorem C17_case_insensitive_when_unambiguous : forall u i s,
  In u all_units -> In i (u_ids u) -> to_lowercase s = to_lowercase i ->
  case_count (to_lowercase i) = 1%nat -> resolve_unit s = UOk u.
Proof. exact case_insensitive_when_unambiguous. Qed.
Check C17_case_insensitive_when_unambiguous : forall u i s,
  In u all_units -> In i (u_ids u) -> to_lowercase s = to_lowercase i ->
  case_count (to_lowercase i) = 1%nat -> resolve_unit s = UOk u.
Print Assumptions C17_case_insensitive_when_unambiguous.
Example C17_case_insensitive_example : resolve_unit "KiLoMeTrEs" = resolve_unit "km".
Proof. vm_compute. reflexivity. Qed.

(* ---- what an answer of resolve_unit means, for every table and every identifier *)
Theorem C17_resolve_never_guesses : forall units s l,
  let ex := filter (fun u => matches_exact u s) units in
  let cs := filter (fun u => matches_case u l) units in
  match resolve_in units s l with
  | UOk u => ex = [u] \/ (ex = [] /\ cs = [u])
  | UErr EUnknown => ex = [] /\ cs = []
  | UErr EAmbigExact => (2 <= List.length ex)%nat
  | UErr EAmbigCase => ex = [] /\ (2 <= List.length cs)%nat
  | UErr _ => False
  end.
Proof. exact resolve_spec. Qed.
Check C17_resolve_never_guesses : forall units s l,
  let ex := filter (fun u => matches_exact u s) units in
  let cs := filter (fun u => matches_case u l) units in
  match resolve_in units s l with
  | UOk u => ex = [u] \/ (ex = [] /\ cs = [u])
  | UErr EUnknown => ex = [] /\ cs = []
  | UErr EAmbigExact => (2 <= List.length ex)%nat
  | UErr EAmbigCase => ex = [] /\ (2 <= List.length cs)%nat
  | UErr _ => False
  end.
Print Assumptions C17_resolve_never_guesses.

Theorem C17_unknown_is_error : forall s,
  (forall u, In u all_units -> ~ In (to_lowercase s) (u_lower u)) -> resolve_unit s = UErr EUnknown.
Proof. exact unknown_is_error. Qed.
Check C17_unknown_is_error : forall s,
  (forall u, In u all_units -> ~ In (to_lowercase s) (u_lower u)) -> resolve_unit s = UErr EUnknown.
Print Assumptions C17_unknown_is_error.

(* ---- all identifiers of a unit behave identically (any arithmetic instance A: binary64 or Q) *)
Theorem C17_aliases_same_unit : forall A u i j (v : T A) x,
  In u all_units -> In i (u_ids u) -> In j (u_ids u) ->
  resolve_unit i = resolve_unit j /\
  convert A v i x = convert A v j x /\ convert A v x i = convert A v x j.
Proof. exact aliases_same_unit. Qed.
Check C17_aliases_same_unit : forall A u i j (v : T A) x,
  In u all_units -> In i (u_ids u) -> In j (u_ids u) ->
  resolve_unit i = resolve_unit j /\
  convert A v i x = convert A v j x /\ convert A v x i = convert A v x j.
Print Assumptions C17_aliases_same_unit.

Theorem C17_aliases_behave_identically : forall A a a' u,
  resolve_unit a = UOk u -> resolve_unit a' = UOk u ->
  forall v x, convert A v a x = convert A v a' x /\ convert A v x a = convert A v x a'.
Proof. exact aliases_behave_identically. Qed.
Check C17_aliases_behave_identically : forall A a a' u,
  resolve_unit a = UOk u -> resolve_unit a' = UOk u ->
  forall v x, convert A v a x = convert A v a' x /\ convert A v x a = convert A v x a'.
Print Assumptions C17_aliases_behave_identically.

(* ---- units of different categories never convert; unresolved identifiers are errors *)
Theorem C17_different_categories_never_convert : forall A v a b ua ub,
  resolve_unit a = UOk ua -> resolve_unit b = UOk ub -> u_cat ua <> u_cat ub ->
  convert A v a b = UErr ECategory.
Proof. exact different_categories_never_convert. Qed.
Check C17_different_categories_never_convert : forall A v a b ua ub,
  resolve_unit a = UOk ua -> resolve_unit b = UOk ub -> u_cat ua <> u_cat ub ->
  convert A v a b = UErr ECategory.
Print Assumptions C17_different_categories_never_convert.

Theorem C17_same_category_converts : forall A v a b ua ub,
  resolve_unit a = UOk ua -> resolve_unit b = UOk ub -> u_cat ua = u_cat ub ->
  convert A v a b = UOk (if same_ids ua ub then v else through_base A v ua ub).
Proof. exact same_category_converts. Qed.
Check C17_same_category_converts : forall A v a b ua ub,
  resolve_unit a = UOk ua -> resolve_unit b = UOk ub -> u_cat ua = u_cat ub ->
  convert A v a b = UOk (if same_ids ua ub then v else through_base A v ua ub).
Print Assumptions C17_same_category_converts.

Theorem C17_unresolved_is_error : forall A v a b e,
  (resolve_unit a = UErr e \/ (exists ua, resolve_unit a = UOk ua) /\ resolve_unit b = UErr e) ->
  convert A v a b = UErr e.
Proof. exact unresolved_is_error. Qed.
Check C17_unresolved_is_error : forall A v a b e,
  (resolve_unit a = UErr e \/ (exists ua, resolve_unit a = UOk ua) /\ resolve_unit b = UErr e) ->
  convert A v a b = UErr e.
Print Assumptions C17_unresolved_is_error.

Theorem C17_builtin_is_convert : forall v a b,
  builtin_convert (ANum v) (AStr a) (AStr b) = convert fl v a b.
Proof. exact builtin_is_convert. Qed.
Check C17_builtin_is_convert : forall v a b,
  builtin_convert (ANum v) (AStr a) (AStr b) = convert fl v a b.
Print Assumptions C17_builtin_is_convert.

(* ---- converting a unit to itself is the identity: in every arithmetic instance, in particular in
   binary64 bit for bit ([A := fl]) and exactly over Q ([A := qa]); a and b are any two identifiers
   of the unit.  (Refuted before fix e6d26e9: the code computed v * c / c; finding F28.) *)
Theorem C17_self_identity : forall A v a b u,
  resolve_unit a = UOk u -> resolve_unit b = UOk u -> convert A v a b = UOk v.
Proof. exact self_identity. Qed.
Check C17_self_identity : forall A v a b u,
  resolve_unit a = UOk u -> resolve_unit b = UOk u -> convert A v a b = UOk v.
Print Assumptions C17_self_identity.

(* why the short-circuit is needed: through the base unit, binary64 does not give the identity *)
Lemma C17_through_base_not_identity :
  exists u v, literal_ok (match u_conv u with Linear c => c | _ => lit_5 end) = true /\
              through_base fl v u u <> v.
Proof. exact through_base_not_identity. Qed.

(* ---- the regenerated table is well formed (finite: every unit of the table) ------------------
   every coefficient is positive, non-zero, and its dumped decimal rounds (rn_decimal) to its dumped
   bits; the two function pointers of every temperature unit are an inverse pair *)
Theorem C17_table_wellformed : forall u, In u all_units -> unit_wf u = true.
Proof. exact table_wellformed. Qed.
Check C17_table_wellformed : forall u, In u all_units -> unit_wf u = true.
Print Assumptions C17_table_wellformed.

(* the five transcribed temperature functions reproduce, bit for bit, what the function pointers of
   the built crate returned on the probe points (ties the translator's identification to the code) *)
Theorem C17_temperature_functions_identified : temp_probes_ok = true.
Proof. exact temp_probes_ok_true. Qed.
Check C17_temperature_functions_identified : temp_probes_ok = true.
Print Assumptions C17_temperature_functions_identified.

(* ---- prefix ratios (finite: every prefixed/base pair of identifiers found in the table) -------
   whenever an identifier reads [dim]prefix+rest and [dim]rest is an identifier of another unit, the
   two units are linear units of one category (so they convert) and their coefficients are in the
   ratio of the prefix: metric over the decimals as typed; binary (kibi..yobi) over the exact values
   of the f64s *)
Theorem C17_prefix_ratio_metric : forall u b k,
  In (u, b, k) (prefix_hits metric_prefixes) ->
  same_linear_category u b = true /\ (coef_dec u == coef_dec b * Qpow10 k)%Q.
Proof. exact prefix_ratio_metric. Qed.
Check C17_prefix_ratio_metric : forall u b k,
  In (u, b, k) (prefix_hits metric_prefixes) ->
  same_linear_category u b = true /\ (coef_dec u == coef_dec b * Qpow10 k)%Q.
Print Assumptions C17_prefix_ratio_metric.

Theorem C17_prefix_ratio_binary : forall u b k,
  In (u, b, k) (prefix_hits binary_prefixes) ->
  same_linear_category u b = true /\ (coef_exact u == coef_exact b * Qpow2 k)%Q.
Proof. exact prefix_ratio_binary. Qed.
Check C17_prefix_ratio_binary : forall u b k,
  In (u, b, k) (prefix_hits binary_prefixes) ->
  same_linear_category u b = true /\ (coef_exact u == coef_exact b * Qpow2 k)%Q.
Print Assumptions C17_prefix_ratio_binary.
Example C17_prefix_hits_nonempty : prefix_hits metric_prefixes <> [] /\ prefix_hits binary_prefixes <> [].
Proof. split; intros H; apply (f_equal (@List.length _)) in H; vm_compute in H; discriminate. Qed.

(* ---- the algebraic laws, exact over Q (with a point at infinity for the reciprocal kind),
   unbounded over the value v, for every identifier pair / triple that resolves; [qa] is the exact
   instance of the very code ([convert]) that the UNITS stream runs in binary64 *)
Theorem C17_there_and_back_Q : forall a b ua ub v,
  resolve_unit a = UOk ua -> resolve_unit b = UOk ub -> u_cat ua = u_cat ub ->
  exists r1 r2, convert qa v a b = UOk r1 /\ convert qa r1 b a = UOk r2 /\ qx_eq r2 v.
Proof. exact there_and_back_Q. Qed.
Check C17_there_and_back_Q : forall a b ua ub v,
  resolve_unit a = UOk ua -> resolve_unit b = UOk ub -> u_cat ua = u_cat ub ->
  exists r1 r2, convert qa v a b = UOk r1 /\ convert qa r1 b a = UOk r2 /\ qx_eq r2 v.
Print Assumptions C17_there_and_back_Q.

Theorem C17_composition_Q : forall a b c ua ub uc v,
  resolve_unit a = UOk ua -> resolve_unit b = UOk ub -> resolve_unit c = UOk uc ->
  u_cat ua = u_cat ub -> u_cat ub = u_cat uc ->
  exists r1 r2 r3, convert qa v a b = UOk r1 /\ convert qa r1 b c = UOk r2 /\
                   convert qa v a c = UOk r3 /\ qx_eq r2 r3.
Proof. exact composition_Q. Qed.
Check C17_composition_Q : forall a b c ua ub uc v,
  resolve_unit a = UOk ua -> resolve_unit b = UOk ub -> resolve_unit c = UOk uc ->
  u_cat ua = u_cat ub -> u_cat ub = u_cat uc ->
  exists r1 r2 r3, convert qa v a b = UOk r1 /\ convert qa r1 b c = UOk r2 /\
                   convert qa v a c = UOk r3 /\ qx_eq r2 r3.
Print Assumptions C17_composition_Q.

(* the hypotheses of the laws are satisfiable: the first unit of the table and another unit of its
   category are both reached through their first identifiers *)
Example C17_law_hypotheses_satisfiable :
  match all_units with
  | u :: rest =>
      existsb (fun x => if String.eqb (u_cat u) (u_cat x)
                        then resolves_to (hd EmptyString (u_ids u)) u && resolves_to (hd EmptyString (u_ids x)) x
                        else false) rest
  | [] => false
  end = true.
Proof. vm_cast_no_check (eq_refl true). Qed.

(* the batched evaluator printed by the UNITS correspondence stream is [convert],
   magnitude by magnitude (so the stream validates exactly the functions the theorems are about) *)
Theorem C17_convert_many_spec : forall A vs a b,
  convert_many A vs a b = map (fun v => convert A v a b) vs.
Proof. exact convert_many_spec. Qed.
Check C17_convert_many_spec : forall A vs a b,
  convert_many A vs a b = map (fun v => convert A v a b) vs.
Print Assumptions C17_convert_many_spec.

(* ---- binary64: "there and back returns the original value within floating-point rounding" ----
   for the linear kind: four roundings, each of relative error at most u53 = 2^-53, provided no
   intermediate result leaves the normal range [2^-1022, 2^1023] (true for every table coefficient and
   |v| in [1e-12, 1e12] by a wide margin; the side conditions are stated on the computed values).
   Uses Flocq, hence the four standard real-number/classical axioms (allow-listed). *)
Theorem C17_table_coefficients_finite : forall u c,
  In u all_units -> coef_of u = Some c -> fin (num_of_bits (l_bits c)).
Proof. exact table_coefficients_finite. Qed.
Check C17_table_coefficients_finite : forall u c,
  In u all_units -> coef_of u = Some c -> fin (num_of_bits (l_bits c)).
Print Assumptions C17_table_coefficients_finite.

Theorem C17_there_and_back_float_linear : forall ua ub la lb v,
  u_conv ua = Linear la -> u_conv ub = Linear lb ->
  let ca := num_of_bits (l_bits la) in
  let cb := num_of_bits (l_bits lb) in
  fin v -> fin ca -> fin cb ->
  let r1 := nmul v ca in
  let r2 := through_base fl v ua ub in
  let r3 := nmul r2 cb in
  let r4 := through_base fl r2 ub ua in
  in_range (Rv v * Rv ca) -> in_range (Rv r1 / Rv cb) ->
  in_range (Rv r2 * Rv cb) -> in_range (Rv r3 / Rv ca) ->
  exists e1 e2 e3 e4,
    (Rabs e1 <= u53 /\ Rabs e2 <= u53 /\ Rabs e3 <= u53 /\ Rabs e4 <= u53 /\
    Rv r4 = Rv v * ((1 + e1) * (1 + e2) * (1 + e3) * (1 + e4)) /\
    Rabs (Rv r4 - Rv v) <= ((1 + u53) * (1 + u53) * (1 + u53) * (1 + u53) - 1) * Rabs (Rv v))%R.
Proof. exact there_and_back_float_linear. Qed.
Check C17_there_and_back_float_linear : forall ua ub la lb v,
  u_conv ua = Linear la -> u_conv ub = Linear lb ->
  let ca := num_of_bits (l_bits la) in
  let cb := num_of_bits (l_bits lb) in
  fin v -> fin ca -> fin cb ->
  let r1 := nmul v ca in
  let r2 := through_base fl v ua ub in
  let r3 := nmul r2 cb in
  let r4 := through_base fl r2 ub ua in
  in_range (Rv v * Rv ca) -> in_range (Rv r1 / Rv cb) ->
  in_range (Rv r2 * Rv cb) -> in_range (Rv r3 / Rv ca) ->
  exists e1 e2 e3 e4,
    (Rabs e1 <= u53 /\ Rabs e2 <= u53 /\ Rabs e3 <= u53 /\ Rabs e4 <= u53 /\
    Rv r4 = Rv v * ((1 + e1) * (1 + e2) * (1 + e3) * (1 + e4)) /\
    Rabs (Rv r4 - Rv v) <= ((1 + u53) * (1 + u53) * (1 + u53) * (1 + u53) - 1) * Rabs (Rv v))%R.
Print Assumptions C17_there_and_back_float_linear.

(* EXTENSION ROUND (proofs/UnitsFloatKinds.v): the binary64 there-and-back bound for LINEAR AND RECIPROCAL units
   in any mixture (the theorem above is the linear/linear case).  kind_coef u = Some (k, c): k = false linear,
   k = true reciprocal (None: temperature, not covered).  step_R k to_base c x is the exact real operation of one
   step (x*c, x/c, or c/x); the value is a finite non-zero double, so the `value == 0.0` branch of the reciprocal
   kind is not taken.  A -> B -> A is v * (1+d1)(1+d2)(1+d3)(1+d4) with |di| <= u53' = u/(1-u), u = 2^-53 (an
   error that lands in a denominator is 1/(1+e) = 1+d), provided the four exact intermediate results are in the
   normal range. *)
Require Import Blots.proofs.UnitsFloatKinds.
Theorem C17_there_and_back_float_lin_recip : forall ua ub ka kb la lb v,
  kind_coef ua = Some (ka, la) -> kind_coef ub = Some (kb, lb) ->
  let ca := num_of_bits (l_bits la) in
  let cb := num_of_bits (l_bits lb) in
  fin v -> fin ca -> fin cb ->
  let r1 := convert_to_base fl ua v in
  let r2 := through_base fl v ua ub in
  let r3 := convert_to_base fl ub r2 in
  let r4 := through_base fl r2 ub ua in
  in_range (step_R ka true (Rv ca) (Rv v)) -> in_range (step_R kb false (Rv cb) (Rv r1)) ->
  in_range (step_R kb true (Rv cb) (Rv r2)) -> in_range (step_R ka false (Rv ca) (Rv r3)) ->
  exists d1 d2 d3 d4,
    (Rabs d1 <= u53' /\ Rabs d2 <= u53' /\ Rabs d3 <= u53' /\ Rabs d4 <= u53' /\
    Rv r4 = Rv v * ((1 + d1) * (1 + d2) * (1 + d3) * (1 + d4)) /\
    Rabs (Rv r4 - Rv v) <= ((1 + u53') * (1 + u53') * (1 + u53') * (1 + u53') - 1) * Rabs (Rv v))%R.
Proof. exact there_and_back_float_lin_recip. Qed.
Check C17_there_and_back_float_lin_recip : forall ua ub ka kb la lb v,
  kind_coef ua = Some (ka, la) -> kind_coef ub = Some (kb, lb) ->
  let ca := num_of_bits (l_bits la) in
  let cb := num_of_bits (l_bits lb) in
  fin v -> fin ca -> fin cb ->
  let r1 := convert_to_base fl ua v in
  let r2 := through_base fl v ua ub in
  let r3 := convert_to_base fl ub r2 in
  let r4 := through_base fl r2 ub ua in
  in_range (step_R ka true (Rv ca) (Rv v)) -> in_range (step_R kb false (Rv cb) (Rv r1)) ->
  in_range (step_R kb true (Rv cb) (Rv r2)) -> in_range (step_R ka false (Rv ca) (Rv r3)) ->
  exists d1 d2 d3 d4,
    (Rabs d1 <= u53' /\ Rabs d2 <= u53' /\ Rabs d3 <= u53' /\ Rabs d4 <= u53' /\
    Rv r4 = Rv v * ((1 + d1) * (1 + d2) * (1 + d3) * (1 + d4)) /\
    Rabs (Rv r4 - Rv v) <= ((1 + u53') * (1 + u53') * (1 + u53') * (1 + u53') - 1) * Rabs (Rv v))%R.
Print Assumptions C17_there_and_back_float_lin_recip.
(* COMPOSITION in binary64, linear / reciprocal kinds: converting A -> B -> C and converting A -> C directly start
   with the same rounded step (A to its base); the direct route then rounds once, the route via B three times, and
   over the reals the two middle steps cancel: via = direct * (1+d1)(1+d2)(1+d3)(1+d4), |di| <= u/(1-u). *)
Theorem C17_composition_float_lin_recip : forall ua ub uc ka kb kc la lb lc v,
  kind_coef ua = Some (ka, la) -> kind_coef ub = Some (kb, lb) -> kind_coef uc = Some (kc, lc) ->
  let ca := num_of_bits (l_bits la) in
  let cb := num_of_bits (l_bits lb) in
  let cc := num_of_bits (l_bits lc) in
  fin v -> fin ca -> fin cb -> fin cc ->
  let r1 := convert_to_base fl ua v in
  let direct := through_base fl v ua uc in
  let r2 := through_base fl v ua ub in
  let r3 := convert_to_base fl ub r2 in
  let via := through_base fl r2 ub uc in
  in_range (step_R ka true (Rv ca) (Rv v)) ->
  in_range (step_R kc false (Rv cc) (Rv r1)) ->
  in_range (step_R kb false (Rv cb) (Rv r1)) ->
  in_range (step_R kb true (Rv cb) (Rv r2)) ->
  in_range (step_R kc false (Rv cc) (Rv r3)) ->
  exists d1 d2 d3 d4,
    (Rabs d1 <= u53' /\ Rabs d2 <= u53' /\ Rabs d3 <= u53' /\ Rabs d4 <= u53' /\
    Rv via = Rv direct * ((1 + d1) * (1 + d2) * (1 + d3) * (1 + d4)) /\
    Rabs (Rv via - Rv direct) <= ((1 + u53') * (1 + u53') * (1 + u53') * (1 + u53') - 1) * Rabs (Rv direct))%R.
Proof. exact composition_float_lin_recip. Qed.
Check C17_composition_float_lin_recip : forall ua ub uc ka kb kc la lb lc v,
  kind_coef ua = Some (ka, la) -> kind_coef ub = Some (kb, lb) -> kind_coef uc = Some (kc, lc) ->
  let ca := num_of_bits (l_bits la) in
  let cb := num_of_bits (l_bits lb) in
  let cc := num_of_bits (l_bits lc) in
  fin v -> fin ca -> fin cb -> fin cc ->
  let r1 := convert_to_base fl ua v in
  let direct := through_base fl v ua uc in
  let r2 := through_base fl v ua ub in
  let r3 := convert_to_base fl ub r2 in
  let via := through_base fl r2 ub uc in
  in_range (step_R ka true (Rv ca) (Rv v)) ->
  in_range (step_R kc false (Rv cc) (Rv r1)) ->
  in_range (step_R kb false (Rv cb) (Rv r1)) ->
  in_range (step_R kb true (Rv cb) (Rv r2)) ->
  in_range (step_R kc false (Rv cc) (Rv r3)) ->
  exists d1 d2 d3 d4,
    (Rabs d1 <= u53' /\ Rabs d2 <= u53' /\ Rabs d3 <= u53' /\ Rabs d4 <= u53' /\
    Rv via = Rv direct * ((1 + d1) * (1 + d2) * (1 + d3) * (1 + d4)) /\
    Rabs (Rv via - Rv direct) <= ((1 + u53') * (1 + u53') * (1 + u53') * (1 + u53') - 1) * Rabs (Rv direct))%R.
Print Assumptions C17_composition_float_lin_recip.
(* THERE AND BACK WITH NO RANGE HYPOTHESES, over the regenerated table: for EVERY pair of linear / reciprocal units
   of the table and EVERY valid finite double v with 2^-400 <= |v| <= 2^400 (within 400), converting v to B and back
   to A returns v up to ((1+u/(1-u))^4 - 1)|v| (about 4 * 2^-53 relative).  The range hypotheses of the theorems above
   are discharged: every table coefficient lies in 2^-101 .. 2^101 (table_coefficients_mag_ok, vm_compute over the
   table: the bound is the table), each step moves the magnitude by at most 2^101 and each rounding by a factor 2,
   so all four exact intermediate results stay within 2^-807 .. 2^807, inside the normal range. *)
Theorem C17_there_and_back_float_table : forall ua ub ka kb la lb v,
  In ua all_units -> In ub all_units ->
  kind_coef ua = Some (ka, la) -> kind_coef ub = Some (kb, lb) ->
  fin v -> within 400 (Rv v) ->
  let r2 := through_base fl v ua ub in
  let r4 := through_base fl r2 ub ua in
  (Rabs (Rv r4 - Rv v) <= ((1 + u53') * (1 + u53') * (1 + u53') * (1 + u53') - 1) * Rabs (Rv v))%R.
Proof. exact there_and_back_float_table. Qed.
Check C17_there_and_back_float_table : forall ua ub ka kb la lb v,
  In ua all_units -> In ub all_units ->
  kind_coef ua = Some (ka, la) -> kind_coef ub = Some (kb, lb) ->
  fin v -> within 400 (Rv v) ->
  let r2 := through_base fl v ua ub in
  let r4 := through_base fl r2 ub ua in
  (Rabs (Rv r4 - Rv v) <= ((1 + u53') * (1 + u53') * (1 + u53') * (1 + u53') - 1) * Rabs (Rv v))%R.
Print Assumptions C17_there_and_back_float_table.
(* COMPOSITION WITH NO RANGE HYPOTHESES, over the regenerated table: every triple of linear / reciprocal units, every
   valid finite double with 2^-400 <= |v| <= 2^400: A -> B -> C and A -> C differ by at most ((1+u/(1-u))^4 - 1)|A -> C| *)
Theorem C17_composition_float_table : forall ua ub uc ka kb kc la lb lc v,
  In ua all_units -> In ub all_units -> In uc all_units ->
  kind_coef ua = Some (ka, la) -> kind_coef ub = Some (kb, lb) -> kind_coef uc = Some (kc, lc) ->
  fin v -> within 400 (Rv v) ->
  let direct := through_base fl v ua uc in
  let via := through_base fl (through_base fl v ua ub) ub uc in
  (Rabs (Rv via - Rv direct) <= ((1 + u53') * (1 + u53') * (1 + u53') * (1 + u53') - 1) * Rabs (Rv direct))%R.
Proof. exact composition_float_table. Qed.
Check C17_composition_float_table : forall ua ub uc ka kb kc la lb lc v,
  In ua all_units -> In ub all_units -> In uc all_units ->
  kind_coef ua = Some (ka, la) -> kind_coef ub = Some (kb, lb) -> kind_coef uc = Some (kc, lc) ->
  fin v -> within 400 (Rv v) ->
  let direct := through_base fl v ua uc in
  let via := through_base fl (through_base fl v ua ub) ub uc in
  (Rabs (Rv via - Rv direct) <= ((1 + u53') * (1 + u53') * (1 + u53') * (1 + u53') - 1) * Rabs (Rv direct))%R.
Print Assumptions C17_composition_float_table.
Example C17_float_table_hypotheses_satisfiable :
  existsb (fun ua => existsb (fun ub =>
     match kind_coef ua, kind_coef ub with
     | Some (true, _), Some (false, _) => String.eqb (u_cat ua) (u_cat ub)
     | _, _ => false
     end) all_units) all_units = true /\
  fin (num_of_bits 0x403e000000000000) /\ within 400 (Rv (num_of_bits 0x403e000000000000)).
Proof. exact table_theorem_hypotheses_satisfiable. Qed.
(* TEMPERATURE KIND in binary64 (proofs/UnitsFloatTemp.v, UnitsFloatTemp2.v).  A temperature function is a short
   chain of  + c, - c, * c, / c  with double constants (tempfn_ops; tempfn_apply fl f = run_fl (tempfn_ops f)).
   Generic theorem: ANY such chain (aop) run in binary64 on a valid finite double (zeros included) stays within
   err ops x eps of the exact real chain — the first-order recurrence eps' = g*eps + u*(|x'| + g*eps) + eta
   (g = 1, |c|, 1/|c|; u = 2^-53; eta = 2^-1075: round-to-nearest errs by at most u|t| + eta for EVERY real t, no
   underflow condition) — provided no intermediate exceeds 2^1022 (safe). *)
Require Import Blots.proofs.DisplayNumFloat Blots.proofs.UnitsFloatTemp Blots.proofs.UnitsFloatTemp2.
Theorem C17_affine_chain_error : forall ops r x eps,
  fval r -> forallb (fun o => cstb (aop_c o)) ops = true ->
  (0 <= eps)%R -> (Rabs (RV r - x) <= eps)%R -> safe ops x eps ->
  fval (run_fl ops r) /\ (Rabs (RV (run_fl ops r) - run_R ops x) <= err ops x eps)%R.
Proof. exact chain_error. Qed.
Check C17_affine_chain_error : forall ops r x eps,
  fval r -> forallb (fun o => cstb (aop_c o)) ops = true ->
  (0 <= eps)%R -> (Rabs (RV r - x) <= eps)%R -> safe ops x eps ->
  fval (run_fl ops r) /\ (Rabs (RV (run_fl ops r) - run_R ops x) <= err ops x eps)%R.
Print Assumptions C17_affine_chain_error.
(* THERE AND BACK for the temperature kind, over the regenerated table, explicit numbers: every pair of temperature
   units (their function pairs are inverse pairs: C17_table_wellformed), every valid finite double (zeros
   included) with |v| <= 2^1000:  |A -> B -> A (v) - v| <= 200 * (2^-53 * 9 * (|v| + 1000) + 2^-1075).
   (The downstream gain sum of each of the 3 x 3 chains is below 200 — in fact below 20 — and every exact
   intermediate is below 9 * (|v| + 1000); the search's tolerance 8 ulp(9 max(|x|, 1000)) is of the same form.) *)
Theorem C17_there_and_back_float_temperature : forall ua ub ta fa tb fb v,
  In ua all_units -> In ub all_units ->
  u_conv ua = Temperature ta fa -> u_conv ub = Temperature tb fb ->
  fval v -> (Rabs (RV v) <= bpow radix2 1000)%R ->
  let r4 := through_base fl (through_base fl v ua ub) ub ua in
  fval r4 /\
  (Rabs (RV r4 - RV v) <= 200 * (u64 * (9 * (Rabs (RV v) + 1000)) + eta64))%R.
Proof. exact there_and_back_float_temperature_table. Qed.
Check C17_there_and_back_float_temperature : forall ua ub ta fa tb fb v,
  In ua all_units -> In ub all_units ->
  u_conv ua = Temperature ta fa -> u_conv ub = Temperature tb fb ->
  fval v -> (Rabs (RV v) <= bpow radix2 1000)%R ->
  let r4 := through_base fl (through_base fl v ua ub) ub ua in
  fval r4 /\
  (Rabs (RV r4 - RV v) <= 200 * (u64 * (9 * (Rabs (RV v) + 1000)) + eta64))%R.
Print Assumptions C17_there_and_back_float_temperature.
(* COMPOSITION for the temperature kind over the table: A -> B -> C and A -> C are both within their error
   recurrences of the same exact value (fromK_B then toK_B cancel over the reals), so they differ by at most
   400 * (2^-53 * 9 * (|v| + 1000) + 2^-1075) *)
Theorem C17_composition_float_temperature : forall ua ub uc ta fa tb fb tc fc v,
  In ua all_units -> In ub all_units -> In uc all_units ->
  u_conv ua = Temperature ta fa -> u_conv ub = Temperature tb fb -> u_conv uc = Temperature tc fc ->
  fval v -> (Rabs (RV v) <= bpow radix2 1000)%R ->
  let direct := through_base fl v ua uc in
  let via := through_base fl (through_base fl v ua ub) ub uc in
  (Rabs (RV via - RV direct) <= 400 * (u64 * (9 * (Rabs (RV v) + 1000)) + eta64))%R.
Proof. exact composition_float_temperature_table. Qed.
Check C17_composition_float_temperature : forall ua ub uc ta fa tb fb tc fc v,
  In ua all_units -> In ub all_units -> In uc all_units ->
  u_conv ua = Temperature ta fa -> u_conv ub = Temperature tb fb -> u_conv uc = Temperature tc fc ->
  fval v -> (Rabs (RV v) <= bpow radix2 1000)%R ->
  let direct := through_base fl v ua uc in
  let via := through_base fl (through_base fl v ua ub) ub uc in
  (Rabs (RV via - RV direct) <= 400 * (u64 * (9 * (Rabs (RV v) + 1000)) + eta64))%R.
Print Assumptions C17_composition_float_temperature.
(* the table's categories do not mix the temperature kind with the other kinds (so the three float theorems cover
   every convertible pair) *)
Example C17_temperature_categories_pure :
  forallb (fun a => forallb (fun b =>
    negb (String.eqb (u_cat a) (u_cat b)) ||
    match u_conv a, u_conv b with
    | Temperature _ _, Temperature _ _ => true
    | Temperature _ _, _ | _, Temperature _ _ => false
    | _, _ => true
    end) all_units) all_units = true.
Proof. vm_compute. reflexivity. Qed.
Example C17_temperature_units_nonempty : temperature_units <> [].
Proof. vm_compute. discriminate. Qed.
(* the reciprocal units of the table as it is (regenerated): the theorem's new scope *)
Example C17_reciprocal_units_nonempty : reciprocal_units <> [].
Proof. vm_compute. discriminate. Qed.
