(* C16 — numbers keep their exact value through every textual path.
   Property theorems only (each closed by [exact lemma], pinned by [Check], followed by
   [Print Assumptions]); models in NumText.v, proofs in proofs/NumText*.v; see notes/C16.md.

   Library conversions are hypotheses, never axioms; they are stated pointwise (for the number
   at hand), so each is a decidable fact that the NUMTEXT correspondence tests on every sample:
     display_contract t x   Rust Display text of x: [-]ddd[.ddd], reads back (rn_decimal) as x
     prec0_contract t x     format!("{:.0}", x) of an integral x: [-] and its exact integer
     parse_contract sp      str::parse::<f64> is correctly rounded on plain decimal texts
   [vb] = SpecFloat.valid_binary 53 1024: x is a genuine binary64 datum. *)
From Coq Require Import Reals.
From Flocq Require Import Core.Core IEEE754.BinarySingleNaN.
From Coq Require Import ZArith Floats.SpecFloat Bool List String Ascii.
Require Import Blots.Num Blots.Outcome Blots.gen.Builtins Blots.Ast Blots.NumText.
Require Import Blots.gen.NumGrammar.
Require Import Blots.proofs.NumText Blots.proofs.NumTextStr Blots.proofs.NumTextFloat Blots.proofs.NumTextRT Blots.proofs.NumTextRef Blots.proofs.NumTextDigits Blots.proofs.NumTextJson.
Require Import Blots.proofs.RadixWide Blots.proofs.RadixWideRT.
Import ListNotations.
Open Scope string_scope.
Open Scope Z_scope.

(* [closed_marker] is printed after every theorem's assumptions so that the driver's parser (which
   collects identifier lines following an "Axioms:" header) is reset by a "Closed under the global
   context" line before the echo of the next Check. *)
Lemma closed_marker : True. Proof. exact I. Qed.

(* ------------------------------------------------------------------ to_string -> to_number *)
Theorem C16_to_string_to_number :
  forall (display : num -> string) (str_parse : string -> option num) (x : num),
    str_parse (display x) = ref_str_parse (display x) ->
    ref_str_parse (display x) = Some x ->
    to_number_str str_parse (to_string_num display x) = Ok x.
Proof. exact to_string_to_number. Qed.
Check C16_to_string_to_number :
  forall (display : num -> string) (str_parse : string -> option num) (x : num),
    str_parse (display x) = ref_str_parse (display x) ->
    ref_str_parse (display x) = Some x ->
    to_number_str str_parse (to_string_num display x) = Ok x.
Print Assumptions C16_to_string_to_number.
Print Assumptions closed_marker.

(* the same from the Display contract used below (str::parse sees the '-' itself here) *)
Theorem C16_to_string_to_number_contract : forall (display : num -> string) sp x,
  parse_contract_signed sp -> display_contract (display x) x ->
  to_number_str sp (to_string_num display x) = Ok x.
Proof. exact to_string_to_number_contract. Qed.
Check C16_to_string_to_number_contract : forall (display : num -> string) sp x,
  parse_contract_signed sp -> display_contract (display x) x ->
  to_number_str sp (to_string_num display x) = Ok x.
Print Assumptions C16_to_string_to_number_contract.
Print Assumptions closed_marker.

(* ------------------------------------------------------------------ source emission -> parser
   (expr_to_source, expr_to_source_with_scope and serializable_value_to_source share print_num):
   the text is read by the number grammar, converted by the Rule::number arm, and a leading '-'
   is a prefix negation; the result of evaluating the parsed expression is x, including -0 and
   on both sides of the fract()==0 && abs()<1e15 split *)
Theorem C16_source_emission_reads_back :
  forall (fmt_prec0 display : num -> string) (str_parse : string -> option num) (x : num),
    valid_binary 53 1024 x = true -> is_finite x = true ->
    parse_contract str_parse ->
    (nfract_is_zero x && nltb (nabs x) c1e15 = true -> prec0_contract (fmt_prec0 x) x) ->
    (nfract_is_zero x && nltb (nabs x) c1e15 = false -> display_contract (display x) x) ->
    read_source str_parse (print_num fmt_prec0 display x) = Ok x.
Proof. exact source_reads_back. Qed.
Check C16_source_emission_reads_back :
  forall (fmt_prec0 display : num -> string) (str_parse : string -> option num) (x : num),
    valid_binary 53 1024 x = true -> is_finite x = true ->
    parse_contract str_parse ->
    (nfract_is_zero x && nltb (nabs x) c1e15 = true -> prec0_contract (fmt_prec0 x) x) ->
    (nfract_is_zero x && nltb (nabs x) c1e15 = false -> display_contract (display x) x) ->
    read_source str_parse (print_num fmt_prec0 display x) = Ok x.
Print Assumptions C16_source_emission_reads_back.
Print Assumptions closed_marker.

(* ------------------------------------------------------------------ function-source emission -> parser
   serializable_value_to_source (captured values inlined into `__blots_function` text; since fix
   b235c37 a number with the sign bit set is wrapped in parentheses, NaN is (0/0)): the parenthesised
   text is a nested_expression, read back to the identical double, -0 included *)
Theorem C16_function_emission_reads_back :
  forall (fmt_prec0 display : num -> string) (str_parse : string -> option num) (x : num),
    valid_binary 53 1024 x = true -> is_finite x = true ->
    parse_contract str_parse ->
    (nfract_is_zero x && nltb (nabs x) c1e15 = true -> prec0_contract (fmt_prec0 x) x) ->
    (nfract_is_zero x && nltb (nabs x) c1e15 = false -> display_contract (display x) x) ->
    read_source str_parse (emit_num fmt_prec0 display x) = Ok x.
Proof. exact emission_reads_back. Qed.
Check C16_function_emission_reads_back :
  forall (fmt_prec0 display : num -> string) (str_parse : string -> option num) (x : num),
    valid_binary 53 1024 x = true -> is_finite x = true ->
    parse_contract str_parse ->
    (nfract_is_zero x && nltb (nabs x) c1e15 = true -> prec0_contract (fmt_prec0 x) x) ->
    (nfract_is_zero x && nltb (nabs x) c1e15 = false -> display_contract (display x) x) ->
    read_source str_parse (emit_num fmt_prec0 display x) = Ok x.
Print Assumptions C16_function_emission_reads_back.
Print Assumptions closed_marker.

(* ------------------------------------------------------------------ formatter -> parser *)
Theorem C16_formatter_reads_back :
  forall (fmt_prec0 display : num -> string) (str_parse : string -> option num) (x : num) (w : option Z),
    valid_binary 53 1024 x = true -> is_finite x = true ->
    parse_contract str_parse ->
    (nfract_is_zero x && nltb (nabs x) c1e15 = true -> prec0_contract (fmt_prec0 x) x) ->
    (nfract_is_zero x && nltb (nabs x) c1e15 = false -> display_contract (display x) x) ->
    read_source str_parse (format_num fmt_prec0 display x w) = Ok x.
Proof. exact formatter_reads_back. Qed.
Check C16_formatter_reads_back :
  forall (fmt_prec0 display : num -> string) (str_parse : string -> option num) (x : num) (w : option Z),
    valid_binary 53 1024 x = true -> is_finite x = true ->
    parse_contract str_parse ->
    (nfract_is_zero x && nltb (nabs x) c1e15 = true -> prec0_contract (fmt_prec0 x) x) ->
    (nfract_is_zero x && nltb (nabs x) c1e15 = false -> display_contract (display x) x) ->
    read_source str_parse (format_num fmt_prec0 display x w) = Ok x.
Print Assumptions C16_formatter_reads_back.
Print Assumptions closed_marker.

(* the integral branch needs NO round-trip assumption on the printed digits: an integral double is
   the correctly rounded value of its own integer *)
Theorem C16_integral_value_is_exact : forall x,
  valid_binary 53 1024 x = true -> is_finite x = true -> nfract_is_zero x = true ->
  rn_decimal (nsign x) (int_abs x) 0 = x.
Proof. exact rn_decimal_integral. Qed.
Check C16_integral_value_is_exact : forall x,
  valid_binary 53 1024 x = true -> is_finite x = true -> nfract_is_zero x = true ->
  rn_decimal (nsign x) (int_abs x) 0 = x.
Print Assumptions C16_integral_value_is_exact.
Print Assumptions closed_marker.

(* a plain decimal text, with or without a leading '-', evaluates to the correctly rounded value
   of its digits with the sign applied by prefix negation *)
Theorem C16_plain_text_value :
  forall sp s ip fp,
    parse_contract sp -> all_digits ip = true -> ip <> "" -> all_digits fp = true ->
    read_source sp (sign_str s ++ plain ip fp) = Ok (rn_decimal s (digits_val (ip ++ fp) 0) (0 - slen fp)).
Proof. exact read_source_plain. Qed.
Check C16_plain_text_value :
  forall sp s ip fp,
    parse_contract sp -> all_digits ip = true -> ip <> "" -> all_digits fp = true ->
    read_source sp (sign_str s ++ plain ip fp) = Ok (rn_decimal s (digits_val (ip ++ fp) 0) (0 - slen fp)).
Print Assumptions C16_plain_text_value.
Print Assumptions closed_marker.

(* ------------------------------------------------------------------ JSON out -> JSON in *)
Theorem C16_json_reads_back :
  forall (json_print : num -> string) (json_parse : string -> outcome num) (x : num),
    is_finite x = true ->
    json_parse (json_print x) = of_option (ref_str_parse (json_print x)) ->
    ref_str_parse (json_print x) = Some x ->
    json_parse (json_out json_print x) = Ok x.
Proof. exact json_reads_back. Qed.
Check C16_json_reads_back :
  forall (json_print : num -> string) (json_parse : string -> outcome num) (x : num),
    is_finite x = true ->
    json_parse (json_print x) = of_option (ref_str_parse (json_print x)) ->
    ref_str_parse (json_print x) = Some x ->
    json_parse (json_out json_print x) = Ok x.
Print Assumptions C16_json_reads_back.
Print Assumptions closed_marker.

(* with the float_roundtrip build of serde_json — as transcribed in serde_number true, the model the
   correspondence runs against the patched tree — the JSON round trip needs only the contract on the
   OUTPUT text ([-]int[.frac][e[-]exp] with a fraction or exponent, denoting x): the transcribed parser
   (sign, leading-zero rule, u64 accumulation with overflow, fraction, exponent) reads it back as x.
   Axiom-free. *)
Theorem C16_json_reads_back_exact_build : forall (json_print : num -> string) x,
  is_finite x = true -> json_text_contract (json_print x) x ->
  json_in true (json_out json_print x) = Ok x.
Proof. exact json_reads_back_exact_build. Qed.
Check C16_json_reads_back_exact_build : forall (json_print : num -> string) x,
  is_finite x = true -> json_text_contract (json_print x) x ->
  json_in true (json_out json_print x) = Ok x.
Print Assumptions C16_json_reads_back_exact_build.
Print Assumptions closed_marker.

(* F17: the first hypothesis of C16_json_reads_back is false for the shipped build — the
   transcribed serde_json number parser without float_roundtrip reads "1e-39" one ulp high *)
Theorem C16_json_shipped_refuted :
  let x := num_of_bits 0x37d5c72fb1552d83 in
  is_finite x = true
  /\ json_out ref_ryu x = "1e-39"
  /\ ref_str_parse "1e-39" = Some x
  /\ json_in true (json_out ref_ryu x) = Ok x
  /\ json_in false (json_out ref_ryu x) = Ok (num_of_bits 0x37d5c72fb1552d84).
Proof. exact json_shipped_refuted. Qed.
Check C16_json_shipped_refuted :
  let x := num_of_bits 0x37d5c72fb1552d83 in
  is_finite x = true
  /\ json_out ref_ryu x = "1e-39"
  /\ ref_str_parse "1e-39" = Some x
  /\ json_in true (json_out ref_ryu x) = Ok x
  /\ json_in false (json_out ref_ryu x) = Ok (num_of_bits 0x37d5c72fb1552d84).
Print Assumptions C16_json_shipped_refuted.
Print Assumptions closed_marker.

(* ------------------------------------------------------------------ literals, no library hypothesis *)
(* 0x / 0b: underscores erased; a digit string below 2^63 denotes the nearest double of its
   integer value (num_of_Z = SpecFloat.binary_normalize, round to nearest even); at or above
   2^63 the literal is rejected (F25) *)
Theorem C16_hex_literal_value : forall sp body c cl v,
  remove_char "_" body = String c cl -> is_hex c = true ->
  radix_val 16 (String c cl) 0 = Some v ->
  literal_value sp ("0x" ++ body) = if v <? 2 ^ 63 then Some (num_of_Z v) else None.
Proof. exact hex_literal_value. Qed.
Check C16_hex_literal_value : forall sp body c cl v,
  remove_char "_" body = String c cl -> is_hex c = true ->
  radix_val 16 (String c cl) 0 = Some v ->
  literal_value sp ("0x" ++ body) = if v <? 2 ^ 63 then Some (num_of_Z v) else None.
Print Assumptions C16_hex_literal_value.
Print Assumptions closed_marker.

Theorem C16_bin_literal_value : forall sp body c cl v,
  remove_char "_" body = String c cl -> is_bit c = true ->
  radix_val 2 (String c cl) 0 = Some v ->
  literal_value sp ("0b" ++ body) = if v <? 2 ^ 63 then Some (num_of_Z v) else None.
Proof. exact bin_literal_value. Qed.
Check C16_bin_literal_value : forall sp body c cl v,
  remove_char "_" body = String c cl -> is_bit c = true ->
  radix_val 2 (String c cl) 0 = Some v ->
  literal_value sp ("0b" ++ body) = if v <? 2 ^ 63 then Some (num_of_Z v) else None.
Print Assumptions C16_bin_literal_value.
Print Assumptions closed_marker.

Theorem C16_radix_literal_ge_2p63_refuted :
  forall sp, literal_value sp "0xFFFFFFFFFFFFFFFF" = None
          /\ parse_numexpr sp "0xFFFFFFFFFFFFFFFF" = PLitErr
          /\ parse_numexpr sp "0x8000000000000000" = PLitErr
          /\ parse_numexpr sp "0b1000000000000000000000000000000000000000000000000000000000000000" = PLitErr.
Proof. exact radix_literal_ge_2p63_refuted. Qed.
Check C16_radix_literal_ge_2p63_refuted :
  forall sp, literal_value sp "0xFFFFFFFFFFFFFFFF" = None
          /\ parse_numexpr sp "0xFFFFFFFFFFFFFFFF" = PLitErr
          /\ parse_numexpr sp "0x8000000000000000" = PLitErr
          /\ parse_numexpr sp "0b1000000000000000000000000000000000000000000000000000000000000000" = PLitErr.
Print Assumptions C16_radix_literal_ge_2p63_refuted.
Print Assumptions closed_marker.

(* ---- F25 repaired (fixes/C16-radix-literal-range.diff; model: NumText.v 3b', literal_value_rf true —
   the model the LITERAL correspondence runs whenever the built crate accepts the F25 witnesses).
   parse_radix_digits folds the digits into a u128 accumulator, and once it is full only counts the
   remaining digits in `scale` (a power of two, exact, +inf past 2^1023) and ORs "non-zero" into a sticky
   bit; result ((acc | sticky) as f64) * scale.  For EVERY digit string — no bound on its length — that is
   num_of_Z v, the double nearest to the integer v the digits denote (ties to even; +inf from
   2^1024 - 2^970 on, like the decimal path): the sticky-bit truncation does not change the rounding
   (proofs/RadixWide.v: round-to-odd at >= 124 bits, then Flocq's round_N_odd). *)
Theorem C16_hex_literal_value_fixed :
  forall sp body c cl v,
    remove_char "_" body = String c cl ->
    radix_val 16 (String c cl) 0 = Some v ->
    literal_value_rf true sp ("0x" ++ body) = Some (num_of_Z v).
Proof. exact hex_literal_value_fixed. Qed.
Check C16_hex_literal_value_fixed :
  forall sp body c cl v,
    remove_char "_" body = String c cl ->
    radix_val 16 (String c cl) 0 = Some v ->
    literal_value_rf true sp ("0x" ++ body) = Some (num_of_Z v).
Print Assumptions C16_hex_literal_value_fixed.
Print Assumptions closed_marker.

Theorem C16_bin_literal_value_fixed :
  forall sp body c cl v,
    remove_char "_" body = String c cl ->
    radix_val 2 (String c cl) 0 = Some v ->
    literal_value_rf true sp ("0b" ++ body) = Some (num_of_Z v).
Proof. exact bin_literal_value_fixed. Qed.
Check C16_bin_literal_value_fixed :
  forall sp body c cl v,
    remove_char "_" body = String c cl ->
    radix_val 2 (String c cl) 0 = Some v ->
    literal_value_rf true sp ("0b" ++ body) = Some (num_of_Z v).
Print Assumptions C16_bin_literal_value_fixed.
Print Assumptions closed_marker.

(* the explicitly signed token +0x… / +0b… (a leading - is always a prefix negation and never reaches the arm) *)
Theorem C16_plus_radix_literal_value_fixed :
  forall sp body c cl v,
    remove_char "_" body = String c cl ->
    (radix_val 16 (String c cl) 0 = Some v -> literal_value_rf true sp ("+0x" ++ body) = Some (num_of_Z v)) /\
    (radix_val 2 (String c cl) 0 = Some v -> literal_value_rf true sp ("+0b" ++ body) = Some (num_of_Z v)).
Proof. exact plus_radix_literal_value_fixed. Qed.
Check C16_plus_radix_literal_value_fixed :
  forall sp body c cl v,
    remove_char "_" body = String c cl ->
    (radix_val 16 (String c cl) 0 = Some v -> literal_value_rf true sp ("+0x" ++ body) = Some (num_of_Z v)) /\
    (radix_val 2 (String c cl) 0 = Some v -> literal_value_rf true sp ("+0b" ++ body) = Some (num_of_Z v)).
Print Assumptions C16_plus_radix_literal_value_fixed.
Print Assumptions closed_marker.

(* the conversion routine itself, both radices, and the errors it keeps *)
Theorem C16_parse_radix_digits_value :
  forall radix s v,
    radix = 2 \/ radix = 16 -> s <> EmptyString ->
    radix_val radix s 0 = Some v -> parse_radix_digits s radix = Some (num_of_Z v).
Proof. exact parse_radix_digits_correct. Qed.
Check C16_parse_radix_digits_value :
  forall radix s v,
    radix = 2 \/ radix = 16 -> s <> EmptyString ->
    radix_val radix s 0 = Some v -> parse_radix_digits s radix = Some (num_of_Z v).
Print Assumptions C16_parse_radix_digits_value.
Print Assumptions closed_marker.

Theorem C16_radix_literal_fixed_rejects :
  forall sp body,
    (remove_char "_" body = EmptyString \/ radix_val 16 (remove_char "_" body) 0 = None ->
     literal_value_rf true sp ("0x" ++ body) = None) /\
    (remove_char "_" body = EmptyString \/ radix_val 2 (remove_char "_" body) 0 = None ->
     literal_value_rf true sp ("0b" ++ body) = None).
Proof. exact radix_literal_fixed_rejects. Qed.
Check C16_radix_literal_fixed_rejects :
  forall sp body,
    (remove_char "_" body = EmptyString \/ radix_val 16 (remove_char "_" body) 0 = None ->
     literal_value_rf true sp ("0x" ++ body) = None) /\
    (remove_char "_" body = EmptyString \/ radix_val 2 (remove_char "_" body) 0 = None ->
     literal_value_rf true sp ("0b" ++ body) = None).
Print Assumptions C16_radix_literal_fixed_rejects.
Print Assumptions closed_marker.

(* radixfix = false is the pinned model of the theorems above, definitionally *)
Theorem C16_radixfix_false_is_pinned :
  forall sp s, literal_value_rf false sp s = literal_value sp s
           /\ parse_numexpr_rf false sp s = parse_numexpr sp s
           /\ read_source_rf false sp s = read_source sp s.
Proof. exact (fun sp s => conj (literal_value_rf_false sp s) (conj (parse_numexpr_rf_false sp s) (read_source_rf_false sp s))). Qed.
Check C16_radixfix_false_is_pinned :
  forall sp s, literal_value_rf false sp s = literal_value sp s
           /\ parse_numexpr_rf false sp s = parse_numexpr sp s
           /\ read_source_rf false sp s = read_source sp s.
Print Assumptions C16_radixfix_false_is_pinned.
Print Assumptions closed_marker.

(* the F25 witnesses on the repaired model *)
Theorem C16_radix_literal_ge_2p63_fixed :
  forall sp, parse_numexpr_rf true sp "0xFFFFFFFFFFFFFFFF" = PExpr (ENum (num_of_Z (2 ^ 64)))
          /\ parse_numexpr_rf true sp "0x8000000000000000" = PExpr (ENum (num_of_Z (2 ^ 63)))
          /\ parse_numexpr_rf true sp "0b1000000000000000000000000000000000000000000000000000000000000000"
             = PExpr (ENum (num_of_Z (2 ^ 63)))
          /\ parse_numexpr_rf true sp "0x20000000000000000000000000000000000000000000000001"
             = PExpr (ENum (num_of_Z (2 ^ 197))).
Proof. exact radix_literal_ge_2p63_fixed. Qed.
Check C16_radix_literal_ge_2p63_fixed :
  forall sp, parse_numexpr_rf true sp "0xFFFFFFFFFFFFFFFF" = PExpr (ENum (num_of_Z (2 ^ 64)))
          /\ parse_numexpr_rf true sp "0x8000000000000000" = PExpr (ENum (num_of_Z (2 ^ 63)))
          /\ parse_numexpr_rf true sp "0b1000000000000000000000000000000000000000000000000000000000000000"
             = PExpr (ENum (num_of_Z (2 ^ 63)))
          /\ parse_numexpr_rf true sp "0x20000000000000000000000000000000000000000000000001"
             = PExpr (ENum (num_of_Z (2 ^ 197))).
Print Assumptions C16_radix_literal_ge_2p63_fixed.
Print Assumptions closed_marker.

(* the round trips hold on the model of the tree at hand for BOTH literal conversions (radixfix = false
   pinned, true repaired): printed numbers never reach the 0x / 0b arms, the repair leaves them intact *)
Theorem C16_source_emission_reads_back_rf :
  forall (radixfix : bool) (fmt_prec0 display : num -> string) (str_parse : string -> option num) (x : num),
    valid_binary 53 1024 x = true -> is_finite x = true ->
    parse_contract str_parse ->
    (nfract_is_zero x && nltb (nabs x) c1e15 = true -> prec0_contract (fmt_prec0 x) x) ->
    (nfract_is_zero x && nltb (nabs x) c1e15 = false -> display_contract (display x) x) ->
    read_source_rf radixfix str_parse (print_num fmt_prec0 display x) = Ok x.
Proof. exact source_reads_back_rf. Qed.
Check C16_source_emission_reads_back_rf :
  forall (radixfix : bool) (fmt_prec0 display : num -> string) (str_parse : string -> option num) (x : num),
    valid_binary 53 1024 x = true -> is_finite x = true ->
    parse_contract str_parse ->
    (nfract_is_zero x && nltb (nabs x) c1e15 = true -> prec0_contract (fmt_prec0 x) x) ->
    (nfract_is_zero x && nltb (nabs x) c1e15 = false -> display_contract (display x) x) ->
    read_source_rf radixfix str_parse (print_num fmt_prec0 display x) = Ok x.
Print Assumptions C16_source_emission_reads_back_rf.
Print Assumptions closed_marker.

Theorem C16_function_emission_reads_back_rf :
  forall (radixfix : bool) (fmt_prec0 display : num -> string) (str_parse : string -> option num) (x : num),
    valid_binary 53 1024 x = true -> is_finite x = true ->
    parse_contract str_parse ->
    (nfract_is_zero x && nltb (nabs x) c1e15 = true -> prec0_contract (fmt_prec0 x) x) ->
    (nfract_is_zero x && nltb (nabs x) c1e15 = false -> display_contract (display x) x) ->
    read_source_rf radixfix str_parse (emit_num fmt_prec0 display x) = Ok x.
Proof. exact emission_reads_back_rf. Qed.
Check C16_function_emission_reads_back_rf :
  forall (radixfix : bool) (fmt_prec0 display : num -> string) (str_parse : string -> option num) (x : num),
    valid_binary 53 1024 x = true -> is_finite x = true ->
    parse_contract str_parse ->
    (nfract_is_zero x && nltb (nabs x) c1e15 = true -> prec0_contract (fmt_prec0 x) x) ->
    (nfract_is_zero x && nltb (nabs x) c1e15 = false -> display_contract (display x) x) ->
    read_source_rf radixfix str_parse (emit_num fmt_prec0 display x) = Ok x.
Print Assumptions C16_function_emission_reads_back_rf.
Print Assumptions closed_marker.

Theorem C16_formatter_reads_back_rf :
  forall (radixfix : bool) (fmt_prec0 display : num -> string) (str_parse : string -> option num) (x : num) (w : option Z),
    valid_binary 53 1024 x = true -> is_finite x = true ->
    parse_contract str_parse ->
    (nfract_is_zero x && nltb (nabs x) c1e15 = true -> prec0_contract (fmt_prec0 x) x) ->
    (nfract_is_zero x && nltb (nabs x) c1e15 = false -> display_contract (display x) x) ->
    read_source_rf radixfix str_parse (format_num fmt_prec0 display x w) = Ok x.
Proof. exact formatter_reads_back_rf. Qed.
Check C16_formatter_reads_back_rf :
  forall (radixfix : bool) (fmt_prec0 display : num -> string) (str_parse : string -> option num) (x : num) (w : option Z),
    valid_binary 53 1024 x = true -> is_finite x = true ->
    parse_contract str_parse ->
    (nfract_is_zero x && nltb (nabs x) c1e15 = true -> prec0_contract (fmt_prec0 x) x) ->
    (nfract_is_zero x && nltb (nabs x) c1e15 = false -> display_contract (display x) x) ->
    read_source_rf radixfix str_parse (format_num fmt_prec0 display x w) = Ok x.
Print Assumptions C16_formatter_reads_back_rf.
Print Assumptions closed_marker.

Theorem C16_plain_text_value_rf :
  forall radixfix sp s ip fp,
    parse_contract sp -> all_digits ip = true -> ip <> "" -> all_digits fp = true ->
    read_source_rf radixfix sp (sign_str s ++ plain ip fp) = Ok (rn_decimal s (digits_val (ip ++ fp) 0) (0 - slen fp)).
Proof. exact read_source_rf_plain. Qed.
Check C16_plain_text_value_rf :
  forall radixfix sp s ip fp,
    parse_contract sp -> all_digits ip = true -> ip <> "" -> all_digits fp = true ->
    read_source_rf radixfix sp (sign_str s ++ plain ip fp) = Ok (rn_decimal s (digits_val (ip ++ fp) 0) (0 - slen fp)).
Print Assumptions C16_plain_text_value_rf.
Print Assumptions closed_marker.

(* decimal / scientific / leading-dot literals: underscores are erased, everything else goes to
   str::parse::<f64> unchanged *)
Theorem C16_decimal_literal_erasure : forall sp c r,
  is_digit c = true \/ c = "."%char ->
  (c = "0"%char -> match r with String c2 _ => c2 <> "b"%char /\ c2 <> "x"%char | EmptyString => True end) ->
  literal_value sp (String c r) = sp (remove_char "_" (String c r)).
Proof. exact decimal_literal_erasure. Qed.
Check C16_decimal_literal_erasure : forall sp c r,
  is_digit c = true \/ c = "."%char ->
  (c = "0"%char -> match r with String c2 _ => c2 <> "b"%char /\ c2 <> "x"%char | EmptyString => True end) ->
  literal_value sp (String c r) = sp (remove_char "_" (String c r)).
Print Assumptions C16_decimal_literal_erasure.
Print Assumptions closed_marker.

Theorem C16_decimal_literal_value : forall sp c r ip fp ex,
  is_digit c = true \/ c = "."%char ->
  (c = "0"%char -> match r with String c2 _ => c2 <> "b"%char /\ c2 <> "x"%char | EmptyString => True end) ->
  remove_char "_" (String c r) = dec_text ip fp ex ->
  all_digits ip = true -> all_digits fp = true -> (ip <> "" \/ fp <> "") -> exp_ok ex ->
  sp (dec_text ip fp ex) = ref_str_parse (dec_text ip fp ex) ->
  literal_value sp (String c r)
  = Some (rn_decimal false (digits_val (ip ++ fp) 0) (exp_val ex - slen fp)).
Proof. exact decimal_literal_value. Qed.
Check C16_decimal_literal_value : forall sp c r ip fp ex,
  is_digit c = true \/ c = "."%char ->
  (c = "0"%char -> match r with String c2 _ => c2 <> "b"%char /\ c2 <> "x"%char | EmptyString => True end) ->
  remove_char "_" (String c r) = dec_text ip fp ex ->
  all_digits ip = true -> all_digits fp = true -> (ip <> "" \/ fp <> "") -> exp_ok ex ->
  sp (dec_text ip fp ex) = ref_str_parse (dec_text ip fp ex) ->
  literal_value sp (String c r)
  = Some (rn_decimal false (digits_val (ip ++ fp) 0) (exp_val ex - slen fp)).
Print Assumptions C16_decimal_literal_value.
Print Assumptions closed_marker.

(* the reference is sign-symmetric (so reading "-t" as negation of "t" loses nothing) *)
Theorem C16_rn_decimal_sign : forall s m e,
  0 <= m -> rn_decimal s m e = with_sign s (rn_decimal false m e).
Proof. exact rn_decimal_sign. Qed.
Check C16_rn_decimal_sign : forall s m e,
  0 <= m -> rn_decimal s m e = with_sign s (rn_decimal false m e).
Print Assumptions C16_rn_decimal_sign.
Print Assumptions closed_marker.

(* the `{:.0}` contract is satisfied, for every number, by the exact-integer printer ref_prec0 (the
   reference the correspondence compares Rust's `{:.0}` text with); so in the integral branch the only
   library fact the round trip rests on is that str::parse reads plain integers correctly *)
Theorem C16_prec0_contract_realised : forall x, prec0_contract (ref_prec0 x) x.
Proof. exact ref_prec0_contract. Qed.
Check C16_prec0_contract_realised : forall x, prec0_contract (ref_prec0 x) x.
Print Assumptions C16_prec0_contract_realised.
Print Assumptions closed_marker.


(* ------------------------------------------------------------------ the grammar the model uses is the repo's
   coq/gen/NumGrammar.v is regenerated from blots-core/src/grammar.pest on every run; the seven
   number rules, translated token for token into the PEG combinators, are the very terms the
   model and the theorems above use (and `number` is atomic, the others silent) *)
Theorem C16_number_grammar_is_the_models :
  (gen_integer, gen_binary_digits, gen_hex_digits, gen_binary_number, gen_hex_number,
   gen_decimal_number, gen_number)
  = (g_integer, g_binary_digits, g_hex_digits, g_binary_number, g_hex_number, g_decimal_number, g_number)
  /\ gen_rule_kinds = [("integer", "_"); ("binary_digits", "_"); ("hex_digits", "_"); ("binary_number", "_");
                       ("hex_number", "_"); ("decimal_number", "_"); ("number", "@")].
Proof. split; reflexivity. Qed.
Check C16_number_grammar_is_the_models :
  (gen_integer, gen_binary_digits, gen_hex_digits, gen_binary_number, gen_hex_number,
   gen_decimal_number, gen_number)
  = (g_integer, g_binary_digits, g_hex_digits, g_binary_number, g_hex_number, g_decimal_number, g_number)
  /\ gen_rule_kinds = [("integer", "_"); ("binary_digits", "_"); ("hex_digits", "_"); ("binary_number", "_");
                       ("hex_number", "_"); ("decimal_number", "_"); ("number", "@")].
Print Assumptions C16_number_grammar_is_the_models.
Print Assumptions closed_marker.

(* ------------------------------------------------------------------ the reference is IEEE RNE *)
(* rn_decimal (the reference every text->double conversion is compared with, and the value the
   theorems above speak about) is Flocq's round-to-nearest-even of the rational m * 10^e in the
   binary64 format (FLT_exp -1074 53), overflowing to the infinity of the same sign at 2^1024;
   unbounded in m and e (the two shortcuts for astronomically large/small exponents included) *)
Theorem C16_rn_decimal_correct : forall s m e,
  let v := dec_R (Zpos m) e in
  let z := rn_decimal s (Zpos m) e in
  valid_binary 53 1024 z = true /\
  if Rlt_bool (Rabs (rne v)) (bpow radix2 1024)
  then SF2R radix2 z = (if s then - rne v else rne v)%R /\ is_finite_SF z = true /\ sign_SF z = s
  else z = S754_infinity s.
Proof. exact rn_decimal_correct. Qed.
Check C16_rn_decimal_correct : forall s m e,
  let v := dec_R (Zpos m) e in
  let z := rn_decimal s (Zpos m) e in
  valid_binary 53 1024 z = true /\
  if Rlt_bool (Rabs (rne v)) (bpow radix2 1024)
  then SF2R radix2 z = (if s then - rne v else rne v)%R /\ is_finite_SF z = true /\ sign_SF z = s
  else z = S754_infinity s.
Print Assumptions C16_rn_decimal_correct.
Print Assumptions closed_marker.

(* the value of a radix literal, num_of_Z v, is RNE of the integer v *)
Theorem C16_radix_value_is_rne : forall p, is_rounding_pos (num_of_Z (Zpos p)) (IZR (Zpos p)).
Proof. exact num_of_Z_correct. Qed.
Check C16_radix_value_is_rne : forall p, is_rounding_pos (num_of_Z (Zpos p)) (IZR (Zpos p)).
Print Assumptions C16_radix_value_is_rne.
Print Assumptions closed_marker.

(* ------------------------------------------------------------------ the hypotheses are satisfiable *)
Example parse_contract_satisfiable : parse_contract ref_str_parse.
Proof. intros ip fp _ _ _. reflexivity. Qed.
Example json_text_contract_example :
  json_text_contract (ref_ryu (nb 0xb7d5c72fb1552d83)) (nb 0xb7d5c72fb1552d83).      (* "-1e-39" *)
Proof.
  exists "1", "", (Some (false, EMinus, "39")). vm_compute.
  repeat split; try reflexivity; try discriminate; try (left; reflexivity); try (right; discriminate).
Qed.
Example parse_contract_signed_satisfiable : parse_contract_signed ref_str_parse.
Proof. intros s ip fp _ _ _. reflexivity. Qed.
Example display_contract_example : display_contract (ref_display (nb 0xbfb999999999999a)) (nb 0xbfb999999999999a).
Proof. exists "0", "1". vm_compute. repeat split; try reflexivity; discriminate. Qed.
Example display_contract_example_big : display_contract (ref_display (nb 0x44b52d02c7e14af6)) (nb 0x44b52d02c7e14af6).
Proof. exists "100000000000000000000000", "". vm_compute. repeat split; try reflexivity; discriminate. Qed.
Example prec0_contract_example : prec0_contract (ref_prec0 (nb 0xc014000000000000)) (nb 0xc014000000000000).
Proof. exists "5". vm_compute. repeat split; try reflexivity; discriminate. Qed.
Example prec0_contract_negzero : prec0_contract (ref_prec0 (nb 0x8000000000000000)) (nb 0x8000000000000000).
Proof. exists "0". vm_compute. repeat split; try reflexivity; discriminate. Qed.
(* with the executable references as the library, the whole path computes to x *)
Example source_path_computes :
  map (fun b => read_source ref_str_parse (print_num ref_prec0 ref_display (nb b)))
      [0xbfb999999999999a; 0xc014000000000000; 0x8000000000000000; 0x430c6bf526340000; 0x7fefffffffffffff; 1]
  = map (fun b => Ok (nb b))
      [0xbfb999999999999a; 0xc014000000000000; 0x8000000000000000; 0x430c6bf526340000; 0x7fefffffffffffff; 1].
Proof. vm_compute. reflexivity. Qed.
Example decimal_literal_value_example :   (* 1_0.2_5e-3 is not in the grammar; 1_0.25E-3 is *)
  literal_value ref_str_parse "1_0.25E-3" = Some (rn_decimal false 1025 (-3 - 2)).
Proof.
  apply (decimal_literal_value ref_str_parse "1" "_0.25E-3" "10" "25" (Some (true, EMinus, "3")));
    try reflexivity; try (left; reflexivity); try (split; [reflexivity | discriminate]); try discriminate.
  left; discriminate.
Qed.
Example emission_path_computes :
  map (fun b => (emit_num ref_prec0 ref_display (nb b),
                 read_source ref_str_parse (emit_num ref_prec0 ref_display (nb b))))
      [0xc014000000000000; 0x8000000000000000; 0xbfb999999999999a; 0x3fe0000000000000]
  = [("(-5)", Ok (nb 0xc014000000000000)); ("(-0)", Ok (nb 0x8000000000000000));
     ("(-0.1)", Ok (nb 0xbfb999999999999a)); ("0.5", Ok (nb 0x3fe0000000000000))].
Proof. vm_compute. reflexivity. Qed.
Example literal_examples :
  map (show_presult ref_str_parse) ["0xFF"; "0b1010"; "1_000_000"; "3.14e-2"; ".5"; "-.5e1"; "1e23"; "0x7fff_ffff_ffff_ffff"]
  = ["406fe00000000000"; "4024000000000000"; "412e848000000000"; "3fa013a92a305532";
     "3fe0000000000000"; "c014000000000000"; "44b52d02c7e14af6"; "43e0000000000000"].
Proof. vm_compute. reflexivity. Qed.
Example literal_examples_fixed :
  map (show_presult_rf true ref_str_parse)
      ["0xFF"; "0xFFFFFFFFFFFFFFFF"; "0x20000000000001"; "0x20000000000003"; "-0x1_0000_0000_0000_0000";
       "0x100000000000008000000000000000000000000000000000001"; "0x1000000000000080000000000000000000000000000000000";
       "0x"; "0b102"]
  = ["406fe00000000000"; "43f0000000000000"; "4340000000000000"; "4340000000000002"; "c3f0000000000000";
     "4c70000000000001"; "4bf0000000000000"; "REJECT"; "REJECT"].
Proof. vm_compute. reflexivity. Qed.
