(* C16 — numbers keep their exact value through every textual path.
   Property theorems only; see notes/C16.md. *)
From Coq Require Import ZArith Floats.SpecFloat Bool List String Ascii.
Require Import Blots.Num Blots.Outcome Blots.gen.Builtins Blots.Ast Blots.NumText Blots.proofs.NumText.
Import ListNotations.
Open Scope Z_scope.

(* to_string -> to_number: wherever str::parse::<f64> is correctly rounded on the Display text and
   the Display text denotes x (the two library contracts, pointwise), to_number(to_string(x)) = x *)
Theorem C16_to_string_to_number :
  forall (display : num -> string) (str_parse : string -> option num) (x : num),
    str_parse (display x) = ref_str_parse (display x) ->
    ref_str_parse (display x) = Some x ->
    to_number_str str_parse (to_string_num display x) = Ok x.
Proof. exact to_string_to_number. Qed.
Check C16_to_string_to_number :
  forall (display : num -> string) (str_parse : string -> option num) (x : num),
    str_parse (display x) = ref_str_parse (display x) ->
    ref_str_parse (display x) = Some x ->
    to_number_str str_parse (to_string_num display x) = Ok x.
Print Assumptions C16_to_string_to_number.

Theorem C16_rn_decimal_sign : forall s m e,
  0 <= m -> rn_decimal s m e = with_sign s (rn_decimal false m e).
Proof. exact rn_decimal_sign. Qed.
Check C16_rn_decimal_sign : forall s m e,
  0 <= m -> rn_decimal s m e = with_sign s (rn_decimal false m e).
Print Assumptions C16_rn_decimal_sign.

(* F25: radix literals >= 2^63 are rejected, not valued *)
Theorem C16_radix_literal_ge_2p63_refuted :
  forall sp, literal_value sp "0xFFFFFFFFFFFFFFFF" = None
          /\ parse_numexpr sp "0xFFFFFFFFFFFFFFFF" = PLitErr
          /\ parse_numexpr sp "0x8000000000000000" = PLitErr
          /\ parse_numexpr sp "0b1000000000000000000000000000000000000000000000000000000000000000" = PLitErr.
Proof. exact radix_literal_ge_2p63_refuted. Qed.
Check C16_radix_literal_ge_2p63_refuted :
  forall sp, literal_value sp "0xFFFFFFFFFFFFFFFF" = None
          /\ parse_numexpr sp "0xFFFFFFFFFFFFFFFF" = PLitErr
          /\ parse_numexpr sp "0x8000000000000000" = PLitErr
          /\ parse_numexpr sp "0b1000000000000000000000000000000000000000000000000000000000000000" = PLitErr.
Print Assumptions C16_radix_literal_ge_2p63_refuted.

(* F17: the shipped serde_json number parser is not correctly rounded *)
Theorem C16_json_shipped_refuted :
  let x := num_of_bits 0x37d5c72fb1552d83 in
  is_finite x = true
  /\ json_out ref_ryu x = "1e-39"%string
  /\ ref_str_parse "1e-39" = Some x
  /\ json_in true (json_out ref_ryu x) = Ok x
  /\ json_in false (json_out ref_ryu x) = Ok (num_of_bits 0x37d5c72fb1552d84).
Proof. exact json_shipped_refuted. Qed.
Check C16_json_shipped_refuted :
  let x := num_of_bits 0x37d5c72fb1552d83 in
  is_finite x = true
  /\ json_out ref_ryu x = "1e-39"%string
  /\ ref_str_parse "1e-39" = Some x
  /\ json_in true (json_out ref_ryu x) = Ok x
  /\ json_in false (json_out ref_ryu x) = Ok (num_of_bits 0x37d5c72fb1552d84).
Print Assumptions C16_json_shipped_refuted.
