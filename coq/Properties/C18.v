(* C18 — Runaway recursion ends in a call-depth error, never in a crash.
   What the model can carry: (1) evaluation is a total function — [evalD] is accepted by Coq's
   guard checker by structural recursion on the remaining call-depth budget, with no fuel, so
   every evaluation of the model terminates with a result or a reported error; (2) the depth
   error is the only way the budget shows: any other outcome is independent of the budget, so
   a 'maximum call depth' error means the computation really nests deeper than the limit, and
   recursion that fits completes with its true result; (3) the guard arithmetic (which depth
   is the last admitted one, for plain calls and through built-in callbacks) is pinned by
   evaluated examples that the correspondence re-runs on the real evaluator at the same
   boundary.  What it cannot carry: the size of native stack frames — decided by running the
   release CLI on the recursion grammar (checks/c18.py), labelled partial. *)
From Coq Require Import String List ZArith Bool Lia.
Require Import Blots.Num Blots.gen.Builtins Blots.Ast Blots.Value Blots.Outcome Blots.Binop
               Blots.Env Blots.Eval Blots.BuiltinsHof Blots.Program Blots.EvalInst
               Blots.EvalFull
               Blots.proofs.DepthMono Blots.proofs.InstDepth Blots.proofs.FullInst.
Import ListNotations.
Open Scope string_scope.

(* a result other than the depth error does not depend on the depth budget — for every operator
   and built-in implementation that is monotone in its callback *)
Theorem C18_result_independent_of_budget : forall release bi bu,
  binop_le bi -> builtin_le bu ->
  forall d d' c e, d <= d' -> fst (evalD release bi bu d c e) <> ErrDepth ->
  evalD release bi bu d' c e = evalD release bi bu d c e.
Proof. exact evalD_depth_independent. Qed.
Check C18_result_independent_of_budget : forall release bi bu,
  binop_le bi -> builtin_le bu ->
  forall d d' c e, d <= d' -> fst (evalD release bi bu d c e) <> ErrDepth ->
  evalD release bi bu d' c e = evalD release bi bu d c e.
Print Assumptions C18_result_independent_of_budget.

(* instantiated: with the real limit, an evaluation either reports the depth error or returns
   what ANY larger limit would return (value or other failure, store, bindings) *)
Theorem C18_limit_dichotomy : forall release c e,
  fst (eval_top release binop_impl builtin_impl c e) = ErrDepth \/
  forall d', LIMIT <= d' ->
    evalD release binop_impl builtin_impl d' c e = eval_top release binop_impl builtin_impl c e.
Proof.
  intros release c e.
  destruct (fst (eval_top release binop_impl builtin_impl c e)) eqn:E;
    try (right; intros d' Hd;
         apply (evalD_depth_independent release binop_impl builtin_impl binop_impl_le builtin_impl_le);
         [exact Hd|unfold eval_top in E; rewrite E; discriminate]).
  left; reflexivity.
Qed.
Check C18_limit_dichotomy : forall release c e,
  fst (eval_top release binop_impl builtin_impl c e) = ErrDepth \/
  forall d', LIMIT <= d' ->
    evalD release binop_impl builtin_impl d' c e = eval_top release binop_impl builtin_impl c e.
Print Assumptions C18_limit_dichotomy.

(* conversely the depth error is genuine: if the limit reports it, every smaller budget does *)
Theorem C18_depth_error_is_genuine : forall release c e d,
  d <= LIMIT -> fst (eval_top release binop_impl builtin_impl c e) = ErrDepth ->
  fst (evalD release binop_impl builtin_impl d c e) = ErrDepth.
Proof.
  intros release c e d Hd H.
  destruct (fst (evalD release binop_impl builtin_impl d c e)) eqn:E; try reflexivity;
    (assert (Hn : fst (evalD release binop_impl builtin_impl d c e) <> ErrDepth) by (rewrite E; discriminate);
     pose proof (evalD_depth_independent release binop_impl builtin_impl binop_impl_le builtin_impl_le
                   d LIMIT c e Hd Hn) as Heq;
     unfold eval_top in H; rewrite Heq, E in H; discriminate).
Qed.
Check C18_depth_error_is_genuine : forall release c e d,
  d <= LIMIT -> fst (eval_top release binop_impl builtin_impl c e) = ErrDepth ->
  fst (evalD release binop_impl builtin_impl d c e) = ErrDepth.
Print Assumptions C18_depth_error_is_genuine.

(* FunctionDef::call with no budget left reports the depth error (after the arity check) *)
Theorem C18_guard_fires : forall release bi bu fr this f args st,
  check_arity f (Datatypes.length args) = true ->
  AD release bi bu 0 fr this f args st = (ErrDepth, st).
Proof.
  intros release bi bu fr this f args st Ha. cbn [AD]. unfold apply_at. rewrite Ha. reflexivity.
Qed.
Check C18_guard_fires : forall release bi bu fr this f args st,
  check_arity f (Datatypes.length args) = true ->
  AD release bi bu 0 fr this f args st = (ErrDepth, st).
Print Assumptions C18_guard_fires.

(* ---- the recursion shapes of the property, evaluated in the model ---- *)
Definition num (z : Z) : expr := ENum (num_of_Z z).
Definition last_result (prog : list stmt) : option stmt_result :=
  match rev (snd (run eval_release (init_session []) prog)) with (r, _) :: _ => Some r | [] => None end.
Definition is_depth_error (r : option stmt_result) : bool :=
  match r with Some (RFail ErrDepth) => true | _ => false end.
Definition is_ok_num (r : option stmt_result) (z : Z) : bool :=
  match r with Some (ROk (VNum x)) => neqb x (num_of_Z z) | _ => false end.

(* countdown c(n) = if n <= 0 then 0 else 1 + c(n - 1): nests n+1 calls *)
Definition countdown : stmt :=
  SExpr (EAssign "c" (ELam [AReq "n"]
    (ECond (EBin LessEq (EId "n") (num 0)) (num 0)
           (EBin Add (num 1) (ECall (EId "c") [EBin Subtract (EId "n") (num 1)]))))).
Definition call_c (z : Z) : stmt := SExpr (ECall (EId "c") [num z]).

Example C18_three_hundred_deep_completes : is_ok_num (last_result [countdown; call_c 300]) 300 = true.
Proof. vm_compute. reflexivity. Qed.
(* the exact boundary of the guard `call_depth > 1000`: 1001 nested calls pass, 1002 do not *)
Example C18_boundary_last_admitted : is_ok_num (last_result [countdown; call_c 1000]) 1000 = true.
Proof. vm_compute. reflexivity. Qed.
Example C18_boundary_first_refused : is_depth_error (last_result [countdown; call_c 1001]) = true.
Proof. vm_compute. reflexivity. Qed.

(* runaway shapes: self, mutual, via-callback, map-callback, do-block, nested operators *)
Definition runaway_self : list stmt :=
  [SExpr (EAssign "f" (ELam [AReq "n"] (ECall (EId "f") [EBin Add (EId "n") (num 1)])));
   SExpr (ECall (EId "f") [num 0])].
Definition runaway_mutual : list stmt :=
  [SExpr (EAssign "p" (ELam [AReq "n"] (ECall (EId "q") [EId "n"])));
   SExpr (EAssign "q" (ELam [AReq "n"] (ECall (EId "p") [EId "n"])));
   SExpr (ECall (EId "p") [num 0])].
Definition runaway_via : list stmt :=
  [SExpr (EAssign "f" (ELam [AReq "n"] (EBin Via (EList [Cm [] (EId "n") None]) (EId "f"))));
   SExpr (ECall (EId "f") [num 0])].
Definition runaway_map : list stmt :=
  [SExpr (EAssign "f" (ELam [AReq "n"] (ECall (EBuiltin B_map) [EList [Cm [] (EId "n") None]; EId "f"])));
   SExpr (ECall (EId "f") [num 0])].
Definition runaway_do : list stmt :=
  [SExpr (EAssign "f" (ELam [AReq "n"]
      (EDo [Cm [] (EAssign "m" (EBin Add (EId "n") (num 1))) None] (Cm [] (ECall (EId "f") [EId "m"]) None))));
   SExpr (ECall (EId "f") [num 0])].
Definition runaway_nested_ops : list stmt :=
  [SExpr (EAssign "f" (ELam [AReq "n"]
      (EBin Add (num 1) (EBin Multiply (num 2) (EBin Add (num 3) (EUn Negate
         (ECond (EBool true) (ECall (EId "f") [EId "n"]) (num 0))))))));
   SExpr (ECall (EId "f") [num 0])].
Example C18_runaway_shapes_end_in_depth_error :
  forallb (fun p => is_depth_error (last_result p))
    [runaway_self; runaway_mutual; runaway_via; runaway_map; runaway_do; runaway_nested_ops] = true.
Proof. vm_compute. reflexivity. Qed.

(* ---- the same two theorems for the evaluator with EVERY transcribed built-in (EvalFull.v:
   the aggregate, list, string, record built-ins and sort_by / group_by / count_by).  Their
   premise is FullInst.builtin_full_le: no built-in swallows the depth error of its callback.
   sort_by did before fix 3b066f5 (F35): it read a failing key call as "equal keys", and the
   statement below was false for it. ---- *)
Theorem C18_no_builtin_swallows_the_depth_error : builtin_le builtin_full /\ binop_le binop_impl.
Proof. exact (conj builtin_full_le binop_impl_le). Qed.
Check C18_no_builtin_swallows_the_depth_error : builtin_le builtin_full /\ binop_le binop_impl.
Print Assumptions C18_no_builtin_swallows_the_depth_error.

Theorem C18_limit_dichotomy_full : forall release c e,
  fst (eval_top release binop_impl builtin_full c e) = ErrDepth \/
  forall d', LIMIT <= d' ->
    evalD release binop_impl builtin_full d' c e = eval_top release binop_impl builtin_full c e.
Proof.
  intros release c e.
  destruct (fst (eval_top release binop_impl builtin_full c e)) eqn:E;
    try (right; intros d' Hd;
         apply (evalD_depth_independent release binop_impl builtin_full binop_impl_le builtin_full_le);
         [exact Hd|unfold eval_top in E; rewrite E; discriminate]).
  left; reflexivity.
Qed.
Check C18_limit_dichotomy_full : forall release c e,
  fst (eval_top release binop_impl builtin_full c e) = ErrDepth \/
  forall d', LIMIT <= d' ->
    evalD release binop_impl builtin_full d' c e = eval_top release binop_impl builtin_full c e.
Print Assumptions C18_limit_dichotomy_full.

Theorem C18_depth_error_is_genuine_full : forall release c e d,
  d <= LIMIT -> fst (eval_top release binop_impl builtin_full c e) = ErrDepth ->
  fst (evalD release binop_impl builtin_full d c e) = ErrDepth.
Proof.
  intros release c e d Hd H.
  destruct (fst (evalD release binop_impl builtin_full d c e)) eqn:E; try reflexivity;
    (assert (Hn : fst (evalD release binop_impl builtin_full d c e) <> ErrDepth) by (rewrite E; discriminate);
     pose proof (evalD_depth_independent release binop_impl builtin_full binop_impl_le builtin_full_le
                   d LIMIT c e Hd Hn) as Heq;
     unfold eval_top in H; rewrite Heq, E in H; discriminate).
Qed.
Check C18_depth_error_is_genuine_full : forall release c e d,
  d <= LIMIT -> fst (eval_top release binop_impl builtin_full c e) = ErrDepth ->
  fst (evalD release binop_impl builtin_full d c e) = ErrDepth.
Print Assumptions C18_depth_error_is_genuine_full.

(* runaway recursion through the key function of sort_by / group_by / count_by, two callback
   calls per level (the F35 shape) *)
Definition last_result_full (prog : list stmt) : option stmt_result :=
  match rev (snd (run (eval_full) (init_session []) prog)) with (r, _) :: _ => Some r | [] => None end.
Definition two (a b : expr) : expr := EList [Cm [] a None; Cm [] b None].
Definition runaway_by (b : builtin) : list stmt :=
  [SExpr (EAssign "f" (ELam [AReq "n"]
      (ECall (EBuiltin b) [two (EBin Add (EId "n") (num 1)) (EBin Add (EId "n") (num 2)); EId "f"])));
   SExpr (ECall (EId "f") [num 0])].
Definition runaway_sort_by_lambda : list stmt :=
  [SExpr (EAssign "f" (ELam [AReq "n"]
      (ECall (EBuiltin B_sort_by) [two (num 1) (num 2);
                                   ELam [AReq "x"] (ECall (EId "f") [EBin Add (EId "n") (num 1)])])));
   SExpr (ECall (EId "f") [num 0])].
Example C18_runaway_key_functions_end_in_depth_error :
  forallb (fun p => is_depth_error (last_result_full p))
    [runaway_by B_sort_by; runaway_by B_group_by; runaway_by B_count_by; runaway_by B_map;
     runaway_by B_filter; runaway_by B_every; runaway_by B_some; runaway_sort_by_lambda] = true.
Proof. vm_compute. reflexivity. Qed.

(* ---- the same for the evaluator with EVERY built-in of the table and `^` (EvalAll.v: the 15 library-
   backed built-ins and to_string / join of functions through the oracle record o), for every oracle:
   no arm swallows the depth error of its callback, hence the dichotomy at the limit ---- *)
Require Import Blots.EvalAll Blots.proofs.AllInst.
Theorem C18_no_builtin_swallows_the_depth_error_all : forall o,
  builtin_le (builtin_all o) /\ binop_le (binop_all o).
Proof. exact (fun o => conj (builtin_all_le o) (binop_all_le o)). Qed.
Check C18_no_builtin_swallows_the_depth_error_all : forall o,
  builtin_le (builtin_all o) /\ binop_le (binop_all o).
Print Assumptions C18_no_builtin_swallows_the_depth_error_all.

Theorem C18_limit_dichotomy_all : forall o release c e,
  fst (eval_top release (binop_all o) (builtin_all o) c e) = ErrDepth \/
  forall d', LIMIT <= d' ->
    evalD release (binop_all o) (builtin_all o) d' c e = eval_top release (binop_all o) (builtin_all o) c e.
Proof.
  intros o release c e.
  destruct (fst (eval_top release (binop_all o) (builtin_all o) c e)) eqn:E;
    try (right; intros d' Hd;
         apply (evalD_depth_independent release (binop_all o) (builtin_all o) (binop_all_le o) (builtin_all_le o));
         [exact Hd|unfold eval_top in E; rewrite E; discriminate]).
  left; reflexivity.
Qed.
Check C18_limit_dichotomy_all : forall o release c e,
  fst (eval_top release (binop_all o) (builtin_all o) c e) = ErrDepth \/
  forall d', LIMIT <= d' ->
    evalD release (binop_all o) (builtin_all o) d' c e = eval_top release (binop_all o) (builtin_all o) c e.
Print Assumptions C18_limit_dichotomy_all.

Theorem C18_depth_error_is_genuine_all : forall o release c e d,
  d <= LIMIT -> fst (eval_top release (binop_all o) (builtin_all o) c e) = ErrDepth ->
  fst (evalD release (binop_all o) (builtin_all o) d c e) = ErrDepth.
Proof.
  intros o release c e d Hd H.
  destruct (fst (evalD release (binop_all o) (builtin_all o) d c e)) eqn:E; try reflexivity;
    (assert (Hn : fst (evalD release (binop_all o) (builtin_all o) d c e) <> ErrDepth) by (rewrite E; discriminate);
     pose proof (evalD_depth_independent release (binop_all o) (builtin_all o) (binop_all_le o) (builtin_all_le o)
                   d LIMIT c e Hd Hn) as Heq;
     unfold eval_top in H; rewrite Heq, E in H; discriminate).
Qed.
Check C18_depth_error_is_genuine_all : forall o release c e d,
  d <= LIMIT -> fst (eval_top release (binop_all o) (builtin_all o) c e) = ErrDepth ->
  fst (evalD release (binop_all o) (builtin_all o) d c e) = ErrDepth.
Print Assumptions C18_depth_error_is_genuine_all.
