(* C02 — Evaluation is deterministic and free of side effects on values.
   PARTIAL by nature: (a) determinism across processes / hash seeds / earlier evaluations is a
   property of the running implementation (HashMap iteration order, allocation); every Gallina
   function is deterministic, so what the model contributes is that it consults no unordered
   iteration at all, and the correspondence (run in several processes and with a dirty heap,
   checks/c02.py) shows the implementation equals that function.  (b) "no effect on values" is
   proved: evaluation never alters an existing binding, never alters the scope chain unless the
   expression itself contains an assignment, and the only mutable attribute of an existing
   value (a function cell's name) is write-once.  (c) let-abstraction is kept as a stated Prop
   and decided by search on the implementation. *)
From Coq Require Import String List ZArith Bool.
Require Import Blots.Num Blots.gen.Builtins Blots.Ast Blots.Value Blots.Outcome Blots.Binop
               Blots.Env Blots.Eval Blots.Program Blots.EvalInst
               Blots.proofs.Frames Blots.proofs.StoreMono Blots.proofs.InstMono Blots.proofs.Scoping.
Import ListNotations.
Open Scope string_scope.

(* an expression without a direct assignment leaves the scope chain exactly as it was:
   evaluating it again starts from the same bindings *)
Theorem C02_pure_expression_keeps_scope : forall release bi bu d e c r c',
  no_assign e = true -> evalD release bi bu d c e = (r, c') -> snd c' = snd c.
Proof. exact evalD_pure_frames. Qed.
Check C02_pure_expression_keeps_scope : forall release bi bu d e c r c',
  no_assign e = true -> evalD release bi bu d c e = (r, c') -> snd c' = snd c.
Print Assumptions C02_pure_expression_keeps_scope.

(* no evaluation, pure or not, failing or not, changes the value of an existing binding *)
Theorem C02_existing_values_untouched : forall release bi bu d c e r c' x v,
  evalD release bi bu d c e = (r, c') -> lookup (snd c) x = Some v -> lookup (snd c') x = Some v.
Proof. exact evalD_binding_survives. Qed.
Check C02_existing_values_untouched : forall release bi bu d c e r c' x v,
  evalD release bi bu d c e = (r, c') -> lookup (snd c) x = Some v -> lookup (snd c') x = Some v.
Print Assumptions C02_existing_values_untouched.

(* the store (the only mutable attribute of existing values: function cell names) only grows
   and named cells keep their name *)
Theorem C02_store_only_grows : forall release d c e r c',
  evalD release binop_impl builtin_impl d c e = (r, c') -> store_le (fst c) (fst c').
Proof.
  intros release d.
  exact (evalD_store_le release binop_impl builtin_impl binop_impl_mono builtin_impl_mono d).
Qed.
Check C02_store_only_grows : forall release d c e r c',
  evalD release binop_impl builtin_impl d c e = (r, c') -> store_le (fst c) (fst c').
Print Assumptions C02_store_only_grows.

(* kept, not proved: evaluating a pure expression twice gives equal results; binding a pure,
   successfully evaluating subexpression to a fresh name and using the name in its place gives
   equal results (decided by search on the implementation, checks/c02.py) *)
Definition C02_eval_twice_full : Prop :=
  forall release d c e v1 c1 v2 c2, no_assign e = true ->
    evalD release binop_impl builtin_impl d c e = (Ok v1, c1) ->
    evalD release binop_impl builtin_impl d c1 e = (Ok v2, c2) -> equals v1 v2 = true.
