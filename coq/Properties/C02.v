(* C02 — Evaluation is deterministic and free of side effects on values.
   PARTIAL by nature: (a) determinism across processes / hash seeds / earlier evaluations is a
   property of the running implementation (HashMap iteration order, allocation); every Gallina
   function is deterministic, so what the model contributes is that it consults no unordered
   iteration at all, and the correspondence (run in several processes and with a dirty heap,
   checks/c02.py) shows the implementation equals that function.  (b) "no effect on values" is
   proved: evaluation never alters an existing binding, never alters the scope chain unless the
   expression itself contains an assignment, and the only mutable attribute of an existing
   value (a function cell's name) is write-once.  (c) let-abstraction is kept as a stated Prop
   and decided by search on the implementation. *)
From Coq Require Import String List ZArith Bool.
Require Import Blots.Num Blots.gen.Builtins Blots.Ast Blots.Value Blots.Outcome Blots.Binop
               Blots.Env Blots.Eval Blots.Program Blots.EvalInst
               Blots.proofs.Frames Blots.proofs.StoreMono Blots.proofs.InstMono Blots.proofs.Scoping.
Import ListNotations.
Open Scope string_scope.

(* an expression without a direct assignment leaves the scope chain exactly as it was:
   evaluating it again starts from the same bindings *)
Theorem C02_pure_expression_keeps_scope : forall release bi bu d e c r c',
  no_assign e = true -> evalD release bi bu d c e = (r, c') -> snd c' = snd c.
Proof. exact evalD_pure_frames. Qed.
Check C02_pure_expression_keeps_scope : forall release bi bu d e c r c',
  no_assign e = true -> evalD release bi bu d c e = (r, c') -> snd c' = snd c.
Print Assumptions C02_pure_expression_keeps_scope.

(* no evaluation, pure or not, failing or not, changes the value of an existing binding *)
Theorem C02_existing_values_untouched : forall release bi bu d c e r c' x v,
  evalD release bi bu d c e = (r, c') -> lookup (snd c) x = Some v -> lookup (snd c') x = Some v.
Proof. exact evalD_binding_survives. Qed.
Check C02_existing_values_untouched : forall release bi bu d c e r c' x v,
  evalD release bi bu d c e = (r, c') -> lookup (snd c) x = Some v -> lookup (snd c') x = Some v.
Print Assumptions C02_existing_values_untouched.

(* the store (the only mutable attribute of existing values: function cell names) only grows
   and named cells keep their name *)
Theorem C02_store_only_grows : forall release d c e r c',
  evalD release binop_impl builtin_impl d c e = (r, c') -> store_le (fst c) (fst c').
Proof.
  intros release d.
  exact (evalD_store_le release binop_impl builtin_impl binop_impl_mono builtin_impl_mono d).
Qed.
Check C02_store_only_grows : forall release d c e r c',
  evalD release binop_impl builtin_impl d c e = (r, c') -> store_le (fst c) (fst c').
Print Assumptions C02_store_only_grows.

(* kept, not proved: evaluating a pure expression twice gives equal results; binding a pure,
   successfully evaluating subexpression to a fresh name and using the name in its place gives
   equal results (decided by search on the implementation, checks/c02.py) *)
Definition C02_eval_twice_full : Prop :=
  forall release d c e v1 c1 v2 c2, no_assign e = true ->
    evalD release binop_impl builtin_impl d c e = (Ok v1, c1) ->
    evalD release binop_impl builtin_impl d c1 e = (Ok v2, c2) -> equals v1 v2 = true.

(* ================================================================================================
   Extension round: the "no effect on values" clause at full strength (proofs/C02Ren.v, C02Sim.v,
   C02Ops.v, C02Keep.v, C02Twice.v, C02Let.v).

   [same_up_to_cells v1 v2]: the two values are the same tree except for the indices of function
   cells (erase = rename every index to 0); [osame] lifts it to outcomes (same class; Ok payloads
   related).  Value::equals cannot tell such values apart ([C02_equals_blind_to_cells]).
   [cfg_wf c]: the scope chain mentions only cells that exist.
   [store_keep st st1]: the store grew and every cell of st has in st1 exactly the name (or no name) it had.

   History: on the code as pinned before repo fix F52 an assignment named ANY unnamed lambda it was handed,
   so an expression could name a cell that existed before it (`do { y = fs[0]; .. }`), and evaluating
   [fs[0](1), do { y = fs[0]; return 0 }] twice gave [6, 0] and then an error (known/C02.json F52; the model of
   that code refuted the unconditional statement, lemma C02_eval_twice_unconditional_refuted of the previous
   revision of this file).  The eval-twice theorems then carried the hypothesis [old_names_kept].  With the
   repair (an assignment names a lambda only if evaluating its right-hand side created it; Env.name_if_created,
   Eval.bind_value) evaluation never writes to an existing cell ([C02_old_cells_untouched]) and the hypothesis is
   gone; the old statements are kept as corollaries ([.._names_kept]).
   ================================================================================================ *)
From Coq Require Import Lia.
Require Import Blots.EvalFull.
Require Import Blots.proofs.C02Ren Blots.proofs.C02Sim Blots.proofs.C02Ops Blots.proofs.C02Keep Blots.proofs.C02Twice.

(* STORE-EXTENSION INVARIANCE: for every injective renaming rho of cell indices and stores related by
   it, every expression (assignments included), every depth: the renamed configuration gives the
   renamed outcome and scope chain, and related stores again.  Generic in operators / built-ins that
   commute with renamings ([ops_commute]); EvalInst's do ([C02_ops_commute_evaluator]). *)
Theorem C02_store_extension_invariance : forall release bi bu, ops_commute bi bu ->
  forall rho, (forall a b : nat, rho a = rho b -> a = b) ->
  forall d e sA sB fr r sA' fr',
    sinv rho sA sB -> evalD release bi bu d (sA, fr) e = (r, (sA', fr')) ->
    exists sB', evalD release bi bu d (sB, renFr rho fr) e = (oren rho r, (sB', renFr rho fr')) /\
                sinv rho sA' sB'.
Proof. exact store_extension_invariance. Qed.
Check C02_store_extension_invariance : forall release bi bu, ops_commute bi bu ->
  forall rho, (forall a b : nat, rho a = rho b -> a = b) ->
  forall d e sA sB fr r sA' fr',
    sinv rho sA sB -> evalD release bi bu d (sA, fr) e = (r, (sA', fr')) ->
    exists sB', evalD release bi bu d (sB, renFr rho fr) e = (oren rho r, (sB', renFr rho fr')) /\
                sinv rho sA' sB'.
Print Assumptions C02_store_extension_invariance.

Theorem C02_ops_commute_evaluator : ops_commute binop_impl builtin_impl.
Proof. exact ops_commute_inst. Qed.
Check C02_ops_commute_evaluator : ops_commute binop_impl builtin_impl.
Print Assumptions C02_ops_commute_evaluator.

(* NO EVALUATION WRITES TO A CELL THAT EXISTED BEFORE IT (any expression, assignments and failures included;
   also for the full built-in dispatcher): the heap is append-only in the strict sense *)
Theorem C02_old_cells_untouched : forall release d c e r c',
  evalD release binop_impl builtin_impl d c e = (r, c') -> store_keep (fst c) (fst c').
Proof. exact evalD_store_keep. Qed.
Check C02_old_cells_untouched : forall release d c e r c',
  evalD release binop_impl builtin_impl d c e = (r, c') -> store_keep (fst c) (fst c').
Print Assumptions C02_old_cells_untouched.
Theorem C02_old_cells_untouched_full : forall release d c e r c',
  evalD release binop_impl builtin_full d c e = (r, c') -> store_keep (fst c) (fst c').
Proof. exact evalD_store_keep_full. Qed.
Check C02_old_cells_untouched_full : forall release d c e r c',
  evalD release binop_impl builtin_full d c e = (r, c') -> store_keep (fst c) (fst c').
Print Assumptions C02_old_cells_untouched_full.

(* EVAL-TWICE, exact form: the second outcome is the first with the cells of the first run moved up
   by the number of cells the first run allocated; older cells keep their index *)
Theorem C02_eval_twice_exact : forall release d e st fr r1 st1 fr1,
  no_assign e = true -> frames_lt (length st) fr = true ->
  evalD release binop_impl builtin_impl d (st, fr) e = (r1, (st1, fr1)) ->
  fr1 = fr /\
  exists st2, evalD release binop_impl builtin_impl d (st1, fr) e =
                (oren (shift (length st) (length st1 - length st)) r1, (st2, fr)) /\
              sinv (shift (length st) (length st1 - length st)) st1 st2.
Proof. exact eval_twice_shift_uncond. Qed.
Check C02_eval_twice_exact : forall release d e st fr r1 st1 fr1,
  no_assign e = true -> frames_lt (length st) fr = true ->
  evalD release binop_impl builtin_impl d (st, fr) e = (r1, (st1, fr1)) ->
  fr1 = fr /\
  exists st2, evalD release binop_impl builtin_impl d (st1, fr) e =
                (oren (shift (length st) (length st1 - length st)) r1, (st2, fr)) /\
              sinv (shift (length st) (length st1 - length st)) st1 st2.
Print Assumptions C02_eval_twice_exact.

(* EVAL-TWICE: same outcome class, results equal up to the cells the evaluation itself allocated,
   scope chain untouched both times *)
Theorem C02_eval_twice : forall release d e c r1 c1 r2 c2,
  no_assign e = true -> cfg_wf c = true ->
  evalD release binop_impl builtin_impl d c e = (r1, c1) ->
  evalD release binop_impl builtin_impl d c1 e = (r2, c2) ->
  osame r1 r2 /\ snd c2 = snd c /\ snd c1 = snd c.
Proof. exact eval_twice_inst_uncond. Qed.
Check C02_eval_twice : forall release d e c r1 c1 r2 c2,
  no_assign e = true -> cfg_wf c = true ->
  evalD release binop_impl builtin_impl d c e = (r1, c1) ->
  evalD release binop_impl builtin_impl d c1 e = (r2, c2) ->
  osame r1 r2 /\ snd c2 = snd c /\ snd c1 = snd c.
Print Assumptions C02_eval_twice.

(* in terms of the language's own equality: the second result equals the first exactly when the
   first equals itself (it does not when it holds a NaN: `.==` is IEEE on numbers) *)
Theorem C02_eval_twice_equals : forall release d e c v1 c1 v2 c2,
  no_assign e = true -> cfg_wf c = true ->
  evalD release binop_impl builtin_impl d c e = (Ok v1, c1) ->
  evalD release binop_impl builtin_impl d c1 e = (Ok v2, c2) ->
  equals v1 v2 = equals v1 v1.
Proof. exact eval_twice_equals_uncond. Qed.
Check C02_eval_twice_equals : forall release d e c v1 c1 v2 c2,
  no_assign e = true -> cfg_wf c = true ->
  evalD release binop_impl builtin_impl d c e = (Ok v1, c1) ->
  evalD release binop_impl builtin_impl d c1 e = (Ok v2, c2) ->
  equals v1 v2 = equals v1 v1.
Print Assumptions C02_eval_twice_equals.

(* the same for the evaluator with EVERY transcribed built-in, relative to the one hypothesis still kept as a
   Prop for it ([C02_ops_commute_full] below); the naming side condition is discharged there too *)
Theorem C02_eval_twice_full_dispatcher : ops_commute binop_impl builtin_full ->
  forall release d e c r1 c1 r2 c2,
  no_assign e = true -> cfg_wf c = true ->
  evalD release binop_impl builtin_full d c e = (r1, c1) ->
  evalD release binop_impl builtin_full d c1 e = (r2, c2) ->
  osame r1 r2 /\ snd c2 = snd c /\ snd c1 = snd c.
Proof. exact eval_twice_full_dispatcher. Qed.
Check C02_eval_twice_full_dispatcher : ops_commute binop_impl builtin_full ->
  forall release d e c r1 c1 r2 c2,
  no_assign e = true -> cfg_wf c = true ->
  evalD release binop_impl builtin_full d c e = (r1, c1) ->
  evalD release binop_impl builtin_full d c1 e = (r2, c2) ->
  osame r1 r2 /\ snd c2 = snd c /\ snd c1 = snd c.
Print Assumptions C02_eval_twice_full_dispatcher.

(* the statements of the previous revision (hypothesis old_names_kept / all_named), now corollaries *)
Corollary C02_eval_twice_names_kept : forall release d e c r1 c1 r2 c2,
  no_assign e = true -> cfg_wf c = true ->
  evalD release binop_impl builtin_impl d c e = (r1, c1) -> old_names_kept (fst c) (fst c1) ->
  evalD release binop_impl builtin_impl d c1 e = (r2, c2) ->
  osame r1 r2 /\ snd c2 = snd c /\ snd c1 = snd c.
Proof. intros release d e c r1 c1 r2 c2 Hna Hwf HA _ HB. exact (C02_eval_twice release d e c r1 c1 r2 c2 Hna Hwf HA HB). Qed.
Corollary C02_eval_twice_all_named : forall release d e c r1 c1 r2 c2,
  no_assign e = true -> cfg_wf c = true -> all_named (fst c) ->
  evalD release binop_impl builtin_impl d c e = (r1, c1) ->
  evalD release binop_impl builtin_impl d c1 e = (r2, c2) ->
  osame r1 r2 /\ snd c2 = snd c /\ snd c1 = snd c.
Proof. intros release d e c r1 c1 r2 c2 Hna Hwf _ HA HB. exact (C02_eval_twice release d e c r1 c1 r2 c2 Hna Hwf HA HB). Qed.
Corollary C02_eval_twice_equals_names_kept : forall release d e c v1 c1 v2 c2,
  no_assign e = true -> cfg_wf c = true ->
  evalD release binop_impl builtin_impl d c e = (Ok v1, c1) -> old_names_kept (fst c) (fst c1) ->
  evalD release binop_impl builtin_impl d c1 e = (Ok v2, c2) ->
  equals v1 v2 = equals v1 v1.
Proof. intros release d e c v1 c1 v2 c2 Hna Hwf HA _ HB. exact (C02_eval_twice_equals release d e c v1 c1 v2 c2 Hna Hwf HA HB). Qed.

Theorem C02_equals_blind_to_cells : forall rho1 rho2 a b, equals (ren rho1 a) (ren rho2 b) = equals a b.
Proof. exact equals_ren2. Qed.
Check C02_equals_blind_to_cells : forall rho1 rho2 a b, equals (ren rho1 a) (ren rho2 b) = equals a b.
Print Assumptions C02_equals_blind_to_cells.

(* ---- the statement kept above as [C02_eval_twice_full] is false as written: a NaN result is not
   `equals` to itself (the right statement is C02_eval_twice / C02_eval_twice_equals) ---- *)
Lemma C02_eval_twice_full_refuted : ~ C02_eval_twice_full.
Proof.
  intros H.
  specialize (H true 0 ([], [(FOwned, [])]) (ENum nnan) (VNum nnan) ([], [(FOwned, [])])
                (VNum nnan) ([], [(FOwned, [])]) eq_refl eq_refl eq_refl).
  vm_compute in H. discriminate H.
Qed.

(* ---- finding F52, repaired: after `fs = [x => x + y]; y = 5`, the expression
       [fs[0](1), do { y = fs[0]; return 0 }]
   used to succeed the first time and fail the second time (the do-block named the cell of fs[0] "y"; a named
   function is bound to its own name when called, which shadowed the y its body found in the caller's chain).
   With the repaired rule the cell stays anonymous and both evaluations give [6, 0]. ---- *)
Definition F52_lam : value := VLam 0 [AReq "x"] (EBin Add (EId "x") (EId "y")) [].
Definition F52_cfg : cfg := ([None], [(FOwned, [("y", VNum (num_of_Z 5)); ("fs", VList [F52_lam])])]).
Definition F52_expr : expr :=
  EList [Cm [] (ECall (EAccess (EId "fs") (ENum (num_of_Z 0))) [ENum (num_of_Z 1)]) None;
         Cm [] (EDo [Cm [] (EAssign "y" (EAccess (EId "fs") (ENum (num_of_Z 0)))) None]
                    (Cm [] (ENum (num_of_Z 0)) None)) None].
Example C02_F52_repaired :
  let r1 := evalD true binop_impl builtin_impl 3 F52_cfg F52_expr in
  let r2 := evalD true binop_impl builtin_impl 3 (snd r1) F52_expr in
  no_assign F52_expr = true /\ cfg_wf F52_cfg = true /\
  fst r1 = Ok (VList [VNum (num_of_Z 6); VNum (num_of_Z 0)]) /\ fst r2 = fst r1 /\
  lam_name (fst F52_cfg) 0 = None /\ lam_name (fst (snd r1)) 0 = None.
Proof. vm_compute. repeat split. Qed.

(* ---- the hypotheses are satisfiable on non-trivial programs ---- *)
(* scope: f = n => n + 1 (named cell 0), l = [1, 2]; expression: [map(l, f), k => f(k), l via (z => z)] —
   allocates two cells, calls a named function through a built-in and through `via` *)
Definition ex_f : value := VLam 0 [AReq "n"] (EBin Add (EId "n") (ENum (num_of_Z 1))) [].
Definition ex_cfg : cfg :=
  ([Some "f"], [(FOwned, [("l", VList [VNum (num_of_Z 1); VNum (num_of_Z 2)]); ("f", ex_f)])]).
Definition ex_expr : expr :=
  EList [Cm [] (ECall (EBuiltin B_map) [EId "l"; EId "f"]) None;
         Cm [] (ELam [AReq "k"] (ECall (EId "f") [EId "k"])) None;
         Cm [] (EBin Via (EId "l") (ELam [AReq "z"] (EId "z"))) None].
Example C02_eval_twice_example :
  no_assign ex_expr = true /\ cfg_wf ex_cfg = true /\
  let r1 := evalD true binop_impl builtin_impl 5 ex_cfg ex_expr in
  let r2 := evalD true binop_impl builtin_impl 5 (snd r1) ex_expr in
  is_ok (fst r1) = true /\ length (fst (snd r1)) = 3 /\ length (fst (snd r2)) = 5 /\
  fst r1 <> fst r2 /\ osame (fst r1) (fst r2).
Proof.
  split; [reflexivity|split; [reflexivity|]].
  vm_compute. repeat split. intros H; discriminate H.
Qed.

(* ---- LET-ABSTRACTION (proofs/C02Let.v) ----
   In a configuration where x holds the cell-free value v that s evaluates to (the state after `x = s`),
   C[x] and C[s] give the same outcome for every HEAD context C (the occurrence is the first thing the
   context evaluates apart from literals / identifiers; once; not under a lambda or do-block):
   x + e, t + x, x[e], x.f, -x, if x then .. else .., f(x, ..), [x, ..], output x, and nestings.
   PARTIAL: the statement for arbitrary positions and several occurrences is kept as the Prop
   [C02_let_abstraction_full]; what is missing is said in proofs/C02Let.v and notes/C02.md. *)
Require Import Blots.proofs.C02Let.
Theorem C02_let_abstraction_head_partial : forall release d x s st st1 fr v eA eB rA cA rB cB,
  frames_lt (length st) fr = true ->
  evalD release binop_impl builtin_impl d (st, fr) (EId x) = (Ok v, (st, fr)) ->
  evalD release binop_impl builtin_impl d (st, fr) s = (Ok v, (st1, fr)) ->
  cell_free v = true ->
  hctx x s eA eB ->
  evalD release binop_impl builtin_impl d (st, fr) eA = (rA, cA) ->
  evalD release binop_impl builtin_impl d (st, fr) eB = (rB, cB) ->
  osame rA rB.
Proof. exact let_abstraction_head_uncond. Qed.
Check C02_let_abstraction_head_partial : forall release d x s st st1 fr v eA eB rA cA rB cB,
  frames_lt (length st) fr = true ->
  evalD release binop_impl builtin_impl d (st, fr) (EId x) = (Ok v, (st, fr)) ->
  evalD release binop_impl builtin_impl d (st, fr) s = (Ok v, (st1, fr)) ->
  cell_free v = true ->
  hctx x s eA eB ->
  evalD release binop_impl builtin_impl d (st, fr) eA = (rA, cA) ->
  evalD release binop_impl builtin_impl d (st, fr) eB = (rB, cB) ->
  osame rA rB.
Print Assumptions C02_let_abstraction_head_partial.

Definition C02_let_abstraction_full : Prop := let_abstraction_full_stmt.

(* kept, not proved: the operator / built-in hypothesis for the FULL built-in dispatcher (EvalFull.v);
   every theorem above that is generic in [ops_commute] holds for it as soon as this does *)
Definition C02_ops_commute_full : Prop := ops_commute binop_impl builtin_full.

(* the hypotheses of the let-abstraction theorem on a non-trivial program:
   scope t = [3, 4], x = [4, 5] (the value of  t + 1); s = t + 1;  C = f(□, 2)[0] with f = (a, b) => a * b *)
Definition lx_f : value := VLam 0 [AReq "a"; AReq "b"] (EBin Multiply (EId "a") (EId "b")) [].
Definition lx_st : store := [Some "f"].
Definition lx_fr : frames :=
  [(FOwned, [("x", VList [VNum (num_of_Z 4); VNum (num_of_Z 5)]);
             ("t", VList [VNum (num_of_Z 3); VNum (num_of_Z 4)]); ("f", lx_f)])].
Definition lx_s : expr := EBin Add (EId "t") (ENum (num_of_Z 1)).
Definition lx_C (h : expr) : expr := EAccess (ECall (EId "f") [h; ENum (num_of_Z 2)]) (ENum (num_of_Z 0)).
Example C02_let_abstraction_example :
  hctx "x" lx_s (lx_C (EId "x")) (lx_C lx_s) /\
  frames_lt (length lx_st) lx_fr = true /\
  evalD true binop_impl builtin_impl 4 (lx_st, lx_fr) (EId "x") =
    (Ok (VList [VNum (num_of_Z 4); VNum (num_of_Z 5)]), (lx_st, lx_fr)) /\
  evalD true binop_impl builtin_impl 4 (lx_st, lx_fr) lx_s =
    (Ok (VList [VNum (num_of_Z 4); VNum (num_of_Z 5)]), (lx_st, lx_fr)) /\
  cell_free (VList [VNum (num_of_Z 4); VNum (num_of_Z 5)]) = true /\
  fst (evalD true binop_impl builtin_impl 4 (lx_st, lx_fr) (lx_C lx_s)) = Ok (VNum (num_of_Z 8)).
Proof.
  split; [unfold lx_C; apply H_accl; apply H_call; [exact I|apply H_hole]|].
  vm_compute. repeat split.
Qed.

(* ================================================================================================
   REL round: the operator / built-in hypothesis for the FULL dispatcher is PROVED
   (proofs/RelPure.v: every pure arm of EvalFull.builtin_full and sort_by / group_by / count_by respect
   any structural value relation; proofs/C02OpsFull.v: the instance "renamed by rho" + store invariant).
   unique / includes are included: Value::equals is blind to cell indices.  Hence the generic theorems
   above hold for the evaluator the EVAL correspondence streams actually run (EvalFull.eval_full).
   ================================================================================================ *)
Require Import Blots.proofs.C02OpsFull.

Theorem C02_ops_commute_full_proved : C02_ops_commute_full.
Proof. exact ops_commute_full. Qed.
Check C02_ops_commute_full_proved : ops_commute binop_impl builtin_full.
Print Assumptions C02_ops_commute_full_proved.

Theorem C02_store_extension_invariance_full : forall release rho, (forall a b : nat, rho a = rho b -> a = b) ->
  forall d e sA sB fr r sA' fr',
    sinv rho sA sB -> evalD release binop_impl builtin_full d (sA, fr) e = (r, (sA', fr')) ->
    exists sB', evalD release binop_impl builtin_full d (sB, renFr rho fr) e = (oren rho r, (sB', renFr rho fr')) /\
                sinv rho sA' sB'.
Proof. exact store_extension_invariance_full. Qed.
Check C02_store_extension_invariance_full : forall release rho, (forall a b : nat, rho a = rho b -> a = b) ->
  forall d e sA sB fr r sA' fr',
    sinv rho sA sB -> evalD release binop_impl builtin_full d (sA, fr) e = (r, (sA', fr')) ->
    exists sB', evalD release binop_impl builtin_full d (sB, renFr rho fr) e = (oren rho r, (sB', renFr rho fr')) /\
                sinv rho sA' sB'.
Print Assumptions C02_store_extension_invariance_full.

(* with the repaired naming rule (F52) there is no side condition on names: [C02_eval_twice_full_dispatcher]
   above, with its hypothesis discharged *)
Theorem C02_eval_twice_exact_full : forall release d e st fr r1 st1 fr1,
  no_assign e = true -> frames_lt (length st) fr = true ->
  evalD release binop_impl builtin_full d (st, fr) e = (r1, (st1, fr1)) ->
  fr1 = fr /\
  exists st2, evalD release binop_impl builtin_full d (st1, fr) e =
                (oren (shift (length st) (length st1 - length st)) r1, (st2, fr)) /\
              sinv (shift (length st) (length st1 - length st)) st1 st2.
Proof. exact eval_twice_exact_full. Qed.
Check C02_eval_twice_exact_full : forall release d e st fr r1 st1 fr1,
  no_assign e = true -> frames_lt (length st) fr = true ->
  evalD release binop_impl builtin_full d (st, fr) e = (r1, (st1, fr1)) ->
  fr1 = fr /\
  exists st2, evalD release binop_impl builtin_full d (st1, fr) e =
                (oren (shift (length st) (length st1 - length st)) r1, (st2, fr)) /\
              sinv (shift (length st) (length st1 - length st)) st1 st2.
Print Assumptions C02_eval_twice_exact_full.

Theorem C02_eval_twice_fullbi : forall release d e c r1 c1 r2 c2,
  no_assign e = true -> cfg_wf c = true ->
  evalD release binop_impl builtin_full d c e = (r1, c1) ->
  evalD release binop_impl builtin_full d c1 e = (r2, c2) ->
  osame r1 r2 /\ snd c2 = snd c /\ snd c1 = snd c.
Proof. exact eval_twice_full. Qed.
Check C02_eval_twice_fullbi : forall release d e c r1 c1 r2 c2,
  no_assign e = true -> cfg_wf c = true ->
  evalD release binop_impl builtin_full d c e = (r1, c1) ->
  evalD release binop_impl builtin_full d c1 e = (r2, c2) ->
  osame r1 r2 /\ snd c2 = snd c /\ snd c1 = snd c.
Print Assumptions C02_eval_twice_fullbi.

Theorem C02_eval_twice_equals_fullbi : forall release d e c v1 c1 v2 c2,
  no_assign e = true -> cfg_wf c = true ->
  evalD release binop_impl builtin_full d c e = (Ok v1, c1) ->
  evalD release binop_impl builtin_full d c1 e = (Ok v2, c2) ->
  equals v1 v2 = equals v1 v1.
Proof. exact eval_twice_full_equals. Qed.
Check C02_eval_twice_equals_fullbi : forall release d e c v1 c1 v2 c2,
  no_assign e = true -> cfg_wf c = true ->
  evalD release binop_impl builtin_full d c e = (Ok v1, c1) ->
  evalD release binop_impl builtin_full d c1 e = (Ok v2, c2) ->
  equals v1 v2 = equals v1 v1.
Print Assumptions C02_eval_twice_equals_fullbi.

Theorem C02_let_abstraction_head_partial_fullbi : forall release d x s st st1 fr v eA eB rA cA rB cB,
  frames_lt (length st) fr = true ->
  evalD release binop_impl builtin_full d (st, fr) (EId x) = (Ok v, (st, fr)) ->
  evalD release binop_impl builtin_full d (st, fr) s = (Ok v, (st1, fr)) ->
  cell_free v = true ->
  hctx x s eA eB ->
  evalD release binop_impl builtin_full d (st, fr) eA = (rA, cA) ->
  evalD release binop_impl builtin_full d (st, fr) eB = (rB, cB) ->
  osame rA rB.
Proof. exact let_abstraction_head_full. Qed.
Check C02_let_abstraction_head_partial_fullbi : forall release d x s st st1 fr v eA eB rA cA rB cB,
  frames_lt (length st) fr = true ->
  evalD release binop_impl builtin_full d (st, fr) (EId x) = (Ok v, (st, fr)) ->
  evalD release binop_impl builtin_full d (st, fr) s = (Ok v, (st1, fr)) ->
  cell_free v = true ->
  hctx x s eA eB ->
  evalD release binop_impl builtin_full d (st, fr) eA = (rA, cA) ->
  evalD release binop_impl builtin_full d (st, fr) eB = (rB, cB) ->
  osame rA rB.
Print Assumptions C02_let_abstraction_head_partial_fullbi.

(* the hypotheses are satisfiable on a program that uses the newly covered built-ins: sort_by with a fresh
   closure as key function, unique over a list holding function values, sum, group_by through a named function *)
Definition exf_cfg : cfg :=
  ([Some "f"], [(FOwned, [("l", VList [VNum (num_of_Z 3); VNum (num_of_Z 1); VNum (num_of_Z 3)]); ("f", ex_f)])]).
Definition exf_expr : expr :=
  EList [Cm [] (ECall (EBuiltin B_sort_by) [EId "l"; ELam [AReq "k"] (EUn Negate (EId "k"))]) None;
         Cm [] (ECall (EBuiltin B_unique) [EList [Cm [] (EId "f") None; Cm [] (ELam [AReq "z"] (EId "z")) None;
                                                  Cm [] (EId "f") None]]) None;
         Cm [] (ECall (EBuiltin B_sum) [ECall (EBuiltin B_map) [EId "l"; EId "f"]]) None;
         Cm [] (ECall (EBuiltin B_group_by) [EId "l"; ELam [AReq "k"] (ECall (EBuiltin B_to_string) [EId "k"])]) None].
Example C02_eval_twice_fullbi_example :
  no_assign exf_expr = true /\ cfg_wf exf_cfg = true /\ all_named (fst exf_cfg) /\
  let r1 := evalD true binop_impl builtin_full 6 exf_cfg exf_expr in
  let r2 := evalD true binop_impl builtin_full 6 (snd r1) exf_expr in
  is_ok (fst r1) = true /\ length (fst (snd r1)) = 4 /\ length (fst (snd r2)) = 7 /\
  fst r1 <> fst r2 /\ osame (fst r1) (fst r2).
Proof.
  split; [reflexivity|split; [reflexivity|split]].
  - intros [|id] Hid; [discriminate|cbn in Hid; lia].
  - vm_compute. repeat split. intros H; discriminate H.
Qed.

(* No pure built-in observes the IDENTITY of a function cell (proofs/C02Blind.v; a third instance of
   RelPure.v): argument vectors that are equal after erasing every cell index — which includes
   [f0, f0] versus [f0, f1], a pair no renaming relates — give outcomes equal up to cell indices, for each of
   the 32 pure arms of EvalFull.builtin_full (RelPure.pure_arm_of: aggregates, list / string / record
   built-ins incl. unique includes sort, convert round random to_number to_string join). *)
Require Import Blots.proofs.RelPure Blots.proofs.C02Blind.
Theorem C02_pure_builtins_blind_to_cells : forall b f, pure_arm_of b = Some f ->
  forall args args', Forall2 same_up_to_cells args args' -> osame (f args) (f args').
Proof. exact pure_builtins_blind_to_cells. Qed.
Check C02_pure_builtins_blind_to_cells : forall b f, pure_arm_of b = Some f ->
  forall args args', Forall2 same_up_to_cells args args' -> osame (f args) (f args').
Print Assumptions C02_pure_builtins_blind_to_cells.
Example C02_pure_arm_table_size :
  length (filter (fun b => match pure_arm_of b with Some _ => true | None => false end) all_builtins) = 32.
Proof. vm_compute. reflexivity. Qed.

(* The classification of the built-in arms that the parametricity proofs rest on (RelTable.v: which arms apply
   Value::equals, which apply Value::compare, which call a function value) agrees with the SOURCE TEXT of
   BuiltInFunction::call (coq/gen/ArmObservers.v, regenerated from blots-core/src/functions.rs on every run;
   exhaustive over the regenerated built-in table), and every arm outside [calls_back] ignores its callback in the model. *)
Require Import Blots.gen.ArmObservers Blots.RelTable.
Theorem C02_arm_observers_match_source : forall b,
  src_applies_equals b = equals_based b /\ src_applies_compare b = compare_based b /\
  src_calls_function b = calls_back b.
Proof. destruct b; repeat split. Qed.
Check C02_arm_observers_match_source : forall b,
  src_applies_equals b = equals_based b /\ src_applies_compare b = compare_based b /\
  src_calls_function b = calls_back b.
Print Assumptions C02_arm_observers_match_source.
Theorem C02_other_arms_ignore_callback : forall b, src_calls_function b = false ->
  forall cb cb' args st, builtin_full cb b args st = builtin_full cb' b args st.
Proof.
  intros b H. apply builtin_full_ignores_callback. destruct (C02_arm_observers_match_source b) as (_ & _ & E).
  rewrite <- E. exact H.
Qed.
Check C02_other_arms_ignore_callback : forall b, src_calls_function b = false ->
  forall cb cb' args st, builtin_full cb b args st = builtin_full cb' b args st.
Print Assumptions C02_other_arms_ignore_callback.

(* ================================================================================================
   LET round (proofs/C02Wf.v): WELL-FORMEDNESS IS AN INVARIANT.  [cfg_wf] (the scope chain mentions
   existing function cells only) was a hypothesis on the starting configuration of the eval-twice /
   let-abstraction theorems.  It is preserved by every evaluation (all expression forms, FunctionDef::call,
   every depth), every result mentions existing cells only and the store never shrinks — for every
   operator / built-in implementation that creates no dangling cell ([ops_wf], discharged for binop_impl,
   builtin_impl, builtin_full) — hence it holds after ANY statement sequence from the initial
   configuration, and eval-twice holds there without any hypothesis on the configuration.
   ================================================================================================ *)
Require Import Blots.proofs.C02Wf.

Theorem C02_cfg_wf_preserved_generic : forall release bi bu, ops_wf bi bu ->
  forall d e c, wfc c ->
    let x := evalD release bi bu d c e in
    length (fst c) <= length (fst (snd x)) /\ wfc (snd x) /\
    (forall v, fst x = Ok v -> ids_lt (length (fst (snd x))) v = true).
Proof. intros release bi bu [H1 H2] d e c Hc. exact (evalD_wf release bi bu H1 H2 d e c Hc). Qed.
Check C02_cfg_wf_preserved_generic : forall release bi bu, ops_wf bi bu ->
  forall d e c, wfc c ->
    let x := evalD release bi bu d c e in
    length (fst c) <= length (fst (snd x)) /\ wfc (snd x) /\
    (forall v, fst x = Ok v -> ids_lt (length (fst (snd x))) v = true).
Print Assumptions C02_cfg_wf_preserved_generic.

Theorem C02_ops_create_no_dangling_cell : ops_wf binop_impl builtin_impl /\ ops_wf binop_impl builtin_full.
Proof. split; [exact ops_wf_inst|exact ops_wf_full]. Qed.
Check C02_ops_create_no_dangling_cell : ops_wf binop_impl builtin_impl /\ ops_wf binop_impl builtin_full.
Print Assumptions C02_ops_create_no_dangling_cell.

Theorem C02_cfg_wf_preserved : forall release d e c r c',
  cfg_wf c = true -> evalD release binop_impl builtin_impl d c e = (r, c') ->
  cfg_wf c' = true /\ length (fst c) <= length (fst c') /\ (forall v, r = Ok v -> ids_lt (length (fst c')) v = true).
Proof. exact evalD_cfg_wf. Qed.
Check C02_cfg_wf_preserved : forall release d e c r c',
  cfg_wf c = true -> evalD release binop_impl builtin_impl d c e = (r, c') ->
  cfg_wf c' = true /\ length (fst c) <= length (fst c') /\ (forall v, r = Ok v -> ids_lt (length (fst c')) v = true).
Print Assumptions C02_cfg_wf_preserved.

Theorem C02_cfg_wf_preserved_fullbi : forall release d e c r c',
  cfg_wf c = true -> evalD release binop_impl builtin_full d c e = (r, c') ->
  cfg_wf c' = true /\ length (fst c) <= length (fst c') /\ (forall v, r = Ok v -> ids_lt (length (fst c')) v = true).
Proof. exact evalD_cfg_wf_full. Qed.
Check C02_cfg_wf_preserved_fullbi : forall release d e c r c',
  cfg_wf c = true -> evalD release binop_impl builtin_full d c e = (r, c') ->
  cfg_wf c' = true /\ length (fst c) <= length (fst c') /\ (forall v, r = Ok v -> ids_lt (length (fst c')) v = true).
Print Assumptions C02_cfg_wf_preserved_fullbi.

(* after any program (CLI loop: stops at the first failing statement) and after every statement of a session
   (failures included), from the initial configuration with function-free inputs *)
Theorem C02_cfg_wf_after_any_program : forall release d0 inputs prog,
  frame_lt 0 inputs = true ->
  cfg_wf (s_cfg (fst (run (evalD release binop_impl builtin_full d0) (init_session inputs) prog))) = true /\
  forall stop, Forall (fun rc => cfg_wf (snd rc) = true)
                      (run_trace (evalD release binop_impl builtin_full d0) stop (init_session inputs) prog).
Proof.
  intros release d0 inputs prog Hi. split; [exact (program_cfg_wf_full release d0 inputs prog Hi)|].
  intros stop. exact (session_cfg_wf_full release d0 stop inputs prog Hi).
Qed.
Check C02_cfg_wf_after_any_program : forall release d0 inputs prog,
  frame_lt 0 inputs = true ->
  cfg_wf (s_cfg (fst (run (evalD release binop_impl builtin_full d0) (init_session inputs) prog))) = true /\
  forall stop, Forall (fun rc => cfg_wf (snd rc) = true)
                      (run_trace (evalD release binop_impl builtin_full d0) stop (init_session inputs) prog).
Print Assumptions C02_cfg_wf_after_any_program.

Theorem C02_eval_twice_after_any_program : forall release d0 d inputs prog e r1 c1 r2 c2,
  frame_lt 0 inputs = true -> no_assign e = true ->
  let c := s_cfg (fst (run (evalD release binop_impl builtin_impl d0) (init_session inputs) prog)) in
  evalD release binop_impl builtin_impl d c e = (r1, c1) ->
  evalD release binop_impl builtin_impl d c1 e = (r2, c2) ->
  osame r1 r2 /\ snd c2 = snd c /\ snd c1 = snd c.
Proof. exact eval_twice_after_any_program. Qed.
Check C02_eval_twice_after_any_program : forall release d0 d inputs prog e r1 c1 r2 c2,
  frame_lt 0 inputs = true -> no_assign e = true ->
  let c := s_cfg (fst (run (evalD release binop_impl builtin_impl d0) (init_session inputs) prog)) in
  evalD release binop_impl builtin_impl d c e = (r1, c1) ->
  evalD release binop_impl builtin_impl d c1 e = (r2, c2) ->
  osame r1 r2 /\ snd c2 = snd c /\ snd c1 = snd c.
Print Assumptions C02_eval_twice_after_any_program.

Theorem C02_eval_twice_after_any_program_fullbi : forall release d0 d inputs prog e r1 c1 r2 c2,
  frame_lt 0 inputs = true -> no_assign e = true ->
  let c := s_cfg (fst (run (evalD release binop_impl builtin_full d0) (init_session inputs) prog)) in
  evalD release binop_impl builtin_full d c e = (r1, c1) ->
  evalD release binop_impl builtin_full d c1 e = (r2, c2) ->
  osame r1 r2 /\ snd c2 = snd c /\ snd c1 = snd c.
Proof. exact eval_twice_after_any_program_full. Qed.
Check C02_eval_twice_after_any_program_fullbi : forall release d0 d inputs prog e r1 c1 r2 c2,
  frame_lt 0 inputs = true -> no_assign e = true ->
  let c := s_cfg (fst (run (evalD release binop_impl builtin_full d0) (init_session inputs) prog)) in
  evalD release binop_impl builtin_full d c e = (r1, c1) ->
  evalD release binop_impl builtin_full d c1 e = (r2, c2) ->
  osame r1 r2 /\ snd c2 = snd c /\ snd c1 = snd c.
Print Assumptions C02_eval_twice_after_any_program_fullbi.

(* a program that creates named and anonymous closures (one of them inside a do-block, one through map), then an
   assignment-free expression evaluated twice after it: 3 cells after the program, 2 more per evaluation *)
Definition wfx_prog : list stmt :=
  [SExpr (EAssign "k" (ENum (num_of_Z 2)));
   SExpr (EAssign "f" (ELam [AReq "a"] (EBin Multiply (EId "a") (EId "k"))));
   SExpr (EAssign "gs" (EList [Cm [] (ELam [AReq "b"] (ECall (EId "f") [EId "b"])) None;
                               Cm [] (EDo [Cm [] (EAssign "h" (ELam [AReq "c"] (EId "c"))) None]
                                          (Cm [] (EId "h") None)) None]))].
Definition wfx_expr : expr :=
  EList [Cm [] (ECall (EBuiltin B_map) [EList [Cm [] (ENum (num_of_Z 1)) None]; EAccess (EId "gs") (ENum (num_of_Z 0))]) None;
         Cm [] (ELam [AReq "z"] (ECall (EId "f") [EId "z"])) None;
         Cm [] (ECall (EBuiltin B_sort_by) [EList [Cm [] (ENum (num_of_Z 3)) None; Cm [] (ENum (num_of_Z 1)) None];
                                            ELam [AReq "q"] (EUn Negate (EId "q"))]) None].
Example C02_eval_twice_after_program_example :
  let c := s_cfg (fst (run (evalD true binop_impl builtin_full 8) (init_session []) wfx_prog)) in
  let r1 := evalD true binop_impl builtin_full 8 c wfx_expr in
  let r2 := evalD true binop_impl builtin_full 8 (snd r1) wfx_expr in
  no_assign wfx_expr = true /\ length (fst c) = 3 /\ cfg_wf c = true /\
  is_ok (fst r1) = true /\ length (fst (snd r1)) = 5 /\ length (fst (snd r2)) = 7 /\
  fst r1 <> fst r2 /\ osame (fst r1) (fst r2).
Proof. vm_compute. repeat split. intros H; discriminate H. Qed.

(* ================================================================================================
   LET round, second part (proofs/C02LetGen.v): LET-ABSTRACTION BEYOND HEAD CONTEXTS.
   Same setting as C02_let_abstraction_head_partial (x holds the cell-free value v that s evaluates to), but
   the occurrence may come AFTER arbitrary assignment-free siblings (which may allocate cells, call functions,
   fail), inside any call argument / list item / right operand / index, in the callee, and inside a
   conditional branch that is taken or not taken ([sctx]; every head context is one: C02_hctx_is_sctx).
   Uses the invariant of the first part (intermediate values mention existing cells only) and a renaming chosen
   at the occurrence.  PARTIAL with respect to [C02_let_abstraction_full] (several occurrences; lambdas /
   do-blocks) and to the two-statement formulation [C02_let_program_full] (needs [C02_weakening_full]).
   ================================================================================================ *)
Require Import Blots.proofs.C02LetGen.

Theorem C02_let_abstraction_seq_partial : forall release d x s st st1 fr v eA eB rA cA rB cB,
  frames_lt (length st) fr = true ->
  evalD release binop_impl builtin_impl d (st, fr) (EId x) = (Ok v, (st, fr)) ->
  evalD release binop_impl builtin_impl d (st, fr) s = (Ok v, (st1, fr)) ->
  cell_free v = true ->
  sctx x s eA eB ->
  evalD release binop_impl builtin_impl d (st, fr) eA = (rA, cA) ->
  evalD release binop_impl builtin_impl d (st, fr) eB = (rB, cB) ->
  osame rA rB.
Proof. exact let_abstraction_seq_inst. Qed.
Check C02_let_abstraction_seq_partial : forall release d x s st st1 fr v eA eB rA cA rB cB,
  frames_lt (length st) fr = true ->
  evalD release binop_impl builtin_impl d (st, fr) (EId x) = (Ok v, (st, fr)) ->
  evalD release binop_impl builtin_impl d (st, fr) s = (Ok v, (st1, fr)) ->
  cell_free v = true ->
  sctx x s eA eB ->
  evalD release binop_impl builtin_impl d (st, fr) eA = (rA, cA) ->
  evalD release binop_impl builtin_impl d (st, fr) eB = (rB, cB) ->
  osame rA rB.
Print Assumptions C02_let_abstraction_seq_partial.

Theorem C02_let_abstraction_seq_partial_fullbi : forall release d x s st st1 fr v eA eB rA cA rB cB,
  frames_lt (length st) fr = true ->
  evalD release binop_impl builtin_full d (st, fr) (EId x) = (Ok v, (st, fr)) ->
  evalD release binop_impl builtin_full d (st, fr) s = (Ok v, (st1, fr)) ->
  cell_free v = true ->
  sctx x s eA eB ->
  evalD release binop_impl builtin_full d (st, fr) eA = (rA, cA) ->
  evalD release binop_impl builtin_full d (st, fr) eB = (rB, cB) ->
  osame rA rB.
Proof. exact let_abstraction_seq_full. Qed.
Check C02_let_abstraction_seq_partial_fullbi : forall release d x s st st1 fr v eA eB rA cA rB cB,
  frames_lt (length st) fr = true ->
  evalD release binop_impl builtin_full d (st, fr) (EId x) = (Ok v, (st, fr)) ->
  evalD release binop_impl builtin_full d (st, fr) s = (Ok v, (st1, fr)) ->
  cell_free v = true ->
  sctx x s eA eB ->
  evalD release binop_impl builtin_full d (st, fr) eA = (rA, cA) ->
  evalD release binop_impl builtin_full d (st, fr) eB = (rB, cB) ->
  osame rA rB.
Print Assumptions C02_let_abstraction_seq_partial_fullbi.

(* generic form: any operators / built-ins that commute with renamings, create no dangling cell and never
   write to an existing cell *)
Theorem C02_let_abstraction_seq_generic : forall release bi bu,
  ops_commute bi bu -> ops_wf bi bu ->
  (forall d c e r c', evalD release bi bu d c e = (r, c') -> store_keep (fst c) (fst c')) ->
  forall d x s fr v, cell_free v = true ->
  forall st eA eB rA cA rB cB,
    Inv release bi bu d x s fr v st -> sctx x s eA eB ->
    evalD release bi bu d (st, fr) eA = (rA, cA) -> evalD release bi bu d (st, fr) eB = (rB, cB) ->
    osame rA rB.
Proof. exact let_abstraction_seq. Qed.
Check C02_let_abstraction_seq_generic : forall release bi bu,
  ops_commute bi bu -> ops_wf bi bu ->
  (forall d c e r c', evalD release bi bu d c e = (r, c') -> store_keep (fst c) (fst c')) ->
  forall d x s fr v, cell_free v = true ->
  forall st eA eB rA cA rB cB,
    Inv release bi bu d x s fr v st -> sctx x s eA eB ->
    evalD release bi bu d (st, fr) eA = (rA, cA) -> evalD release bi bu d (st, fr) eB = (rB, cB) ->
    osame rA rB.
Print Assumptions C02_let_abstraction_seq_generic.

(* success is preserved in both directions in this setting (s is known to succeed wherever the context can
   reach it); pre-emption of an earlier error of C by an error of s belongs to the two-statement formulation *)
Theorem C02_let_abstraction_seq_success : forall release d x s st st1 fr v eA eB,
  frames_lt (length st) fr = true ->
  evalD release binop_impl builtin_full d (st, fr) (EId x) = (Ok v, (st, fr)) ->
  evalD release binop_impl builtin_full d (st, fr) s = (Ok v, (st1, fr)) ->
  cell_free v = true ->
  sctx x s eA eB ->
  is_ok (fst (evalD release binop_impl builtin_full d (st, fr) eA)) =
  is_ok (fst (evalD release binop_impl builtin_full d (st, fr) eB)).
Proof. exact let_abstraction_seq_success. Qed.
Check C02_let_abstraction_seq_success : forall release d x s st st1 fr v eA eB,
  frames_lt (length st) fr = true ->
  evalD release binop_impl builtin_full d (st, fr) (EId x) = (Ok v, (st, fr)) ->
  evalD release binop_impl builtin_full d (st, fr) s = (Ok v, (st1, fr)) ->
  cell_free v = true ->
  sctx x s eA eB ->
  is_ok (fst (evalD release binop_impl builtin_full d (st, fr) eA)) =
  is_ok (fst (evalD release binop_impl builtin_full d (st, fr) eB)).
Print Assumptions C02_let_abstraction_seq_success.

Theorem C02_hctx_is_sctx : forall x s a b, hctx x s a b -> sctx x s a b.
Proof. exact hctx_sctx. Qed.
Check C02_hctx_is_sctx : forall x s a b, hctx x s a b -> sctx x s a b.
Print Assumptions C02_hctx_is_sctx.

(* kept, not proved *)
Definition C02_weakening_full : Prop := weakening_stmt.
Definition C02_let_program_full : Prop := let_program_stmt.

(* the hypotheses on a non-head context: scope of C02_let_abstraction_example (t = [3, 4], x = [4, 5], f = (a, b) => a * b);
   s = t + 1;  C = map([1], z => z)[0] + (if f((q => q)(2), □)[0] > 0 then f((q => q)(2), □)... — here:
   C = map([1], z => z)[0] + f((q => q)(2), □)[0]: two cells are allocated and two calls made BEFORE the occurrence,
   which sits in the second argument of a call inside an index inside a right operand *)
Definition sx_sib : expr :=
  EAccess (ECall (EBuiltin B_map) [EList [Cm [] (ENum (num_of_Z 1)) None]; ELam [AReq "z"] (EId "z")]) (ENum (num_of_Z 0)).
Definition sx_arg0 : expr := ECall (ELam [AReq "q"] (EId "q")) [ENum (num_of_Z 2)].
Definition sx_C (h : expr) : expr :=
  EBin Add sx_sib (EAccess (ECall (EId "f") ([sx_arg0] ++ h :: [])) (ENum (num_of_Z 0))).
(* ... and one where the branch holding the occurrence is not taken *)
Definition sx_C2 (h : expr) : expr := ECond (EBin Less sx_sib (ENum (num_of_Z 0))) h (ENum (num_of_Z 7)).
Example C02_let_abstraction_seq_example :
  sctx "x" lx_s (sx_C (EId "x")) (sx_C lx_s) /\ sctx "x" lx_s (sx_C2 (EId "x")) (sx_C2 lx_s) /\
  frames_lt (length lx_st) lx_fr = true /\
  evalD true binop_impl builtin_impl 4 (lx_st, lx_fr) (EId "x") =
    (Ok (VList [VNum (num_of_Z 4); VNum (num_of_Z 5)]), (lx_st, lx_fr)) /\
  evalD true binop_impl builtin_impl 4 (lx_st, lx_fr) lx_s =
    (Ok (VList [VNum (num_of_Z 4); VNum (num_of_Z 5)]), (lx_st, lx_fr)) /\
  fst (evalD true binop_impl builtin_impl 4 (lx_st, lx_fr) (sx_C lx_s)) = Ok (VNum (num_of_Z 9)) /\
  length (fst (snd (evalD true binop_impl builtin_impl 4 (lx_st, lx_fr) (sx_C lx_s)))) = 3 /\
  fst (evalD true binop_impl builtin_impl 4 (lx_st, lx_fr) (sx_C2 lx_s)) = Ok (VNum (num_of_Z 7)).
Proof.
  split; [unfold sx_C; apply S_binr; [reflexivity|]; apply S_accl;
          apply (S_calla "x" lx_s (EId "f") [sx_arg0]); [reflexivity|repeat constructor|apply S_hole]|].
  split; [unfold sx_C2; apply S_then; [reflexivity|apply S_hole]|].
  vm_compute. repeat split.
Qed.

(* ================================================================================================
   LET2 round (proofs/C02Weak.v, proofs/C02LetProg.v): WEAKENING and the TWO-STATEMENT LET LAW.
   [nocc x e]: x occurs nowhere in e — not as an identifier, `{x}` key, assignment target or parameter;
   [vnm x v] / [frames_nm x fr]: no function value inside v / reachable from fr has x as a parameter or
   occurring in its body (hereditarily through lists, records, captured scopes).
   ================================================================================================ *)
Require Import Blots.proofs.C02Weak Blots.proofs.C02LetProg.

(* operators / built-ins create no mention of a name and use their callback parametrically on values that do
   not mention it: GenOps.v / AllGenClosed.v instantiated with the store-independent predicate [vok x] *)
Theorem C02_ops_create_no_mention : ops_nm binop_impl builtin_impl /\ ops_nm binop_impl builtin_full.
Proof. exact (conj ops_nm_inst ops_nm_full). Qed.
Check C02_ops_create_no_mention : ops_nm binop_impl builtin_impl /\ ops_nm binop_impl builtin_full.
Print Assumptions C02_ops_create_no_mention.

(* WEAKENING, general form: ANY expression that does not mention x (assignments, do-blocks, calls), any
   operators / built-ins with ops_nm: the binding (x, w) added to the head frame changes neither the outcome
   nor the store; the final scope chains agree on every name other than x; no value mentioning x is created *)
Theorem C02_weakening_generic : forall release bi bu, ops_nm bi bu ->
  forall d x w e st k f fr r st' fr',
    String.eqb "inputs" x = false ->
    nocc x e = true -> frames_nm x ((k, f) :: fr) = true -> vnm x w = true ->
    evalD release bi bu d (st, (k, f) :: fr) e = (r, (st', fr')) ->
    exists frB', evalD release bi bu d (st, (k, (x, w) :: f) :: fr) e = (r, (st', frB')) /\
                 (forall y, String.eqb y x = false -> lookup fr' y = lookup frB' y) /\
                 frames_nm x fr' = true /\ (forall v, r = Ok v -> vnm x v = true).
Proof. exact weakening_generic. Qed.
Check C02_weakening_generic : forall release bi bu, ops_nm bi bu ->
  forall d x w e st k f fr r st' fr',
    String.eqb "inputs" x = false ->
    nocc x e = true -> frames_nm x ((k, f) :: fr) = true -> vnm x w = true ->
    evalD release bi bu d (st, (k, f) :: fr) e = (r, (st', fr')) ->
    exists frB', evalD release bi bu d (st, (k, (x, w) :: f) :: fr) e = (r, (st', frB')) /\
                 (forall y, String.eqb y x = false -> lookup fr' y = lookup frB' y) /\
                 frames_nm x fr' = true /\ (forall v, r = Ok v -> vnm x v = true).
Print Assumptions C02_weakening_generic.

(* WEAKENING for assignment-free expressions, the evaluator with every built-in: same outcome, same store,
   the same scope chain up to the binding (this is [C02_weakening_full] with the corrected notion of
   "mentions": the Prop as stated by the LET round is refuted below) *)
Theorem C02_weakening : forall release d x w e st k f fr r st' fr',
  String.eqb "inputs" x = false ->
  nocc x e = true -> no_assign e = true -> frames_nm x ((k, f) :: fr) = true -> vnm x w = true ->
  evalD release binop_impl builtin_full d (st, (k, f) :: fr) e = (r, (st', fr')) ->
  fr' = (k, f) :: fr /\
  evalD release binop_impl builtin_full d (st, (k, (x, w) :: f) :: fr) e = (r, (st', (k, (x, w) :: f) :: fr)).
Proof. exact weakening_full. Qed.
Check C02_weakening : forall release d x w e st k f fr r st' fr',
  String.eqb "inputs" x = false ->
  nocc x e = true -> no_assign e = true -> frames_nm x ((k, f) :: fr) = true -> vnm x w = true ->
  evalD release binop_impl builtin_full d (st, (k, f) :: fr) e = (r, (st', fr')) ->
  fr' = (k, f) :: fr /\
  evalD release binop_impl builtin_full d (st, (k, (x, w) :: f) :: fr) e = (r, (st', (k, (x, w) :: f) :: fr)).
Print Assumptions C02_weakening.

Theorem C02_weakening_impl : forall release d x w e st k f fr r st' fr',
  String.eqb "inputs" x = false ->
  nocc x e = true -> no_assign e = true -> frames_nm x ((k, f) :: fr) = true -> vnm x w = true ->
  evalD release binop_impl builtin_impl d (st, (k, f) :: fr) e = (r, (st', fr')) ->
  fr' = (k, f) :: fr /\
  evalD release binop_impl builtin_impl d (st, (k, (x, w) :: f) :: fr) e = (r, (st', (k, (x, w) :: f) :: fr)).
Proof. exact weakening_inst. Qed.
Check C02_weakening_impl : forall release d x w e st k f fr r st' fr',
  String.eqb "inputs" x = false ->
  nocc x e = true -> no_assign e = true -> frames_nm x ((k, f) :: fr) = true -> vnm x w = true ->
  evalD release binop_impl builtin_impl d (st, (k, f) :: fr) e = (r, (st', fr')) ->
  fr' = (k, f) :: fr /\
  evalD release binop_impl builtin_impl d (st, (k, (x, w) :: f) :: fr) e = (r, (st', (k, (x, w) :: f) :: fr)).
Print Assumptions C02_weakening_impl.

(* the Prop kept by the LET round asked only that x be not FREE in the function bodies of the scope: false.
   g = () => (x = 5); g() is 5 when x is unbound and "x is already defined" when x is bound (the body assigns
   x without reading it; reproduced on the CLI built from /repo) *)
Theorem C02_weakening_full_refuted : ~ C02_weakening_full.
Proof. exact weakening_stmt_refuted. Qed.
Check C02_weakening_full_refuted : ~ C02_weakening_full.
Print Assumptions C02_weakening_full_refuted.

(* THE TWO-STATEMENT LET LAW.  Program A: `x = s` then C[x]; program B: C[s]; same starting configuration;
   C a sequential context; x fresh (occurs nowhere in C[s], in no function of the scope); the value of s
   cell-free.  Whenever `x = s` succeeds the two outcomes are the same up to cell renaming (errors included).
   Both build profiles (release is quantified); evaluator with every built-in. *)
Theorem C02_let_program : forall release d x s C_x C_s st fr v c1 rA cA rB cB,
  frames_lt (length st) fr = true -> no_assign s = true -> no_assign C_s = true ->
  sctx x s C_x C_s ->
  nocc x s = true -> nocc x C_s = true -> frames_nm x fr = true ->
  evalD release binop_impl builtin_full d (st, fr) (EAssign x s) = (Ok v, c1) ->
  cell_free v = true ->
  evalD release binop_impl builtin_full d c1 C_x = (rA, cA) ->
  evalD release binop_impl builtin_full d (st, fr) C_s = (rB, cB) ->
  osame rA rB.
Proof. exact let_program_full. Qed.
Check C02_let_program : forall release d x s C_x C_s st fr v c1 rA cA rB cB,
  frames_lt (length st) fr = true -> no_assign s = true -> no_assign C_s = true ->
  sctx x s C_x C_s ->
  nocc x s = true -> nocc x C_s = true -> frames_nm x fr = true ->
  evalD release binop_impl builtin_full d (st, fr) (EAssign x s) = (Ok v, c1) ->
  cell_free v = true ->
  evalD release binop_impl builtin_full d c1 C_x = (rA, cA) ->
  evalD release binop_impl builtin_full d (st, fr) C_s = (rB, cB) ->
  osame rA rB.
Print Assumptions C02_let_program.

Theorem C02_let_program_impl : forall release d x s C_x C_s st fr v c1 rA cA rB cB,
  frames_lt (length st) fr = true -> no_assign s = true -> no_assign C_s = true ->
  sctx x s C_x C_s ->
  nocc x s = true -> nocc x C_s = true -> frames_nm x fr = true ->
  evalD release binop_impl builtin_impl d (st, fr) (EAssign x s) = (Ok v, c1) ->
  cell_free v = true ->
  evalD release binop_impl builtin_impl d c1 C_x = (rA, cA) ->
  evalD release binop_impl builtin_impl d (st, fr) C_s = (rB, cB) ->
  osame rA rB.
Proof. exact let_program_inst. Qed.
Check C02_let_program_impl : forall release d x s C_x C_s st fr v c1 rA cA rB cB,
  frames_lt (length st) fr = true -> no_assign s = true -> no_assign C_s = true ->
  sctx x s C_x C_s ->
  nocc x s = true -> nocc x C_s = true -> frames_nm x fr = true ->
  evalD release binop_impl builtin_impl d (st, fr) (EAssign x s) = (Ok v, c1) ->
  cell_free v = true ->
  evalD release binop_impl builtin_impl d c1 C_x = (rA, cA) ->
  evalD release binop_impl builtin_impl d (st, fr) C_s = (rB, cB) ->
  osame rA rB.
Print Assumptions C02_let_program_impl.

(* ... after ANY top-level program prefix run from the initial configuration (function-free inputs): no
   hypothesis on the configuration is left except the freshness of x in its functions *)
Theorem C02_let_program_after_any_prefix : forall release d0 d inputs prog x s C_x C_s v c1 rA cA rB cB,
  frame_lt 0 inputs = true ->
  let c := s_cfg (fst (run (evalD release binop_impl builtin_full d0) (init_session inputs) prog)) in
  no_assign s = true -> no_assign C_s = true -> sctx x s C_x C_s ->
  nocc x s = true -> nocc x C_s = true -> frames_nm x (snd c) = true ->
  evalD release binop_impl builtin_full d c (EAssign x s) = (Ok v, c1) ->
  cell_free v = true ->
  evalD release binop_impl builtin_full d c1 C_x = (rA, cA) ->
  evalD release binop_impl builtin_full d c C_s = (rB, cB) ->
  osame rA rB.
Proof. exact let_program_after_prefix. Qed.
Check C02_let_program_after_any_prefix : forall release d0 d inputs prog x s C_x C_s v c1 rA cA rB cB,
  frame_lt 0 inputs = true ->
  let c := s_cfg (fst (run (evalD release binop_impl builtin_full d0) (init_session inputs) prog)) in
  no_assign s = true -> no_assign C_s = true -> sctx x s C_x C_s ->
  nocc x s = true -> nocc x C_s = true -> frames_nm x (snd c) = true ->
  evalD release binop_impl builtin_full d c (EAssign x s) = (Ok v, c1) ->
  cell_free v = true ->
  evalD release binop_impl builtin_full d c1 C_x = (rA, cA) ->
  evalD release binop_impl builtin_full d c C_s = (rB, cB) ->
  osame rA rB.
Print Assumptions C02_let_program_after_any_prefix.

(* freshness with respect to the FUNCTIONS of the scope is necessary (names in a body are resolved in the
   caller's chain at call time): after f = y => x + y,  x = 1; f(1) + x  is 3,  f(1) + 1  fails *)
Theorem C02_let_program_nofresh_refuted : ~ let_program_nofresh_stmt.
Proof. exact let_program_nofresh_refuted. Qed.
Check C02_let_program_nofresh_refuted : ~ let_program_nofresh_stmt.
Print Assumptions C02_let_program_nofresh_refuted.

(* the hypotheses are satisfiable: prefix  t = [3, 4]; f = (a, b) => a * b; g = z => z + 1  (two functions in
   scope, none mentions x9), then  x9 = t + 1  followed by  map([1], z => z)[0] + f((q => q)(2), x9)[0]
   versus the same with t + 1 in place of x9: 9 on both sides, with different stores *)
Definition lp_prog : list stmt :=
  [SExpr (EAssign "t" (EList [Cm [] (ENum (num_of_Z 3)) None; Cm [] (ENum (num_of_Z 4)) None]));
   SExpr (EAssign "f" (ELam [AReq "a"; AReq "b"] (EBin Multiply (EId "a") (EId "b"))));
   SExpr (EAssign "g" (ELam [AReq "z"] (EBin Add (EId "z") (ENum (num_of_Z 1)))))].
Definition lp_s : expr := EBin Add (EId "t") (ENum (num_of_Z 1)).
Example C02_let_program_example :
  let c := s_cfg (fst (run (evalD true binop_impl builtin_full 8) (init_session []) lp_prog)) in
  let a1 := evalD true binop_impl builtin_full 8 c (EAssign "x9" lp_s) in
  let rA := evalD true binop_impl builtin_full 8 (snd a1) (sx_C (EId "x9")) in
  let rB := evalD true binop_impl builtin_full 8 c (sx_C lp_s) in
  sctx "x9" lp_s (sx_C (EId "x9")) (sx_C lp_s) /\
  no_assign lp_s = true /\ no_assign (sx_C lp_s) = true /\ nocc "x9" lp_s = true /\ nocc "x9" (sx_C lp_s) = true /\
  frames_nm "x9" (snd c) = true /\ length (fst c) = 2 /\
  fst a1 = Ok (VList [VNum (num_of_Z 4); VNum (num_of_Z 5)]) /\
  fst rA = Ok (VNum (num_of_Z 9)) /\ fst rB = Ok (VNum (num_of_Z 9)) /\ osame (fst rA) (fst rB).
Proof.
  split; [unfold sx_C; apply S_binr; [reflexivity|]; apply S_accl;
          apply (S_calla "x9" lp_s (EId "f") [sx_arg0]); [reflexivity|repeat constructor|apply S_hole]|].
  vm_compute. repeat split.
Qed.

(* ---- SEVERAL occurrences in sequential position ([sctxs]: the reflexive-transitive closure of [sctx];
   C[x, x] -> C[s, x] -> C[s, s], one occurrence per step, the renamings growing along the chain) ---- *)
Theorem C02_sctx_is_sctxs : forall x s a b, sctx x s a b -> sctxs x s a b.
Proof. exact sctx_sctxs. Qed.
Check C02_sctx_is_sctxs : forall x s a b, sctx x s a b -> sctxs x s a b.
Print Assumptions C02_sctx_is_sctxs.

Theorem C02_let_abstraction_seq_multi_partial : forall release d x s st st1 fr v eA eB,
  frames_lt (length st) fr = true ->
  evalD release binop_impl builtin_full d (st, fr) (EId x) = (Ok v, (st, fr)) ->
  evalD release binop_impl builtin_full d (st, fr) s = (Ok v, (st1, fr)) ->
  cell_free v = true ->
  sctxs x s eA eB ->
  osame (fst (evalD release binop_impl builtin_full d (st, fr) eA)) (fst (evalD release binop_impl builtin_full d (st, fr) eB)).
Proof. exact let_abstraction_seq_multi_full. Qed.
Check C02_let_abstraction_seq_multi_partial : forall release d x s st st1 fr v eA eB,
  frames_lt (length st) fr = true ->
  evalD release binop_impl builtin_full d (st, fr) (EId x) = (Ok v, (st, fr)) ->
  evalD release binop_impl builtin_full d (st, fr) s = (Ok v, (st1, fr)) ->
  cell_free v = true ->
  sctxs x s eA eB ->
  osame (fst (evalD release binop_impl builtin_full d (st, fr) eA)) (fst (evalD release binop_impl builtin_full d (st, fr) eB)).
Print Assumptions C02_let_abstraction_seq_multi_partial.

Theorem C02_let_program_multi : forall release d x s C_x C_s st fr v c1 rA cA rB cB,
  frames_lt (length st) fr = true -> no_assign s = true -> no_assign C_s = true ->
  sctxs x s C_x C_s ->
  nocc x s = true -> nocc x C_s = true -> frames_nm x fr = true ->
  evalD release binop_impl builtin_full d (st, fr) (EAssign x s) = (Ok v, c1) ->
  cell_free v = true ->
  evalD release binop_impl builtin_full d c1 C_x = (rA, cA) ->
  evalD release binop_impl builtin_full d (st, fr) C_s = (rB, cB) ->
  osame rA rB.
Proof. exact let_program_multi_full. Qed.
Check C02_let_program_multi : forall release d x s C_x C_s st fr v c1 rA cA rB cB,
  frames_lt (length st) fr = true -> no_assign s = true -> no_assign C_s = true ->
  sctxs x s C_x C_s ->
  nocc x s = true -> nocc x C_s = true -> frames_nm x fr = true ->
  evalD release binop_impl builtin_full d (st, fr) (EAssign x s) = (Ok v, c1) ->
  cell_free v = true ->
  evalD release binop_impl builtin_full d c1 C_x = (rA, cA) ->
  evalD release binop_impl builtin_full d (st, fr) C_s = (rB, cB) ->
  osame rA rB.
Print Assumptions C02_let_program_multi.

(* two occurrences, and an s that ALLOCATES on every evaluation: s = map(t, z => z + 1) (value [4, 5], cell-free;
   one cell per evaluation);  C = [□, □, (q => q)].  After the prefix (2 cells) program A `x9 = s; [x9, x9, q => q]`
   allocates cell 2 in the assignment and the closure is cell 3; program B `[s, s, q => q]` allocates cells 2 and 3
   for the two evaluations of s and the closure is cell 4: the results differ as terms and are osame *)
Definition mp_s : expr :=
  ECall (EBuiltin B_map) [EId "t"; ELam [AReq "z"] (EBin Add (EId "z") (ENum (num_of_Z 1)))].
Definition mp_C (h1 h2 : expr) : expr :=
  EList [Cm [] h1 None; Cm [] h2 None; Cm [] (ELam [AReq "q"] (EId "q")) None].
Example C02_let_program_multi_example :
  let c := s_cfg (fst (run (evalD true binop_impl builtin_full 8) (init_session []) lp_prog)) in
  let a1 := evalD true binop_impl builtin_full 8 c (EAssign "x9" mp_s) in
  let rA := evalD true binop_impl builtin_full 8 (snd a1) (mp_C (EId "x9") (EId "x9")) in
  let rB := evalD true binop_impl builtin_full 8 c (mp_C mp_s mp_s) in
  sctxs "x9" mp_s (mp_C (EId "x9") (EId "x9")) (mp_C mp_s mp_s) /\
  no_assign mp_s = true /\ no_assign (mp_C mp_s mp_s) = true /\ nocc "x9" mp_s = true /\ nocc "x9" (mp_C mp_s mp_s) = true /\
  frames_nm "x9" (snd c) = true /\ length (fst c) = 2 /\
  fst a1 = Ok (VList [VNum (num_of_Z 4); VNum (num_of_Z 5)]) /\
  length (fst (snd rA)) = 4 /\ length (fst (snd rB)) = 5 /\
  is_ok (fst rA) = true /\ fst rA <> fst rB /\ osame (fst rA) (fst rB).
Proof.
  split.
  { unfold mp_C. eapply SS_step.
    - apply (S_list "x9" mp_s [] [] None (EId "x9") mp_s); [constructor|apply S_hole].
    - eapply SS_step; [|apply SS_refl].
      apply (S_list "x9" mp_s [Cm [] mp_s None] [] None (EId "x9") mp_s); [repeat constructor|apply S_hole]. }
  vm_compute. repeat split. intros H; discriminate H.
Qed.

(* the hypothesis [nocc x s] of C02_let_program is implied by [nocc x C_s] (s is a subterm of C[s]); it is kept in
   the statements above only because the several-occurrences form (sctxs, possibly zero steps) needs it *)
Theorem C02_sctx_nocc : forall x s a b, sctx x s a b -> nocc x b = true -> nocc x s = true.
Proof. exact sctx_nocc. Qed.
Check C02_sctx_nocc : forall x s a b, sctx x s a b -> nocc x b = true -> nocc x s = true.
Print Assumptions C02_sctx_nocc.

(* ======================================================================================================
   C02ALL — the theorems above for the COMPLETE built-in set: EvalAll.binop_all o / builtin_all o (every row of the
   regenerated built-in table and `^`, library behaviour as fields of the oracle record o), the evaluator the
   ALL / TEXT-EVAL streams run, for EVERY oracle o (proofs/C02AllOps.v, proofs/C02AllThms.v).

   Hypotheses on o: NONE for "no dangling cell" (ops_wf), "no mention" (ops_nm), "old cells untouched"; for the
   commutation with renamings of cell indices (store-extension invariance, eval-twice, let-abstraction,
   let-program) exactly one:  lam_str_blind o  — the text oracle for function values (the only oracle field that
   is applied to VALUES: the captured scope) is blind to cell indices.  It holds of every lookup-table oracle
   of AllRun.v ([C02_lam_str_blind_tables]) and is necessary ([C02_ops_commute_all_needs_blind_refuted]).

   THE CLOCK: time_now() is the constant field o_now — one oracle record is one reading of the clock, so the
   eval-twice theorems below speak about two evaluations that observe the SAME clock reading.  With the clock
   advancing between the two evaluations the statement is false ([C02_eval_twice_across_clock_refuted]).
   ====================================================================================================== *)
Require Import Blots.EvalAll Blots.proofs.C02AllOps Blots.proofs.C02AllThms.
Require Blots.AllRun.

Definition C02_eval_twice_across_clock_full : Prop := eval_twice_across_clock_stmt.
(* the three hypotheses of the generic theorems, for the complete operator table / built-in set, EVERY oracle *)
Theorem C02_ops_wf_all : forall o, ops_wf (binop_all o) (builtin_all o).
Proof. exact ops_wf_all. Qed.
Check C02_ops_wf_all : forall o, ops_wf (binop_all o) (builtin_all o).
Print Assumptions C02_ops_wf_all.

Theorem C02_ops_nm_all : forall o, ops_nm (binop_all o) (builtin_all o).
Proof. exact ops_nm_all. Qed.
Check C02_ops_nm_all : forall o, ops_nm (binop_all o) (builtin_all o).
Print Assumptions C02_ops_nm_all.

Theorem C02_ops_commute_all : forall o, lam_str_blind o -> ops_commute (binop_all o) (builtin_all o).
Proof. exact ops_commute_all. Qed.
Check C02_ops_commute_all : forall o, lam_str_blind o -> ops_commute (binop_all o) (builtin_all o).
Print Assumptions C02_ops_commute_all.

(* the hypothesis holds of EVERY lookup-table oracle the ALL / TEXT-EVAL streams run (AllRun.lam_of ignores the scope) *)
Theorem C02_lam_str_blind_tables : forall T, lam_str_blind (AllRun.oracle_of T).
Proof. exact lam_str_blind_tables. Qed.
Check C02_lam_str_blind_tables : forall T, lam_str_blind (AllRun.oracle_of T).
Print Assumptions C02_lam_str_blind_tables.

(* no hypothesis on the oracle *)
Theorem C02_old_cells_untouched_all : forall o release d c e r c',
  evalD release (binop_all o) (builtin_all o) d c e = (r, c') -> store_keep (fst c) (fst c').
Proof. exact old_cells_untouched_all. Qed.
Check C02_old_cells_untouched_all : forall o release d c e r c',
  evalD release (binop_all o) (builtin_all o) d c e = (r, c') -> store_keep (fst c) (fst c').
Print Assumptions C02_old_cells_untouched_all.

Theorem C02_cfg_wf_preserved_all : forall o release d e c r c',
  cfg_wf c = true -> evalD release (binop_all o) (builtin_all o) d c e = (r, c') ->
  cfg_wf c' = true /\ length (fst c) <= length (fst c') /\ (forall v, r = Ok v -> ids_lt (length (fst c')) v = true).
Proof. exact evalD_cfg_wf_all. Qed.
Check C02_cfg_wf_preserved_all : forall o release d e c r c',
  cfg_wf c = true -> evalD release (binop_all o) (builtin_all o) d c e = (r, c') ->
  cfg_wf c' = true /\ length (fst c) <= length (fst c') /\ (forall v, r = Ok v -> ids_lt (length (fst c')) v = true).
Print Assumptions C02_cfg_wf_preserved_all.

Theorem C02_cfg_wf_after_any_program_all : forall o release d0 inputs prog,
  frame_lt 0 inputs = true ->
  cfg_wf (s_cfg (fst (run (evalD release (binop_all o) (builtin_all o) d0) (init_session inputs) prog))) = true /\
  forall stop, Forall (fun rc => cfg_wf (snd rc) = true)
                      (run_trace (evalD release (binop_all o) (builtin_all o) d0) stop (init_session inputs) prog).
Proof. intros o release d0 inputs prog Hi; split; [exact (program_cfg_wf_all o release d0 inputs prog Hi)|intros stop; exact (session_cfg_wf_all o release d0 stop inputs prog Hi)]. Qed.
Check C02_cfg_wf_after_any_program_all : forall o release d0 inputs prog,
  frame_lt 0 inputs = true ->
  cfg_wf (s_cfg (fst (run (evalD release (binop_all o) (builtin_all o) d0) (init_session inputs) prog))) = true /\
  forall stop, Forall (fun rc => cfg_wf (snd rc) = true)
                      (run_trace (evalD release (binop_all o) (builtin_all o) d0) stop (init_session inputs) prog).
Print Assumptions C02_cfg_wf_after_any_program_all.

Theorem C02_weakening_all : forall o release d x w e st k f fr r st' fr',
  String.eqb "inputs" x = false ->
  nocc x e = true -> no_assign e = true -> frames_nm x ((k, f) :: fr) = true -> vnm x w = true ->
  evalD release (binop_all o) (builtin_all o) d (st, (k, f) :: fr) e = (r, (st', fr')) ->
  fr' = (k, f) :: fr /\
  evalD release (binop_all o) (builtin_all o) d (st, (k, (x, w) :: f) :: fr) e = (r, (st', (k, (x, w) :: f) :: fr)).
Proof. exact weakening_all. Qed.
Check C02_weakening_all : forall o release d x w e st k f fr r st' fr',
  String.eqb "inputs" x = false ->
  nocc x e = true -> no_assign e = true -> frames_nm x ((k, f) :: fr) = true -> vnm x w = true ->
  evalD release (binop_all o) (builtin_all o) d (st, (k, f) :: fr) e = (r, (st', fr')) ->
  fr' = (k, f) :: fr /\
  evalD release (binop_all o) (builtin_all o) d (st, (k, (x, w) :: f) :: fr) e = (r, (st', (k, (x, w) :: f) :: fr)).
Print Assumptions C02_weakening_all.

(* under the blindness of the text oracle *)
Theorem C02_store_extension_invariance_all : forall o, lam_str_blind o ->
  forall release rho, (forall a b : nat, rho a = rho b -> a = b) ->
  forall d e sA sB fr r sA' fr',
    sinv rho sA sB -> evalD release (binop_all o) (builtin_all o) d (sA, fr) e = (r, (sA', fr')) ->
    exists sB', evalD release (binop_all o) (builtin_all o) d (sB, renFr rho fr) e = (oren rho r, (sB', renFr rho fr')) /\
                sinv rho sA' sB'.
Proof. exact store_extension_invariance_all. Qed.
Check C02_store_extension_invariance_all : forall o, lam_str_blind o ->
  forall release rho, (forall a b : nat, rho a = rho b -> a = b) ->
  forall d e sA sB fr r sA' fr',
    sinv rho sA sB -> evalD release (binop_all o) (builtin_all o) d (sA, fr) e = (r, (sA', fr')) ->
    exists sB', evalD release (binop_all o) (builtin_all o) d (sB, renFr rho fr) e = (oren rho r, (sB', renFr rho fr')) /\
                sinv rho sA' sB'.
Print Assumptions C02_store_extension_invariance_all.

Theorem C02_eval_twice_exact_all : forall o, lam_str_blind o ->
  forall release d e st fr r1 st1 fr1,
  no_assign e = true -> frames_lt (length st) fr = true ->
  evalD release (binop_all o) (builtin_all o) d (st, fr) e = (r1, (st1, fr1)) ->
  fr1 = fr /\
  exists st2, evalD release (binop_all o) (builtin_all o) d (st1, fr) e =
                (oren (shift (length st) (length st1 - length st)) r1, (st2, fr)) /\
              sinv (shift (length st) (length st1 - length st)) st1 st2.
Proof. exact eval_twice_exact_all. Qed.
Check C02_eval_twice_exact_all : forall o, lam_str_blind o ->
  forall release d e st fr r1 st1 fr1,
  no_assign e = true -> frames_lt (length st) fr = true ->
  evalD release (binop_all o) (builtin_all o) d (st, fr) e = (r1, (st1, fr1)) ->
  fr1 = fr /\
  exists st2, evalD release (binop_all o) (builtin_all o) d (st1, fr) e =
                (oren (shift (length st) (length st1 - length st)) r1, (st2, fr)) /\
              sinv (shift (length st) (length st1 - length st)) st1 st2.
Print Assumptions C02_eval_twice_exact_all.

Theorem C02_eval_twice_all : forall o, lam_str_blind o ->
  forall release d e c r1 c1 r2 c2,
  no_assign e = true -> cfg_wf c = true ->
  evalD release (binop_all o) (builtin_all o) d c e = (r1, c1) ->
  evalD release (binop_all o) (builtin_all o) d c1 e = (r2, c2) ->
  osame r1 r2 /\ snd c2 = snd c /\ snd c1 = snd c.
Proof. exact eval_twice_all. Qed.
Check C02_eval_twice_all : forall o, lam_str_blind o ->
  forall release d e c r1 c1 r2 c2,
  no_assign e = true -> cfg_wf c = true ->
  evalD release (binop_all o) (builtin_all o) d c e = (r1, c1) ->
  evalD release (binop_all o) (builtin_all o) d c1 e = (r2, c2) ->
  osame r1 r2 /\ snd c2 = snd c /\ snd c1 = snd c.
Print Assumptions C02_eval_twice_all.

Theorem C02_eval_twice_equals_all : forall o, lam_str_blind o ->
  forall release d e c v1 c1 v2 c2,
  no_assign e = true -> cfg_wf c = true ->
  evalD release (binop_all o) (builtin_all o) d c e = (Ok v1, c1) ->
  evalD release (binop_all o) (builtin_all o) d c1 e = (Ok v2, c2) ->
  equals v1 v2 = equals v1 v1.
Proof. exact eval_twice_equals_all. Qed.
Check C02_eval_twice_equals_all : forall o, lam_str_blind o ->
  forall release d e c v1 c1 v2 c2,
  no_assign e = true -> cfg_wf c = true ->
  evalD release (binop_all o) (builtin_all o) d c e = (Ok v1, c1) ->
  evalD release (binop_all o) (builtin_all o) d c1 e = (Ok v2, c2) ->
  equals v1 v2 = equals v1 v1.
Print Assumptions C02_eval_twice_equals_all.

Theorem C02_eval_twice_after_any_program_all : forall o, lam_str_blind o ->
  forall release d0 d inputs prog e r1 c1 r2 c2,
  frame_lt 0 inputs = true -> no_assign e = true ->
  let c := s_cfg (fst (run (evalD release (binop_all o) (builtin_all o) d0) (init_session inputs) prog)) in
  evalD release (binop_all o) (builtin_all o) d c e = (r1, c1) ->
  evalD release (binop_all o) (builtin_all o) d c1 e = (r2, c2) ->
  osame r1 r2 /\ snd c2 = snd c /\ snd c1 = snd c.
Proof. exact eval_twice_after_any_program_all. Qed.
Check C02_eval_twice_after_any_program_all : forall o, lam_str_blind o ->
  forall release d0 d inputs prog e r1 c1 r2 c2,
  frame_lt 0 inputs = true -> no_assign e = true ->
  let c := s_cfg (fst (run (evalD release (binop_all o) (builtin_all o) d0) (init_session inputs) prog)) in
  evalD release (binop_all o) (builtin_all o) d c e = (r1, c1) ->
  evalD release (binop_all o) (builtin_all o) d c1 e = (r2, c2) ->
  osame r1 r2 /\ snd c2 = snd c /\ snd c1 = snd c.
Print Assumptions C02_eval_twice_after_any_program_all.

Theorem C02_let_abstraction_seq_partial_all : forall o, lam_str_blind o ->
  forall release d x s st st1 fr v eA eB rA cA rB cB,
  frames_lt (length st) fr = true ->
  evalD release (binop_all o) (builtin_all o) d (st, fr) (EId x) = (Ok v, (st, fr)) ->
  evalD release (binop_all o) (builtin_all o) d (st, fr) s = (Ok v, (st1, fr)) ->
  cell_free v = true ->
  sctx x s eA eB ->
  evalD release (binop_all o) (builtin_all o) d (st, fr) eA = (rA, cA) ->
  evalD release (binop_all o) (builtin_all o) d (st, fr) eB = (rB, cB) ->
  osame rA rB.
Proof. exact let_abstraction_seq_all. Qed.
Check C02_let_abstraction_seq_partial_all : forall o, lam_str_blind o ->
  forall release d x s st st1 fr v eA eB rA cA rB cB,
  frames_lt (length st) fr = true ->
  evalD release (binop_all o) (builtin_all o) d (st, fr) (EId x) = (Ok v, (st, fr)) ->
  evalD release (binop_all o) (builtin_all o) d (st, fr) s = (Ok v, (st1, fr)) ->
  cell_free v = true ->
  sctx x s eA eB ->
  evalD release (binop_all o) (builtin_all o) d (st, fr) eA = (rA, cA) ->
  evalD release (binop_all o) (builtin_all o) d (st, fr) eB = (rB, cB) ->
  osame rA rB.
Print Assumptions C02_let_abstraction_seq_partial_all.

Theorem C02_let_abstraction_seq_multi_partial_all : forall o, lam_str_blind o ->
  forall release d x s st st1 fr v eA eB,
  frames_lt (length st) fr = true ->
  evalD release (binop_all o) (builtin_all o) d (st, fr) (EId x) = (Ok v, (st, fr)) ->
  evalD release (binop_all o) (builtin_all o) d (st, fr) s = (Ok v, (st1, fr)) ->
  cell_free v = true ->
  sctxs x s eA eB ->
  osame (fst (evalD release (binop_all o) (builtin_all o) d (st, fr) eA)) (fst (evalD release (binop_all o) (builtin_all o) d (st, fr) eB)).
Proof. exact let_abstraction_seq_multi_all. Qed.
Check C02_let_abstraction_seq_multi_partial_all : forall o, lam_str_blind o ->
  forall release d x s st st1 fr v eA eB,
  frames_lt (length st) fr = true ->
  evalD release (binop_all o) (builtin_all o) d (st, fr) (EId x) = (Ok v, (st, fr)) ->
  evalD release (binop_all o) (builtin_all o) d (st, fr) s = (Ok v, (st1, fr)) ->
  cell_free v = true ->
  sctxs x s eA eB ->
  osame (fst (evalD release (binop_all o) (builtin_all o) d (st, fr) eA)) (fst (evalD release (binop_all o) (builtin_all o) d (st, fr) eB)).
Print Assumptions C02_let_abstraction_seq_multi_partial_all.

Theorem C02_let_program_all : forall o, lam_str_blind o ->
  forall release d x s C_x C_s st fr v c1 rA cA rB cB,
  frames_lt (length st) fr = true -> no_assign s = true -> no_assign C_s = true ->
  sctx x s C_x C_s ->
  nocc x s = true -> nocc x C_s = true -> frames_nm x fr = true ->
  evalD release (binop_all o) (builtin_all o) d (st, fr) (EAssign x s) = (Ok v, c1) ->
  cell_free v = true ->
  evalD release (binop_all o) (builtin_all o) d c1 C_x = (rA, cA) ->
  evalD release (binop_all o) (builtin_all o) d (st, fr) C_s = (rB, cB) ->
  osame rA rB.
Proof. exact let_program_all. Qed.
Check C02_let_program_all : forall o, lam_str_blind o ->
  forall release d x s C_x C_s st fr v c1 rA cA rB cB,
  frames_lt (length st) fr = true -> no_assign s = true -> no_assign C_s = true ->
  sctx x s C_x C_s ->
  nocc x s = true -> nocc x C_s = true -> frames_nm x fr = true ->
  evalD release (binop_all o) (builtin_all o) d (st, fr) (EAssign x s) = (Ok v, c1) ->
  cell_free v = true ->
  evalD release (binop_all o) (builtin_all o) d c1 C_x = (rA, cA) ->
  evalD release (binop_all o) (builtin_all o) d (st, fr) C_s = (rB, cB) ->
  osame rA rB.
Print Assumptions C02_let_program_all.

Theorem C02_let_program_multi_all : forall o, lam_str_blind o ->
  forall release d x s C_x C_s st fr v c1 rA cA rB cB,
  frames_lt (length st) fr = true -> no_assign s = true -> no_assign C_s = true ->
  sctxs x s C_x C_s ->
  nocc x s = true -> nocc x C_s = true -> frames_nm x fr = true ->
  evalD release (binop_all o) (builtin_all o) d (st, fr) (EAssign x s) = (Ok v, c1) ->
  cell_free v = true ->
  evalD release (binop_all o) (builtin_all o) d c1 C_x = (rA, cA) ->
  evalD release (binop_all o) (builtin_all o) d (st, fr) C_s = (rB, cB) ->
  osame rA rB.
Proof. exact let_program_multi_all. Qed.
Check C02_let_program_multi_all : forall o, lam_str_blind o ->
  forall release d x s C_x C_s st fr v c1 rA cA rB cB,
  frames_lt (length st) fr = true -> no_assign s = true -> no_assign C_s = true ->
  sctxs x s C_x C_s ->
  nocc x s = true -> nocc x C_s = true -> frames_nm x fr = true ->
  evalD release (binop_all o) (builtin_all o) d (st, fr) (EAssign x s) = (Ok v, c1) ->
  cell_free v = true ->
  evalD release (binop_all o) (builtin_all o) d c1 C_x = (rA, cA) ->
  evalD release (binop_all o) (builtin_all o) d (st, fr) C_s = (rB, cB) ->
  osame rA rB.
Print Assumptions C02_let_program_multi_all.

(* the hypothesis on the text oracle cannot be dropped: an oracle that prints the cell index of a captured function
   makes to_string observe a renaming (it is not blind: [oracle_peeking_not_blind]) *)
Theorem C02_ops_commute_all_needs_blind_refuted : ~ (forall o, ops_commute (binop_all o) (builtin_all o)).
Proof. exact ops_commute_all_needs_blind. Qed.
Check C02_ops_commute_all_needs_blind_refuted : ~ (forall o, ops_commute (binop_all o) (builtin_all o)).
Print Assumptions C02_ops_commute_all_needs_blind_refuted.

(* refuted by `time_now()`: the documented behaviour of a clock, not a defect; the exclusion the model forces on the
   eval-twice theorems above is exactly "both evaluations under the same oracle record (the same clock reading)" *)
Theorem C02_eval_twice_across_clock_refuted : ~ C02_eval_twice_across_clock_full.
Proof. exact eval_twice_across_clock_refuted. Qed.
Check C02_eval_twice_across_clock_refuted : ~ C02_eval_twice_across_clock_full.
Print Assumptions C02_eval_twice_across_clock_refuted.

(* ---- the hypotheses are satisfiable on a program that uses the NEW arms: to_string / format / join over function
   values (one of them capturing another function: the case the blindness hypothesis is about), libm, `^`,
   time_now, print — under the trivial oracle (blind: [lam_str_blind_trivial]) ---- *)
Definition exa_cfg : cfg :=
  ([Some "f"], [(FOwned, [("l", VList [VNum (num_of_Z 3); VNum (num_of_Z 1)]); ("f", ex_f)])]).
Definition exa_expr : expr :=
  EList [Cm [] (ECall (EBuiltin B_to_string) [ELam [AReq "k"] (ECall (EId "f") [EId "k"])]) None;
         Cm [] (ECall (EBuiltin B_format) [EStr "{} and {}"; EId "f"; EId "l"]) None;
         Cm [] (ECall (EBuiltin B_join) [EList [Cm [] (EId "f") None; Cm [] (ELam [AReq "z"] (EId "z")) None]; EStr "-"]) None;
         Cm [] (ECall (EBuiltin B_map) [EId "l"; ELam [AReq "q"] (EBin Power (ECall (EBuiltin B_sin) [EId "q"]) (ENum (num_of_Z 2)))]) None;
         Cm [] (ECall (EBuiltin B_time_now) []) None;
         Cm [] (ECall (EBuiltin B_print) [ELam [AReq "u"] (EId "u")]) None;
         Cm [] (ELam [AReq "w"] (EId "w")) None].
Example C02_eval_twice_all_example :
  lam_str_blind oracle_trivial /\ no_assign exa_expr = true /\ cfg_wf exa_cfg = true /\
  let r1 := evalD true (binop_all oracle_trivial) (builtin_all oracle_trivial) 6 exa_cfg exa_expr in
  let r2 := evalD true (binop_all oracle_trivial) (builtin_all oracle_trivial) 6 (snd r1) exa_expr in
  is_ok (fst r1) = true /\ length (fst (snd r1)) = 6 /\ length (fst (snd r2)) = 11 /\
  fst r1 <> fst r2 /\ osame (fst r1) (fst r2).
Proof.
  split; [exact lam_str_blind_trivial|split; [reflexivity|split; [reflexivity|]]].
  vm_compute. repeat split. intros H; discriminate H.
Qed.

(* ---- the clock, positively (proofs/C02AllClock.v) ---- *)
Require Import Blots.proofs.C02AllClock.

(* same_but_clock o o' := builtin_all o' and builtin_all o agree on every built-in other than time_now, binop_all o' and
   binop_all o agree everywhere: o_now is read by the arm of time_now and by nothing else *)
Theorem C02_clock_read_by_one_arm : forall o t, same_but_clock o (with_now o t).
Proof. exact same_but_clock_with_now. Qed.
Check C02_clock_read_by_one_arm : forall o t, same_but_clock o (with_now o t).
Print Assumptions C02_clock_read_by_one_arm.

(* Unm.rle x y := fst x = Unmodelled \/ x = y.  Generic in two pairs of dispatchers at the same depth: if the left pair is
   pointwise 'Unmodelled, or equal' to the right pair (callbacks related the same way), so are the evaluations — every
   expression form, FunctionDef::call, every depth: an Unmodelled outcome of an operator / built-in is never swallowed *)
Theorem C02_unmodelled_never_swallowed : forall release bi1 bi2 bu1 bu2,
  (forall cb1 cb2, Unm.cb_le cb1 cb2 -> forall op l r st, Unm.rle (bi1 cb1 op l r st) (bi2 cb2 op l r st)) ->
  (forall cb1 cb2, Unm.cb_le cb1 cb2 -> forall b args st, Unm.rle (bu1 cb1 b args st) (bu2 cb2 b args st)) ->
  forall d c e, Unm.rle (evalD release bi1 bu1 d c e) (evalD release bi2 bu2 d c e).
Proof. exact Unm.evalD_le2. Qed.
Check C02_unmodelled_never_swallowed : forall release bi1 bi2 bu1 bu2,
  (forall cb1 cb2, Unm.cb_le cb1 cb2 -> forall op l r st, Unm.rle (bi1 cb1 op l r st) (bi2 cb2 op l r st)) ->
  (forall cb1 cb2, Unm.cb_le cb1 cb2 -> forall b args st, Unm.rle (bu1 cb1 b args st) (bu2 cb2 b args st)) ->
  forall d c e, Unm.rle (evalD release bi1 bu1 d c e) (evalD release bi2 bu2 d c e).
Print Assumptions C02_unmodelled_never_swallowed.

(* builtin_noclock o = builtin_all o with the arm of time_now POISONED (Unmodelled): an evaluation that does not end in
   Unmodelled under it (= never calls time_now, by the theorem above) has the same outcome, store and scope chain under
   every clock reading *)
Theorem C02_eval_same_under_every_clock : forall o t release d c e,
  fst (evalD release (binop_all o) (builtin_noclock o) d c e) <> Unmodelled ->
  evalD release (binop_all (with_now o t)) (builtin_all (with_now o t)) d c e =
  evalD release (binop_all o) (builtin_all o) d c e.
Proof. exact eval_any_clock. Qed.
Check C02_eval_same_under_every_clock : forall o t release d c e,
  fst (evalD release (binop_all o) (builtin_noclock o) d c e) <> Unmodelled ->
  evalD release (binop_all (with_now o t)) (builtin_all (with_now o t)) d c e =
  evalD release (binop_all o) (builtin_all o) d c e.
Print Assumptions C02_eval_same_under_every_clock.

(* EVAL-TWICE WITH THE CLOCK ADVANCING between the two evaluations: [C02_eval_twice_across_clock_full] with exactly the
   exclusion its refutation forces — the second evaluation does not read the clock *)
Theorem C02_eval_twice_across_clock_noclock : forall o t, lam_str_blind o ->
  forall release d e c r1 c1 r2 c2,
    no_assign e = true -> cfg_wf c = true ->
    evalD release (binop_all o) (builtin_all o) d c e = (r1, c1) ->
    fst (evalD release (binop_all o) (builtin_noclock o) d c1 e) <> Unmodelled ->
    evalD release (binop_all (with_now o t)) (builtin_all (with_now o t)) d c1 e = (r2, c2) ->
    osame r1 r2 /\ snd c2 = snd c /\ snd c1 = snd c.
Proof. exact eval_twice_across_clock_noclock. Qed.
Check C02_eval_twice_across_clock_noclock : forall o t, lam_str_blind o ->
  forall release d e c r1 c1 r2 c2,
    no_assign e = true -> cfg_wf c = true ->
    evalD release (binop_all o) (builtin_all o) d c e = (r1, c1) ->
    fst (evalD release (binop_all o) (builtin_noclock o) d c1 e) <> Unmodelled ->
    evalD release (binop_all (with_now o t)) (builtin_all (with_now o t)) d c1 e = (r2, c2) ->
    osame r1 r2 /\ snd c2 = snd c /\ snd c1 = snd c.
Print Assumptions C02_eval_twice_across_clock_noclock.

(* the exclusion holds of a program using libm, to_string of a function and a closure (first and second evaluation),
   and fails for `time_now()` — the witness of [C02_eval_twice_across_clock_refuted] *)
Example C02_noclock_exclusion_example :
  let ev := evalD true (binop_all oracle_trivial) (builtin_noclock oracle_trivial) 5 in
  fst (ev clock_cfg noclock_expr) <> Unmodelled /\
  fst (ev (snd (evalD true (binop_all oracle_trivial) (builtin_all oracle_trivial) 5 clock_cfg noclock_expr)) noclock_expr)
    <> Unmodelled /\
  fst (ev clock_cfg clock_expr) = Unmodelled.
Proof. exact noclock_exclusion_example. Qed.

(* a by-product of [C02_unmodelled_never_swallowed]: AllExtends.v's conservative extension lifted from the dispatchers to
   the EVALUATOR — a program on which the evaluator of the EVAL streams does not end in Unmodelled is computed
   identically (outcome, store, scope chain) by the evaluator with every built-in, for every oracle; so every `_fullbi`
   theorem above about such a program is one about eval_all, with no hypothesis on the oracle *)
Theorem C02_eval_all_extends_full : forall o release d c e,
  fst (evalD release binop_impl builtin_full d c e) <> Unmodelled ->
  evalD release (binop_all o) (builtin_all o) d c e = evalD release binop_impl builtin_full d c e.
Proof. exact evalD_all_extends_full. Qed.
Check C02_eval_all_extends_full : forall o release d c e,
  fst (evalD release binop_impl builtin_full d c e) <> Unmodelled ->
  evalD release (binop_all o) (builtin_all o) d c e = evalD release binop_impl builtin_full d c e.
Print Assumptions C02_eval_all_extends_full.

(* the two-statement law (one or several occurrences: sctx is contained in sctxs, [C02_sctx_is_sctxs]) after ANY program
   prefix from function-free inputs, complete built-in set, every blind oracle: no hypothesis on the configuration *)
Theorem C02_let_program_multi_after_any_prefix_all : forall o, lam_str_blind o ->
  forall release d0 d inputs prog x s C_x C_s v c1 rA cA rB cB,
  frame_lt 0 inputs = true ->
  let c := s_cfg (fst (run (evalD release (binop_all o) (builtin_all o) d0) (init_session inputs) prog)) in
  no_assign s = true -> no_assign C_s = true -> sctxs x s C_x C_s ->
  nocc x s = true -> nocc x C_s = true -> frames_nm x (snd c) = true ->
  evalD release (binop_all o) (builtin_all o) d c (EAssign x s) = (Ok v, c1) ->
  cell_free v = true ->
  evalD release (binop_all o) (builtin_all o) d c1 C_x = (rA, cA) ->
  evalD release (binop_all o) (builtin_all o) d c C_s = (rB, cB) ->
  osame rA rB.
Proof. exact let_program_multi_after_prefix_all. Qed.
Check C02_let_program_multi_after_any_prefix_all : forall o, lam_str_blind o ->
  forall release d0 d inputs prog x s C_x C_s v c1 rA cA rB cB,
  frame_lt 0 inputs = true ->
  let c := s_cfg (fst (run (evalD release (binop_all o) (builtin_all o) d0) (init_session inputs) prog)) in
  no_assign s = true -> no_assign C_s = true -> sctxs x s C_x C_s ->
  nocc x s = true -> nocc x C_s = true -> frames_nm x (snd c) = true ->
  evalD release (binop_all o) (builtin_all o) d c (EAssign x s) = (Ok v, c1) ->
  cell_free v = true ->
  evalD release (binop_all o) (builtin_all o) d c1 C_x = (rA, cA) ->
  evalD release (binop_all o) (builtin_all o) d c C_s = (rB, cB) ->
  osame rA rB.
Print Assumptions C02_let_program_multi_after_any_prefix_all.
