(* C14 — indexing, spreading and the list / string / record built-ins satisfy their laws.
   Property theorems only: each is closed by [exact lemma], pinned by [Check], followed by
   [Print Assumptions].  The model objects are the transcriptions in Access.v and
   BuiltinsList.v, tied to the code by the C14 correspondence streams (checks/c14.py). *)
From Coq Require Import String Ascii List ZArith Bool Permutation.
Require Import Blots.Num Blots.gen.Builtins Blots.Ast Blots.Value Blots.Outcome Blots.Access
  Blots.BuiltinsList Blots.proofs.ValueInd Blots.proofs.Order Blots.proofs.ListLaws.
Import ListNotations.
Open Scope list_scope.

(* reverse is an involution *)
Theorem C14_reverse_involutive : forall l r,
  bi_reverse [VList l] = Ok r -> bi_reverse [r] = Ok (VList l).
Proof. exact reverse_involutive. Qed.
Check C14_reverse_involutive : forall l r,
  bi_reverse [VList l] = Ok r -> bi_reverse [r] = Ok (VList l).
Print Assumptions C14_reverse_involutive.

(* concat is list append *)
Theorem C14_concat_app : forall a b, bi_concat [VList a; VList b] = Ok (VList (a ++ b)).
Proof. exact concat_app. Qed.
Check C14_concat_app : forall a b, bi_concat [VList a; VList b] = Ok (VList (a ++ b)).
Print Assumptions C14_concat_app.

(* head and tail rebuild a non-empty list *)
Theorem C14_head_tail_rebuild : forall x l,
  bi_head [VList (x :: l)] = Ok x /\ bi_tail [VList (x :: l)] = Ok (VList l).
Proof. exact head_tail_rebuild_list. Qed.
Check C14_head_tail_rebuild : forall x l,
  bi_head [VList (x :: l)] = Ok x /\ bi_tail [VList (x :: l)] = Ok (VList l).
Print Assumptions C14_head_tail_rebuild.
