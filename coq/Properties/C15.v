(* C15 — Aggregates equal their mathematical definitions in both calling conventions.
   Property theorems only: each is closed by [exact lemma], pinned by [Check], and followed by
   [Print Assumptions].  The model objects are the bi_<name> functions of BuiltinsAgg.v, the
   transcription of the corresponding arms of BuiltInFunction::call (blots-core/src/functions.rs),
   tied to the code by the C15 correspondence streams (checks/c15.py). *)
From Coq Require Import ZArith String List Bool Floats.SpecFloat Permutation Reals.
From Flocq Require Import Core.Zaux Core.Raux Core.Defs IEEE754.BinarySingleNaN.
Require Import Blots.Num Blots.gen.Builtins Blots.Ast Blots.Value Blots.Outcome Blots.BuiltinsAgg
  Blots.proofs.Aggregates Blots.proofs.AggPercentile Blots.proofs.AggPanics Blots.proofs.AggRounding.
Import ListNotations.
Open Scope Z_scope.

(* ---------------------------------------------------------------- calling conventions *)
(* One list argument and the same values as separate (or spread: the evaluator flattens spread
   arguments before the call) arguments give the same outcome, for ANY argument values (numbers or
   not, empty or not), except when the separate arguments are themselves exactly one list. *)
Theorem C15_conventions_agree : forall a vs,
  is_varargs a = true -> not_single_list vs = true -> bi_agg a [VList vs] = bi_agg a vs.
Proof. exact conventions_agree. Qed.
Check C15_conventions_agree : forall a vs,
  is_varargs a = true -> not_single_list vs = true -> bi_agg a [VList vs] = bi_agg a vs.
Print Assumptions C15_conventions_agree.

(* in particular for every list of numbers, of any length (also 0 and 1) *)
Theorem C15_conventions_agree_numbers : forall a l,
  is_varargs a = true -> bi_agg a [VList (nums l)] = bi_agg a (nums l).
Proof. exact conventions_agree_nums. Qed.
Check C15_conventions_agree_numbers : forall a l,
  is_varargs a = true -> bi_agg a [VList (nums l)] = bi_agg a (nums l).
Print Assumptions C15_conventions_agree_numbers.

(* the length-1 disambiguation, exactly as the code behaves: a single argument that is a list is
   always read as THE list of numbers; hence f([[..]]) is a type error *)
Theorem C15_single_list_is_the_list : forall a l,
  is_varargs a = true -> bi_agg a [VList [VList l]] = Err.
Proof. exact nested_single_list_rejected. Qed.
Check C15_single_list_is_the_list : forall a l,
  is_varargs a = true -> bi_agg a [VList [VList l]] = Err.
Print Assumptions C15_single_list_is_the_list.

Example conventions_hyp_satisfiable :
  is_varargs AMedian = true /\ not_single_list [VNum n1; VStr "x"] = true /\
  not_single_list [VList [VNum n1]] = false.
Proof. repeat split. Qed.

(* ---------------------------------------------------------------- sum prod avg *)
(* sum / prod are the left folds with Rust's initial elements (-0.0 and 1.0) *)
Theorem C15_sum_is_fold : forall l, l <> [] ->
  bi_sum [VList (nums l)] = Ok (VNum (fold_left nadd l nnzero)) /\
  bi_sum (nums l) = Ok (VNum (fold_left nadd l nnzero)).
Proof. exact sum_is_fold. Qed.
Check C15_sum_is_fold : forall l, l <> [] ->
  bi_sum [VList (nums l)] = Ok (VNum (fold_left nadd l nnzero)) /\
  bi_sum (nums l) = Ok (VNum (fold_left nadd l nnzero)).
Print Assumptions C15_sum_is_fold.

Theorem C15_prod_is_fold : forall l, l <> [] ->
  bi_prod [VList (nums l)] = Ok (VNum (fold_left nmul l n1)) /\
  bi_prod (nums l) = Ok (VNum (fold_left nmul l n1)).
Proof. exact prod_is_fold. Qed.
Check C15_prod_is_fold : forall l, l <> [] ->
  bi_prod [VList (nums l)] = Ok (VNum (fold_left nmul l n1)) /\
  bi_prod (nums l) = Ok (VNum (fold_left nmul l n1)).
Print Assumptions C15_prod_is_fold.

(* avg is sum divided by the count (the count converted exactly as `len as f64`) *)
Theorem C15_avg_is_sum_div_count : forall l, l <> [] ->
  exists s, bi_sum (nums l) = Ok (VNum s) /\
            bi_avg (nums l) = Ok (VNum (ndiv s (num_of_Z (Z.of_nat (length l))))) /\
            bi_avg [VList (nums l)] = Ok (VNum (ndiv s (num_of_Z (Z.of_nat (length l))))).
Proof. exact avg_is_sum_div_count. Qed.
Check C15_avg_is_sum_div_count : forall l, l <> [] ->
  exists s, bi_sum (nums l) = Ok (VNum s) /\
            bi_avg (nums l) = Ok (VNum (ndiv s (num_of_Z (Z.of_nat (length l))))) /\
            bi_avg [VList (nums l)] = Ok (VNum (ndiv s (num_of_Z (Z.of_nat (length l))))).
Print Assumptions C15_avg_is_sum_div_count.

(* ---------------------------------------------------------------- min max *)
(* On a non-empty NaN-free list, min (max) is an element of the list that bounds all others from
   below (above); the order is f64's (nleb = `<=`, so +0 and -0 are identified). *)
Theorem C15_min_bound : forall l, l <> [] -> nan_free l = true ->
  exists m, bi_min (nums l) = Ok (VNum m) /\ bi_min [VList (nums l)] = Ok (VNum m) /\
            In m l /\ forall x, In x l -> nle m x.
Proof. exact min_bound. Qed.
Check C15_min_bound : forall l, l <> [] -> nan_free l = true ->
  exists m, bi_min (nums l) = Ok (VNum m) /\ bi_min [VList (nums l)] = Ok (VNum m) /\
            In m l /\ forall x, In x l -> nle m x.
Print Assumptions C15_min_bound.

Theorem C15_max_bound : forall l, l <> [] -> nan_free l = true ->
  exists m, bi_max (nums l) = Ok (VNum m) /\ bi_max [VList (nums l)] = Ok (VNum m) /\
            In m l /\ forall x, In x l -> nle x m.
Proof. exact max_bound. Qed.
Check C15_max_bound : forall l, l <> [] -> nan_free l = true ->
  exists m, bi_max (nums l) = Ok (VNum m) /\ bi_max [VList (nums l)] = Ok (VNum m) /\
            In m l /\ forall x, In x l -> nle x m.
Print Assumptions C15_max_bound.

Example nan_free_satisfiable : nan_free [n1; nnzero; npinf; nninf; n100] = true.
Proof. reflexivity. Qed.

(* ---------------------------------------------------------------- order statistics *)
(* is_order_stat l k v  :=  v occurs in l, at most k elements of l are < v, more than k are <= v.
   The definition counts, so it is invariant under permutation by construction; on NaN-free lists
   it determines v up to ==, and it is monotone in k. *)
Theorem C15_order_stat_perm : forall l l' k v,
  Permutation l l' -> is_order_stat l k v -> is_order_stat l' k v.
Proof. exact order_stat_perm. Qed.
Check C15_order_stat_perm : forall l l' k v,
  Permutation l l' -> is_order_stat l k v -> is_order_stat l' k v.
Print Assumptions C15_order_stat_perm.

Theorem C15_order_stat_unique : forall l k v w,
  nan_free l = true -> is_order_stat l k v -> is_order_stat l k w -> neq v w.
Proof. exact order_stat_unique. Qed.
Check C15_order_stat_unique : forall l k v w,
  nan_free l = true -> is_order_stat l k v -> is_order_stat l k w -> neq v w.
Print Assumptions C15_order_stat_unique.

Theorem C15_order_stat_mono : forall l j k v w, nan_free l = true -> (j <= k)%nat ->
  is_order_stat l j v -> is_order_stat l k w -> nle v w.
Proof. exact order_stat_mono. Qed.
Check C15_order_stat_mono : forall l j k v w, nan_free l = true -> (j <= k)%nat ->
  is_order_stat l j v -> is_order_stat l k w -> nle v w.
Print Assumptions C15_order_stat_mono.

(* the sort the code uses: sorts every NaN-free list (a permutation, ascending) ... *)
Theorem C15_sort_sorts : forall l, nan_free l = true ->
  exists s, sort_pc l = Ok s /\ Permutation l s /\ Sorted.Sorted nle s.
Proof. exact sort_pc_sorts. Qed.
Check C15_sort_sorts : forall l, nan_free l = true ->
  exists s, sort_pc l = Ok s /\ Permutation l s /\ Sorted.Sorted nle s.
Print Assumptions C15_sort_sorts.

(* ... and aborts exactly when there are at least two numbers and one of them is a NaN *)
Theorem C15_sort_panic_iff : forall l,
  sort_pc l = Panic <-> ((2 <= length l)%nat /\ has_nan l = true).
Proof. exact sort_pc_panic_iff. Qed.
Check C15_sort_panic_iff : forall l,
  sort_pc l = Panic <-> ((2 <= length l)%nat /\ has_nan l = true).
Print Assumptions C15_sort_panic_iff.

(* ---------------------------------------------------------------- median *)
(* median is the middle order statistic, or (x + y) / 2.0 for the two middle ones *)
Theorem C15_median_order_stat : forall l, l <> [] -> nan_free l = true ->
  let n := length l in
  exists m, bi_median (nums l) = Ok (VNum m) /\ bi_median [VList (nums l)] = Ok (VNum m) /\
    if Nat.even n
    then exists x y, is_order_stat l (n / 2 - 1) x /\ is_order_stat l (n / 2) y /\
                     m = ndiv (nadd x y) n2
    else is_order_stat l (n / 2) m.
Proof. exact median_order_stat. Qed.
Check C15_median_order_stat : forall l, l <> [] -> nan_free l = true ->
  let n := length l in
  exists m, bi_median (nums l) = Ok (VNum m) /\ bi_median [VList (nums l)] = Ok (VNum m) /\
    if Nat.even n
    then exists x y, is_order_stat l (n / 2 - 1) x /\ is_order_stat l (n / 2) y /\
                     m = ndiv (nadd x y) n2
    else is_order_stat l (n / 2) m.
Print Assumptions C15_median_order_stat.

(* ---------------------------------------------------------------- permutation invariance *)
(* exact (no rounding) for min / max / median: equal as numbers (==; the stable sort keeps the
   input order of +0 and -0, so the bit pattern of a zero result may differ) *)
Theorem C15_min_perm_invariant : forall l l', Permutation l l' -> l <> [] -> nan_free l = true ->
  exists m m', bi_min (nums l) = Ok (VNum m) /\ bi_min (nums l') = Ok (VNum m') /\ neq m m'.
Proof. exact min_perm_invariant. Qed.
Check C15_min_perm_invariant : forall l l', Permutation l l' -> l <> [] -> nan_free l = true ->
  exists m m', bi_min (nums l) = Ok (VNum m) /\ bi_min (nums l') = Ok (VNum m') /\ neq m m'.
Print Assumptions C15_min_perm_invariant.

Theorem C15_max_perm_invariant : forall l l', Permutation l l' -> l <> [] -> nan_free l = true ->
  exists m m', bi_max (nums l) = Ok (VNum m) /\ bi_max (nums l') = Ok (VNum m') /\ neq m m'.
Proof. exact max_perm_invariant. Qed.
Check C15_max_perm_invariant : forall l l', Permutation l l' -> l <> [] -> nan_free l = true ->
  exists m m', bi_max (nums l) = Ok (VNum m) /\ bi_max (nums l') = Ok (VNum m') /\ neq m m'.
Print Assumptions C15_max_perm_invariant.

Theorem C15_median_perm_invariant : forall l l',
  Permutation l l' -> l <> [] -> nan_free l = true ->
  exists m m', bi_median (nums l) = Ok (VNum m) /\ bi_median (nums l') = Ok (VNum m') /\
               same_num m m'.
Proof. exact median_perm_invariant. Qed.
Check C15_median_perm_invariant : forall l l',
  Permutation l l' -> l <> [] -> nan_free l = true ->
  exists m m', bi_median (nums l) = Ok (VNum m) /\ bi_median (nums l') = Ok (VNum m') /\
               same_num m m'.
Print Assumptions C15_median_perm_invariant.

(* ---------------------------------------------------------------- percentile *)
(* The code is nearest-rank (no interpolation): index = round(p / 100.0 * (n - 1)) computed in
   doubles.  Hypotheses: p is a genuine double (valid_binary) in [0, 100]; the list is non-empty,
   NaN-free and has at most 2^53 elements ((n - 1) as f64 is then exact; a longer Vec<f64> cannot
   exist).  rank_of p l is that index. *)
Theorem C15_percentile_index_in_range : forall p N,
  valid p = true -> in_0_100 p = true -> 0 <= N <= 2^53 -> 0 <= percentile_index p N <= N.
Proof. exact index_in_range. Qed.
Check C15_percentile_index_in_range : forall p N,
  valid p = true -> in_0_100 p = true -> 0 <= N <= 2^53 -> 0 <= percentile_index p N <= N.
Print Assumptions C15_percentile_index_in_range.

(* percentile(l, p) is an order statistic of l, in particular an element of l *)
Theorem C15_percentile_order_stat : forall l p,
  l <> [] -> nan_free l = true -> len l <= 2^53 -> valid p = true -> in_0_100 p = true ->
  exists v, bi_percentile [VList (nums l); VNum p] = Ok (VNum v) /\
            is_order_stat l (rank_of p l) v /\ (rank_of p l < length l)%nat.
Proof. exact percentile_order_stat. Qed.
Check C15_percentile_order_stat : forall l p,
  l <> [] -> nan_free l = true -> len l <= 2^53 -> valid p = true -> in_0_100 p = true ->
  exists v, bi_percentile [VList (nums l); VNum p] = Ok (VNum v) /\
            is_order_stat l (rank_of p l) v /\ (rank_of p l < length l)%nat.
Print Assumptions C15_percentile_order_stat.

Theorem C15_percentile_elem : forall l p,
  l <> [] -> nan_free l = true -> len l <= 2^53 -> valid p = true -> in_0_100 p = true ->
  exists v, bi_percentile [VList (nums l); VNum p] = Ok (VNum v) /\ In v l.
Proof. exact percentile_elem. Qed.
Check C15_percentile_elem : forall l p,
  l <> [] -> nan_free l = true -> len l <= 2^53 -> valid p = true -> in_0_100 p = true ->
  exists v, bi_percentile [VList (nums l); VNum p] = Ok (VNum v) /\ In v l.
Print Assumptions C15_percentile_elem.

(* non-decreasing in p *)
Theorem C15_percentile_mono : forall l p q,
  l <> [] -> nan_free l = true -> len l <= 2^53 ->
  valid p = true -> in_0_100 p = true -> valid q = true -> in_0_100 q = true -> nle p q ->
  exists v w, bi_percentile [VList (nums l); VNum p] = Ok (VNum v) /\
              bi_percentile [VList (nums l); VNum q] = Ok (VNum w) /\ nle v w.
Proof. exact percentile_mono. Qed.
Check C15_percentile_mono : forall l p q,
  l <> [] -> nan_free l = true -> len l <= 2^53 ->
  valid p = true -> in_0_100 p = true -> valid q = true -> in_0_100 q = true -> nle p q ->
  exists v w, bi_percentile [VList (nums l); VNum p] = Ok (VNum v) /\
              bi_percentile [VList (nums l); VNum q] = Ok (VNum w) /\ nle v w.
Print Assumptions C15_percentile_mono.

(* percentile(l, 0) = min  (p = +0 or -0), percentile(l, 100) = max, as numbers *)
Theorem C15_percentile_0_min : forall l p, is_zero p = true ->
  l <> [] -> nan_free l = true -> len l <= 2^53 ->
  exists v m, bi_percentile [VList (nums l); VNum p] = Ok (VNum v) /\
              bi_min (nums l) = Ok (VNum m) /\ neq v m.
Proof. exact percentile_0_min. Qed.
Check C15_percentile_0_min : forall l p, is_zero p = true ->
  l <> [] -> nan_free l = true -> len l <= 2^53 ->
  exists v m, bi_percentile [VList (nums l); VNum p] = Ok (VNum v) /\
              bi_min (nums l) = Ok (VNum m) /\ neq v m.
Print Assumptions C15_percentile_0_min.

Theorem C15_percentile_100_max : forall l,
  l <> [] -> nan_free l = true -> len l <= 2^53 ->
  exists v m, bi_percentile [VList (nums l); VNum n100] = Ok (VNum v) /\
              bi_max (nums l) = Ok (VNum m) /\ neq v m.
Proof. exact percentile_100_max. Qed.
Check C15_percentile_100_max : forall l,
  l <> [] -> nan_free l = true -> len l <= 2^53 ->
  exists v m, bi_percentile [VList (nums l); VNum n100] = Ok (VNum v) /\
              bi_max (nums l) = Ok (VNum m) /\ neq v m.
Print Assumptions C15_percentile_100_max.

Theorem C15_percentile_perm_invariant : forall l l' p, Permutation l l' ->
  l <> [] -> nan_free l = true -> len l <= 2^53 -> valid p = true -> in_0_100 p = true ->
  exists v v', bi_percentile [VList (nums l); VNum p] = Ok (VNum v) /\
               bi_percentile [VList (nums l'); VNum p] = Ok (VNum v') /\ neq v v'.
Proof. exact percentile_perm_invariant. Qed.
Check C15_percentile_perm_invariant : forall l l' p, Permutation l l' ->
  l <> [] -> nan_free l = true -> len l <= 2^53 -> valid p = true -> in_0_100 p = true ->
  exists v v', bi_percentile [VList (nums l); VNum p] = Ok (VNum v) /\
               bi_percentile [VList (nums l'); VNum p] = Ok (VNum v') /\ neq v v'.
Print Assumptions C15_percentile_perm_invariant.

Example percentile_hyp_satisfiable :
  let p := nb 0x4040a66666666666 (* 33.3 *) in let l := [n1; n100; nnzero; n2] in
  valid p = true /\ in_0_100 p = true /\ nan_free l = true /\ len l <= 2^53 /\
  bi_percentile [VList (nums l); VNum p] = Ok (VNum n1).
Proof. vm_compute. repeat split; congruence. Qed.

(* ---------------------------------------------------------------- no panics *)
(* An arity-respecting call of any of the ten built-ins returns a value or an error — it never
   aborts (and is never ErrDepth / Unmodelled).  args_ok: a percentile call has a genuine double p
   and a list of at most 2^53 elements.  Before /repo commit 710ac9a this statement was refuted by
   the faithful model (median(0/0, 1), percentile([0/0, 1], 50), percentile([], 50): DESIGN section
   7 F1/F2, known/C15.json, now "fixed"); the witnesses stay in corpus/C15 as regression inputs. *)
Theorem C15_checked_call_total : forall a args, args_ok args -> ok_or_err (checked_call a args).
Proof. exact checked_call_total. Qed.
Check C15_checked_call_total : forall a args, args_ok args -> ok_or_err (checked_call a args).
Print Assumptions C15_checked_call_total.

Theorem C15_no_panic : forall a args, args_ok args -> checked_call a args <> Panic.
Proof. exact no_panic. Qed.
Check C15_no_panic : forall a args, args_ok args -> checked_call a args <> Panic.
Print Assumptions C15_no_panic.

Example args_ok_satisfiable :
  args_ok [VList [VNum nnan; VNum n1]; VNum (nb 0x4049000000000000)] /\
  checked_call APercentile [VList [VNum nnan; VNum n1]; VNum (nb 0x4049000000000000)] = Ok (VNum nnan) /\
  checked_call AMedian [VNum nnan; VNum n1] = Ok (VNum nnan) /\
  checked_call APercentile [VList []; VNum (nb 0x4049000000000000)] = Err.
Proof.
  split; [|vm_compute; repeat split].
  intros vs p H. injection H as <- <-. split; vm_compute; congruence.
Qed.

(* what the guards return: NaN propagates through median / percentile, the empty list is an error *)
Theorem C15_median_nan : forall args ns, collect_nums args = Ok ns -> ns <> [] -> has_nan ns = true ->
  bi_median args = Ok (VNum nnan).
Proof. exact median_nan. Qed.
Check C15_median_nan : forall args ns, collect_nums args = Ok ns -> ns <> [] -> has_nan ns = true ->
  bi_median args = Ok (VNum nnan).
Print Assumptions C15_median_nan.

Theorem C15_percentile_nan : forall vs p ns, valid p = true -> len vs <= 2^53 -> in_0_100 p = true ->
  mapM as_number vs = Ok ns -> ns <> [] -> has_nan ns = true ->
  bi_percentile [VList vs; VNum p] = Ok (VNum nnan).
Proof. exact percentile_nan. Qed.
Check C15_percentile_nan : forall vs p ns, valid p = true -> len vs <= 2^53 -> in_0_100 p = true ->
  mapM as_number vs = Ok ns -> ns <> [] -> has_nan ns = true ->
  bi_percentile [VList vs; VNum p] = Ok (VNum nnan).
Print Assumptions C15_percentile_nan.

Theorem C15_percentile_empty : forall p, in_0_100 p = true -> bi_percentile [VList []; VNum p] = Err.
Proof. exact percentile_empty. Qed.
Check C15_percentile_empty : forall p, in_0_100 p = true -> bi_percentile [VList []; VNum p] = Err.
Print Assumptions C15_percentile_empty.

(* debug (overflow-checked) and release builds give the same outcome for percentile *)
Theorem C15_percentile_build_independent : forall args,
  bi_percentile_gen true args = bi_percentile_gen false args.
Proof. exact percentile_build_independent. Qed.
Check C15_percentile_build_independent : forall args,
  bi_percentile_gen true args = bi_percentile_gen false args.
Print Assumptions C15_percentile_build_independent.

(* ---------------------------------------------------------------- "up to rounding" *)
(* R_of x is the real value of a double (Flocq's SF2R), u = 2^-53, finv x = a genuine finite
   double.  rsum / rabs_sum / rprod are the exact real sum, sum of magnitudes and product.
   sum: Higham's bound for recursive summation, under "no partial sum overflows"
   (partial_finite, a decidable condition on the model's own partial sums; addition needs no
   underflow condition).  prod: relative error (1+u)^n - 1 under prod_ok = no partial product
   overflows and no exact partial product can fall in the subnormal range (mul_safe: read off
   the exponents) or a factor is zero. *)
Theorem C15_sum_rounding_bound : forall l, l <> [] ->
  forallb finv l = true -> partial_finite nnzero l = true ->
  (Rabs (SF2R radix2 (fold_sum l) - rsum l) <= ((1 + u) ^ (length l - 1) - 1) * rabs_sum l)%R.
Proof. exact sum_rounding_bound. Qed.
Check C15_sum_rounding_bound : forall l, l <> [] ->
  forallb finv l = true -> partial_finite nnzero l = true ->
  (Rabs (SF2R radix2 (fold_sum l) - rsum l) <= ((1 + u) ^ (length l - 1) - 1) * rabs_sum l)%R.
Print Assumptions C15_sum_rounding_bound.

Theorem C15_prod_rounding_bound : forall l,
  forallb finv l = true -> prod_ok n1 l = true ->
  (Rabs (SF2R radix2 (fold_prod l) - rprod l) <= ((1 + u) ^ length l - 1) * Rabs (rprod l))%R.
Proof. exact prod_rounding_bound. Qed.
Check C15_prod_rounding_bound : forall l,
  forallb finv l = true -> prod_ok n1 l = true ->
  (Rabs (SF2R radix2 (fold_prod l) - rprod l) <= ((1 + u) ^ length l - 1) * Rabs (rprod l))%R.
Print Assumptions C15_prod_rounding_bound.

(* permutation invariance of sum / prod up to rounding: two orders differ by at most twice the bound *)
Theorem C15_sum_perm_rounding : forall l l', Permutation l l' -> l <> [] ->
  forallb finv l = true -> partial_finite nnzero l = true -> partial_finite nnzero l' = true ->
  (Rabs (SF2R radix2 (fold_sum l) - SF2R radix2 (fold_sum l'))
   <= 2 * (((1 + u) ^ (length l - 1) - 1) * rabs_sum l))%R.
Proof. exact sum_perm_rounding. Qed.
Check C15_sum_perm_rounding : forall l l', Permutation l l' -> l <> [] ->
  forallb finv l = true -> partial_finite nnzero l = true -> partial_finite nnzero l' = true ->
  (Rabs (SF2R radix2 (fold_sum l) - SF2R radix2 (fold_sum l'))
   <= 2 * (((1 + u) ^ (length l - 1) - 1) * rabs_sum l))%R.
Print Assumptions C15_sum_perm_rounding.

Theorem C15_prod_perm_rounding : forall l l', Permutation l l' ->
  forallb finv l = true -> prod_ok n1 l = true -> prod_ok n1 l' = true ->
  (Rabs (SF2R radix2 (fold_prod l) - SF2R radix2 (fold_prod l'))
   <= 2 * (((1 + u) ^ length l - 1) * Rabs (rprod l)))%R.
Proof. exact prod_perm_rounding. Qed.
Check C15_prod_perm_rounding : forall l l', Permutation l l' ->
  forallb finv l = true -> prod_ok n1 l = true -> prod_ok n1 l' = true ->
  (Rabs (SF2R radix2 (fold_prod l) - SF2R radix2 (fold_prod l'))
   <= 2 * (((1 + u) ^ length l - 1) * Rabs (rprod l)))%R.
Print Assumptions C15_prod_perm_rounding.

Example rounding_hyp_satisfiable :
  let l := [nb 0x3fb999999999999a (* 0.1 *); nb 0x3fc999999999999a (* 0.2 *); nb 0xc008000000000000 (* -3 *)] in
  forallb finv l = true /\ partial_finite nnzero l = true /\ prod_ok n1 l = true.
Proof. vm_compute. repeat split. Qed.

(* avg: fl(sum / n) (proved exactly above) is within the bound of the exact mean; the absolute term
   2^-1075 is the division's rounding error in the subnormal range *)
Theorem C15_avg_rounding_bound : forall l, l <> [] -> Z.of_nat (length l) <= 2^53 ->
  forallb finv l = true -> partial_finite nnzero l = true ->
  (Rabs (SF2R radix2 (ndiv (fold_sum l) (num_of_Z (Z.of_nat (length l)))) - rsum l / INR (length l))
   <= ((1 + u) ^ length l - 1) * (rabs_sum l / INR (length l)) + bpow radix2 (-1075))%R.
Proof. exact avg_rounding_bound. Qed.
Check C15_avg_rounding_bound : forall l, l <> [] -> Z.of_nat (length l) <= 2^53 ->
  forallb finv l = true -> partial_finite nnzero l = true ->
  (Rabs (SF2R radix2 (ndiv (fold_sum l) (num_of_Z (Z.of_nat (length l)))) - rsum l / INR (length l))
   <= ((1 + u) ^ length l - 1) * (rabs_sum l / INR (length l)) + bpow radix2 (-1075))%R.
Print Assumptions C15_avg_rounding_bound.

Theorem C15_avg_perm_rounding : forall l l', Permutation l l' -> l <> [] ->
  Z.of_nat (length l) <= 2^53 ->
  forallb finv l = true -> partial_finite nnzero l = true -> partial_finite nnzero l' = true ->
  (Rabs (SF2R radix2 (avg_of l) - SF2R radix2 (avg_of l'))
   <= 2 * (((1 + u) ^ length l - 1) * (rabs_sum l / INR (length l)) + bpow radix2 (-1075)))%R.
Proof. exact avg_perm_rounding. Qed.
Check C15_avg_perm_rounding : forall l l', Permutation l l' -> l <> [] ->
  Z.of_nat (length l) <= 2^53 ->
  forallb finv l = true -> partial_finite nnzero l = true -> partial_finite nnzero l' = true ->
  (Rabs (SF2R radix2 (avg_of l) - SF2R radix2 (avg_of l'))
   <= 2 * (((1 + u) ^ length l - 1) * (rabs_sum l / INR (length l)) + bpow radix2 (-1075)))%R.
Print Assumptions C15_avg_perm_rounding.

(* avg_of is what bi_avg returns *)
Theorem C15_avg_of_is_avg : forall l, l <> [] -> bi_avg (nums l) = Ok (VNum (avg_of l)).
Proof. exact avg_of_is_avg. Qed.
Check C15_avg_of_is_avg : forall l, l <> [] -> bi_avg (nums l) = Ok (VNum (avg_of l)).
Print Assumptions C15_avg_of_is_avg.
