(* C15 — Aggregates equal their mathematical definitions in both calling conventions.
   Property theorems only: each is closed by [exact lemma], pinned by [Check], and followed by
   [Print Assumptions].  The model objects are the bi_<name> functions of BuiltinsAgg.v, the
   transcription of the corresponding arms of BuiltInFunction::call (blots-core/src/functions.rs),
   tied to the code by the C15 correspondence streams (checks/c15.py). *)
From Coq Require Import ZArith String List Bool Floats.SpecFloat Permutation.
Require Import Blots.Num Blots.gen.Builtins Blots.Ast Blots.Value Blots.Outcome Blots.BuiltinsAgg
  Blots.proofs.Aggregates.
Import ListNotations.
Open Scope Z_scope.

(* ---------------------------------------------------------------- calling conventions *)
(* One list argument and the same values as separate (or spread: the evaluator flattens spread
   arguments before the call) arguments give the same outcome, for ANY argument values (numbers or
   not, empty or not), except when the separate arguments are themselves exactly one list. *)
Theorem C15_conventions_agree : forall a vs,
  is_varargs a = true -> not_single_list vs = true -> bi_agg a [VList vs] = bi_agg a vs.
Proof. exact conventions_agree. Qed.
Check C15_conventions_agree : forall a vs,
  is_varargs a = true -> not_single_list vs = true -> bi_agg a [VList vs] = bi_agg a vs.
Print Assumptions C15_conventions_agree.

(* in particular for every list of numbers, of any length (also 0 and 1) *)
Theorem C15_conventions_agree_numbers : forall a l,
  is_varargs a = true -> bi_agg a [VList (nums l)] = bi_agg a (nums l).
Proof. exact conventions_agree_nums. Qed.
Check C15_conventions_agree_numbers : forall a l,
  is_varargs a = true -> bi_agg a [VList (nums l)] = bi_agg a (nums l).
Print Assumptions C15_conventions_agree_numbers.

(* the length-1 disambiguation, exactly as the code behaves: a single argument that is a list is
   always read as THE list of numbers; hence f([[..]]) is a type error *)
Theorem C15_single_list_is_the_list : forall a l,
  is_varargs a = true -> bi_agg a [VList [VList l]] = Err.
Proof. exact nested_single_list_rejected. Qed.
Check C15_single_list_is_the_list : forall a l,
  is_varargs a = true -> bi_agg a [VList [VList l]] = Err.
Print Assumptions C15_single_list_is_the_list.

Example conventions_hyp_satisfiable :
  is_varargs AMedian = true /\ not_single_list [VNum n1; VStr "x"] = true /\
  not_single_list [VList [VNum n1]] = false.
Proof. repeat split. Qed.

(* ---------------------------------------------------------------- sum prod avg *)
(* sum / prod are the left folds with Rust's initial elements (-0.0 and 1.0) *)
Theorem C15_sum_is_fold : forall l, l <> [] ->
  bi_sum [VList (nums l)] = Ok (VNum (fold_left nadd l nnzero)) /\
  bi_sum (nums l) = Ok (VNum (fold_left nadd l nnzero)).
Proof. exact sum_is_fold. Qed.
Check C15_sum_is_fold : forall l, l <> [] ->
  bi_sum [VList (nums l)] = Ok (VNum (fold_left nadd l nnzero)) /\
  bi_sum (nums l) = Ok (VNum (fold_left nadd l nnzero)).
Print Assumptions C15_sum_is_fold.

Theorem C15_prod_is_fold : forall l, l <> [] ->
  bi_prod [VList (nums l)] = Ok (VNum (fold_left nmul l n1)) /\
  bi_prod (nums l) = Ok (VNum (fold_left nmul l n1)).
Proof. exact prod_is_fold. Qed.
Check C15_prod_is_fold : forall l, l <> [] ->
  bi_prod [VList (nums l)] = Ok (VNum (fold_left nmul l n1)) /\
  bi_prod (nums l) = Ok (VNum (fold_left nmul l n1)).
Print Assumptions C15_prod_is_fold.

(* avg is sum divided by the count (the count converted exactly as `len as f64`) *)
Theorem C15_avg_is_sum_div_count : forall l, l <> [] ->
  exists s, bi_sum (nums l) = Ok (VNum s) /\
            bi_avg (nums l) = Ok (VNum (ndiv s (num_of_Z (Z.of_nat (length l))))) /\
            bi_avg [VList (nums l)] = Ok (VNum (ndiv s (num_of_Z (Z.of_nat (length l))))).
Proof. exact avg_is_sum_div_count. Qed.
Check C15_avg_is_sum_div_count : forall l, l <> [] ->
  exists s, bi_sum (nums l) = Ok (VNum s) /\
            bi_avg (nums l) = Ok (VNum (ndiv s (num_of_Z (Z.of_nat (length l))))) /\
            bi_avg [VList (nums l)] = Ok (VNum (ndiv s (num_of_Z (Z.of_nat (length l))))).
Print Assumptions C15_avg_is_sum_div_count.
