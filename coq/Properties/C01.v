(* C01 — No input crashes the parse / evaluate / serialise / format pipeline; reported error
   locations lie inside their text.

   What the model carries (this file): the evaluator stage.  The model returns the explicit
   outcome [Panic] exactly where the Rust code has a partial operation on a modelled path
   (`args[i]`, `list[idx]`, unreachable!(), Environment::insert into a shared frame, debug-build
   `+ 1` overflow), so "never Panic" is a statement about the guards of the code, not about
   Coq's totality.  Theorems: for every depth budget, expression and configuration whose
   innermost frame is Owned ([wf], shown to be preserved), evaluation never returns Panic —
   first for ANY operator / built-in implementation that does not panic when its callback does
   not, then with those hypotheses discharged for the transcriptions in the tree.
   What it does not carry: pest, ariadne, serde_json, the formatter/printer string code and the
   built-ins that are not transcribed on this branch — those stages are decided by the
   implementation-level search of checks/c01.py (in-process catch_unwind per stage + exit
   status of the real binary, debug and release).  Error spans are not part of the model
   (Err carries no payload): the span-inside-source half is search only.                *)
From Coq Require Import String List ZArith Bool Lia.
Require Import Blots.Num Blots.gen.Builtins Blots.Ast Blots.Value Blots.Outcome Blots.Binop
               Blots.Env Blots.Eval Blots.BuiltinsHof Blots.Program Blots.EvalInst
               Blots.Access Blots.BuiltinsList Blots.proofs.Closures Blots.proofs.NoPanic
               Blots.proofs.NoPanicList.
Import ListNotations.
Open Scope string_scope.

(* ---- the evaluator never panics, for every implementation of operators and built-ins that
        does not panic itself (release / debug is the parameter [release]) ---- *)
Theorem C01_eval_no_panic : forall release bi bu,
  (forall cb op l r st, cb_safe cb -> fst (bi cb op l r st) <> Panic) ->
  (forall cb b args st, cb_safe cb ->
     can_accept (builtin_arity b) (Datatypes.length args) = true ->
     fst (bu cb b args st) <> Panic) ->
  (forall n, factorial_val release n <> Panic) ->
  forall d c e, wf c -> fst (evalD release bi bu d c e) <> Panic.
Proof. exact evalD_no_panic. Qed.
Check C01_eval_no_panic : forall release bi bu,
  (forall cb op l r st, cb_safe cb -> fst (bi cb op l r st) <> Panic) ->
  (forall cb b args st, cb_safe cb ->
     can_accept (builtin_arity b) (Datatypes.length args) = true ->
     fst (bu cb b args st) <> Panic) ->
  (forall n, factorial_val release n <> Panic) ->
  forall d c e, wf c -> fst (evalD release bi bu d c e) <> Panic.
Print Assumptions C01_eval_no_panic.

(* ---- the invariant is preserved: whatever is evaluated, with whatever outcome, the
        innermost frame of the chain handed back is still an Owned one ---- *)
Theorem C01_wf_preserved : forall release bi bu d c e r c',
  evalD release bi bu d c e = (r, c') -> wf c -> wf c'.
Proof. exact evalD_keeps_wf. Qed.
Check C01_wf_preserved : forall release bi bu d c e r c',
  evalD release bi bu d c e = (r, c') -> wf c -> wf c'.
Print Assumptions C01_wf_preserved.

(* ---- FunctionDef::call: after check_arity, binding the parameters never indexes past the
        argument vector (for EVERY parameter list, documented shape or not) ---- *)
Theorem C01_bind_params_in_range : forall ps args acc,
  can_accept (lambda_arity ps) (Datatypes.length args) = true ->
  bind_params ps 0 args acc <> None.
Proof. exact bind_params_total. Qed.
Check C01_bind_params_in_range : forall ps args acc,
  can_accept (lambda_arity ps) (Datatypes.length args) = true ->
  bind_params ps 0 args acc <> None.
Print Assumptions C01_bind_params_in_range.

(* ---- evaluate_binary_op_ast (Binop.v, 26 operators x 3 broadcasting arms): no `list[idx]`
        leaves its list, no unreachable!() arm is reached ---- *)
Theorem C01_operators_no_panic : forall cb op l r st,
  cb_safe cb -> fst (binop_impl cb op l r st) <> Panic.
Proof. exact binop_impl_no_panic. Qed.
Check C01_operators_no_panic : forall cb op l r st,
  cb_safe cb -> fst (binop_impl cb op l r st) <> Panic.
Print Assumptions C01_operators_no_panic.

(* ---- BuiltInFunction::call, transcribed built-ins: every args[i] is below the arity that
        check_arity enforced (arity table regenerated from the built crate) ---- *)
Theorem C01_builtin_call_no_panic_partial : forall cb b args st,
  cb_safe cb -> can_accept (builtin_arity b) (Datatypes.length args) = true ->
  fst (builtin_impl cb b args st) <> Panic.
Proof. exact builtin_impl_no_panic. Qed.
Check C01_builtin_call_no_panic_partial : forall cb b args st,
  cb_safe cb -> can_accept (builtin_arity b) (Datatypes.length args) = true ->
  fst (builtin_impl cb b args st) <> Panic.
Print Assumptions C01_builtin_call_no_panic_partial.

(* ---- the list / string / record built-ins transcribed in BuiltinsList.v (owner C14; not
        wired into EvalInst.builtin_impl, so stated over the arms themselves): after the arity
        check no arm panics.  17 pure arms as a table; `range` is not in the table — its arm has
        a second partial operation (i64 subtraction), covered by C14_range_no_panic with its
        exclusion ---- *)
Theorem C01_list_builtins_no_panic : forall b arm args,
  In (b, arm) list_builtin_arms ->
  arity_can_accept (builtin_arity b) (Datatypes.length args) = true ->
  arm args <> Panic.
Proof. exact list_builtins_no_panic. Qed.
Check C01_list_builtins_no_panic : forall b arm args,
  In (b, arm) list_builtin_arms ->
  arity_can_accept (builtin_arity b) (Datatypes.length args) = true ->
  arm args <> Panic.
Print Assumptions C01_list_builtins_no_panic.

(* sort_by / group_by / count_by: no panic when FunctionDef::call does not panic *)
Theorem C01_callback_list_builtins_no_panic :
  forall (St : Type) (call : value -> value -> list value -> St -> outcome value * St),
  (forall this f a st, fst (call this f a st) <> Panic) ->
  forall args st,
    (arity_can_accept (builtin_arity B_sort_by) (Datatypes.length args) = true ->
     fst (bi_sort_by St call args st) <> Panic) /\
    (arity_can_accept (builtin_arity B_group_by) (Datatypes.length args) = true ->
     fst (bi_group_by St call args st) <> Panic) /\
    (arity_can_accept (builtin_arity B_count_by) (Datatypes.length args) = true ->
     fst (bi_count_by St call args st) <> Panic).
Proof.
  intros St call Hc args st. repeat split; intros Ha.
  - apply sort_by_np; assumption.
  - apply group_by_np; assumption.
  - apply count_by_np; assumption.
Qed.
Check C01_callback_list_builtins_no_panic :
  forall (St : Type) (call : value -> value -> list value -> St -> outcome value * St),
  (forall this f a st, fst (call this f a st) <> Panic) ->
  forall args st,
    (arity_can_accept (builtin_arity B_sort_by) (Datatypes.length args) = true ->
     fst (bi_sort_by St call args st) <> Panic) /\
    (arity_can_accept (builtin_arity B_group_by) (Datatypes.length args) = true ->
     fst (bi_group_by St call args st) <> Panic) /\
    (arity_can_accept (builtin_arity B_count_by) (Datatypes.length args) = true ->
     fst (bi_count_by St call args st) <> Panic).
Print Assumptions C01_callback_list_builtins_no_panic.

(* trim / uppercase / lowercase / join: for EVERY Unicode-table and number-printing oracle *)
Theorem C01_text_builtins_no_panic :
  forall (str_trim str_upper str_lower : string -> string) (num_str : num -> string)
         (lam_str : list lamarg -> expr -> list (string * value) -> string) args,
    (arity_can_accept (builtin_arity B_trim) (Datatypes.length args) = true -> bi_trim str_trim args <> Panic) /\
    (arity_can_accept (builtin_arity B_uppercase) (Datatypes.length args) = true -> bi_uppercase str_upper args <> Panic) /\
    (arity_can_accept (builtin_arity B_lowercase) (Datatypes.length args) = true -> bi_lowercase str_lower args <> Panic) /\
    (arity_can_accept (builtin_arity B_join) (Datatypes.length args) = true -> bi_join num_str lam_str args <> Panic).
Proof.
  intros. repeat split; intros Ha.
  - apply trim_np; assumption.
  - apply uppercase_np; assumption.
  - apply lowercase_np; assumption.
  - apply join_np; assumption.
Qed.
Check C01_text_builtins_no_panic :
  forall (str_trim str_upper str_lower : string -> string) (num_str : num -> string)
         (lam_str : list lamarg -> expr -> list (string * value) -> string) args,
    (arity_can_accept (builtin_arity B_trim) (Datatypes.length args) = true -> bi_trim str_trim args <> Panic) /\
    (arity_can_accept (builtin_arity B_uppercase) (Datatypes.length args) = true -> bi_uppercase str_upper args <> Panic) /\
    (arity_can_accept (builtin_arity B_lowercase) (Datatypes.length args) = true -> bi_lowercase str_lower args <> Panic) /\
    (arity_can_accept (builtin_arity B_join) (Datatypes.length args) = true -> bi_join num_str lam_str args <> Panic).
Print Assumptions C01_text_builtins_no_panic.

(* the arms DO panic without the arity check (the guard is what the theorems are about) *)
Example C01_list_arm_panics_without_arity_check :
  bi_slice [VList []] = Panic /\ bi_chunk [VList []] = Panic /\ bi_len [] = Panic.
Proof. repeat split; vm_compute; reflexivity. Qed.

(* Full statement, kept as a Definition (NOT proved): every built-in has a transcribed arm wired
   into EvalInst.builtin_impl and none panics.  Missing: the BuiltinsList.v arms above are not
   wired into builtin_impl (C14 runs them through C14Run.v), and the aggregates (BuiltinsAgg.v,
   C15), convert (C17) and the number-text built-ins (C16/C20) are not in the tree yet. *)
Definition C01_builtin_call_no_panic_full : Prop :=
  forall cb b args st, cb_safe cb ->
    can_accept (builtin_arity b) (Datatypes.length args) = true ->
    fst (builtin_impl cb b args st) <> Panic /\ fst (builtin_impl cb b args st) <> Unmodelled.

(* ---- the factorial: `(1..=min(n as u64, 171))` has no partial operation in either build.
        Before repo fix def3962 (proposed as fixes/C01-factorial-overflow.diff) the bound was
        `(n as u64) + 1`, which overflowed for n >= 2^64 in builds with overflow checks; the
        model then had a Panic arm for release = false and this theorem was refuted by
        `18446744073709551616!`. ---- *)
Theorem C01_factorial_no_panic : forall release n, factorial_val release n <> Panic.
Proof. exact factorial_no_panic. Qed.
Check C01_factorial_no_panic : forall release n, factorial_val release n <> Panic.
Print Assumptions C01_factorial_no_panic.

(* ---- FunctionDef::call at every depth, and the evaluator, instantiated with the transcribed
        operators and built-ins, for both overflow semantics ---- *)
Theorem C01_call_no_panic : forall release d fr this f args st,
  fst (AD release binop_impl builtin_impl d fr this f args st) <> Panic.
Proof.
  intros release d fr. apply AD_no_panic.
  - exact binop_impl_no_panic.
  - exact builtin_impl_no_panic.
  - exact (factorial_no_panic release).
Qed.
Check C01_call_no_panic : forall release d fr this f args st,
  fst (AD release binop_impl builtin_impl d fr this f args st) <> Panic.
Print Assumptions C01_call_no_panic.

Theorem C01_eval_inst_no_panic : forall release d c e,
  wf c -> fst (evalD release binop_impl builtin_impl d c e) <> Panic.
Proof. exact eval_inst_no_panic. Qed.
Check C01_eval_inst_no_panic : forall release d c e,
  wf c -> fst (evalD release binop_impl builtin_impl d c e) <> Panic.
Print Assumptions C01_eval_inst_no_panic.

(* ---- whole programs: the statement loop of evaluate_source, from any inputs record ---- *)
Theorem C01_program_no_panic : forall release inputs prog,
  Forall (fun rs => fst rs <> RFail Panic)
         (snd (run (eval_top release binop_impl builtin_impl) (init_session inputs) prog)).
Proof. exact program_no_panic. Qed.
Check C01_program_no_panic : forall release inputs prog,
  Forall (fun rs => fst rs <> RFail Panic)
         (snd (run (eval_top release binop_impl builtin_impl) (init_session inputs) prog)).
Print Assumptions C01_program_no_panic.

(* the former witness of the debug-build refutation now evaluates to +inf in both builds *)
Definition two_pow_64 : num := num_of_Z 18446744073709551616.
Example C01_factorial_of_2_64 :
  fst (eval_debug (s_cfg (init_session [])) (EFact (ENum two_pow_64))) = Ok (VNum npinf) /\
  fst (eval_release (s_cfg (init_session [])) (EFact (ENum two_pow_64))) = Ok (VNum npinf).
Proof. split; vm_compute; reflexivity. Qed.

(* ---- the hypotheses are satisfiable / the statements are not vacuous ---- *)
(* wf holds of every session start, whatever the inputs *)
Example C01_wf_initial : forall inputs, wf (s_cfg (init_session inputs)).
Proof. reflexivity. Qed.
(* the Panic arms are live code of the model: a shared head frame makes an assignment panic,
   an argument vector shorter than the arity makes map panic, and `Into` reaching the
   list-to-list arm panics — so the theorems above say something about the guards *)
Example C01_panic_is_reachable_without_wf :
  fst (eval_release ([], [(FShared, [])]) (EDo [Cm [] (EAssign "x" (ENum nzero)) None] (Cm [] ENull None)))
  <> Panic /\
  fst (eval_release ([], [(FShared, [])]) (EAssign "x" (ENum nzero))) = Panic.
Proof. split; vm_compute; [discriminate|reflexivity]. Qed.
Example C01_panic_without_arity_check :
  fst (builtin_impl (fun _ _ _ st => (Err, st)) B_map [VList []] []) = Panic.
Proof. vm_compute. reflexivity. Qed.
Example C01_unreachable_arm_is_modelled :
  fst (arm_list_list store (fun _ _ _ st => (Err, st)) powf_stub Into [] [] []) = Panic.
Proof. vm_compute. reflexivity. Qed.
(* a callback-safe callback exists: FunctionDef::call itself at any depth *)
Example C01_cb_safe_inhabited : cb_safe (AD true binop_impl builtin_impl 3 []).
Proof. intros this f args st. apply C01_call_no_panic. Qed.
(* the hypotheses of C01_eval_no_panic are satisfied by the real transcriptions *)
Example C01_hypotheses_satisfied : forall release d c e,
  wf c -> fst (evalD release binop_impl builtin_impl d c e) <> Panic.
Proof.
  intros release. apply C01_eval_no_panic.
  - exact C01_operators_no_panic.
  - exact C01_builtin_call_no_panic_partial.
  - exact (C01_factorial_no_panic release).
Qed.

(* ==================================================================================================
   THE COMPLETE BUILT-IN SET (EvalAll.v): `builtin_all o` has an arm for every row of the regenerated
   table — the 54 transcribed ones of EvalFull.builtin_full plus sin cos tan asin acos atan log log10
   exp (libm), trim uppercase lowercase (Unicode tables), format (dyn-fmt transcribed, numbers through
   C20's format_display_number), print (the line handed to eprintln!), time_now (the clock), and
   to_string / join on values containing functions — where every library function is a field of the
   ORACLE record o.  The theorems hold for EVERY oracle.
   ================================================================================================== *)
Require Import Blots.EvalFull Blots.EvalAll Blots.DisplayNum Blots.proofs.AggPanics Blots.proofs.AllNoPanic.
From Coq Require Import Floats.SpecFloat.

(* ---- C01_builtin_call_no_panic_full, for the dispatcher that really has every arm: after the arity
        check no arm panics.  Two named side conditions, each about something outside the
        transcription, each NECESSARY in the model (a third, time_now's "clock not before 1970", went away
        with repo fix bf56486: the arm is total now and so is the model's):
          percentile  p is a genuine double, the list has <= 2^53 elements (AggPanics.args_ok; spec_float
                      has non-canonical inhabitants that no f64 corresponds to);
          format      displaying the numbers among the arguments does not overflow the i32 / i64
                      arithmetic of format_display_number (true of every genuine double under the real
                      log10: C01_format_condition_holds_for_doubles). ---- *)
Theorem C01_builtin_call_no_panic_all : forall o cb b args st,
  cb_safe cb -> can_accept (builtin_arity b) (Datatypes.length args) = true ->
  (b = B_percentile -> args_ok args) ->
  (b = B_format -> format_display_safe o args) ->
  fst (builtin_all o cb b args st) <> Panic.
Proof. exact builtin_all_no_panic. Qed.
Check C01_builtin_call_no_panic_all : forall o cb b args st,
  cb_safe cb -> can_accept (builtin_arity b) (Datatypes.length args) = true ->
  (b = B_percentile -> args_ok args) ->
  (b = B_format -> format_display_safe o args) ->
  fst (builtin_all o cb b args st) <> Panic.
Print Assumptions C01_builtin_call_no_panic_all.

(* the same with percentile's arm as the hypothesis: no axiom at all (the args_ok form above inherits the
   standard library's real-number axioms from C15's bound on percentile's rounded index) *)
Theorem C01_builtin_call_no_panic_all_axiom_free : forall o cb b args st,
  cb_safe cb -> can_accept (builtin_arity b) (Datatypes.length args) = true ->
  (b = B_percentile -> BuiltinsAgg.bi_percentile args <> Panic) ->
  (b = B_format -> format_display_safe o args) ->
  fst (builtin_all o cb b args st) <> Panic.
Proof. exact builtin_all_no_panic_gen. Qed.
Check C01_builtin_call_no_panic_all_axiom_free : forall o cb b args st,
  cb_safe cb -> can_accept (builtin_arity b) (Datatypes.length args) = true ->
  (b = B_percentile -> BuiltinsAgg.bi_percentile args <> Panic) ->
  (b = B_format -> format_display_safe o args) ->
  fst (builtin_all o cb b args st) <> Panic.
Print Assumptions C01_builtin_call_no_panic_all_axiom_free.

(* the same for the 54 transcribed built-ins alone (EvalFull.builtin_full): only percentile's condition *)
Theorem C01_builtin_full_no_panic : forall cb b args st,
  cb_safe cb -> can_accept (builtin_arity b) (Datatypes.length args) = true ->
  (b = B_percentile -> args_ok args) ->
  fst (builtin_full cb b args st) <> Panic.
Proof. exact builtin_full_no_panic. Qed.
Check C01_builtin_full_no_panic : forall cb b args st,
  cb_safe cb -> can_accept (builtin_arity b) (Datatypes.length args) = true ->
  (b = B_percentile -> args_ok args) ->
  fst (builtin_full cb b args st) <> Panic.
Print Assumptions C01_builtin_full_no_panic.

(* the format condition for genuine doubles: every number among the arguments is a valid binary64 and
   floor(log10 a) as i32 stays within +-2000 (the real function's range on doubles is [-324, 308]) *)
Theorem C01_format_condition_holds_for_doubles : forall o args,
  (forall a, (Z.abs (as_i32 (nfloor (o_log10 o a))) <= 2000)%Z) ->
  Forall (fun v => Forall (fun x => valid_binary prec emax x = true) (nums_in v)) (skipn 1 args) ->
  format_display_safe o args.
Proof. exact display_safe_of_valid. Qed.
Check C01_format_condition_holds_for_doubles : forall o args,
  (forall a, (Z.abs (as_i32 (nfloor (o_log10 o a))) <= 2000)%Z) ->
  Forall (fun v => Forall (fun x => valid_binary prec emax x = true) (nums_in v)) (skipn 1 args) ->
  format_display_safe o args.
Print Assumptions C01_format_condition_holds_for_doubles.

(* dyn-fmt's state machine (the engine of format and print) never reaches its
   `unsafe { unreachable_unchecked() }` arm, for every format string and argument list *)
Theorem C01_dyn_fmt_no_panic : forall fmt args, dyn_format fmt args <> Panic.
Proof. exact dyn_format_np. Qed.
Check C01_dyn_fmt_no_panic : forall fmt args, dyn_format fmt args <> Panic.
Print Assumptions C01_dyn_fmt_no_panic.

(* `^` through the oracle's powf: the operator table with every operator modelled never panics *)
Theorem C01_operators_no_panic_all : forall o cb op l r st,
  cb_safe cb -> fst (binop_all o cb op l r st) <> Panic.
Proof. exact binop_all_no_panic. Qed.
Check C01_operators_no_panic_all : forall o cb op l r st,
  cb_safe cb -> fst (binop_all o cb op l r st) <> Panic.
Print Assumptions C01_operators_no_panic_all.

(* the Panic arms are live code of the model / the side conditions are needed *)
Example C01_time_now_is_total : forall o cb st,
  fst (builtin_all o cb B_time_now [] st) = Ok (VNum (o_now o)).
Proof. exact time_now_total. Qed.
Example C01_dyn_fmt_unreachable_arm_is_modelled : dyn_go DArg EmptyString [] = Panic.
Proof. reflexivity. Qed.
Example C01_format_slice_panics_without_arity_check : forall o, bi_format o [] = Panic.
Proof. reflexivity. Qed.

(* ---- NO EVALUATION IS UNMODELLED ANY MORE.  EvalInst.builtin_impl answers Unmodelled for 50 built-ins,
        EvalFull.builtin_full for 15 (and for to_string / join of values containing functions),
        binop_impl for `^`; over the complete dispatcher, for every oracle, no built-in arm and no
        operator does unless its callback does, and therefore (the evaluator induction of NoPanic.v
        replayed for this outcome, proofs/AllNoUnmEval.v) no evaluation, no call and no program. ---- *)
Require Import Blots.proofs.AllNoUnmEval Blots.proofs.AllNoUnm.
Theorem C01_builtin_call_never_unmodelled_all : forall o cb b args st,
  (forall this f a s, fst (cb this f a s) <> Unmodelled) ->
  can_accept (builtin_arity b) (Datatypes.length args) = true ->
  fst (builtin_all o cb b args st) <> Unmodelled.
Proof. exact builtin_all_no_unm. Qed.
Check C01_builtin_call_never_unmodelled_all : forall o cb b args st,
  (forall this f a s, fst (cb this f a s) <> Unmodelled) ->
  can_accept (builtin_arity b) (Datatypes.length args) = true ->
  fst (builtin_all o cb b args st) <> Unmodelled.
Print Assumptions C01_builtin_call_never_unmodelled_all.

Theorem C01_eval_never_unmodelled_all : forall o release d c e,
  wf c -> fst (evalD release (binop_all o) (builtin_all o) d c e) <> Unmodelled.
Proof. exact evalD_all_no_unm. Qed.
Check C01_eval_never_unmodelled_all : forall o release d c e,
  wf c -> fst (evalD release (binop_all o) (builtin_all o) d c e) <> Unmodelled.
Print Assumptions C01_eval_never_unmodelled_all.

Theorem C01_program_never_unmodelled_all : forall o release inputs prog,
  Forall (fun rs => fst rs <> RFail Unmodelled)
         (snd (run (eval_top release (binop_all o) (builtin_all o)) (init_session inputs) prog)).
Proof. exact program_all_no_unm. Qed.
Check C01_program_never_unmodelled_all : forall o release inputs prog,
  Forall (fun rs => fst rs <> RFail Unmodelled)
         (snd (run (eval_top release (binop_all o) (builtin_all o)) (init_session inputs) prog)).
Print Assumptions C01_program_never_unmodelled_all.

(* the smaller dispatchers DO answer Unmodelled (so the statement is about the new arms) *)
Example C01_full_dispatcher_is_unmodelled_on_sin : forall cb st,
  fst (builtin_full cb B_sin [VNum nzero] st) = Unmodelled.
Proof. reflexivity. Qed.
Example C01_power_was_unmodelled : forall cb l r st, fst (binop_impl cb Power l r st) = Unmodelled.
Proof. reflexivity. Qed.

(* ---- FunctionDef::call over the complete dispatcher never answers Unmodelled either ---- *)
Theorem C01_call_never_unmodelled_all : forall o release d fr this f args st,
  fst (AD release (binop_all o) (builtin_all o) d fr this f args st) <> Unmodelled.
Proof. exact AD_all_no_unm. Qed.
Check C01_call_never_unmodelled_all : forall o release d fr this f args st,
  fst (AD release (binop_all o) (builtin_all o) d fr this f args st) <> Unmodelled.
Print Assumptions C01_call_never_unmodelled_all.

(* ---- the complete dispatcher is a CONSERVATIVE EXTENSION of the transcribed ones: wherever builtin_full
        answers anything but Unmodelled, builtin_all o answers the same (for every oracle: the text of a value
        without functions does not depend on how functions are printed); wherever binop_impl is modelled
        (every operator but `^`), binop_all o is binop_impl.  So the correspondence runs and theorems about
        builtin_full on modelled programs are also about builtin_all. ---- *)
Require Import Blots.proofs.AllExtends.
Theorem C01_all_extends_full : forall o cb b args st,
  fst (builtin_full cb b args st) <> Unmodelled ->
  builtin_all o cb b args st = builtin_full cb b args st.
Proof. exact builtin_all_extends_full. Qed.
Check C01_all_extends_full : forall o cb b args st,
  fst (builtin_full cb b args st) <> Unmodelled ->
  builtin_all o cb b args st = builtin_full cb b args st.
Print Assumptions C01_all_extends_full.

Theorem C01_operators_all_extend_impl : forall o cb op l r st,
  op <> Power -> binop_all o cb op l r st = binop_impl cb op l r st.
Proof. exact binop_all_extends_impl. Qed.
Check C01_operators_all_extend_impl : forall o cb op l r st,
  op <> Power -> binop_all o cb op l r st = binop_impl cb op l r st.
Print Assumptions C01_operators_all_extend_impl.

(* ---- C01_builtin_call_no_panic_full AS WRITTEN (over EvalInst.builtin_impl) is refuted by the model:
        builtin_impl answers Unmodelled for 50 of the 69 built-ins.  Its content is
        C01_builtin_call_no_panic_all + C01_builtin_call_never_unmodelled_all above. ---- *)
Lemma C01_builtin_call_no_panic_full_refuted : ~ C01_builtin_call_no_panic_full.
Proof.
  intros H.
  destruct (H (fun _ _ _ st => (Err, st)) B_sin [VNum nzero] [] ltac:(intros ? ? ? ?; discriminate) eq_refl) as [_ Hu].
  apply Hu. reflexivity.
Qed.

(* ---- dyn-fmt, the engine of format and print, is total (stronger than "never Panic") and copies text
        without braces; the placeholder / escape laws and the crate's own test cases are in
        proofs/AllFormatLaws.v ---- *)
Require Import Blots.proofs.AllFormatLaws.
Theorem C01_dyn_fmt_total : forall fmt args, exists t, dyn_format fmt args = Ok t.
Proof. exact dyn_format_total. Qed.
Check C01_dyn_fmt_total : forall fmt args, exists t, dyn_format fmt args = Ok t.
Print Assumptions C01_dyn_fmt_total.
Theorem C01_dyn_fmt_plain_text : forall fmt args, all_chars no_brace fmt = true -> dyn_format fmt args = Ok fmt.
Proof. exact dyn_format_plain. Qed.
Check C01_dyn_fmt_plain_text : forall fmt args, all_chars no_brace fmt = true -> dyn_format fmt args = Ok fmt.
Print Assumptions C01_dyn_fmt_plain_text.

(* ---- the complete model RUNS: a program through format (with a number, an oracle string and a function among
        the arguments), print over time_now, `^`, and to_string of a list holding a function — none of which
        the smaller dispatchers could evaluate — under a concrete oracle (identity functions, clock at 1 s) ---- *)
Definition ex_all_call (b : builtin) (args : list expr) : expr := ECall (EBuiltin b) args.
Definition ex_all_prog : list stmt :=
  [SExpr (ex_all_call B_format [EStr "{}|{}|{}"; ex_all_call B_sin [ENum (num_of_Z 2)];
                                ex_all_call B_uppercase [EStr "ab"]; ELam [AReq "x"] (EId "x")]);
   SExpr (ex_all_call B_print [EStr "t={}"; ex_all_call B_time_now []]);
   SExpr (EBin Power (ENum (num_of_Z 3)) (ENum (num_of_Z 4)));
   SExpr (ex_all_call B_to_string [EList [Cm [] (ELam [AReq "x"] (EId "x")) None]])].
Example C01_complete_model_runs :
  run_program_all oracle_trivial [] ex_all_prog
  = "OK:S327c61627c3c66756e6374696f6e3e;|OK:U|OK:N4008000000000000|OK:S5b3c66756e6374696f6e3e5d;;ENV:".
Proof. vm_compute. reflexivity. Qed.
(* ... and what the print call of that program writes to stderr *)
Example C01_print_line_example :
  print_line oracle_trivial [VStr "t={}"; VNum (num_of_Z 1)] = Ok "t=1".
Proof. vm_compute. reflexivity. Qed.

(* ---- program TEXT -> outputs as ONE model (coq/TextRun.v: Peg.parse on gen/Grammar.v, PegToItems.conv,
        Pratt.pratt_impl per statement, the statement loop over the complete evaluator), tied to the real
        `parse + evaluate + outputs` by the TEXT-EVAL stream.  Facts by composition (proofs/TextRunFacts.v):
        (a) THE PARSER STAGE NEVER DIVERGES: with the model's fuel [peg_fuel text] = 128 + 48 * bytes the PEG
            interpreter never returns OutOfFuel, for EVERY text (C10_peg_total: termination certificate of the
            regenerated grammar, proofs/PegFuel.v) — so acceptance / rejection is a total function of the text;
        (b) the result of a text run does not depend on the fuel above that bound;
        (c) the only Unmodelled a text run can show is the Pratt MODEL's own fuel (TGlueFuel; the TEXT-EVAL
            stream counts it: 0) — the evaluator over the complete dispatcher never answers Unmodelled;
        (d) every top-level pair the statement loop walks over lies inside the text.
        Names of Peg.v / Grammar.v clash with the evaluator's (Ok, run, expr): kept inside a module. ---- *)
Require Blots.Peg Blots.gen.Grammar Blots.proofs.PegGeneric Blots.TextRun Blots.proofs.TextRunFacts.
Module TextLayer.
Import Blots.TextRun Blots.proofs.TextRunFacts.

Theorem C01_text_parse_total : forall text,
  parse_text_stmts text <> TIFuel /\ forall eval inputs, run_text_res eval inputs text <> TParseFuel.
Proof. intro text. split; [apply parse_text_stmts_total|intros; apply run_text_never_parse_fuel]. Qed.
Check C01_text_parse_total : forall text,
  parse_text_stmts text <> TIFuel /\ forall eval inputs, run_text_res eval inputs text <> TParseFuel.
Print Assumptions C01_text_parse_total.

Theorem C01_text_run_fuel_independent : forall eval fuel inputs text,
  Blots.Peg.peg_fuel text <= fuel -> run_text_res_fuel eval fuel inputs text = run_text_res eval inputs text.
Proof. exact run_text_fuel_independent. Qed.
Check C01_text_run_fuel_independent : forall eval fuel inputs text,
  Blots.Peg.peg_fuel text <= fuel -> run_text_res_fuel eval fuel inputs text = run_text_res eval inputs text.
Print Assumptions C01_text_run_fuel_independent.

Theorem C01_text_run_never_unmodelled : forall o inputs text l,
  parse_text_stmts text = TIOk l -> Forall (fun t => t <> TGlueFuel) l ->
  exists sr, run_text_res (eval_all o) inputs text = TRun sr
             /\ Forall (fun rs => fst rs <> RFail Unmodelled) (snd sr).
Proof. exact run_text_never_unmodelled. Qed.
Check C01_text_run_never_unmodelled : forall o inputs text l,
  parse_text_stmts text = TIOk l -> Forall (fun t => t <> TGlueFuel) l ->
  exists sr, run_text_res (eval_all o) inputs text = TRun sr
             /\ Forall (fun rs => fst rs <> RFail Unmodelled) (snd sr).
Print Assumptions C01_text_run_never_unmodelled.

(* without glue trouble the text loop is Program.run on the parsed statements: every theorem about
   run / run_program_all above applies to text runs *)
Theorem C01_text_run_is_program_run : forall eval p s,
  run_tstmts eval s (map TStmt p) = Blots.Program.run eval s p.
Proof. exact run_tstmts_is_run. Qed.
Check C01_text_run_is_program_run : forall eval p s,
  run_tstmts eval s (map TStmt p) = Blots.Program.run eval s p.
Print Assumptions C01_text_run_is_program_run.

Theorem C01_text_statement_spans_inside : forall fuel text s',
  Blots.Peg.parse Blots.gen.Grammar.blots_grammar fuel Blots.gen.Grammar.PG_input text = Blots.Peg.Ok s' ->
  Forall (span_inside (Blots.Peg.slen text)) (rev (Blots.Peg.out s')).
Proof. intros fuel text s' H. exact (proj1 (text_statement_spans_inside fuel text s' H)). Qed.
Check C01_text_statement_spans_inside : forall fuel text s',
  Blots.Peg.parse Blots.gen.Grammar.blots_grammar fuel Blots.gen.Grammar.PG_input text = Blots.Peg.Ok s' ->
  Forall (span_inside (Blots.Peg.slen text)) (rev (Blots.Peg.out s')).
Print Assumptions C01_text_statement_spans_inside.

(* the one model RUNS on a text (blanks, a comment, an output declaration): *)
Example C01_text_run_example :
  run_text oracle_trivial [] ("x = 2 * 4  // eight" ++ String (Ascii.ascii_of_nat 10) "output y = [x, x + 1]")
  = "OK:N4020000000000000|OK:L[N4020000000000000,N4022000000000000];ENV:78=N4020000000000000,79=L[N4020000000000000,N4022000000000000];OUT:79=L[N4020000000000000,N4022000000000000]".
Proof. vm_compute. reflexivity. Qed.
End TextLayer.

(* ==================================================================================================
   EVALUATOR-LEVEL never-Panic FOR THE COMPLETE BUILT-IN SET (extension C01V).
   The per-call theorem above has side conditions that hold for genuine doubles only, and spec_float has
   non-canonical inhabitants; so the evaluator carries the VALIDITY INVARIANT of coq/Valid.v: every number
   literal of the program (valid_expr), every number inside every bound value incl. closures' bodies and
   captured values (valid_cfg), every oracle result (oracle_valid) is a valid binary64
   (SpecFloat.valid_binary 53 1024).  proofs/AllValidNum.v: every Num.v operation preserves it (Flocq);
   AllValidOps.v / AllValidPure.v / AllValidBuiltins.v: so does every operator and every built-in arm;
   AllValidEval.v: so does evaluation (all expression forms, every depth), and nothing panics on the way.
   Hypotheses on the oracle: oracle_valid o (numbers in, numbers out) and oracle_display_safe o (displaying a
   valid double does not overflow format_display_number's i32 / i64 arithmetic; two sufficient conditions
   below, one of them C20's log10_sane_pos).  The ONE remaining explicit side condition is percentile's list
   length: the theorems speak about Valid.builtin_all_fit o = builtin_all o except that percentile of a list
   of more than 2^53 elements is an error — a HYPOTHESIS ON LIST LENGTHS (no resource bound of the model rules
   such a list out), made explicit by C01_percentile_guard_is_the_only_difference.
   ================================================================================================== *)
Require Import Blots.Valid Blots.AllRun Blots.proofs.AllValidNum Blots.proofs.AllValidEval Blots.proofs.AllValidOps
               Blots.proofs.AllValidBuiltins Blots.proofs.AllValid.

Theorem C01_eval_no_panic_all : forall o, oracle_valid o -> oracle_display_safe o ->
  forall release d c e, valid_expr e -> wf c -> valid_cfg c ->
  fst (evalD release (binop_all o) (builtin_all_fit o) d c e) <> Panic.
Proof. exact evalD_all_no_panic. Qed.
Check C01_eval_no_panic_all : forall o, oracle_valid o -> oracle_display_safe o ->
  forall release d c e, valid_expr e -> wf c -> valid_cfg c ->
  fst (evalD release (binop_all o) (builtin_all_fit o) d c e) <> Panic.
Print Assumptions C01_eval_no_panic_all.

(* the invariant is preserved: a valid value, and a configuration satisfying wf and valid_cfg again *)
Theorem C01_eval_validity_preserved_all : forall o, oracle_valid o -> oracle_display_safe o ->
  forall release d c e r c', valid_expr e -> wf c -> valid_cfg c ->
  evalD release (binop_all o) (builtin_all_fit o) d c e = (r, c') ->
  (forall v, r = Ok v -> valid_value v) /\ wf c' /\ valid_cfg c'.
Proof. exact evalD_all_preserves. Qed.
Check C01_eval_validity_preserved_all : forall o, oracle_valid o -> oracle_display_safe o ->
  forall release d c e r c', valid_expr e -> wf c -> valid_cfg c ->
  evalD release (binop_all o) (builtin_all_fit o) d c e = (r, c') ->
  (forall v, r = Ok v -> valid_value v) /\ wf c' /\ valid_cfg c'.
Print Assumptions C01_eval_validity_preserved_all.

(* FunctionDef::call at every depth, from every valid scope chain, on valid arguments *)
Theorem C01_call_no_panic_all : forall o, oracle_valid o -> oracle_display_safe o ->
  forall release d fr this f args st,
  valid_frames fr -> valid_value this -> valid_value f -> valid_values args ->
  fst (AD release (binop_all o) (builtin_all_fit o) d fr this f args st) <> Panic /\
  (forall v, fst (AD release (binop_all o) (builtin_all_fit o) d fr this f args st) = Ok v -> valid_value v).
Proof. exact AD_all_no_panic. Qed.
Check C01_call_no_panic_all : forall o, oracle_valid o -> oracle_display_safe o ->
  forall release d fr this f args st,
  valid_frames fr -> valid_value this -> valid_value f -> valid_values args ->
  fst (AD release (binop_all o) (builtin_all_fit o) d fr this f args st) <> Panic /\
  (forall v, fst (AD release (binop_all o) (builtin_all_fit o) d fr this f args st) = Ok v -> valid_value v).
Print Assumptions C01_call_no_panic_all.

(* whole programs: valid inputs, valid program, any build: no statement result is a Panic, every value valid *)
Theorem C01_program_no_panic_all : forall o, oracle_valid o -> oracle_display_safe o ->
  forall release inputs prog, valid_inputs inputs -> valid_prog prog ->
  Forall (fun rs => fst rs <> RFail Panic /\ valid_resultb (fst rs) = true)
         (snd (run (eval_top release (binop_all o) (builtin_all_fit o)) (init_session inputs) prog)).
Proof. exact program_all_no_panic. Qed.
Check C01_program_no_panic_all : forall o, oracle_valid o -> oracle_display_safe o ->
  forall release inputs prog, valid_inputs inputs -> valid_prog prog ->
  Forall (fun rs => fst rs <> RFail Panic /\ valid_resultb (fst rs) = true)
         (snd (run (eval_top release (binop_all o) (builtin_all_fit o)) (init_session inputs) prog)).
Print Assumptions C01_program_no_panic_all.

(* the per-call theorem for the REAL dispatcher with its side conditions discharged from validity: what is left of
   C01_builtin_call_no_panic_all's hypotheses is the list length of percentile *)
Theorem C01_builtin_call_no_panic_valid_all : forall o, oracle_valid o -> oracle_display_safe o ->
  forall cb b args st, vcb cb ->
  can_accept (builtin_arity b) (Datatypes.length args) = true -> valid_values args ->
  (b = B_percentile -> percentile_fits args = true) ->
  fst (builtin_all o cb b args st) <> Panic /\
  (forall v, fst (builtin_all o cb b args st) = Ok v -> valid_value v).
Proof. exact builtin_all_call_valid. Qed.
Check C01_builtin_call_no_panic_valid_all : forall o, oracle_valid o -> oracle_display_safe o ->
  forall cb b args st, vcb cb ->
  can_accept (builtin_arity b) (Datatypes.length args) = true -> valid_values args ->
  (b = B_percentile -> percentile_fits args = true) ->
  fst (builtin_all o cb b args st) <> Panic /\
  (forall v, fst (builtin_all o cb b args st) = Ok v -> valid_value v).
Print Assumptions C01_builtin_call_no_panic_valid_all.

Theorem C01_percentile_guard_is_the_only_difference : forall o cb b args st,
  (b = B_percentile -> percentile_fits args = true) ->
  builtin_all_fit o cb b args st = builtin_all o cb b args st.
Proof. exact fit_is_the_only_difference. Qed.
Check C01_percentile_guard_is_the_only_difference : forall o cb b args st,
  (b = B_percentile -> percentile_fits args = true) ->
  builtin_all_fit o cb b args st = builtin_all o cb b args st.
Print Assumptions C01_percentile_guard_is_the_only_difference.

(* the complete operator table on valid operands: never Panic, a valid value *)
Theorem C01_operators_valid_all : forall o, oracle_valid o ->
  forall cb op l r st, vcb cb -> valid_value l -> valid_value r ->
  fst (binop_all o cb op l r st) <> Panic /\ (forall v, fst (binop_all o cb op l r st) = Ok v -> valid_value v).
Proof. exact binop_all_valid. Qed.
Check C01_operators_valid_all : forall o, oracle_valid o ->
  forall cb op l r st, vcb cb -> valid_value l -> valid_value r ->
  fst (binop_all o cb op l r st) <> Panic /\ (forall v, fst (binop_all o cb op l r st) = Ok v -> valid_value v).
Print Assumptions C01_operators_valid_all.

(* the AXIOM-FREE core: the evaluator induction for EVERY operator / built-in implementation that is
   valid-in / valid-out and panic-free on valid arguments (the Flocq axioms enter only where the hypotheses are
   discharged: the arithmetic of Num.v is proved valid through Flocq's correctness lemmas) *)
Theorem C01_eval_no_panic_valid_generic : forall release bi bu,
  (forall cb op l r st, vcb cb -> valid_value l -> valid_value r -> vres (fst (bi cb op l r st))) ->
  (forall cb b args st, vcb cb -> can_accept (builtin_arity b) (Datatypes.length args) = true ->
     valid_values args -> vres (fst (bu cb b args st))) ->
  (forall n, valid_num n -> vres (factorial_val release n)) ->
  forall d c e, valid_expr e -> Inv c -> good valid_value (evalD release bi bu d c e).
Proof. exact evalD_ok. Qed.
Check C01_eval_no_panic_valid_generic : forall release bi bu,
  (forall cb op l r st, vcb cb -> valid_value l -> valid_value r -> vres (fst (bi cb op l r st))) ->
  (forall cb b args st, vcb cb -> can_accept (builtin_arity b) (Datatypes.length args) = true ->
     valid_values args -> vres (fst (bu cb b args st))) ->
  (forall n, valid_num n -> vres (factorial_val release n)) ->
  forall d c e, valid_expr e -> Inv c -> good valid_value (evalD release bi bu d c e).
Print Assumptions C01_eval_no_panic_valid_generic.

(* oracle_display_safe: two sufficient conditions.  (1) for ANY display library: floor(log10 a) as i32 within
   +-2000 for every a;  (2) C20's hypothesis on libm — log10_sane_pos, the SAME statement as Properties/C20.v's,
   sampled on the real f64::log10 by C20's LOG10SANE stream — when the four std functions under the display are C20's
   executable models (proved there to meet their specifications; the table oracle of the ALL stream has exactly them) *)
Theorem C01_display_safe_of_log10_in_range : forall o,
  (forall a, (Z.abs (as_i32 (nfloor (o_log10 o a))) <= 2000)%Z) -> oracle_display_safe o.
Proof. exact display_safe_of_log10_in_range. Qed.
Check C01_display_safe_of_log10_in_range : forall o,
  (forall a, (Z.abs (as_i32 (nfloor (o_log10 o a))) <= 2000)%Z) -> oracle_display_safe o.
Print Assumptions C01_display_safe_of_log10_in_range.
Theorem C01_display_safe_of_log10_sane_pos : forall o,
  log10_sane_pos (o_log10 o) -> display_library_exec o -> oracle_display_safe o.
Proof. exact display_safe_of_log10_sane_pos. Qed.
Check C01_display_safe_of_log10_sane_pos : forall o,
  log10_sane_pos (o_log10 o) -> display_library_exec o -> oracle_display_safe o.
Print Assumptions C01_display_safe_of_log10_sane_pos.

(* the lookup-table oracle the ALL stream runs is valid for EVERY table the harness can dump (its numbers are
   64-bit patterns, and every 64-bit pattern is a double: AllValidNum.num_of_bits_valid) and has C20's display library *)
Theorem C01_table_oracle_valid : forall T, oracle_valid (oracle_of T) /\ display_library_exec (oracle_of T).
Proof. intros T. split; [apply oracle_of_valid|apply oracle_of_display_library]. Qed.
Check C01_table_oracle_valid : forall T, oracle_valid (oracle_of T) /\ display_library_exec (oracle_of T).
Print Assumptions C01_table_oracle_valid.

(* ---- every hypothesis is satisfiable; the invariant is not vacuous ---- *)
Example C01_oracle_hypotheses_satisfiable : oracle_valid oracle_trivial /\ oracle_display_safe oracle_trivial.
Proof. split; [exact oracle_trivial_valid|exact oracle_trivial_display_safe]. Qed.
Example C01_valid_initial : forall inputs, valid_inputs inputs ->
  wf (s_cfg (init_session inputs)) /\ valid_cfg (s_cfg (init_session inputs)).
Proof. intros inputs H. exact (init_session_Inv inputs H). Qed.
Example C01_valid_program_example : valid_prog ex_all_prog /\ valid_inputs [].
Proof. split; vm_compute; reflexivity. Qed.
(* a non-canonical inhabitant of spec_float: 2^63 with exponent 0 is not a double (64-bit mantissa) *)
Example C01_invalid_number_exists : valid_numb (S754_finite true 9223372036854775808 0) = false.
Proof. vm_compute. reflexivity. Qed.
(* C20's hypothesis on libm is satisfiable together with C20's display library: the exact floor-log10 model *)
Require Blots.proofs.DisplayNumDischarge5.
Example C01_log10_sane_pos_satisfiable : log10_sane_pos Blots.proofs.DisplayNumDischarge5.log10_floor_model.
Proof. intros a k V _ D. exact (Blots.proofs.DisplayNumDischarge5.log10_floor_model_sane a k V D). Qed.

(* ---- how valid_expr is tied to the parser: the ONE place where the text -> AST model (PegToItems.v) creates a number is
        number_item (decimal tokens: Rust's FromStr = rn_decimal; 0x / 0b tokens: the repaired accumulator loop), and every
        number it creates is a valid binary64; Pratt.v moves the INum item into ENum unchanged.  (The theorem "the AST of every
        accepted text satisfies valid_expr" over the whole of PegToItems + Pratt is C01_parsed_program_valid below (PF2); the
        ALL stream also evaluates valid_progb on every parsed program.) ---- *)
Require Import Blots.NumText Blots.PrattTypes Blots.PegToItems Blots.proofs.AllValidLit.
Theorem C01_parsed_number_literal_valid : forall tok x, number_item tok = INum x -> valid_num x.
Proof. exact number_item_valid. Qed.
Check C01_parsed_number_literal_valid : forall tok x, number_item tok = INum x -> valid_num x.
Print Assumptions C01_parsed_number_literal_valid.

(* ---- PF2: VALIDITY OF PARSED PROGRAMS and the never-Panic statement FROM BYTES (proofs/TextValidPratt.v, proofs/TextValid.v).
        valid_prog — the hypothesis of C01_program_no_panic_all — holds of everything the text -> AST model returns:
        (a) every item PegToItems.conv builds (ANY text, ANY pair tree, any fuel) holds valid binary64 numbers only
            (a number enters through number_item; every other arm copies text slices / converted sub-trees);
        (b) the Pratt stage (pest's loop + the closures of pairs_to_expr_inner, ANY operator table, ANY fuel) maps such a
            stream to an expression satisfying valid_expr (ENum only from INum; everything else copies sub-trees);
        (c) so every statement of parse_text_stmts text / the program of parse_text_ast text is valid;
        (d) END TO END: for every oracle with oracle_valid / oracle_display_safe, valid inputs, EVERY text the PEG stage
            accepts: the run of the evaluator (complete built-in set, builtin_all_fit = modulo percentile's list-length
            condition, exactly as C01_program_no_panic_all) over the statements parsed FROM THE BYTES shows a Panic only
            where the parse of that statement itself is pairs_to_expr's `unreachable!` (TGluePanic — a parse-side event the
            evaluator never sees; counted by the TEXT-EVAL stream: 0; not produced by the grammar, not proved here);
            every value computed is a valid binary64 hereditarily.  No TGlueFuel hypothesis is needed: the Pratt model's
            fuel exhaustion is shown as Unmodelled, not Panic. ---- *)
Require Blots.Peg Blots.gen.Grammar Blots.Pratt Blots.proofs.TextValidPratt Blots.proofs.TextValid.
Require Blots.proofs.TextValidNoGlue Blots.proofs.TextValidStreams.
Module TextValidLayer.
Import Blots.Pratt Blots.TextRun Blots.proofs.TextValidPratt Blots.proofs.TextValid.

Theorem C01_parsed_items_valid : forall text fuel t, valid_itemb (conv text fuel t) = true.
Proof. exact conv_valid. Qed.
Check C01_parsed_items_valid : forall text fuel t, valid_itemb (conv text fuel t) = true.
Print Assumptions C01_parsed_items_valid.

Theorem C01_pratt_preserves_valid : forall tbl imap pmap fuel its e,
  valid_itemsb its = true -> parse_items tbl imap pmap fuel its = Outcome.Ok (Some e) -> valid_expr e.
Proof. exact parse_items_valid. Qed.
Check C01_pratt_preserves_valid : forall tbl imap pmap fuel its e,
  valid_itemsb its = true -> parse_items tbl imap pmap fuel its = Outcome.Ok (Some e) -> valid_expr e.
Print Assumptions C01_pratt_preserves_valid.

Theorem C01_parsed_statements_valid : forall text l,
  parse_text_stmts text = TIOk l -> Forall (fun t => match t with TStmt s => valid_stmtb s = true | _ => True end) l.
Proof. exact parsed_stmts_valid. Qed.
Check C01_parsed_statements_valid : forall text l,
  parse_text_stmts text = TIOk l -> Forall (fun t => match t with TStmt s => valid_stmtb s = true | _ => True end) l.
Print Assumptions C01_parsed_statements_valid.

Theorem C01_parsed_program_valid : forall text p, parse_text_ast text = TPOk p -> valid_prog p.
Proof. exact parsed_program_valid. Qed.
Check C01_parsed_program_valid : forall text p, parse_text_ast text = TPOk p -> valid_prog p.
Print Assumptions C01_parsed_program_valid.

(* from bytes, no hypothesis on the text beyond acceptance: a Panic result is a glue panic of the parse *)
Theorem C01_text_run_panic_only_from_glue : forall o, oracle_valid o -> oracle_display_safe o ->
  forall release inputs text l, valid_inputs inputs -> parse_text_stmts text = TIOk l ->
  exists sr, run_text_res (eval_top release (binop_all o) (builtin_all_fit o)) inputs text = TRun sr
             /\ Forall (fun rs => (fst rs = RFail Panic -> existsb is_glue_panic l = true)
                                  /\ valid_resultb (fst rs) = true) (snd sr).
Proof. exact text_run_panic_is_glue. Qed.
Check C01_text_run_panic_only_from_glue : forall o, oracle_valid o -> oracle_display_safe o ->
  forall release inputs text l, valid_inputs inputs -> parse_text_stmts text = TIOk l ->
  exists sr, run_text_res (eval_top release (binop_all o) (builtin_all_fit o)) inputs text = TRun sr
             /\ Forall (fun rs => (fst rs = RFail Panic -> existsb is_glue_panic l = true)
                                  /\ valid_resultb (fst rs) = true) (snd sr).
Print Assumptions C01_text_run_panic_only_from_glue.

Theorem C01_text_run_no_panic_all : forall o, oracle_valid o -> oracle_display_safe o ->
  forall release inputs text l, valid_inputs inputs ->
  parse_text_stmts text = TIOk l -> Forall (fun t => t <> TGluePanic) l ->
  exists sr, run_text_res (eval_top release (binop_all o) (builtin_all_fit o)) inputs text = TRun sr
             /\ Forall (fun rs => fst rs <> RFail Panic /\ valid_resultb (fst rs) = true) (snd sr).
Proof. exact text_run_no_panic. Qed.
Check C01_text_run_no_panic_all : forall o, oracle_valid o -> oracle_display_safe o ->
  forall release inputs text l, valid_inputs inputs ->
  parse_text_stmts text = TIOk l -> Forall (fun t => t <> TGluePanic) l ->
  exists sr, run_text_res (eval_top release (binop_all o) (builtin_all_fit o)) inputs text = TRun sr
             /\ Forall (fun rs => fst rs <> RFail Panic /\ valid_resultb (fst rs) = true) (snd sr).
Print Assumptions C01_text_run_no_panic_all.

(* the hypotheses are satisfiable: a text with numbers (decimal, hex, exponent), a list, a record, a lambda, calls, an input
   reference and an output; three statements, none a glue panic / glue error / model fuel; valid inputs *)
Definition pf2_sample_text : string :=
  "f = (x, y) => x * 2.5 + y" ++ String (Ascii.ascii_of_nat 10)
  ("output total = sum(map([1, 0x10, 3e2], v => f(v, #a))) " ++ String (Ascii.ascii_of_nat 10) "{k: f(1, 2), l: [0.1]}").
Definition pf2_sample_inputs : list (string * value) := [("a"%string, VList [VNum (num_of_Z 3); VStr "s"])].
Example C01_text_run_hypotheses_satisfiable :
  valid_inputs pf2_sample_inputs /\
  exists l, parse_text_stmts pf2_sample_text = TIOk l /\ Forall (fun t => t <> TGluePanic) l
            /\ exists p, stmts_all_ok l = Some p /\ List.length p = 3%nat.
Proof.
  split; [vm_compute; reflexivity|].
  remember (parse_text_stmts pf2_sample_text) as r eqn:E. vm_compute in E. subst r.
  eexists. split; [reflexivity|]. split; [repeat constructor; discriminate|].
  eexists. split; [reflexivity|reflexivity].
Qed.
Example C01_text_run_sample_no_panic : forall release,
  exists sr, run_text_res (eval_top release (binop_all oracle_trivial) (builtin_all_fit oracle_trivial))
                          pf2_sample_inputs pf2_sample_text = TRun sr
             /\ Forall (fun rs => fst rs <> RFail Panic /\ valid_resultb (fst rs) = true) (snd sr).
Proof.
  intro release. destruct C01_text_run_hypotheses_satisfiable as [Hi [l [Hp [Hg _]]]].
  exact (C01_text_run_no_panic_all oracle_trivial oracle_trivial_valid oracle_trivial_display_safe release
           pf2_sample_inputs pf2_sample_text l Hi Hp Hg).
Qed.

(* ---- the glue-panic hypothesis: (1) the Pratt half is PROVED — pest's loop + the closures of pairs_to_expr_inner never reach a
        panic arm on a DEEPLY ALTERNATING stream (operand (infix operand)..., operand = prefix.. primary postfix.., nested streams
        too), for ANY table / maps / fuel; (2) so the hypothesis reduces to a DECIDABLE shape predicate of the PEG output,
        text_streams_ok (computable: Example below runs it by vm_compute on the real grammar); (3) that the grammar produces
        only such forests is kept as a Definition, NOT proved. ---- *)
Import Blots.proofs.TextValidNoGlue Blots.proofs.TextValidStreams.

Theorem C01_pratt_no_panic_on_alternating_streams : forall tbl imap pmap fuel its,
  stream_ok tbl imap pmap its = true -> parse_items tbl imap pmap fuel its <> Panic.
Proof. exact parse_items_no_panic. Qed.
Check C01_pratt_no_panic_on_alternating_streams : forall tbl imap pmap fuel its,
  stream_ok tbl imap pmap its = true -> parse_items tbl imap pmap fuel its <> Panic.
Print Assumptions C01_pratt_no_panic_on_alternating_streams.

Theorem C01_text_no_glue_panic_of_streams : forall text l,
  parse_text_stmts text = TIOk l -> text_streams_ok text = true -> Forall (fun t => t <> TGluePanic) l.
Proof. exact text_no_glue_panic. Qed.
Check C01_text_no_glue_panic_of_streams : forall text l,
  parse_text_stmts text = TIOk l -> text_streams_ok text = true -> Forall (fun t => t <> TGluePanic) l.
Print Assumptions C01_text_no_glue_panic_of_streams.

Theorem C01_text_run_no_panic_streams : forall o, oracle_valid o -> oracle_display_safe o ->
  forall release inputs text l, valid_inputs inputs ->
  parse_text_stmts text = TIOk l -> text_streams_ok text = true ->
  exists sr, run_text_res (eval_top release (binop_all o) (builtin_all_fit o)) inputs text = TRun sr
             /\ Forall (fun rs => fst rs <> RFail Panic /\ valid_resultb (fst rs) = true) (snd sr).
Proof. exact text_run_no_panic_streams. Qed.
Check C01_text_run_no_panic_streams : forall o, oracle_valid o -> oracle_display_safe o ->
  forall release inputs text l, valid_inputs inputs ->
  parse_text_stmts text = TIOk l -> text_streams_ok text = true ->
  exists sr, run_text_res (eval_top release (binop_all o) (builtin_all_fit o)) inputs text = TRun sr
             /\ Forall (fun rs => fst rs <> RFail Panic /\ valid_resultb (fst rs) = true) (snd sr).
Print Assumptions C01_text_run_no_panic_streams.

(* NOT proved: the grammar only produces deeply alternating statement streams (then the three theorems above hold of EVERY text) *)
Definition C01_text_streams_ok_full : Prop := forall text, text_streams_ok text = true.
Example C01_text_streams_ok_sample : text_streams_ok pf2_sample_text = true.
Proof. vm_compute. reflexivity. Qed.
End TextValidLayer.
(* the callback hypothesis `vcb` of the per-call theorems is inhabited: FunctionDef::call itself, at any depth *)
Example C01_vcb_inhabited : vcb (AD true (binop_all oracle_trivial) (builtin_all_fit oracle_trivial) 3 []).
Proof.
  intros this f args st Ht Hf Ha.
  exact (C01_call_no_panic_all oracle_trivial oracle_trivial_valid oracle_trivial_display_safe true 3 [] this f args st
           eq_refl Ht Hf Ha).
Qed.

(* ==================================================================================================
   PRATT FUEL (extension PF1): the fuel gap between the TEXT layer and the evaluator theorems is closed.
   (a) proofs/PrattFuelAll.v: for EVERY item list (nested groups included; also the ones on which the glue
       answers Err or panics), every operator table and every closure map, the transcription of pest's Pratt
       loop + pairs_to_expr_inner (Pratt.parse_items) run with the fuel Pratt.pratt gives it —
       fuel_of its = 4 * items_size its + 4, items_size = number of pairs, nested ones included — never returns
       the model's out-of-fuel outcome (3 * items_size its + 2 suffices).  Induction on the fuel over the five
       mutually recursive functions, no bound.
   (b) proofs/PrattFuelAllText.v: hence no statement of any text is TGlueFuel, and with C10's PEG totality:
       for EVERY byte string, every inputs object and every oracle, run_text_res (eval_all o) is TRun sr with no
       `Unmodelled` result in sr, or TReject, or TParsePanic — C01_text_run_never_unmodelled without its
       hypothesis.  The all-or-nothing parse view never answers TPFuel.
   (c) of the glue model's explicit Panic arms, the statement loop's `unreachable!()` (a `statement` pair whose
       first inner pair is none of expression / output_declaration / comment) and the "statement without inner
       pair" case are NOT reachable on trees the PEG interpreter produces on the regenerated grammar
       (C01_text_statement_arms_unreachable).  The arms inside Pratt.v (operator in primary position, empty
       token stream, …) and the PEG engine's stack `expect`s (TParsePanic) are not excluded by a theorem; the
       TEXT-EVAL / PARSE-text streams count them (0).  notes/ext-pf1.md lists them. *)
Require Blots.proofs.PrattFuelAll Blots.proofs.PrattFuelAllText.
Section PrattFuelTotal.
Import Blots.PrattTypes Blots.Pratt Blots.TextRun Blots.proofs.PrattFuelAll Blots.proofs.PrattFuelAllText.

Theorem C01_pratt_fuel_sufficient : forall tbl imap pmap its,
  parse_items tbl imap pmap (fuel_of its) its <> Outcome.Unmodelled.
Proof. exact pratt_fuel_sufficient. Qed.
Check C01_pratt_fuel_sufficient : forall tbl imap pmap its,
  parse_items tbl imap pmap (4 * items_size its + 4) its <> Outcome.Unmodelled.
Print Assumptions C01_pratt_fuel_sufficient.

(* fuel_of IS the fuel the text layer hands to the Pratt model *)
Theorem C01_pratt_impl_never_unmodelled : forall its, pratt_impl its <> Outcome.Unmodelled.
Proof. exact pratt_impl_never_unmodelled. Qed.
Check C01_pratt_impl_never_unmodelled : forall its, pratt_impl its <> Outcome.Unmodelled.
Print Assumptions C01_pratt_impl_never_unmodelled.

Theorem C01_text_no_glue_fuel : forall text l,
  parse_text_stmts text = TIOk l -> Forall (fun t => t <> TGlueFuel) l.
Proof. exact parse_text_stmts_no_glue_fuel. Qed.
Check C01_text_no_glue_fuel : forall text l,
  parse_text_stmts text = TIOk l -> Forall (fun t => t <> TGlueFuel) l.
Print Assumptions C01_text_no_glue_fuel.

Theorem C01_text_parse_never_fuel : forall text, parse_text_ast text <> TPFuel.
Proof. exact parse_text_ast_never_fuel. Qed.
Check C01_text_parse_never_fuel : forall text, parse_text_ast text <> TPFuel.
Print Assumptions C01_text_parse_never_fuel.

Theorem C01_text_run_never_unmodelled_total : forall o inputs text,
  (exists sr, run_text_res (eval_all o) inputs text = TRun sr
              /\ Forall (fun rs => fst rs <> Program.RFail Outcome.Unmodelled) (snd sr))
  \/ run_text_res (eval_all o) inputs text = TReject
  \/ run_text_res (eval_all o) inputs text = TParsePanic.
Proof. exact run_text_never_unmodelled_total. Qed.
Check C01_text_run_never_unmodelled_total : forall o inputs text,
  (exists sr, run_text_res (eval_all o) inputs text = TRun sr
              /\ Forall (fun rs => fst rs <> Program.RFail Outcome.Unmodelled) (snd sr))
  \/ run_text_res (eval_all o) inputs text = TReject
  \/ run_text_res (eval_all o) inputs text = TParsePanic.
Print Assumptions C01_text_run_never_unmodelled_total.

(* the canonical line the TEXT-EVAL stream compares is never the model's "FUEL" line *)
Theorem C01_text_run_outcome_cases : forall o inputs text,
  (exists sr, run_text o inputs text = show_run_out sr
              /\ Forall (fun rs => fst rs <> Program.RFail Outcome.Unmodelled) (snd sr))
  \/ run_text o inputs text = "REJECT;ENV:;OUT:"%string
  \/ run_text o inputs text = "PANIC"%string.
Proof. exact run_text_outcome_cases. Qed.
Check C01_text_run_outcome_cases : forall o inputs text,
  (exists sr, run_text o inputs text = show_run_out sr
              /\ Forall (fun rs => fst rs <> Program.RFail Outcome.Unmodelled) (snd sr))
  \/ run_text o inputs text = "REJECT;ENV:;OUT:"%string
  \/ run_text o inputs text = "PANIC"%string.
Print Assumptions C01_text_run_outcome_cases.

(* two of the three outcomes are reached (the third, TParsePanic, is the PEG engine's `expect` on an empty
   stack; no text reaching it is known, none is excluded by a theorem) *)
Example C01_text_run_reaches_reject : run_text oracle_trivial [] "1 +" = "REJECT;ENV:;OUT:"%string.
Proof. vm_compute. reflexivity. Qed.
Example C01_text_run_reaches_run : run_text oracle_trivial [] "1 + 2" = "OK:N4008000000000000;ENV:;OUT:"%string.
Proof. vm_compute. reflexivity. Qed.
End PrattFuelTotal.

(* (c) the statement loop's `unreachable!()` arm and the "no inner pair" arm are not reachable on parsed texts:
       every `statement` pair of every accepted text is one of the three modelled forms, so a TGluePanic
       statement can only be a Panic of Pratt.pratt_impl on that statement's token stream *)
Require Blots.proofs.PrattFuelAllShape.
Theorem C01_text_statement_arms_unreachable : forall fuel text s' cf t,
  Blots.Peg.parse Blots.gen.Grammar.blots_grammar fuel Blots.gen.Grammar.PG_input text = Blots.Peg.Ok s' ->
  In t (rev (Blots.Peg.out s')) -> Blots.PegToItems.is_rule Blots.gen.Grammar.PG_statement t = true ->
  exists first, In first (Blots.PegToItems.tkids t) /\
    (Blots.TextRun.text_stmt_of text cf t
       = Some (Blots.TextRun.glue_stmt SExpr
                 (Blots.Pratt.pratt_impl (map (Blots.PegToItems.conv text cf) (Blots.PegToItems.tkids first))))
     \/ Blots.TextRun.text_stmt_of text cf t
       = Some (Blots.TextRun.glue_stmt SOut
                 (Blots.Pratt.pratt_impl (map (Blots.PegToItems.conv text cf) (Blots.PegToItems.tkids first))))
     \/ Blots.TextRun.text_stmt_of text cf t = Some (Blots.TextRun.TStmt SComment)).
Proof. exact Blots.proofs.PrattFuelAllShape.text_stmt_of_parsed_shape. Qed.
Check C01_text_statement_arms_unreachable : forall fuel text s' cf t,
  Blots.Peg.parse Blots.gen.Grammar.blots_grammar fuel Blots.gen.Grammar.PG_input text = Blots.Peg.Ok s' ->
  In t (rev (Blots.Peg.out s')) -> Blots.PegToItems.is_rule Blots.gen.Grammar.PG_statement t = true ->
  exists first, In first (Blots.PegToItems.tkids t) /\
    (Blots.TextRun.text_stmt_of text cf t
       = Some (Blots.TextRun.glue_stmt SExpr
                 (Blots.Pratt.pratt_impl (map (Blots.PegToItems.conv text cf) (Blots.PegToItems.tkids first))))
     \/ Blots.TextRun.text_stmt_of text cf t
       = Some (Blots.TextRun.glue_stmt SOut
                 (Blots.Pratt.pratt_impl (map (Blots.PegToItems.conv text cf) (Blots.PegToItems.tkids first))))
     \/ Blots.TextRun.text_stmt_of text cf t = Some (Blots.TextRun.TStmt SComment)).
Print Assumptions C01_text_statement_arms_unreachable.

(* kept, NOT proved (PF1): the remaining explicit Panic arms of the text layer are unreachable on parsed texts.
   (1) the Panic arms inside Pratt.v (empty token stream; infix / postfix operator or unknown pair in operand
       position; operand where an operator is expected; rule missing from the table or the closure maps;
       map_postfix / primary on a pair of the wrong kind) need the operand / operator alternation of the pairs
       under `expression` (grammar rule: prefix operators, term, postfix operators, repeated with an infix operator between) as a
       PegShape.kids_spec-style theorem, hereditarily through PegToItems.conv;
   (2) the PEG engine's `expect` on an empty stack (PEEK / POP; TParsePanic) needs the PUSH-before-PEEK/POP
       invariant of the one rule that uses the stack (string).
   Both are counted by the TEXT-EVAL / PARSE-text streams of ./check C01 and ./check C10 (0 on every run). *)
Definition C01_text_pratt_no_panic_on_parsed_full : Prop := forall text s' t first rest,
  Blots.Peg.parse Blots.gen.Grammar.blots_grammar (Blots.Peg.peg_fuel text) Blots.gen.Grammar.PG_input text
    = Blots.Peg.Ok s' ->
  In t (rev (Blots.Peg.out s')) -> Blots.PegToItems.is_rule Blots.gen.Grammar.PG_statement t = true ->
  Blots.PegToItems.tkids t = first :: rest ->
  Blots.PegToItems.trule first = Blots.gen.Grammar.PG_expression
  \/ Blots.PegToItems.trule first = Blots.gen.Grammar.PG_output_declaration ->
  Blots.Pratt.pratt_impl
    (map (Blots.PegToItems.conv text (Blots.TextRun.forest_conv_fuel (rev (Blots.Peg.out s'))))
         (Blots.PegToItems.tkids first)) <> Outcome.Panic.
Definition C01_text_peg_no_panic_full : Prop := forall text,
  Blots.Peg.parse Blots.gen.Grammar.blots_grammar (Blots.Peg.peg_fuel text) Blots.gen.Grammar.PG_input text
    <> Blots.Peg.Panic.

(* of the arms listed under (1): the ones that depend on the REGENERATED operator table only are excluded for EVERY
   token stream, by exhaustion over the 34 operator rules (bound = gen/PrecTable.v, re-checked when it changes):
   `ops.get(rule)` is never None; every rule the table calls prefix / infix has its .map_prefix / .map_infix arm;
   the postfix rules are exactly the four map_postfix has arms for *)
Require Blots.proofs.PrattFuelAllArms.
Theorem C01_pratt_table_total : forall r, Blots.Pratt.ops_get Blots.Pratt.impl_table r <> None.
Proof. exact Blots.proofs.PrattFuelAllArms.impl_table_total. Qed.
Check C01_pratt_table_total : forall r, Blots.Pratt.ops_get Blots.Pratt.impl_table r <> None.
Print Assumptions C01_pratt_table_total.
Theorem C01_pratt_closure_arms_unreachable :
  (forall r p x, Blots.Pratt.ops_get Blots.Pratt.impl_table r = Some (Blots.PrattTypes.Prefix, p) ->
                 Blots.Pratt.map_prefix Blots.gen.PrecTable.prefix_map r x <> Outcome.Panic) /\
  (forall r a p l x, Blots.Pratt.ops_get Blots.Pratt.impl_table r = Some (Blots.PrattTypes.Infix a, p) ->
                     Blots.Pratt.map_infix Blots.gen.PrecTable.infix_map l r x <> Outcome.Panic).
Proof.
  split; [exact Blots.proofs.PrattFuelAllArms.map_prefix_impl_no_panic
         |exact Blots.proofs.PrattFuelAllArms.map_infix_impl_no_panic].
Qed.
Check C01_pratt_closure_arms_unreachable :
  (forall r p x, Blots.Pratt.ops_get Blots.Pratt.impl_table r = Some (Blots.PrattTypes.Prefix, p) ->
                 Blots.Pratt.map_prefix Blots.gen.PrecTable.prefix_map r x <> Outcome.Panic) /\
  (forall r a p l x, Blots.Pratt.ops_get Blots.Pratt.impl_table r = Some (Blots.PrattTypes.Infix a, p) ->
                     Blots.Pratt.map_infix Blots.gen.PrecTable.infix_map l r x <> Outcome.Panic).
Print Assumptions C01_pratt_closure_arms_unreachable.
Theorem C01_pratt_postfix_rules : forall r p,
  Blots.Pratt.ops_get Blots.Pratt.impl_table r = Some (Blots.PrattTypes.Postfix, p) ->
  In r [Blots.PrattTypes.R_factorial; Blots.PrattTypes.R_access; Blots.PrattTypes.R_dot_access;
        Blots.PrattTypes.R_call_list].
Proof. exact Blots.proofs.PrattFuelAllArms.impl_postfix_rules. Qed.
Check C01_pratt_postfix_rules : forall r p,
  Blots.Pratt.ops_get Blots.Pratt.impl_table r = Some (Blots.PrattTypes.Postfix, p) ->
  In r [Blots.PrattTypes.R_factorial; Blots.PrattTypes.R_access; Blots.PrattTypes.R_dot_access;
        Blots.PrattTypes.R_call_list].
Print Assumptions C01_pratt_postfix_rules.
