(* C01 — No input crashes the parse / evaluate / serialise / format pipeline; reported error
   locations lie inside their text.

   What the model carries (this file): the evaluator stage.  The model returns the explicit
   outcome [Panic] exactly where the Rust code has a partial operation on a modelled path
   (`args[i]`, `list[idx]`, unreachable!(), Environment::insert into a shared frame, debug-build
   `+ 1` overflow), so "never Panic" is a statement about the guards of the code, not about
   Coq's totality.  Theorems: for every depth budget, expression and configuration whose
   innermost frame is Owned ([wf], shown to be preserved), evaluation never returns Panic —
   first for ANY operator / built-in implementation that does not panic when its callback does
   not, then with those hypotheses discharged for the transcriptions in the tree.
   What it does not carry: pest, ariadne, serde_json, the formatter/printer string code and the
   built-ins that are not transcribed on this branch — those stages are decided by the
   implementation-level search of checks/c01.py (in-process catch_unwind per stage + exit
   status of the real binary, debug and release).  Error spans are not part of the model
   (Err carries no payload): the span-inside-source half is search only.                *)
From Coq Require Import String List ZArith Bool Lia.
Require Import Blots.Num Blots.gen.Builtins Blots.Ast Blots.Value Blots.Outcome Blots.Binop
               Blots.Env Blots.Eval Blots.BuiltinsHof Blots.Program Blots.EvalInst
               Blots.proofs.Closures Blots.proofs.NoPanic.
Import ListNotations.
Open Scope string_scope.

(* ---- the evaluator never panics, for every implementation of operators and built-ins that
        does not panic itself (release / debug is the parameter [release]) ---- *)
Theorem C01_eval_no_panic : forall release bi bu,
  (forall cb op l r st, cb_safe cb -> fst (bi cb op l r st) <> Panic) ->
  (forall cb b args st, cb_safe cb ->
     can_accept (builtin_arity b) (Datatypes.length args) = true ->
     fst (bu cb b args st) <> Panic) ->
  (forall n, factorial_val release n <> Panic) ->
  forall d c e, wf c -> fst (evalD release bi bu d c e) <> Panic.
Proof. exact evalD_no_panic. Qed.
Check C01_eval_no_panic : forall release bi bu,
  (forall cb op l r st, cb_safe cb -> fst (bi cb op l r st) <> Panic) ->
  (forall cb b args st, cb_safe cb ->
     can_accept (builtin_arity b) (Datatypes.length args) = true ->
     fst (bu cb b args st) <> Panic) ->
  (forall n, factorial_val release n <> Panic) ->
  forall d c e, wf c -> fst (evalD release bi bu d c e) <> Panic.
Print Assumptions C01_eval_no_panic.

(* ---- the invariant is preserved: whatever is evaluated, with whatever outcome, the
        innermost frame of the chain handed back is still an Owned one ---- *)
Theorem C01_wf_preserved : forall release bi bu d c e r c',
  evalD release bi bu d c e = (r, c') -> wf c -> wf c'.
Proof. exact evalD_keeps_wf. Qed.
Check C01_wf_preserved : forall release bi bu d c e r c',
  evalD release bi bu d c e = (r, c') -> wf c -> wf c'.
Print Assumptions C01_wf_preserved.

(* ---- FunctionDef::call: after check_arity, binding the parameters never indexes past the
        argument vector (for EVERY parameter list, documented shape or not) ---- *)
Theorem C01_bind_params_in_range : forall ps args acc,
  can_accept (lambda_arity ps) (Datatypes.length args) = true ->
  bind_params ps 0 args acc <> None.
Proof. exact bind_params_total. Qed.
Check C01_bind_params_in_range : forall ps args acc,
  can_accept (lambda_arity ps) (Datatypes.length args) = true ->
  bind_params ps 0 args acc <> None.
Print Assumptions C01_bind_params_in_range.

(* ---- evaluate_binary_op_ast (Binop.v, 26 operators x 3 broadcasting arms): no `list[idx]`
        leaves its list, no unreachable!() arm is reached ---- *)
Theorem C01_operators_no_panic : forall cb op l r st,
  cb_safe cb -> fst (binop_impl cb op l r st) <> Panic.
Proof. exact binop_impl_no_panic. Qed.
Check C01_operators_no_panic : forall cb op l r st,
  cb_safe cb -> fst (binop_impl cb op l r st) <> Panic.
Print Assumptions C01_operators_no_panic.

(* ---- BuiltInFunction::call, transcribed built-ins: every args[i] is below the arity that
        check_arity enforced (arity table regenerated from the built crate) ---- *)
Theorem C01_builtin_call_no_panic_partial : forall cb b args st,
  cb_safe cb -> can_accept (builtin_arity b) (Datatypes.length args) = true ->
  fst (builtin_impl cb b args st) <> Panic.
Proof. exact builtin_impl_no_panic. Qed.
Check C01_builtin_call_no_panic_partial : forall cb b args st,
  cb_safe cb -> can_accept (builtin_arity b) (Datatypes.length args) = true ->
  fst (builtin_impl cb b args st) <> Panic.
Print Assumptions C01_builtin_call_no_panic_partial.

(* the same statement is wanted for the built-ins transcribed on other branches (Access.v,
   BuiltinsList.v, BuiltinsAgg.v, units): until they are merged into EvalInst.builtin_impl the
   arms of those built-ins are [Unmodelled] here, which the theorem above covers trivially.
   Full statement, kept as a definition: no built-in arm is Unmodelled and none panics. *)
Definition C01_builtin_call_no_panic_full : Prop :=
  forall cb b args st, cb_safe cb ->
    can_accept (builtin_arity b) (Datatypes.length args) = true ->
    fst (builtin_impl cb b args st) <> Panic /\ fst (builtin_impl cb b args st) <> Unmodelled.

(* ---- FunctionDef::call at every depth, and the evaluator, instantiated (release build) ---- *)
Theorem C01_call_no_panic : forall d fr this f args st,
  fst (AD true binop_impl builtin_impl d fr this f args st) <> Panic.
Proof.
  intros d fr. apply AD_no_panic.
  - exact binop_impl_no_panic.
  - exact builtin_impl_no_panic.
  - exact factorial_release_no_panic.
Qed.
Check C01_call_no_panic : forall d fr this f args st,
  fst (AD true binop_impl builtin_impl d fr this f args st) <> Panic.
Print Assumptions C01_call_no_panic.

Theorem C01_eval_release_no_panic : forall d c e,
  wf c -> fst (evalD true binop_impl builtin_impl d c e) <> Panic.
Proof. exact eval_release_no_panic. Qed.
Check C01_eval_release_no_panic : forall d c e,
  wf c -> fst (evalD true binop_impl builtin_impl d c e) <> Panic.
Print Assumptions C01_eval_release_no_panic.

(* ---- whole programs: the statement loop of evaluate_source, from any inputs record ---- *)
Theorem C01_program_no_panic : forall inputs prog,
  Forall (fun rs => fst rs <> RFail Panic) (snd (run eval_release (init_session inputs) prog)).
Proof. exact program_release_no_panic. Qed.
Check C01_program_no_panic : forall inputs prog,
  Forall (fun rs => fst rs <> RFail Panic) (snd (run eval_release (init_session inputs) prog)).
Print Assumptions C01_program_no_panic.

(* ---- overflow semantics.  The one arithmetic operation on the evaluator path that can
        overflow is `(n as u64) + 1` in the factorial: in a build with overflow checks it
        aborts exactly when n >= 2^64 (the cast saturates to u64::MAX and n equals it as f64).
        known_C01 is that class; outside it the debug build does not panic either. ---- *)
Definition known_C01_factorial (n : num) : bool :=
  ngeb n nzero && neqb n (num_of_Z (as_u64 n)) && (as_u64 n =? U64_MAX)%Z.

Theorem C01_factorial_debug_panics_only_in_known_class : forall n,
  factorial_val false n = Panic <-> known_C01_factorial n = true.
Proof.
  intros n. rewrite factorial_debug_panic_iff. unfold known_C01_factorial. split.
  - intros [H1 H2]. rewrite H1. apply Z.eqb_eq in H2. rewrite H2. reflexivity.
  - intros H. apply andb_true_iff in H. destruct H as [H1 H2]. apply Z.eqb_eq in H2. auto.
Qed.
Check C01_factorial_debug_panics_only_in_known_class : forall n,
  factorial_val false n = Panic <-> known_C01_factorial n = true.
Print Assumptions C01_factorial_debug_panics_only_in_known_class.

(* any build whose factorials are total (the release build; a debug build after the proposed
   repair fixes/C01-factorial-overflow.diff) *)
Theorem C01_eval_no_panic_if_factorial_total : forall release,
  (forall n, factorial_val release n <> Panic) ->
  forall d c e, wf c -> fst (evalD release binop_impl builtin_impl d c e) <> Panic.
Proof. exact eval_no_panic_if_factorial_total. Qed.
Check C01_eval_no_panic_if_factorial_total : forall release,
  (forall n, factorial_val release n <> Panic) ->
  forall d c e, wf c -> fst (evalD release binop_impl builtin_impl d c e) <> Panic.
Print Assumptions C01_eval_no_panic_if_factorial_total.

(* REFUTED for the debug build on the current code: `18446744073709551616!` (2^64) *)
Definition two_pow_64 : num := num_of_Z 18446744073709551616.
Lemma C01_eval_debug_no_panic_refuted :
  exists c e, wf c /\ fst (eval_debug c e) = Panic.
Proof.
  exists (s_cfg (init_session [])), (EFact (ENum two_pow_64)). split; [reflexivity|].
  vm_compute. reflexivity.
Qed.
Lemma C01_known_factorial_witness : known_C01_factorial two_pow_64 = true.
Proof. vm_compute. reflexivity. Qed.
(* in the release build the same program wraps to the empty product *)
Example C01_release_wraps :
  fst (eval_release (s_cfg (init_session [])) (EFact (ENum two_pow_64))) = Ok (VNum (num_of_Z 1)).
Proof. vm_compute. reflexivity. Qed.

(* ---- the hypotheses are satisfiable / the statements are not vacuous ---- *)
(* wf holds of every session start, whatever the inputs *)
Example C01_wf_initial : forall inputs, wf (s_cfg (init_session inputs)).
Proof. reflexivity. Qed.
(* the Panic arms are live code of the model: a shared head frame makes an assignment panic,
   an argument vector shorter than the arity makes map panic, and `Into` reaching the
   list-to-list arm panics — so the theorems above say something about the guards *)
Example C01_panic_is_reachable_without_wf :
  fst (eval_release ([], [(FShared, [])]) (EDo [Cm [] (EAssign "x" (ENum nzero)) None] (Cm [] ENull None)))
  <> Panic /\
  fst (eval_release ([], [(FShared, [])]) (EAssign "x" (ENum nzero))) = Panic.
Proof. split; vm_compute; [discriminate|reflexivity]. Qed.
Example C01_panic_without_arity_check :
  fst (builtin_impl (fun _ _ _ st => (Err, st)) B_map [VList []] []) = Panic.
Proof. vm_compute. reflexivity. Qed.
Example C01_unreachable_arm_is_modelled :
  fst (arm_list_list store (fun _ _ _ st => (Err, st)) powf_stub Into [] [] []) = Panic.
Proof. vm_compute. reflexivity. Qed.
(* a callback-safe callback exists: FunctionDef::call itself at any depth *)
Example C01_cb_safe_inhabited : cb_safe (AD true binop_impl builtin_impl 3 []).
Proof. intros this f args st. apply C01_call_no_panic. Qed.
