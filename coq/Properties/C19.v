(* C19 — CLI contract: exit status, outputs object, input merging, #name.
   Property theorems only (each closed by [exact lemma], pinned by [Check], followed by
   [Print Assumptions]).  Model: coq/Cli.v (main.rs run / evaluate_source / parse_json_inputs /
   write_outputs, values.rs to_value) on top of coq/Program.v (statement loop) and coq/Eval.v.
   The theorems about the driver hold for EVERY evaluator [eval] (so for every call depth and
   every operator / built-in implementation); the ones about `#name` hold for every
   FunctionDef::call.  The transcription is tied to the code by the CLI stream (checks/c19.py). *)
From Coq Require Import String List ZArith Bool.
Require Import Blots.Num Blots.gen.Builtins Blots.Ast Blots.Value Blots.Outcome Blots.Binop
               Blots.Env Blots.Eval Blots.Program Blots.EvalInst Blots.Cli
               Blots.proofs.Frames Blots.proofs.StoreMono Blots.proofs.Scoping Blots.proofs.Cli.
Import ListNotations.
Open Scope string_scope.

(* ---- exit status -------------------------------------------------------------------- *)
(* The driver exits 0 exactly when: the mode has a script, every input source is valid JSON
   (read_inputs succeeds; stdin is consulted only when the mode does not read the script from
   it), the script parses, and every statement — evaluation and output validation — succeeds. *)
Theorem C19_exit0_iff_all_ok : forall eval m of stdin flags prog,
  cr_exit (cli_run eval m of stdin flags prog) = Some 0 <-> invocation_ok eval m stdin flags prog.
Proof. exact exit0_iff_all_ok. Qed.
Check C19_exit0_iff_all_ok : forall eval m of stdin flags prog,
  cr_exit (cli_run eval m of stdin flags prog) = Some 0 <-> invocation_ok eval m stdin flags prog.
Print Assumptions C19_exit0_iff_all_ok.

(* Exit 0 comes with exactly one outputs object (stdout without -o, the file with -o, never
   both); any other exit comes with no object at all.  Exclusion: known finding F34. *)
Theorem C19_exit0_one_object_else_none : forall eval m of stdin flags prog,
  known_noscript_outfile m of = false ->
  let r := cli_run eval m of stdin flags prog in
  (cr_exit r = Some 0 /\ exists o, one_object of r o) \/
  (cr_exit r <> Some 0 /\ no_object r).
Proof. exact exit0_one_object_else_none. Qed.
Check C19_exit0_one_object_else_none : forall eval m of stdin flags prog,
  known_noscript_outfile m of = false ->
  let r := cli_run eval m of stdin flags prog in
  (cr_exit r = Some 0 /\ exists o, one_object of r o) \/
  (cr_exit r <> Some 0 /\ no_object r).
Print Assumptions C19_exit0_one_object_else_none.

(* F34: without a script but with -o, `{}` is written to the file although the exit is 1 *)
Lemma C19_noscript_outfile_refuted : forall eval,
  let r := cli_run eval MNoScript true None [] None in
  cr_exit r = Some 1 /\ cr_file r = Some [].
Proof. intros eval. cbv zeta. split; reflexivity. Qed.

(* ---- #name ----------------------------------------------------------------------------- *)
(* `#n` and `inputs.n` are the same computation in every configuration: any frame chain (so
   also inside do-blocks and function bodies), any store, any call depth, any implementation
   of operators, built-ins and calls.  Same value, same error, same resulting configuration. *)
Theorem C19_hash_is_inputs_field : forall release bi bu d c n,
  evalD release bi bu d c (EInRef n) = evalD release bi bu d c (EDot (EId "inputs") n).
Proof. intros. apply hash_is_inputs_field. Qed.
Check C19_hash_is_inputs_field : forall release bi bu d c n,
  evalD release bi bu d c (EInRef n) = evalD release bi bu d c (EDot (EId "inputs") n).
Print Assumptions C19_hash_is_inputs_field.

Theorem C19_hash_null_when_absent : forall release bi bu d c n r,
  lookup (snd c) "inputs" = Some (VRec r) -> rec_get r n = None ->
  evalD release bi bu d c (EInRef n) = (Ok VNull, c) /\
  evalD release bi bu d c (EDot (EId "inputs") n) = (Ok VNull, c).
Proof. intros. eapply hash_null_when_absent; eauto. Qed.
Check C19_hash_null_when_absent : forall release bi bu d c n r,
  lookup (snd c) "inputs" = Some (VRec r) -> rec_get r n = None ->
  evalD release bi bu d c (EInRef n) = (Ok VNull, c) /\
  evalD release bi bu d c (EDot (EId "inputs") n) = (Ok VNull, c).
Print Assumptions C19_hash_null_when_absent.
