(* C19 — CLI contract: exit status, outputs object, input merging, #name.
   Property theorems only (each closed by [exact lemma], pinned by [Check], followed by
   [Print Assumptions]).  Model: coq/Cli.v (main.rs run / evaluate_source / parse_json_inputs /
   write_outputs, values.rs to_value) on top of coq/Program.v (statement loop) and coq/Eval.v.
   The theorems about exit status and merging hold for EVERY evaluator [eval]; those that need
   the frame discipline (outputs object) and `#name` hold for the evaluator model at every call
   depth and for every implementation of operators and built-ins.  The transcription is tied to
   the code by the CLI stream (checks/c19.py). *)
From Coq Require Import String List ZArith Bool.
Require Import Blots.Num Blots.gen.Builtins Blots.Ast Blots.Value Blots.Outcome Blots.Binop
               Blots.Env Blots.Eval Blots.Program Blots.EvalInst Blots.Cli
               Blots.proofs.Frames Blots.proofs.StoreMono Blots.proofs.Scoping Blots.proofs.Cli.
Import ListNotations.
Open Scope string_scope.
Open Scope list_scope.

(* ======================================================================================= *)
(* exit status                                                                              *)
(* ======================================================================================= *)
(* The driver exits 0 exactly when: the mode has a script, every input source is valid JSON
   (read_inputs succeeds; stdin is consulted only when the mode does not read the script from
   it), the script parses, and every statement — evaluation and output validation — succeeds. *)
Theorem C19_exit0_iff_all_ok : forall eval m of stdin flags prog,
  cr_exit (cli_run eval m of stdin flags prog) = Some 0 <-> invocation_ok eval m stdin flags prog.
Proof. exact exit0_iff_all_ok. Qed.
Check C19_exit0_iff_all_ok : forall eval m of stdin flags prog,
  cr_exit (cli_run eval m of stdin flags prog) = Some 0 <-> invocation_ok eval m stdin flags prog.
Print Assumptions C19_exit0_iff_all_ok.

(* Exit 0 comes with exactly one outputs object (stdout without -o, the file with -o, never
   both); any other exit comes with no object at all — in every mode, including the no-script
   error exit (repo fix 43a3324 closed known finding F34: `-o FILE` used to receive `{}` there;
   witness kept in corpus/C19). *)
Theorem C19_exit0_one_object_else_none : forall eval m of stdin flags prog,
  let r := cli_run eval m of stdin flags prog in
  (cr_exit r = Some 0 /\ exists o, one_object of r o) \/
  (cr_exit r <> Some 0 /\ no_object r).
Proof. exact exit0_one_object_else_none. Qed.
Check C19_exit0_one_object_else_none : forall eval m of stdin flags prog,
  let r := cli_run eval m of stdin flags prog in
  (cr_exit r = Some 0 /\ exists o, one_object of r o) \/
  (cr_exit r <> Some 0 /\ no_object r).
Print Assumptions C19_exit0_one_object_else_none.

(* Reading the inputs fails (exit 1 before anything is evaluated) exactly when one of the
   sources — stdin if consulted, then each --input — is not valid JSON. *)
Theorem C19_input_error_iff_bad_json : forall stdin flags,
  fst (read_inputs stdin flags) = None <-> existsb is_bad (sources stdin flags) = true.
Proof. exact read_inputs_fails_iff_bad. Qed.
Check C19_input_error_iff_bad_json : forall stdin flags,
  fst (read_inputs stdin flags) = None <-> existsb is_bad (sources stdin flags) = true.
Print Assumptions C19_input_error_iff_bad_json.

(* Inputs are read before the script is looked at: an invalid source alone decides the outcome
   (exit 1, no object), whatever the script is. *)
Theorem C19_bad_input_exits_1 : forall eval m of stdin flags prog,
  existsb is_bad (sources (stdin_for m stdin) flags) = true ->
  cli_run eval m of stdin flags prog = cli_fail 1.
Proof. exact bad_input_exits_1. Qed.
Check C19_bad_input_exits_1 : forall eval m of stdin flags prog,
  existsb is_bad (sources (stdin_for m stdin) flags) = true ->
  cli_run eval m of stdin flags prog = cli_fail 1.
Print Assumptions C19_bad_input_exits_1.

(* ======================================================================================= *)
(* the outputs object                                                                       *)
(* ======================================================================================= *)
(* On exit 0 the single object emitted is the outputs map of the final session and its keys are
   the names declared with `output` — ALL of them (repo fix 91678e3 closed known finding F33:
   `output constants` / `output inf` used to record nothing; witness kept in corpus/C19) — in the
   order of their FIRST declaration (re-declaring a name keeps its position), without duplicates.
   For every evaluator. *)
Theorem C19_outputs_keys_in_declaration_order : forall eval m of stdin flags p,
  cr_exit (cli_run eval m of stdin flags (Some p)) = Some 0 ->
  exists inputs st,
    read_inputs (stdin_for m stdin) flags = (Some inputs, st) /\
    let final := fst (run eval (cli_session st inputs) p) in
    one_object of (cli_run eval m of stdin flags (Some p)) (s_outputs final) /\
    map fst (s_outputs final) = fold_left add_key (decl_names p) [] /\
    NoDup (map fst (s_outputs final)).
Proof. exact cli_outputs_keys. Qed.
Check C19_outputs_keys_in_declaration_order : forall eval m of stdin flags p,
  cr_exit (cli_run eval m of stdin flags (Some p)) = Some 0 ->
  exists inputs st,
    read_inputs (stdin_for m stdin) flags = (Some inputs, st) /\
    let final := fst (run eval (cli_session st inputs) p) in
    one_object of (cli_run eval m of stdin flags (Some p)) (s_outputs final) /\
    map fst (s_outputs final) = fold_left add_key (decl_names p) [] /\
    NoDup (map fst (s_outputs final)).
Print Assumptions C19_outputs_keys_in_declaration_order.

(* ... and when every declaration names a binding ([binding_decl]: not inf / infinity / constants,
   which are values but not bindings), every key holds the value its name is bound to in the final
   environment (bindings never change: C03). *)
Theorem C19_outputs_in_declaration_order : forall release bi bu d m of stdin flags p,
  cr_exit (cli_run (evalD release bi bu d) m of stdin flags (Some p)) = Some 0 ->
  forallb binding_decl p = true ->
  exists inputs st,
    read_inputs (stdin_for m stdin) flags = (Some inputs, st) /\
    let final := fst (run (evalD release bi bu d) (cli_session st inputs) p) in
    one_object of (cli_run (evalD release bi bu d) m of stdin flags (Some p)) (s_outputs final) /\
    map fst (s_outputs final) = fold_left add_key (decl_names p) [] /\
    NoDup (map fst (s_outputs final)) /\
    (forall x v, rec_get (s_outputs final) x = Some v ->
                 lookup (snd (s_cfg final)) x = Some v).
Proof. exact cli_outputs_in_declaration_order. Qed.
Check C19_outputs_in_declaration_order : forall release bi bu d m of stdin flags p,
  cr_exit (cli_run (evalD release bi bu d) m of stdin flags (Some p)) = Some 0 ->
  forallb binding_decl p = true ->
  exists inputs st,
    read_inputs (stdin_for m stdin) flags = (Some inputs, st) /\
    let final := fst (run (evalD release bi bu d) (cli_session st inputs) p) in
    one_object of (cli_run (evalD release bi bu d) m of stdin flags (Some p)) (s_outputs final) /\
    map fst (s_outputs final) = fold_left add_key (decl_names p) [] /\
    NoDup (map fst (s_outputs final)) /\
    (forall x v, rec_get (s_outputs final) x = Some v ->
                 lookup (snd (s_cfg final)) x = Some v).
Print Assumptions C19_outputs_in_declaration_order.

(* ... and that value is the one the name had right after the statement that declared it (for
   EVERY declaration of the name, so re-declarations cannot change it). *)
Theorem C19_output_value_at_declaration : forall release bi bu d m of stdin flags p1 t p2 x,
  cr_exit (cli_run (evalD release bi bu d) m of stdin flags (Some (p1 ++ t :: p2))) = Some 0 ->
  forallb binding_decl (p1 ++ t :: p2) = true -> decl_name t = Some x ->
  exists inputs st v,
    read_inputs (stdin_for m stdin) flags = (Some inputs, st) /\
    lookup (snd (s_cfg (fst (run (evalD release bi bu d) (cli_session st inputs) (p1 ++ [t]))))) x
      = Some v /\
    rec_get (s_outputs (fst (run (evalD release bi bu d) (cli_session st inputs) (p1 ++ t :: p2)))) x
      = Some v.
Proof. exact cli_output_value_at_declaration. Qed.
Check C19_output_value_at_declaration : forall release bi bu d m of stdin flags p1 t p2 x,
  cr_exit (cli_run (evalD release bi bu d) m of stdin flags (Some (p1 ++ t :: p2))) = Some 0 ->
  forallb binding_decl (p1 ++ t :: p2) = true -> decl_name t = Some x ->
  exists inputs st v,
    read_inputs (stdin_for m stdin) flags = (Some inputs, st) /\
    lookup (snd (s_cfg (fst (run (evalD release bi bu d) (cli_session st inputs) (p1 ++ [t]))))) x
      = Some v /\
    rec_get (s_outputs (fst (run (evalD release bi bu d) (cli_session st inputs) (p1 ++ t :: p2)))) x
      = Some v.
Print Assumptions C19_output_value_at_declaration.

(* the former F33 witness, now recorded: `output constants` yields the key `constants` *)
Example C19_ex_output_constants :
  let r := cli_run eval_release MInline false None [] (Some [SOut (EId "constants")]) in
  cr_exit r = Some 0 /\ option_map (map fst) (cr_stdout r) = Some ["constants"].
Proof. vm_compute. split; reflexivity. Qed.

(* the hypotheses are satisfiable: a script with a re-declaration *)
Definition n (z : Z) : expr := ENum (num_of_Z z).
Definition ex_prog : list stmt :=
  [SOut (EAssign "b" (n 1)); SExpr (EAssign "a" (n 2)); SComment; SOut (EId "a"); SOut (EId "b")].
Example C19_ex_outputs :
  forallb binding_decl ex_prog = true /\
  show_cli (cli_run eval_release MFile false None [IVal (SNum (num_of_Z 7))] (Some ex_prog))
  = "EXIT:0;OUT:{62:N3ff0000000000000,61:N4000000000000000};FILE:-".
Proof. vm_compute. split; reflexivity. Qed.

(* ======================================================================================= *)
(* input merging                                                                            *)
(* ======================================================================================= *)
(* [contributions] lists what each source contributes, in order: stdin first (when consulted),
   then each --input; an object contributes its loadable entries (an entry whose function
   source does not load is dropped), any other value v contributes {value_k: v}.  The merged
   record is the LEFT FOLD of these maps: key k holds the value of the LAST source defining it,
   keys appear in the order of their first appearance, no key twice; and reading fails iff some
   source is invalid JSON (None case). *)
Theorem C19_merge_left_to_right : forall stdin flags,
  match contributions [] 0 (sources stdin flags) with
  | None => fst (read_inputs stdin flags) = None
  | Some maps =>
      exists M, fst (read_inputs stdin flags) = Some M /\
        M = fold_left merge_into maps [] /\
        (forall k, rec_get M k = last_def maps k None) /\
        map fst M = fold_left add_key (concat (map (map fst) maps)) [] /\
        NoDup (map fst M)
  end.
Proof. exact merge_left_to_right. Qed.
Check C19_merge_left_to_right : forall stdin flags,
  match contributions [] 0 (sources stdin flags) with
  | None => fst (read_inputs stdin flags) = None
  | Some maps =>
      exists M, fst (read_inputs stdin flags) = Some M /\
        M = fold_left merge_into maps [] /\
        (forall k, rec_get M k = last_def maps k None) /\
        map fst M = fold_left add_key (concat (map (map fst) maps)) [] /\
        NoDup (map fst M)
  end.
Print Assumptions C19_merge_left_to_right.

(* The names given to non-object sources, in order of appearance, are value_1, value_2, ...
   with no gap and no repetition (a non-object source that does not load gets no name and
   does not consume a number). *)
Theorem C19_value_k_numbering : forall stdin flags maps,
  contributions [] 0 (sources stdin flags) = Some maps ->
  unnamed_names (sources stdin flags) maps =
  map value_key (seq 1 (length (unnamed_names (sources stdin flags) maps))).
Proof. exact value_k_numbering_top. Qed.
Check C19_value_k_numbering : forall stdin flags maps,
  contributions [] 0 (sources stdin flags) = Some maps ->
  unnamed_names (sources stdin flags) maps =
  map value_key (seq 1 (length (unnamed_names (sources stdin flags) maps))).
Print Assumptions C19_value_k_numbering.

(* Loading does not depend on the heap: [loadable] (a function whose printed body re-parses, a
   known built-in name, and recursively) decides whether to_value succeeds.  An object then
   contributes exactly its loadable entries, in order — the observed corner that an entry whose
   function source does not load is DROPPED SILENTLY — and a non-object value gets the next
   value_k iff it loads. *)
Theorem C19_object_contributes_loadable_entries : forall es st acc,
  map fst (fst (load_entries st acc es)) =
  fold_left add_key (map fst (filter (fun kv => loadable (snd kv)) es)) (map fst acc).
Proof. exact load_entries_keys. Qed.
Check C19_object_contributes_loadable_entries : forall es st acc,
  map fst (fst (load_entries st acc es)) =
  fold_left add_key (map fst (filter (fun kv => loadable (snd kv)) es)) (map fst acc).
Print Assumptions C19_object_contributes_loadable_entries.

Theorem C19_non_object_named_iff_loadable : forall st n sv,
  fst (fst (parse_json_inputs st n (IVal sv))) <> None /\
  snd (parse_json_inputs st n (IVal sv)) = (if loadable sv then S n else n) /\
  option_map (map fst) (fst (fst (parse_json_inputs st n (IVal sv)))) =
    Some (if loadable sv then [value_key (S n)] else []).
Proof. exact parse_json_inputs_IVal. Qed.
Check C19_non_object_named_iff_loadable : forall st n sv,
  fst (fst (parse_json_inputs st n (IVal sv))) <> None /\
  snd (parse_json_inputs st n (IVal sv)) = (if loadable sv then S n else n) /\
  option_map (map fst) (fst (fst (parse_json_inputs st n (IVal sv)))) =
    Some (if loadable sv then [value_key (S n)] else []).
Print Assumptions C19_non_object_named_iff_loadable.

(* example: overlap, two non-objects, an unloadable function entry (dropped), stdin first *)
Example C19_ex_merge :
  show_inputs (Some (IVal (SNum (num_of_Z 5))))
              [IObj [("k", SNum (num_of_Z 1)); ("g", SLam [AReq "x"] None)];
               IVal (SLam [] None);
               IVal (SStr "x");
               IObj [("k", SNum (num_of_Z 2)); ("value_1", SNull)]]
  = "{76616c75655f31:U,6b:N4000000000000000,76616c75655f32:S78;}".
Proof. vm_compute. reflexivity. Qed.

(* ======================================================================================= *)
(* #name                                                                                    *)
(* ======================================================================================= *)
(* `#n` and `inputs.n` are the same computation in every configuration: any frame chain (so
   also inside do-blocks and function bodies), any store, any call depth, any implementation
   of operators, built-ins and calls.  Same value, same error, same resulting configuration. *)
Theorem C19_hash_is_inputs_field : forall release bi bu d c n,
  evalD release bi bu d c (EInRef n) = evalD release bi bu d c (EDot (EId "inputs") n).
Proof. exact evalD_hash_is_inputs_field. Qed.
Check C19_hash_is_inputs_field : forall release bi bu d c n,
  evalD release bi bu d c (EInRef n) = evalD release bi bu d c (EDot (EId "inputs") n).
Print Assumptions C19_hash_is_inputs_field.

Theorem C19_hash_null_when_absent : forall release bi bu d c n r,
  lookup (snd c) "inputs" = Some (VRec r) -> rec_get r n = None ->
  evalD release bi bu d c (EInRef n) = (Ok VNull, c) /\
  evalD release bi bu d c (EDot (EId "inputs") n) = (Ok VNull, c).
Proof. exact evalD_hash_null_when_absent. Qed.
Check C19_hash_null_when_absent : forall release bi bu d c n r,
  lookup (snd c) "inputs" = Some (VRec r) -> rec_get r n = None ->
  evalD release bi bu d c (EInRef n) = (Ok VNull, c) /\
  evalD release bi bu d c (EDot (EId "inputs") n) = (Ok VNull, c).
Print Assumptions C19_hash_null_when_absent.

(* At top level, after ANY part of the script has run (failing statement included), `#n` is
   the field n of the merged inputs record, null when absent. *)
Theorem C19_hash_reads_merged_inputs : forall release bi bu d st inputs p n,
  let c := s_cfg (fst (run (evalD release bi bu d) (cli_session st inputs) p)) in
  evalD release bi bu d c (EInRef n)
  = (Ok (match rec_get inputs n with Some v => v | None => VNull end), c).
Proof. exact hash_reads_merged_inputs. Qed.
Check C19_hash_reads_merged_inputs : forall release bi bu d st inputs p n,
  let c := s_cfg (fst (run (evalD release bi bu d) (cli_session st inputs) p)) in
  evalD release bi bu d c (EInRef n)
  = (Ok (match rec_get inputs n with Some v => v | None => VNull end), c).
Print Assumptions C19_hash_reads_merged_inputs.

(* FunctionDef::call re-reads `inputs` from the CALLER's chain: the body's chain binds `inputs`
   to whatever the call site sees (unless a parameter is itself called `inputs`).
   (F9 repaired: this arm — the accumulator starts with `("inputs", i)` — is taken only when the function
   did not capture `inputs`; a captured `inputs` is found through the shared scope frame instead.) *)
Theorem C19_callee_sees_callers_inputs : forall ps args fr i self local parent,
  lookup fr "inputs" = Some i ->
  bind_params ps 0 args (("inputs", i) :: self) = Some local ->
  existsb (fun p => String.eqb "inputs" (arg_name p)) ps = false ->
  lookup ((FOwned, local) :: parent) "inputs" = Some i.
Proof. exact callee_sees_callers_inputs. Qed.
Check C19_callee_sees_callers_inputs : forall ps args fr i self local parent,
  lookup fr "inputs" = Some i ->
  bind_params ps 0 args (("inputs", i) :: self) = Some local ->
  existsb (fun p => String.eqb "inputs" (arg_name p)) ps = false ->
  lookup ((FOwned, local) :: parent) "inputs" = Some i.
Print Assumptions C19_callee_sees_callers_inputs.

(* The corner of DESIGN section 7 F9, stated, not hidden: a do-block may shadow `inputs`
   (its keyword list lacks it), and a function called inside then reads the shadowing record:
   `f = () => [#k, inputs.k]` gives [5, 5] inside `do { inputs = {k: 5}; return f() }` and [1, 1]
   outside.  `#k = inputs.k` holds at both program points (C19 is not violated); what differs
   between the call sites is C04's subject.
   (F9 repaired: `f` captured `inputs` at creation — `#k` and `inputs.k` both make `inputs` a free name
   of the body — so the captured record now outranks the call site's: [1, 1] at BOTH call sites.) *)
Definition f9_prog : list stmt :=
  [SExpr (EAssign "f" (ELam [] (EList [Cm [] (EInRef "k") None; Cm [] (EDot (EId "inputs") "k") None])));
   SOut (EAssign "a" (EDo [Cm [] (EAssign "inputs" (ERec [Cm [] (REntry (KStatic "k") (n 5)) None])) None]
                          (Cm [] (ECall (EId "f") []) None)));
   SOut (EAssign "b" (ECall (EId "f") []))].
Example C19_f9_do_block_shadows_inputs :
  show_cli (cli_run eval_release MInline false None [IObj [("k", SNum (num_of_Z 1))]] (Some f9_prog))
  = "EXIT:0;OUT:{61:L[N3ff0000000000000,N3ff0000000000000],62:L[N3ff0000000000000,N3ff0000000000000]};FILE:-".
Proof. vm_compute. reflexivity. Qed.
