(* C08 — Formatting is idempotent.
   Property theorems only.  Model: coq/Formatter.v; proofs: coq/proofs/Idempotent.v. *)
From Coq Require Import String List ZArith Bool.
Require Import Blots.Num Blots.gen.Builtins Blots.Ast Blots.Formatter Blots.proofs.Idempotent.
Import ListNotations.
Open Scope Z_scope.

(* join_statements_with_spacing emits 1..3 newlines = min(blank lines, 2) + 1 *)
Theorem C08_gap_newlines_spec :
  forall e s, gap_newlines e s = Z.min (Z.max 0 (s - e - 1)) 2 + 1.
Proof. exact gap_newlines_spec. Qed.
Check C08_gap_newlines_spec : forall e s, gap_newlines e s = Z.min (Z.max 0 (s - e - 1)) 2 + 1.
Print Assumptions C08_gap_newlines_spec.

(* re-reading the emitted blank lines gives the clamped gap, and the same newlines again *)
Theorem C08_reread_gap :
  forall e s e', line_gap e' (e' + gap_newlines e s) = Z.min (line_gap e s) 2.
Proof. exact reread_gap. Qed.
Check C08_reread_gap : forall e s e', line_gap e' (e' + gap_newlines e s) = Z.min (line_gap e s) 2.
Print Assumptions C08_reread_gap.

Theorem C08_reread_newlines :
  forall e s e', gap_newlines e' (e' + gap_newlines e s) = gap_newlines e s.
Proof. exact reread_newlines. Qed.
Check C08_reread_newlines : forall e s e', gap_newlines e' (e' + gap_newlines e s) = gap_newlines e s.
Print Assumptions C08_reread_newlines.

Theorem C08_clamp_idempotent : forall g, clamp_gap (clamp_gap g) = clamp_gap g.
Proof. exact clamp_gap_idem. Qed.
Check C08_clamp_idempotent : forall g, clamp_gap (clamp_gap g) = clamp_gap g.
Print Assumptions C08_clamp_idempotent.

(* spacing_idempotent: for every statement list and every recorded line numbers, joining the
   statements again with the line numbers they have in the emitted text emits the same text *)
Theorem C08_spacing_idempotent :
  forall l start, join_spacing (relayout start l) = join_spacing l.
Proof. exact spacing_idempotent. Qed.
Check C08_spacing_idempotent : forall l start, join_spacing (relayout start l) = join_spacing l.
Print Assumptions C08_spacing_idempotent.

Theorem C08_relayout_fixed_point :
  forall l start, relayout start (relayout start l) = relayout start l.
Proof. exact relayout_idem. Qed.
Check C08_relayout_fixed_point : forall l start, relayout start (relayout start l) = relayout start l.
Print Assumptions C08_relayout_fixed_point.

(* example: 5 blank lines are clamped to 2, and the clamped layout is stable *)
Example C08_spacing_example :
  let l := [([Code "a"], 1, 1); ([Code "b"], 7, 7); ([Code "c"], 8, 8)] in
  render (join_spacing l) = ("a" ++ nl ++ nl ++ nl ++ "b" ++ nl ++ "c")%string /\
  relayout 1 l = [([Code "a"], 1, 1); ([Code "b"], 4, 4); ([Code "c"], 5, 5)].
Proof. vm_compute. split; reflexivity. Qed.
