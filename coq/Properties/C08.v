(* C08 — Formatting is idempotent.
   Property theorems only.  Model: coq/Formatter.v; proofs: coq/proofs/Idempotent.v. *)
From Coq Require Import String List ZArith Bool.
Require Import Blots.Num Blots.gen.Builtins Blots.Ast Blots.Formatter Blots.proofs.Idempotent.
Import ListNotations.
Open Scope Z_scope.

(* join_statements_with_spacing emits 1..3 newlines = min(blank lines, 2) + 1 *)
Theorem C08_gap_newlines_spec :
  forall e s, gap_newlines e s = Z.min (Z.max 0 (s - e - 1)) 2 + 1.
Proof. exact gap_newlines_spec. Qed.
Check C08_gap_newlines_spec : forall e s, gap_newlines e s = Z.min (Z.max 0 (s - e - 1)) 2 + 1.
Print Assumptions C08_gap_newlines_spec.

(* re-reading the emitted blank lines gives the clamped gap, and the same newlines again *)
Theorem C08_reread_gap :
  forall e s e', line_gap e' (e' + gap_newlines e s) = Z.min (line_gap e s) 2.
Proof. exact reread_gap. Qed.
Check C08_reread_gap : forall e s e', line_gap e' (e' + gap_newlines e s) = Z.min (line_gap e s) 2.
Print Assumptions C08_reread_gap.

Theorem C08_reread_newlines :
  forall e s e', gap_newlines e' (e' + gap_newlines e s) = gap_newlines e s.
Proof. exact reread_newlines. Qed.
Check C08_reread_newlines : forall e s e', gap_newlines e' (e' + gap_newlines e s) = gap_newlines e s.
Print Assumptions C08_reread_newlines.

Theorem C08_clamp_idempotent : forall g, clamp_gap (clamp_gap g) = clamp_gap g.
Proof. exact clamp_gap_idem. Qed.
Check C08_clamp_idempotent : forall g, clamp_gap (clamp_gap g) = clamp_gap g.
Print Assumptions C08_clamp_idempotent.

(* spacing_idempotent: for every statement list and every recorded line numbers, joining the
   statements again with the line numbers they have in the emitted text emits the same text *)
Theorem C08_spacing_idempotent :
  forall l start, join_spacing (relayout start l) = join_spacing l.
Proof. exact spacing_idempotent. Qed.
Check C08_spacing_idempotent : forall l start, join_spacing (relayout start l) = join_spacing l.
Print Assumptions C08_spacing_idempotent.

Theorem C08_relayout_fixed_point :
  forall l start, relayout start (relayout start l) = relayout start l.
Proof. exact relayout_idem. Qed.
Check C08_relayout_fixed_point : forall l start, relayout start (relayout start l) = relayout start l.
Print Assumptions C08_relayout_fixed_point.

(* example: 5 blank lines are clamped to 2, and the clamped layout is stable *)
Example C08_spacing_example :
  let l := [([Code "a"], 1, 1); ([Code "b"], 7, 7); ([Code "c"], 8, 8)] in
  render (join_spacing l) = ("a" ++ nl ++ nl ++ nl ++ "b" ++ nl ++ "c")%string /\
  relayout 1 l = [([Code "a"], 1, 1); ([Code "b"], 4, 4); ([Code "c"], 5, 5)].
Proof. vm_compute. split; reflexivity. Qed.

(* ---- reparse normal form for comment placement (pair-level model of the parser's
   pending-comment bookkeeping; the grammar step text -> pairs is validated by the ATTACH
   correspondence stream, not proved) *)
Open Scope list_scope.

(* lists and records: on the formatter's own layout every comment is re-attached to the same
   item in the same role, for items shaped as the parser shapes them (only the last item has
   a trailing comment) ... *)
Theorem C08_list_reattach_fixed_point :
  forall (A : Type) (items : list (commented A)),
  only_last_trailing items = true -> attach (layout_pairs items) = items.
Proof. intros A. exact list_reattach_fixed_point. Qed.
Check C08_list_reattach_fixed_point :
  forall (A : Type) (items : list (commented A)),
  only_last_trailing items = true -> attach (layout_pairs items) = items.
Print Assumptions C08_list_reattach_fixed_point.

(* ... which is the shape of everything the parser attaches (an eol_comment can only follow
   the last item, by the grammar) ... *)
Theorem C08_attach_shape :
  forall (A : Type) (pairs : list (lpair A)),
  eol_only_last pairs = true -> only_last_trailing (attach pairs) = true.
Proof. intros A. exact attach_shape. Qed.
Check C08_attach_shape :
  forall (A : Type) (pairs : list (lpair A)),
  eol_only_last pairs = true -> only_last_trailing (attach pairs) = true.
Print Assumptions C08_attach_shape.

(* ... so comment placement is stable from the first formatting pass on: an after-comma comment
   has become a leading comment of the next item, after-last comments have joined the last
   item's trailing text, and parsing the formatted layout changes nothing any more *)
Theorem C08_reattach_after_one_pass :
  forall (A : Type) (pairs : list (lpair A)),
  eol_only_last pairs = true -> attach (layout_pairs (attach pairs)) = attach pairs.
Proof. intros A. exact reattach_after_one_pass. Qed.
Check C08_reattach_after_one_pass :
  forall (A : Type) (pairs : list (lpair A)),
  eol_only_last pairs = true -> attach (layout_pairs (attach pairs)) = attach pairs.
Print Assumptions C08_reattach_after_one_pass.

(* do-blocks: statements keep their leading and same-line comments, the return expression its
   leading comments (until b1bc7c1 the grammar rejected the "  // c" the formatter prints after a
   statement — F29, fixed; the witness stays in corpus/C08) *)
Theorem C08_do_reattach_fixed_point :
  forall (A : Type) (stmts : list (commented A)) ret, ctrailing ret = None ->
  attach_do (do_layout_pairs stmts ret) (cnode ret) = (stmts, ret).
Proof. intros A. exact do_reattach_fixed_point. Qed.
Check C08_do_reattach_fixed_point :
  forall (A : Type) (stmts : list (commented A)) ret, ctrailing ret = None ->
  attach_do (do_layout_pairs stmts ret) (cnode ret) = (stmts, ret).
Print Assumptions C08_do_reattach_fixed_point.

(* `[1, // a` newline `2 // b` newline `// c` newline `]`: "// a" leads 2, "// b" and "// c" trail it *)
Example C08_attach_example :
  attach [PItem 1 None; PComment "// a"; PItem 2 (Some "// b"); PComment "// c"]
  = [Cm [] 1 None; Cm ["// a"] 2 (Some ("// b" ++ nl ++ "// c"))%string] /\
  layout_pairs [Cm [] 1 None; Cm ["// a"] 2 (Some ("// b" ++ nl ++ "// c"))%string]
  = [PItem 1 None; PComment "// a"; PItem 2 None; PComment "// b"; PComment "// c"].
Proof. split; reflexivity. Qed.

(* format_depends_on_ast_only: the layout is a function of the comment-carrying AST, the width
   and the indentation only — the model has no other input (no spans, no source text), and the
   FORMAT correspondence shows the implementation's text is reproduced from exactly these. *)
Theorem C08_format_depends_on_ast_only :
  forall O w e1 e2 i1 i2, e1 = e2 -> i1 = i2 ->
  render (fmtd O w e1 i1) = render (fmtd O w e2 i2).
Proof. intros; subst; reflexivity. Qed.
Check C08_format_depends_on_ast_only :
  forall O w e1 e2 i1 i2, e1 = e2 -> i1 = i2 ->
  render (fmtd O w e1 i1) = render (fmtd O w e2 i2).
Print Assumptions C08_format_depends_on_ast_only.

(* ---- the second pass of the drivers.  If the first output re-parses to statements with the
   same content (same expressions with the same comment attachment — C07 and the re-attachment
   theorems above — and the same end-of-line comments) at the positions the text gives them
   (relayout; validated against pest's spans by the FORMAT correspondence), the library driver
   prints the same text again; the CLI driver does not look at positions at all. *)
Theorem C08_lib_driver_second_pass :
  forall O mw p q,
  map stmt_content q = map stmt_content p ->
  map stmt_pos q = map triple_pos (relayout 1 (map_first (lib_stmt O mw) p)) ->
  format_lib O mw q = format_lib O mw p.
Proof. exact lib_driver_second_pass. Qed.
Check C08_lib_driver_second_pass :
  forall O mw p q,
  map stmt_content q = map stmt_content p ->
  map stmt_pos q = map triple_pos (relayout 1 (map_first (lib_stmt O mw) p)) ->
  format_lib O mw q = format_lib O mw p.
Print Assumptions C08_lib_driver_second_pass.

Theorem C08_cli_driver_second_pass :
  forall O p q,
  map stmt_content q = map stmt_content p -> format_cli O q = format_cli O p.
Proof. exact cli_driver_second_pass. Qed.
Check C08_cli_driver_second_pass :
  forall O p q,
  map stmt_content q = map stmt_content p -> format_cli O q = format_cli O p.
Print Assumptions C08_cli_driver_second_pass.
