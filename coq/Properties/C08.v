(* C08 — Formatting is idempotent.
   Property theorems only.  Model: coq/Formatter.v; proofs: coq/proofs/Idempotent.v. *)
From Coq Require Import String List ZArith Bool.
Require Import Blots.Num Blots.gen.Builtins Blots.Ast Blots.Formatter Blots.proofs.Idempotent.
Import ListNotations.
Open Scope Z_scope.

(* join_statements_with_spacing emits 1..3 newlines = min(blank lines, 2) + 1 *)
Theorem C08_gap_newlines_spec :
  forall e s, gap_newlines e s = Z.min (Z.max 0 (s - e - 1)) 2 + 1.
Proof. exact gap_newlines_spec. Qed.
Check C08_gap_newlines_spec : forall e s, gap_newlines e s = Z.min (Z.max 0 (s - e - 1)) 2 + 1.
Print Assumptions C08_gap_newlines_spec.

(* re-reading the emitted blank lines gives the clamped gap, and the same newlines again *)
Theorem C08_reread_gap :
  forall e s e', line_gap e' (e' + gap_newlines e s) = Z.min (line_gap e s) 2.
Proof. exact reread_gap. Qed.
Check C08_reread_gap : forall e s e', line_gap e' (e' + gap_newlines e s) = Z.min (line_gap e s) 2.
Print Assumptions C08_reread_gap.

Theorem C08_reread_newlines :
  forall e s e', gap_newlines e' (e' + gap_newlines e s) = gap_newlines e s.
Proof. exact reread_newlines. Qed.
Check C08_reread_newlines : forall e s e', gap_newlines e' (e' + gap_newlines e s) = gap_newlines e s.
Print Assumptions C08_reread_newlines.

Theorem C08_clamp_idempotent : forall g, clamp_gap (clamp_gap g) = clamp_gap g.
Proof. exact clamp_gap_idem. Qed.
Check C08_clamp_idempotent : forall g, clamp_gap (clamp_gap g) = clamp_gap g.
Print Assumptions C08_clamp_idempotent.

(* spacing_idempotent: for every statement list and every recorded line numbers, joining the
   statements again with the line numbers they have in the emitted text emits the same text *)
Theorem C08_spacing_idempotent :
  forall l start, join_spacing (relayout start l) = join_spacing l.
Proof. exact spacing_idempotent. Qed.
Check C08_spacing_idempotent : forall l start, join_spacing (relayout start l) = join_spacing l.
Print Assumptions C08_spacing_idempotent.

Theorem C08_relayout_fixed_point :
  forall l start, relayout start (relayout start l) = relayout start l.
Proof. exact relayout_idem. Qed.
Check C08_relayout_fixed_point : forall l start, relayout start (relayout start l) = relayout start l.
Print Assumptions C08_relayout_fixed_point.

(* example: 5 blank lines are clamped to 2, and the clamped layout is stable *)
Example C08_spacing_example :
  let l := [([Code "a"], 1, 1); ([Code "b"], 7, 7); ([Code "c"], 8, 8)] in
  render (join_spacing l) = ("a" ++ nl ++ nl ++ nl ++ "b" ++ nl ++ "c")%string /\
  relayout 1 l = [([Code "a"], 1, 1); ([Code "b"], 4, 4); ([Code "c"], 5, 5)].
Proof. vm_compute. split; reflexivity. Qed.

(* ---- reparse normal form for comment placement (pair-level model of the parser's
   pending-comment bookkeeping; the grammar step text -> pairs is validated by the ATTACH
   correspondence stream, not proved) *)
Open Scope list_scope.

(* lists and records: on the formatter's own layout every comment is re-attached to the same
   item in the same role, for items shaped as the parser shapes them (only the last item has
   a trailing comment) ... *)
Theorem C08_list_reattach_fixed_point :
  forall (A : Type) (items : list (commented A)),
  only_last_trailing items = true -> attach (layout_pairs items) = items.
Proof. intros A. exact list_reattach_fixed_point. Qed.
Check C08_list_reattach_fixed_point :
  forall (A : Type) (items : list (commented A)),
  only_last_trailing items = true -> attach (layout_pairs items) = items.
Print Assumptions C08_list_reattach_fixed_point.

(* ... which is the shape of everything the parser attaches (an eol_comment can only follow
   the last item, by the grammar) ... *)
Theorem C08_attach_shape :
  forall (A : Type) (pairs : list (lpair A)),
  eol_only_last pairs = true -> only_last_trailing (attach pairs) = true.
Proof. intros A. exact attach_shape. Qed.
Check C08_attach_shape :
  forall (A : Type) (pairs : list (lpair A)),
  eol_only_last pairs = true -> only_last_trailing (attach pairs) = true.
Print Assumptions C08_attach_shape.

(* ... so comment placement is stable from the first formatting pass on: an after-comma comment
   has become a leading comment of the next item, after-last comments have joined the last
   item's trailing text, and parsing the formatted layout changes nothing any more *)
Theorem C08_reattach_after_one_pass :
  forall (A : Type) (pairs : list (lpair A)),
  eol_only_last pairs = true -> attach (layout_pairs (attach pairs)) = attach pairs.
Proof. intros A. exact reattach_after_one_pass. Qed.
Check C08_reattach_after_one_pass :
  forall (A : Type) (pairs : list (lpair A)),
  eol_only_last pairs = true -> attach (layout_pairs (attach pairs)) = attach pairs.
Print Assumptions C08_reattach_after_one_pass.

(* do-blocks: statements keep their leading and same-line comments, the return expression its
   leading comments (until b1bc7c1 the grammar rejected the "  // c" the formatter prints after a
   statement — F29, fixed; the witness stays in corpus/C08) *)
Theorem C08_do_reattach_fixed_point :
  forall (A : Type) (stmts : list (commented A)) ret, ctrailing ret = None ->
  attach_do (do_layout_pairs stmts ret) (cnode ret) = (stmts, ret).
Proof. intros A. exact do_reattach_fixed_point. Qed.
Check C08_do_reattach_fixed_point :
  forall (A : Type) (stmts : list (commented A)) ret, ctrailing ret = None ->
  attach_do (do_layout_pairs stmts ret) (cnode ret) = (stmts, ret).
Print Assumptions C08_do_reattach_fixed_point.

(* `[1, // a` newline `2 // b` newline `// c` newline `]`: "// a" leads 2, "// b" and "// c" trail it *)
Example C08_attach_example :
  attach [PItem 1 None; PComment "// a"; PItem 2 (Some "// b"); PComment "// c"]
  = [Cm [] 1 None; Cm ["// a"] 2 (Some ("// b" ++ nl ++ "// c"))%string] /\
  layout_pairs [Cm [] 1 None; Cm ["// a"] 2 (Some ("// b" ++ nl ++ "// c"))%string]
  = [PItem 1 None; PComment "// a"; PItem 2 None; PComment "// b"; PComment "// c"].
Proof. split; reflexivity. Qed.

(* format_depends_on_ast_only: the layout is a function of the comment-carrying AST, the width
   and the indentation only — the model has no other input (no spans, no source text), and the
   FORMAT correspondence shows the implementation's text is reproduced from exactly these. *)
Theorem C08_format_depends_on_ast_only :
  forall O w e1 e2 i1 i2, e1 = e2 -> i1 = i2 ->
  render (fmtd O w e1 i1) = render (fmtd O w e2 i2).
Proof. intros; subst; reflexivity. Qed.
Check C08_format_depends_on_ast_only :
  forall O w e1 e2 i1 i2, e1 = e2 -> i1 = i2 ->
  render (fmtd O w e1 i1) = render (fmtd O w e2 i2).
Print Assumptions C08_format_depends_on_ast_only.

(* ---- the second pass of the drivers.  If the first output re-parses to statements with the
   same content (same expressions with the same comment attachment — C07 and the re-attachment
   theorems above — and the same end-of-line comments) at the positions the text gives them
   (relayout; validated against pest's spans by the FORMAT correspondence), the library driver
   prints the same text again; the CLI driver does not look at positions at all. *)
Theorem C08_lib_driver_second_pass :
  forall O mw p q,
  map stmt_content q = map stmt_content p ->
  map stmt_pos q = map triple_pos (relayout 1 (map_first (lib_stmt O mw) p)) ->
  format_lib O mw q = format_lib O mw p.
Proof. exact lib_driver_second_pass. Qed.
Check C08_lib_driver_second_pass :
  forall O mw p q,
  map stmt_content q = map stmt_content p ->
  map stmt_pos q = map triple_pos (relayout 1 (map_first (lib_stmt O mw) p)) ->
  format_lib O mw q = format_lib O mw p.
Print Assumptions C08_lib_driver_second_pass.

Theorem C08_cli_driver_second_pass :
  forall O p q,
  map stmt_content q = map stmt_content p -> format_cli O q = format_cli O p.
Proof. exact cli_driver_second_pass. Qed.
Check C08_cli_driver_second_pass :
  forall O p q,
  map stmt_content q = map stmt_content p -> format_cli O q = format_cli O p.
Print Assumptions C08_cli_driver_second_pass.

(* ======================================================================================================
   ATTACH composition with the parser model (C09P2; proofs/PegCommentsAttach.v).  The re-attachment theorems above are
   about the abstract pair-level functions `attach` / `attach_do`.  The parser model (coq/PegComments.v: Peg tree ->
   item view -> commented Pratt parser = pairs_to_expr_with_comments) handles every list / record / do_block pair, at
   any nesting depth, with loops that ARE those functions applied to the pair sequence obtained by parsing each item
   ([lels_pairs] / [rels_pairs] / [dels_pairs]) — so the theorems above speak about what `parse_program_c` builds from
   the Peg tree of a formatted text.  What is left to correspondence (ATTACH part 2, REPARSE stream): that the tree of
   the text a layout prints has the pair sequence `layout_pairs items` / `do_layout_pairs stmts ret` (grammar step on
   the formatter's text), and the AST round trip (C07). *)
Require Import Blots.Outcome Blots.PrattTypes Blots.gen.PrecTable Blots.Pratt Blots.PegComments Blots.proofs.PegCommentsAttach.

Theorem C08_reparse_attach_matches_model :
  forall tbl imap pmap f,
  (forall els, primary_c tbl imap pmap (S f) (IList els) =
               do ps <- lels_pairs (parse_items_c tbl imap pmap f) els;
               Outcome.Ok (option_map (fun ps => EList (attach ps)) ps))
  /\ (forall els, primary_c tbl imap pmap (S f) (IRecord els) =
                  do ps <- rels_pairs (parse_items_c tbl imap pmap f) els;
                  Outcome.Ok (option_map (fun ps => ERec (attach ps)) ps))
  /\ (forall els, do_shape els = true ->
        exists body g, els = body ++ [DRet g] /\ forallb d_not_ret body = true /\
        primary_c tbl imap pmap (S f) (IDo els) =
        do ps <- dels_pairs (parse_items_c tbl imap pmap f) body;
        match ps with
        | None => Outcome.Ok None
        | Some ps' => do e <- parse_items_c tbl imap pmap f g; Outcome.Ok (option_map (do_result ps') e)
        end).
Proof. exact reparse_attach_matches_model. Qed.
Check C08_reparse_attach_matches_model :
  forall tbl imap pmap f,
  (forall els, primary_c tbl imap pmap (S f) (IList els) =
               do ps <- lels_pairs (parse_items_c tbl imap pmap f) els;
               Outcome.Ok (option_map (fun ps => EList (attach ps)) ps))
  /\ (forall els, primary_c tbl imap pmap (S f) (IRecord els) =
                  do ps <- rels_pairs (parse_items_c tbl imap pmap f) els;
                  Outcome.Ok (option_map (fun ps => ERec (attach ps)) ps))
  /\ (forall els, do_shape els = true ->
        exists body g, els = body ++ [DRet g] /\ forallb d_not_ret body = true /\
        primary_c tbl imap pmap (S f) (IDo els) =
        do ps <- dels_pairs (parse_items_c tbl imap pmap f) body;
        match ps with
        | None => Outcome.Ok None
        | Some ps' => do e <- parse_items_c tbl imap pmap f g; Outcome.Ok (option_map (do_result ps') e)
        end).
Print Assumptions C08_reparse_attach_matches_model.

(* composition with the fixed-point theorems: IF the inner pairs of the container pair in the tree of the formatted
   text are the layout's pairs, THEN the parser model rebuilds exactly the commented items that were formatted *)
Theorem C08_reparse_list_fixed_point : forall parse els items,
  lels_pairs parse els = Outcome.Ok (Some (layout_pairs items)) -> only_last_trailing items = true ->
  list_arm_c parse els = Outcome.Ok (Some (EList items)).
Proof. exact reparse_list_fixed_point. Qed.
Check C08_reparse_list_fixed_point : forall parse els items,
  lels_pairs parse els = Outcome.Ok (Some (layout_pairs items)) -> only_last_trailing items = true ->
  list_arm_c parse els = Outcome.Ok (Some (EList items)).
Print Assumptions C08_reparse_list_fixed_point.
Theorem C08_reparse_record_fixed_point : forall parse els entries,
  rels_pairs parse els = Outcome.Ok (Some (layout_pairs entries)) -> only_last_trailing entries = true ->
  rec_arm_c parse els = Outcome.Ok (Some (ERec entries)).
Proof. exact reparse_record_fixed_point. Qed.
Check C08_reparse_record_fixed_point : forall parse els entries,
  rels_pairs parse els = Outcome.Ok (Some (layout_pairs entries)) -> only_last_trailing entries = true ->
  rec_arm_c parse els = Outcome.Ok (Some (ERec entries)).
Print Assumptions C08_reparse_record_fixed_point.
Theorem C08_reparse_do_fixed_point : forall parse body g stmts ret,
  forallb d_not_ret body = true ->
  dels_pairs parse body = Outcome.Ok (Some (do_layout_pairs stmts ret)) ->
  parse g = Outcome.Ok (Some (cnode ret)) -> ctrailing ret = None ->
  do_arm_c parse (body ++ [DRet g]) = Outcome.Ok (Some (EDo stmts ret)).
Proof. exact reparse_do_fixed_point. Qed.
Check C08_reparse_do_fixed_point : forall parse body g stmts ret,
  forallb d_not_ret body = true ->
  dels_pairs parse body = Outcome.Ok (Some (do_layout_pairs stmts ret)) ->
  parse g = Outcome.Ok (Some (cnode ret)) -> ctrailing ret = None ->
  do_arm_c parse (body ++ [DRet g]) = Outcome.Ok (Some (EDo stmts ret)).
Print Assumptions C08_reparse_do_fixed_point.
Theorem C08_reparse_list_stable_after_one_pass : forall parse els els2 ps,
  lels_pairs parse els = Outcome.Ok (Some ps) -> eol_only_last ps = true ->
  lels_pairs parse els2 = Outcome.Ok (Some (layout_pairs (attach ps))) ->
  list_arm_c parse els2 = list_arm_c parse els.
Proof. exact reparse_list_stable_after_one_pass. Qed.
Check C08_reparse_list_stable_after_one_pass : forall parse els els2 ps,
  lels_pairs parse els = Outcome.Ok (Some ps) -> eol_only_last ps = true ->
  lels_pairs parse els2 = Outcome.Ok (Some (layout_pairs (attach ps))) ->
  list_arm_c parse els2 = list_arm_c parse els.
Print Assumptions C08_reparse_list_stable_after_one_pass.

(* a statement that is a bare list: pairs_to_expr_with_comments on the crate's table IS attach on the parsed pairs *)
Theorem C08_reparse_bare_list : forall els,
  pratt_c [IList els] =
  do ps <- lels_pairs (parse_items_c impl_table infix_map prefix_map (4 * items_size [IList els] + 1)) els;
  Outcome.Ok (option_map (fun ps => EList (attach ps)) ps).
Proof. exact pratt_c_bare_list. Qed.
Check C08_reparse_bare_list : forall els,
  pratt_c [IList els] =
  do ps <- lels_pairs (parse_items_c impl_table infix_map prefix_map (4 * items_size [IList els] + 1)) els;
  Outcome.Ok (option_map (fun ps => EList (attach ps)) ps).
Print Assumptions C08_reparse_bare_list.

(* the drivers' second pass with the re-parse done by the parser MODEL (a Coq term) instead of an unmodelled parser:
   the two hypotheses are those of C08_lib_driver_second_pass about q = the program parse_program_c builds from the
   Peg tree of the first output's text (both are compared with the implementation on every run: REPARSE / FORMAT) *)
Theorem C08_reparse_second_pass_lib : forall O mw p d forest q,
  format_lib O mw p = Some d ->
  parse_program_c (render d) = PCOk forest q ->
  map stmt_content q = map stmt_content p ->
  map stmt_pos q = map triple_pos (relayout 1 (map_first (lib_stmt O mw) p)) ->
  format_lib O mw q = Some d.
Proof. exact reparse_second_pass_lib. Qed.
Check C08_reparse_second_pass_lib : forall O mw p d forest q,
  format_lib O mw p = Some d ->
  parse_program_c (render d) = PCOk forest q ->
  map stmt_content q = map stmt_content p ->
  map stmt_pos q = map triple_pos (relayout 1 (map_first (lib_stmt O mw) p)) ->
  format_lib O mw q = Some d.
Print Assumptions C08_reparse_second_pass_lib.
Theorem C08_reparse_second_pass_cli : forall O p forest q,
  parse_program_c (render (format_cli O p)) = PCOk forest q ->
  map stmt_content q = map stmt_content p ->
  format_cli O q = format_cli O p.
Proof. exact reparse_second_pass_cli. Qed.
Check C08_reparse_second_pass_cli : forall O p forest q,
  parse_program_c (render (format_cli O p)) = PCOk forest q ->
  map stmt_content q = map stmt_content p ->
  format_cli O q = format_cli O p.
Print Assumptions C08_reparse_second_pass_cli.
