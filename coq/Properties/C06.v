(* C06 — Data survives output -> JSON -> input unchanged.
   Property theorems only: each is closed by [exact lemma], pinned by [Check], followed by
   [Print Assumptions].  The model objects are Json.{from_value,to_json,from_json,to_value,
   parse_json_inputs,write_outputs,cli_out_in,cli_echo} transcribed from
   blots-core/src/values.rs and blots/src/main.rs and tied to the code by the C06 correspondence
   streams (checks/c06.py).  Every theorem holds for every instance of the library oracles
   (parse_function_source, the body parser, the source printer, the name store). *)
From Coq Require Import String List ZArith Bool.
Require Import Blots.Num Blots.gen.Builtins Blots.Ast Blots.Value Blots.Outcome Blots.Json.
Require Import Blots.JsonText.
Require Import Blots.proofs.ValueInd Blots.proofs.JsonMaps Blots.proofs.JsonRT Blots.proofs.JsonEcho Blots.proofs.JsonTextRT
  Blots.proofs.JsonTextDoc Blots.proofs.JsonTextCli.
Import ListNotations.

(* to_value (from_value v) = v structurally (numbers bit for bit, strings and keys byte for byte,
   key order kept), for every value without functions *)
Theorem C06_to_value_from_value : forall pbody emit nameof v,
  plain v = true -> (do s <- from_value emit nameof v; to_value pbody s) = Ok v.
Proof. exact to_value_from_value. Qed.
Check C06_to_value_from_value : forall pbody emit nameof v,
  plain v = true -> (do s <- from_value emit nameof v; to_value pbody s) = Ok v.
Print Assumptions C06_to_value_from_value.

(* the JSON tree written for a data value reads back as the same serialisable value, record keys
   sorted at every level (serde_json's Map is a BTreeMap in this build) *)
Theorem C06_json_tree_roundtrip : forall pfs v,
  json_data v = true -> value_no_reserved pfs v = true ->
  from_json pfs (to_json (sv_of v)) = sv_of (vsort v).
Proof. exact json_tree_roundtrip. Qed.
Check C06_json_tree_roundtrip : forall pfs v,
  json_data v = true -> value_no_reserved pfs v = true ->
  from_json pfs (to_json (sv_of v)) = sv_of (vsort v).
Print Assumptions C06_json_tree_roundtrip.

(* output -> JSON tree -> input: the value read back is .== to the original and agrees with it
   bit-exactly on numbers and byte-exactly on strings and keys, at any depth *)
Theorem C06_value_roundtrip : forall pfs pbody emit nameof v,
  json_data v = true -> value_no_reserved pfs v = true ->
  exists v',
    (do s <- from_value emit nameof v; to_value pbody (from_json pfs (to_json s))) = Ok v' /\
    v' = vsort v /\ equals v' v = true /\ same_data v' v = true.
Proof. exact value_roundtrip. Qed.
Check C06_value_roundtrip : forall pfs pbody emit nameof v,
  json_data v = true -> value_no_reserved pfs v = true ->
  exists v',
    (do s <- from_value emit nameof v; to_value pbody (from_json pfs (to_json s))) = Ok v' /\
    v' = vsort v /\ equals v' v = true /\ same_data v' v = true.
Print Assumptions C06_value_roundtrip.

(* the same through the CLI's own wrappers (write_outputs, serde_json's map builder,
   parse_json_inputs): a second run reading the first run's output sees inputs.<name> .== and
   bit/byte-identical to the value the first run output *)
Theorem C06_cli_out_in : forall pfs pbody emit nameof v name,
  json_data v = true -> value_no_reserved pfs v = true ->
  cli_out_in pfs pbody emit nameof v name = Ok (vsort v)
  /\ equals (vsort v) v = true /\ same_data (vsort v) v = true.
Proof. exact cli_out_in_roundtrip. Qed.
Check C06_cli_out_in : forall pfs pbody emit nameof v name,
  json_data v = true -> value_no_reserved pfs v = true ->
  cli_out_in pfs pbody emit nameof v name = Ok (vsort v)
  /\ equals (vsort v) v = true /\ same_data (vsort v) v = true.
Print Assumptions C06_cli_out_in.

(* input_echo: a supplied document (any member order, duplicate keys allowed), read as an input
   and written as an output, is the canonical form of the document, hence equal to it as a JSON
   value with numbers compared as doubles.  The reserved object form is set aside by the
   decidable predicate json_no_reserved, as the property text does. *)
Theorem C06_input_echo : forall pfs pbody emit nameof d,
  json_nums_ok d = true -> json_no_reserved pfs (sj_build d) = true ->
  (do v <- to_value pbody (from_json pfs (sj_build d)); do s <- from_value emit nameof v; Ok (to_json s))
  = Ok (jcanon d)
  /\ json_equiv (jcanon d) d.
Proof. exact input_echo. Qed.
Check C06_input_echo : forall pfs pbody emit nameof d,
  json_nums_ok d = true -> json_no_reserved pfs (sj_build d) = true ->
  (do v <- to_value pbody (from_json pfs (sj_build d)); do s <- from_value emit nameof v; Ok (to_json s))
  = Ok (jcanon d)
  /\ json_equiv (jcanon d) d.
Print Assumptions C06_input_echo.

(* json_equiv (equality of canonical forms) implies JSON value equality in the relational
   reading: numbers by their doubles, arrays position by position, objects as finite maps in
   which the last binding of a key counts and order does not *)
Theorem C06_json_equiv_is_value_equality : forall a b, json_equiv a b -> jeq a b.
Proof. exact json_equiv_jeq. Qed.
Check C06_json_equiv_is_value_equality : forall a b, json_equiv a b -> jeq a b.
Print Assumptions C06_json_equiv_is_value_equality.

(* `blots -i <document> 'output <name> = inputs.<key>'` *)
Theorem C06_cli_echo_object : forall pfs pbody emit nameof m key name x,
  json_nums_ok (JObj m) = true ->
  forallb (fun kv => json_no_reserved pfs (sj_build (snd kv))) m = true ->
  jlookup m key = Some x ->
  cli_echo pfs pbody emit nameof (JObj m) key name = Ok (JObj [(name, jcanon x)]).
Proof. exact cli_echo_object. Qed.
Check C06_cli_echo_object : forall pfs pbody emit nameof m key name x,
  json_nums_ok (JObj m) = true ->
  forallb (fun kv => json_no_reserved pfs (sj_build (snd kv))) m = true ->
  jlookup m key = Some x ->
  cli_echo pfs pbody emit nameof (JObj m) key name = Ok (JObj [(name, jcanon x)]).
Print Assumptions C06_cli_echo_object.

Theorem C06_cli_echo_non_object : forall pfs pbody emit nameof d name,
  (forall m, d <> JObj m) ->
  json_nums_ok d = true -> json_no_reserved pfs (sj_build d) = true ->
  cli_echo pfs pbody emit nameof d "value_1" name = Ok (JObj [(name, jcanon d)]).
Proof. exact cli_echo_non_object. Qed.
Check C06_cli_echo_non_object : forall pfs pbody emit nameof d name,
  (forall m, d <> JObj m) ->
  json_nums_ok d = true -> json_no_reserved pfs (sj_build d) = true ->
  cli_echo pfs pbody emit nameof d "value_1" name = Ok (JObj [(name, jcanon d)]).
Print Assumptions C06_cli_echo_non_object.

(* ---- text level ---- *)
(* strings and keys: whatever byte string is printed (serde_json's escape table) is read back
   byte for byte - quotes, backslashes, control characters, DEL, every UTF-8 sequence *)
Theorem C06_string_text_roundtrip : forall s rest,
  parse_str (escape_str s ++ String QUOTE rest) = Some (s, rest).
Proof. exact parse_str_escape. Qed.
Check C06_string_text_roundtrip : forall s rest,
  parse_str (escape_str s ++ String QUOTE rest) = Some (s, rest).
Print Assumptions C06_string_text_roundtrip.

(* number tokens: the scanner recovers exactly the token that was written (sign, integer digits,
   fraction, exponent), for every well-formed token *)
Theorem C06_number_token_roundtrip : forall t rest,
  tok_wf t = true -> no_cont rest = true -> scan_number (render_tok t ++ rest) = Some (t, rest).
Proof. exact scan_render. Qed.
Check C06_number_token_roundtrip : forall t rest,
  tok_wf t = true -> no_cont rest = true -> scan_number (render_tok t ++ rest) = Some (t, rest).
Print Assumptions C06_number_token_roundtrip.

(* numbers: integers in u64 / i64 range exactly; a finite double exactly PROVIDED the library
   conversions satisfy the two hypotheses (ryu writes a well-formed float token; reading it gives
   the double back).  For the build shipped in /repo the second hypothesis is FALSE (below). *)
Theorem C06_number_text_roundtrip : forall fmt_pieces float_of_tok,
  (forall x, is_finite x = true -> tok_wf (fmt_pieces x) = true /\ tok_is_float (fmt_pieces x) = true) ->
  (forall x, is_finite x = true -> float_of_tok (fmt_pieces x) = Some x) ->
  forall n rest, jnum_text_ok n = true -> no_cont rest = true ->
  parse_number float_of_tok (render_tok (tok_of_jnumber fmt_pieces n) ++ rest) = Some (n, rest).
Proof. exact parse_print_number. Qed.
Check C06_number_text_roundtrip : forall fmt_pieces float_of_tok,
  (forall x, is_finite x = true -> tok_wf (fmt_pieces x) = true /\ tok_is_float (fmt_pieces x) = true) ->
  (forall x, is_finite x = true -> float_of_tok (fmt_pieces x) = Some x) ->
  forall n rest, jnum_text_ok n = true -> no_cont rest = true ->
  parse_number float_of_tok (render_tok (tok_of_jnumber fmt_pieces n) ++ rest) = Some (n, rest).
Print Assumptions C06_number_text_roundtrip.

(* json_text_roundtrip: serde_json::from_str (serde_json::to_string j) = j as a document, under the
   two library hypotheses on numbers, for every document with in-range numbers and at most 127
   nested containers (serde_json's recursion limit; see C06_recursion_limit_refuted) *)
Theorem C06_json_text_roundtrip : forall fmt_pieces float_of_tok,
  (forall x, is_finite x = true -> tok_wf (fmt_pieces x) = true /\ tok_is_float (fmt_pieces x) = true) ->
  (forall x, is_finite x = true -> float_of_tok (fmt_pieces x) = Some x) ->
  forall j, json_text_ok j = true -> (jdepth j <= 127)%nat ->
  json_from_str float_of_tok (jprint fmt_pieces j) = Some j.
Proof. exact json_text_roundtrip. Qed.
Check C06_json_text_roundtrip : forall fmt_pieces float_of_tok,
  (forall x, is_finite x = true -> tok_wf (fmt_pieces x) = true /\ tok_is_float (fmt_pieces x) = true) ->
  (forall x, is_finite x = true -> float_of_tok (fmt_pieces x) = Some x) ->
  forall j, json_text_ok j = true -> (jdepth j <= 127)%nat ->
  json_from_str float_of_tok (jprint fmt_pieces j) = Some j.
Print Assumptions C06_json_text_roundtrip.

(* the property's first sentence end to end in the model: a data value output by one run, printed
   as JSON text, parsed, built into serde_json's map, turned into the inputs of a second run, is
   read there as a value .== to the original, bit-exact on numbers, byte-exact on strings/keys *)
Theorem C06_cli_text_out_in : forall pfs pbody emit nameof fmt_pieces float_of_tok,
  (forall x, is_finite x = true -> tok_wf (fmt_pieces x) = true /\ tok_is_float (fmt_pieces x) = true) ->
  (forall x, is_finite x = true -> float_of_tok (fmt_pieces x) = Some x) ->
  forall v name,
  json_data v = true -> value_no_reserved pfs v = true ->
  (jdepth (write_outputs [(name, sv_of v)]) <= 127)%nat ->
  cli_text_out_in pfs pbody emit nameof fmt_pieces float_of_tok v name = Ok (vsort v)
  /\ equals (vsort v) v = true /\ same_data (vsort v) v = true.
Proof. exact cli_text_out_in_roundtrip. Qed.
Check C06_cli_text_out_in : forall pfs pbody emit nameof fmt_pieces float_of_tok,
  (forall x, is_finite x = true -> tok_wf (fmt_pieces x) = true /\ tok_is_float (fmt_pieces x) = true) ->
  (forall x, is_finite x = true -> float_of_tok (fmt_pieces x) = Some x) ->
  forall v name,
  json_data v = true -> value_no_reserved pfs v = true ->
  (jdepth (write_outputs [(name, sv_of v)]) <= 127)%nat ->
  cli_text_out_in pfs pbody emit nameof fmt_pieces float_of_tok v name = Ok (vsort v)
  /\ equals (vsort v) v = true /\ same_data (vsort v) v = true.
Print Assumptions C06_cli_text_out_in.

(* ---- refutations at the text level (known findings C06-F17, C06-F31) ---- *)
(* F17: the number conversion shipped in /repo reads 9007199254740991.0 (= 2^53-1, a double) as
   2^53-2; so it does not satisfy the round-trip hypothesis, whatever ryu prints elsewhere *)
Lemma C06_shipped_number_parse_refuted :
  render_tok tok_2p53m1 = "9007199254740991.0"%string /\
  sj_float_of_tok tok_2p53m1 = Some (num_of_bits 0x433ffffffffffffe) /\
  num_of_Z 9007199254740991 = num_of_bits 0x433fffffffffffff /\
  num_of_bits 0x433ffffffffffffe <> num_of_bits 0x433fffffffffffff.
Proof. exact shipped_number_parse_refuted. Qed.
Lemma C06_shipped_roundtrip_hypothesis_false :
  forall fmt_pieces, fmt_pieces (num_of_bits 0x433fffffffffffff) = tok_2p53m1 ->
  ~ (forall x, is_finite x = true -> sj_float_of_tok (fmt_pieces x) = Some x).
Proof. exact shipped_roundtrip_hypothesis_false. Qed.
(* F31: the parser stops at 127 nested containers; the printer does not *)
Lemma C06_recursion_limit_refuted :
  json_from_str sj_float_of_tok (jprint no_tok (nest 127 (JArr []))) = None /\
  json_from_str sj_float_of_tok (jprint no_tok (nest 126 (JArr []))) = Some (nest 126 (JArr [])).
Proof. exact recursion_limit_refuted. Qed.

(* ---- refutations: what the exclusions exclude (known findings C06-F16) ---- *)
(* by the letter of the property's first sentence a record is data whatever its keys; the
   record {"__blots_function": "sum"} is written as ordinary JSON and read back as the built-in
   function sum, which is not .== to the record *)
Lemma C06_reserved_form_builtin_refuted : forall pfs pbody emit nameof,
  let v := VRec [("__blots_function"%string, VStr "sum")] in
  json_data v = true /\
  exists b, (do s <- from_value emit nameof v; to_value pbody (from_json pfs (to_json s))) = Ok (VBuiltin b)
            /\ equals (VBuiltin b) v = false.
Proof. exact reserved_form_builtin_refuted. Qed.
Lemma C06_reserved_form_refuted : forall pfs pbody emit nameof body_ast,
  pfs "(y) => y"%string = Some ([AReq "y"], "y"%string) -> pbody "y"%string = Ok body_ast ->
  let v := VRec [("__blots_function"%string, VStr "(y) => y")] in
  json_data v = true /\
  (do s <- from_value emit nameof v; to_value pbody (from_json pfs (to_json s)))
  = Ok (VLam O [AReq "y"] body_ast []) /\
  equals (VLam O [AReq "y"] body_ast []) v = false.
Proof. exact reserved_form_refuted. Qed.

(* ---- non-vacuity ---- *)
Open Scope string_scope.
Definition one := nb 0x3ff0000000000000.
Definition negzero := nb 0x8000000000000000.
Definition ex_value : value :=
  VRec [("b", VList [VNum negzero; VStr "x""y"; VNull]); ("a", VRec [("", VBool true); ("1", VNum one)])].
Example ex_data : json_data ex_value = true /\ value_no_reserved no_fn ex_value = true.
Proof. vm_compute. split; reflexivity. Qed.
Example ex_roundtrip :
  (do s <- from_value no_emit no_name ex_value; to_value no_body (from_json no_fn (to_json s)))
  = Ok (VRec [("a", VRec [("", VBool true); ("1", VNum one)]);
              ("b", VList [VNum negzero; VStr "x""y"; VNull])]).
Proof. vm_compute. reflexivity. Qed.
Definition ex_doc : json :=
  JObj [("k", JNum (JPosInt 9007199254740993)); ("a", JArr [JNum (JNegInt (-1)); JStr "s"]);
        ("k", JObj [("z", JNull); ("y", JNum (JFloat negzero)); ("z", JBool false)])].
Example ex_doc_ok : json_nums_ok ex_doc = true /\ json_no_reserved no_fn (sj_build ex_doc) = true.
Proof. vm_compute. split; reflexivity. Qed.
Example ex_doc_echo :
  (do v <- to_value no_body (from_json no_fn (sj_build ex_doc)); do s <- from_value no_emit no_name v; Ok (to_json s))
  = Ok (JObj [("a", JArr [JNum (JFloat (nb 0xbff0000000000000)); JStr "s"]);
              ("k", JObj [("y", JNum (JFloat negzero)); ("z", JBool false)])]).
Proof. vm_compute. reflexivity. Qed.
Example ex_nums_ok_extremes :
  jnum_ok (JPosInt (2 ^ 64 - 1)) = true /\ jnum_ok (JNegInt (- 2 ^ 63)) = true.
Proof. vm_compute. split; reflexivity. Qed.
(* the library hypotheses of the text-level theorems hold pointwise where they should: 0.1 is
   printed as 0.1 (a well-formed float token) and even the shipped conversion reads it back *)
Definition tok_0_1 : numtok := NumTok false [0%Z] (Some [1%Z]) None.
Example ex_number_hypotheses_at_0_1 :
  render_tok tok_0_1 = "0.1" /\ tok_wf tok_0_1 = true /\ tok_is_float tok_0_1 = true /\
  sj_float_of_tok tok_0_1 = Some (num_of_bits 0x3fb999999999999a).
Proof. vm_compute. repeat split; reflexivity. Qed.
Example ex_text_roundtrip_concrete :
  json_from_str sj_float_of_tok
    (jprint (fun _ => tok_0_1) (JObj [("k", JArr [JNum (JPosInt 18446744073709551615); JNum (JNegInt (-9223372036854775808));
                                                   JStr (String (chr 1) "q""\"); JNum (JFloat (num_of_bits 0x3fb999999999999a))]);
                                      ("k", JNull)]))
  = Some (JObj [("k", JArr [JNum (JPosInt 18446744073709551615); JNum (JNegInt (-9223372036854775808));
                            JStr (String (chr 1) "q""\"); JNum (JFloat (num_of_bits 0x3fb999999999999a))]);
                ("k", JNull)]).
Proof. vm_compute. reflexivity. Qed.

(* ==================================================================================================
   Extension round: the three "partial" items of notes/C06.md closed.
   (i)   json_nums_ok is no longer a hypothesis for parsed documents: the invariant of
         serde_json::Number (JsonWf.jnum_wf) is established by the parser model, by to_json /
         write_outputs and kept by sj_build, and implies json_nums_ok (u64 / i64 `as f64` is finite:
         Flocq, hence the four allow-listed standard-library axioms under these theorems).
   (ii)  the input direction at TEXT level: parse-print-parse, and the echo program from the bytes
         of the input to the bytes of the output.
   (iii) a GLOBAL instance of the two library hypotheses: the exact decimal expansion printer and
         the correctly rounded reader of C16 (JsonExact.v), for every finite binary64 datum.
         serde_json prints ryu's SHORTEST round-tripping decimal instead of the exact expansion; that
         ryu's text is read back is tied by the NUM / XNUM streams of checks/c06.py, not proved.
   ================================================================================================== *)
Require Import Blots.JsonWf Blots.JsonExact.
Require Import Blots.proofs.JsonNumsOk Blots.proofs.JsonTextEcho Blots.proofs.JsonInstance.
Open Scope Z_scope.

(* ---- (i) the Number invariant ---- *)
(* Number::as_f64 of an integer Number: `n as f64` is finite for every u64 and every i64 *)
Theorem C06_u64_i64_as_f64_finite : forall z, - 2 ^ 63 <= z < 2 ^ 64 -> is_finite (num_of_Z z) = true.
Proof. exact num_of_Z_finite_u64_i64. Qed.
Check C06_u64_i64_as_f64_finite : forall z, - 2 ^ 63 <= z < 2 ^ 64 -> is_finite (num_of_Z z) = true.
Print Assumptions C06_u64_i64_as_f64_finite.

(* integers in u64 / negative i64 range, Float finite  ==>  the double of every number is finite *)
Theorem C06_number_invariant_nums_ok : forall d, json_wf d = true -> json_nums_ok d = true.
Proof. exact json_wf_nums_ok. Qed.
Check C06_number_invariant_nums_ok : forall d, json_wf d = true -> json_nums_ok d = true.
Print Assumptions C06_number_invariant_nums_ok.

(* the parser model establishes the invariant (and the depth bound) for EVERY text it accepts, as
   soon as the text->double conversion never returns NaN or an infinity *)
Theorem C06_parser_establishes_number_invariant : forall fot s d,
  fot_finite fot -> json_from_str fot s = Some d -> json_wf d = true /\ (jdepth d <= 127)%nat.
Proof. exact json_from_str_wf. Qed.
Check C06_parser_establishes_number_invariant : forall fot s d,
  fot_finite fot -> json_from_str fot s = Some d -> json_wf d = true /\ (jdepth d <= 127)%nat.
Print Assumptions C06_parser_establishes_number_invariant.

(* to_json (Number::from_f64 or the `0` fallback), write_outputs, serde_json's map builder and the
   canonical form all produce / keep well-formed Numbers *)
Theorem C06_values_establish_number_invariant :
  (forall s, json_wf (to_json s) = true) /\
  (forall outs, json_wf (write_outputs outs) = true) /\
  (forall d, json_wf d = true -> json_wf (sj_build d) = true) /\
  (forall d, json_wf d = true -> json_wf (jcanon d) = true).
Proof. exact number_invariant_established. Qed.
Check C06_values_establish_number_invariant :
  (forall s, json_wf (to_json s) = true) /\
  (forall outs, json_wf (write_outputs outs) = true) /\
  (forall d, json_wf d = true -> json_wf (sj_build d) = true) /\
  (forall d, json_wf d = true -> json_wf (jcanon d) = true).
Print Assumptions C06_values_establish_number_invariant.

Theorem C06_parsed_nums_ok : forall fot s d,
  fot_finite fot -> json_from_str fot s = Some d -> json_nums_ok d = true.
Proof. exact json_from_str_nums_ok. Qed.
Check C06_parsed_nums_ok : forall fot s d,
  fot_finite fot -> json_from_str fot s = Some d -> json_nums_ok d = true.
Print Assumptions C06_parsed_nums_ok.

(* C06_input_echo / C06_cli_echo_* without the hypothesis json_nums_ok, for every document the
   parser returned for an input text *)
Theorem C06_input_echo_parsed : forall pfs pbody emit nameof fot, fot_finite fot -> forall s d,
  json_from_str fot s = Some d -> json_no_reserved pfs (sj_build d) = true ->
  (do v <- to_value pbody (from_json pfs (sj_build d)); do s <- from_value emit nameof v; Ok (to_json s))
  = Ok (jcanon d)
  /\ json_equiv (jcanon d) d.
Proof. exact input_echo_parsed. Qed.
Check C06_input_echo_parsed : forall pfs pbody emit nameof fot, fot_finite fot -> forall s d,
  json_from_str fot s = Some d -> json_no_reserved pfs (sj_build d) = true ->
  (do v <- to_value pbody (from_json pfs (sj_build d)); do s <- from_value emit nameof v; Ok (to_json s))
  = Ok (jcanon d)
  /\ json_equiv (jcanon d) d.
Print Assumptions C06_input_echo_parsed.

Theorem C06_cli_echo_object_parsed : forall pfs pbody emit nameof fot, fot_finite fot ->
  forall s m key name x,
  json_from_str fot s = Some (JObj m) ->
  forallb (fun kv => json_no_reserved pfs (sj_build (snd kv))) m = true ->
  jlookup m key = Some x ->
  cli_echo pfs pbody emit nameof (JObj m) key name = Ok (JObj [(name, jcanon x)]).
Proof. exact cli_echo_object_parsed. Qed.
Check C06_cli_echo_object_parsed : forall pfs pbody emit nameof fot, fot_finite fot ->
  forall s m key name x,
  json_from_str fot s = Some (JObj m) ->
  forallb (fun kv => json_no_reserved pfs (sj_build (snd kv))) m = true ->
  jlookup m key = Some x ->
  cli_echo pfs pbody emit nameof (JObj m) key name = Ok (JObj [(name, jcanon x)]).
Print Assumptions C06_cli_echo_object_parsed.

Theorem C06_cli_echo_non_object_parsed : forall pfs pbody emit nameof fot, fot_finite fot ->
  forall s d name,
  json_from_str fot s = Some d -> (forall m, d <> JObj m) ->
  json_no_reserved pfs (sj_build d) = true ->
  cli_echo pfs pbody emit nameof d "value_1" name = Ok (JObj [(name, jcanon d)]).
Proof. exact cli_echo_non_object_parsed. Qed.
Check C06_cli_echo_non_object_parsed : forall pfs pbody emit nameof fot, fot_finite fot ->
  forall s d name,
  json_from_str fot s = Some d -> (forall m, d <> JObj m) ->
  json_no_reserved pfs (sj_build d) = true ->
  cli_echo pfs pbody emit nameof d "value_1" name = Ok (JObj [(name, jcanon d)]).
Print Assumptions C06_cli_echo_non_object_parsed.

(* ---- (ii) the input direction at text level ---- *)
(* C06_json_text_roundtrip with the two library hypotheses required only on a class okf of finite
   doubles (okf := is_finite gives C06_json_text_roundtrip back) *)
Theorem C06_json_text_roundtrip_on_class : forall fmt_pieces float_of_tok okf,
  (forall x, okf x = true -> tok_wf (fmt_pieces x) = true /\ tok_is_float (fmt_pieces x) = true) ->
  (forall x, okf x = true -> float_of_tok (fmt_pieces x) = Some x) ->
  (forall x, okf x = true -> is_finite x = true) ->
  forall j, json_all (okn_of okf) j = true -> (jdepth j <= 127)%nat ->
  json_from_str float_of_tok (jprint fmt_pieces j) = Some j.
Proof. exact json_text_roundtrip_g. Qed.
Check C06_json_text_roundtrip_on_class : forall fmt_pieces float_of_tok okf,
  (forall x, okf x = true -> tok_wf (fmt_pieces x) = true /\ tok_is_float (fmt_pieces x) = true) ->
  (forall x, okf x = true -> float_of_tok (fmt_pieces x) = Some x) ->
  (forall x, okf x = true -> is_finite x = true) ->
  forall j, json_all (okn_of okf) j = true -> (jdepth j <= 127)%nat ->
  json_from_str float_of_tok (jprint fmt_pieces j) = Some j.
Print Assumptions C06_json_text_roundtrip_on_class.

(* parse-print-parse: for EVERY input text the parser accepts, the document it returned is printed
   to a text that the parser reads as that same document.  No condition on the document (ranges and
   nesting are established by the parser); library hypotheses on the class okf, plus: the reader only
   returns doubles of the class *)
Theorem C06_parse_print_parse : forall fmt_pieces float_of_tok okf,
  (forall x, okf x = true -> tok_wf (fmt_pieces x) = true /\ tok_is_float (fmt_pieces x) = true) ->
  (forall x, okf x = true -> float_of_tok (fmt_pieces x) = Some x) ->
  (forall x, okf x = true -> is_finite x = true) ->
  (forall t x, float_of_tok t = Some x -> okf x = true) ->
  forall s d, json_from_str float_of_tok s = Some d ->
  json_from_str float_of_tok (jprint fmt_pieces d) = Some d.
Proof. exact parse_print_parse. Qed.
Check C06_parse_print_parse : forall fmt_pieces float_of_tok okf,
  (forall x, okf x = true -> tok_wf (fmt_pieces x) = true /\ tok_is_float (fmt_pieces x) = true) ->
  (forall x, okf x = true -> float_of_tok (fmt_pieces x) = Some x) ->
  (forall x, okf x = true -> is_finite x = true) ->
  (forall t x, float_of_tok t = Some x -> okf x = true) ->
  forall s d, json_from_str float_of_tok s = Some d ->
  json_from_str float_of_tok (jprint fmt_pieces d) = Some d.
Print Assumptions C06_parse_print_parse.

(* ... under exactly the two hypotheses of C06_json_text_roundtrip (and a reader that never returns
   NaN / infinity), in the form asked for: the re-read document is json_equiv *)
Theorem C06_parse_print_parse_finite : forall fmt_pieces float_of_tok,
  (forall x, is_finite x = true -> tok_wf (fmt_pieces x) = true /\ tok_is_float (fmt_pieces x) = true) ->
  (forall x, is_finite x = true -> float_of_tok (fmt_pieces x) = Some x) ->
  fot_finite float_of_tok ->
  forall s d, json_from_str float_of_tok s = Some d ->
  exists d', json_from_str float_of_tok (jprint fmt_pieces d) = Some d' /\ json_equiv d d'.
Proof. exact parse_print_parse_finite. Qed.
Check C06_parse_print_parse_finite : forall fmt_pieces float_of_tok,
  (forall x, is_finite x = true -> tok_wf (fmt_pieces x) = true /\ tok_is_float (fmt_pieces x) = true) ->
  (forall x, is_finite x = true -> float_of_tok (fmt_pieces x) = Some x) ->
  fot_finite float_of_tok ->
  forall s d, json_from_str float_of_tok s = Some d ->
  exists d', json_from_str float_of_tok (jprint fmt_pieces d) = Some d' /\ json_equiv d d'.
Print Assumptions C06_parse_print_parse_finite.

(* the echo program text to text: `blots -i '<s>' 'output <name> = inputs.<key>'` succeeds, and what
   it writes parses to {<name>: jcanon x}, x the member of the input that counts for <key>;
   jcanon x is json_equiv to x (equal as a JSON value by C06_json_equiv_is_value_equality) *)
Theorem C06_cli_text_echo_object : forall pfs pbody emit nameof fmt_pieces float_of_tok okf,
  (forall x, okf x = true -> tok_wf (fmt_pieces x) = true /\ tok_is_float (fmt_pieces x) = true) ->
  (forall x, okf x = true -> float_of_tok (fmt_pieces x) = Some x) ->
  (forall x, okf x = true -> is_finite x = true) ->
  (forall t x, float_of_tok t = Some x -> okf x = true) ->
  (forall z, I64_MIN <= z <= U64_MAX -> okf (num_of_Z z) = true) ->
  forall s m key name x,
  json_from_str float_of_tok s = Some (JObj m) ->
  forallb (fun kv => json_no_reserved pfs (sj_build (snd kv))) m = true ->
  jlookup m key = Some x ->
  cli_text_echo pfs pbody emit nameof fmt_pieces float_of_tok s key name
    = Ok (jprint fmt_pieces (JObj [(name, jcanon x)]))
  /\ json_from_str float_of_tok (jprint fmt_pieces (JObj [(name, jcanon x)])) = Some (JObj [(name, jcanon x)])
  /\ json_equiv (jcanon x) x.
Proof. exact cli_text_echo_object. Qed.
Check C06_cli_text_echo_object : forall pfs pbody emit nameof fmt_pieces float_of_tok okf,
  (forall x, okf x = true -> tok_wf (fmt_pieces x) = true /\ tok_is_float (fmt_pieces x) = true) ->
  (forall x, okf x = true -> float_of_tok (fmt_pieces x) = Some x) ->
  (forall x, okf x = true -> is_finite x = true) ->
  (forall t x, float_of_tok t = Some x -> okf x = true) ->
  (forall z, I64_MIN <= z <= U64_MAX -> okf (num_of_Z z) = true) ->
  forall s m key name x,
  json_from_str float_of_tok s = Some (JObj m) ->
  forallb (fun kv => json_no_reserved pfs (sj_build (snd kv))) m = true ->
  jlookup m key = Some x ->
  cli_text_echo pfs pbody emit nameof fmt_pieces float_of_tok s key name
    = Ok (jprint fmt_pieces (JObj [(name, jcanon x)]))
  /\ json_from_str float_of_tok (jprint fmt_pieces (JObj [(name, jcanon x)])) = Some (JObj [(name, jcanon x)])
  /\ json_equiv (jcanon x) x.
Print Assumptions C06_cli_text_echo_object.

Theorem C06_cli_text_echo_object_finite : forall pfs pbody emit nameof fmt_pieces float_of_tok,
  (forall x, is_finite x = true -> tok_wf (fmt_pieces x) = true /\ tok_is_float (fmt_pieces x) = true) ->
  (forall x, is_finite x = true -> float_of_tok (fmt_pieces x) = Some x) ->
  fot_finite float_of_tok ->
  forall s m key name x,
  json_from_str float_of_tok s = Some (JObj m) ->
  forallb (fun kv => json_no_reserved pfs (sj_build (snd kv))) m = true ->
  jlookup m key = Some x ->
  cli_text_echo pfs pbody emit nameof fmt_pieces float_of_tok s key name
    = Ok (jprint fmt_pieces (JObj [(name, jcanon x)]))
  /\ json_from_str float_of_tok (jprint fmt_pieces (JObj [(name, jcanon x)])) = Some (JObj [(name, jcanon x)])
  /\ json_equiv (jcanon x) x.
Proof. exact cli_text_echo_object_finite. Qed.
Check C06_cli_text_echo_object_finite : forall pfs pbody emit nameof fmt_pieces float_of_tok,
  (forall x, is_finite x = true -> tok_wf (fmt_pieces x) = true /\ tok_is_float (fmt_pieces x) = true) ->
  (forall x, is_finite x = true -> float_of_tok (fmt_pieces x) = Some x) ->
  fot_finite float_of_tok ->
  forall s m key name x,
  json_from_str float_of_tok s = Some (JObj m) ->
  forallb (fun kv => json_no_reserved pfs (sj_build (snd kv))) m = true ->
  jlookup m key = Some x ->
  cli_text_echo pfs pbody emit nameof fmt_pieces float_of_tok s key name
    = Ok (jprint fmt_pieces (JObj [(name, jcanon x)]))
  /\ json_from_str float_of_tok (jprint fmt_pieces (JObj [(name, jcanon x)])) = Some (JObj [(name, jcanon x)])
  /\ json_equiv (jcanon x) x.
Print Assumptions C06_cli_text_echo_object_finite.

(* the output of the echo program is a fixed point: fed back as the input of
   `output <name> = inputs.<name>` it is reproduced byte for byte *)
Theorem C06_cli_text_echo_fixed_point : forall pfs pbody emit nameof fmt_pieces float_of_tok okf,
  (forall x, okf x = true -> tok_wf (fmt_pieces x) = true /\ tok_is_float (fmt_pieces x) = true) ->
  (forall x, okf x = true -> float_of_tok (fmt_pieces x) = Some x) ->
  (forall x, okf x = true -> is_finite x = true) ->
  (forall t x, float_of_tok t = Some x -> okf x = true) ->
  (forall z, I64_MIN <= z <= U64_MAX -> okf (num_of_Z z) = true) ->
  forall s m key name x,
  json_from_str float_of_tok s = Some (JObj m) ->
  forallb (fun kv => json_no_reserved pfs (sj_build (snd kv))) m = true ->
  jlookup m key = Some x ->
  let out := jprint fmt_pieces (JObj [(name, jcanon x)]) in
  cli_text_echo pfs pbody emit nameof fmt_pieces float_of_tok s key name = Ok out /\
  cli_text_echo pfs pbody emit nameof fmt_pieces float_of_tok out name name = Ok out.
Proof. exact cli_text_echo_fixed_point. Qed.
Check C06_cli_text_echo_fixed_point : forall pfs pbody emit nameof fmt_pieces float_of_tok okf,
  (forall x, okf x = true -> tok_wf (fmt_pieces x) = true /\ tok_is_float (fmt_pieces x) = true) ->
  (forall x, okf x = true -> float_of_tok (fmt_pieces x) = Some x) ->
  (forall x, okf x = true -> is_finite x = true) ->
  (forall t x, float_of_tok t = Some x -> okf x = true) ->
  (forall z, I64_MIN <= z <= U64_MAX -> okf (num_of_Z z) = true) ->
  forall s m key name x,
  json_from_str float_of_tok s = Some (JObj m) ->
  forallb (fun kv => json_no_reserved pfs (sj_build (snd kv))) m = true ->
  jlookup m key = Some x ->
  let out := jprint fmt_pieces (JObj [(name, jcanon x)]) in
  cli_text_echo pfs pbody emit nameof fmt_pieces float_of_tok s key name = Ok out /\
  cli_text_echo pfs pbody emit nameof fmt_pieces float_of_tok out name name = Ok out.
Print Assumptions C06_cli_text_echo_fixed_point.

(* a bare (non-object) input is echoed through inputs.value_1; the output is one level deeper than
   the input, hence nesting <= 126 (C06_cli_text_echo_depth_refuted, finding C06-F31) *)
Theorem C06_cli_text_echo_non_object : forall pfs pbody emit nameof fmt_pieces float_of_tok okf,
  (forall x, okf x = true -> tok_wf (fmt_pieces x) = true /\ tok_is_float (fmt_pieces x) = true) ->
  (forall x, okf x = true -> float_of_tok (fmt_pieces x) = Some x) ->
  (forall x, okf x = true -> is_finite x = true) ->
  (forall t x, float_of_tok t = Some x -> okf x = true) ->
  (forall z, I64_MIN <= z <= U64_MAX -> okf (num_of_Z z) = true) ->
  forall s d name,
  json_from_str float_of_tok s = Some d -> (forall m, d <> JObj m) ->
  json_no_reserved pfs (sj_build d) = true -> (jdepth d <= 126)%nat ->
  cli_text_echo pfs pbody emit nameof fmt_pieces float_of_tok s "value_1" name
    = Ok (jprint fmt_pieces (JObj [(name, jcanon d)]))
  /\ json_from_str float_of_tok (jprint fmt_pieces (JObj [(name, jcanon d)])) = Some (JObj [(name, jcanon d)])
  /\ json_equiv (jcanon d) d.
Proof. exact cli_text_echo_non_object. Qed.
Check C06_cli_text_echo_non_object : forall pfs pbody emit nameof fmt_pieces float_of_tok okf,
  (forall x, okf x = true -> tok_wf (fmt_pieces x) = true /\ tok_is_float (fmt_pieces x) = true) ->
  (forall x, okf x = true -> float_of_tok (fmt_pieces x) = Some x) ->
  (forall x, okf x = true -> is_finite x = true) ->
  (forall t x, float_of_tok t = Some x -> okf x = true) ->
  (forall z, I64_MIN <= z <= U64_MAX -> okf (num_of_Z z) = true) ->
  forall s d name,
  json_from_str float_of_tok s = Some d -> (forall m, d <> JObj m) ->
  json_no_reserved pfs (sj_build d) = true -> (jdepth d <= 126)%nat ->
  cli_text_echo pfs pbody emit nameof fmt_pieces float_of_tok s "value_1" name
    = Ok (jprint fmt_pieces (JObj [(name, jcanon d)]))
  /\ json_from_str float_of_tok (jprint fmt_pieces (JObj [(name, jcanon d)])) = Some (JObj [(name, jcanon d)])
  /\ json_equiv (jcanon d) d.
Print Assumptions C06_cli_text_echo_non_object.

(* F31 at the echo level: a bare array nested 127 deep is accepted as input; the output of
   `output x = inputs.value_1`, one level deeper, is rejected as input *)
Lemma C06_cli_text_echo_depth_refuted :
  let s := jprint no_tok (nest 126 (JArr [])) in
  let out := jprint no_tok (JObj [("x"%string, nest 126 (JArr []))]) in
  json_from_str sj_float_of_tok s = Some (nest 126 (JArr [])) /\
  cli_text_echo no_fn no_body no_emit no_name no_tok sj_float_of_tok s "value_1" "x" = Ok out /\
  json_from_str sj_float_of_tok out = None.
Proof. exact cli_text_echo_depth_refuted. Qed.

(* ---- (iii) the global instance: exact decimal printer + correctly rounded reader ---- *)
(* H_print_wf holds for it (for every datum) *)
Theorem C06_exact_print_wf : forall x,
  tok_wf (exact_pieces x) = true /\ tok_is_float (exact_pieces x) = true.
Proof. exact exact_print_wf. Qed.
Check C06_exact_print_wf : forall x,
  tok_wf (exact_pieces x) = true /\ tok_is_float (exact_pieces x) = true.
Print Assumptions C06_exact_print_wf.

(* H_roundtrip holds for it for every finite double (valid binary64 datum) *)
Theorem C06_exact_roundtrip : forall x,
  is_finite x = true -> is_double x = true -> rn_float_of_tok (exact_pieces x) = Some x.
Proof. exact exact_roundtrip. Qed.
Check C06_exact_roundtrip : forall x,
  is_finite x = true -> is_double x = true -> rn_float_of_tok (exact_pieces x) = Some x.
Print Assumptions C06_exact_roundtrip.

(* the reader returns finite valid doubles only ("number out of range" otherwise) *)
Theorem C06_exact_reader_sound : fot_finite rn_float_of_tok /\ fot_doubles rn_float_of_tok.
Proof. exact (conj rn_float_of_tok_finite rn_float_of_tok_doubles). Qed.
Check C06_exact_reader_sound : fot_finite rn_float_of_tok /\ fot_doubles rn_float_of_tok.
Print Assumptions C06_exact_reader_sound.

(* the reader of the instance is the float_roundtrip configuration of C16's line-by-line
   transcription of serde_json's number parser (NumText.serde_number true), read on the token's text *)
Require Import Blots.NumText Blots.proofs.JsonInstanceC16.
Theorem C06_exact_reader_is_serde_float_roundtrip : forall t,
  tok_wf t = true -> tok_is_float t = true -> tok_exp_small t ->
  serde_number true (render_tok t) = match rn_float_of_tok t with Some x => Ok x | None => Err end.
Proof. exact serde_number_is_rn_float_of_tok. Qed.
Check C06_exact_reader_is_serde_float_roundtrip : forall t,
  tok_wf t = true -> tok_is_float t = true -> tok_exp_small t ->
  serde_number true (render_tok t) = match rn_float_of_tok t with Some x => Ok x | None => Err end.
Print Assumptions C06_exact_reader_is_serde_float_roundtrip.

(* the text-level theorems for the instance: no hypothesis on the library left *)
Theorem C06_json_text_roundtrip_exact : forall j,
  json_wf j = true -> json_doubles j = true -> (jdepth j <= 127)%nat ->
  json_from_str rn_float_of_tok (jprint exact_pieces j) = Some j.
Proof. exact json_text_roundtrip_exact. Qed.
Check C06_json_text_roundtrip_exact : forall j,
  json_wf j = true -> json_doubles j = true -> (jdepth j <= 127)%nat ->
  json_from_str rn_float_of_tok (jprint exact_pieces j) = Some j.
Print Assumptions C06_json_text_roundtrip_exact.

Theorem C06_parse_print_parse_exact : forall s d,
  json_from_str rn_float_of_tok s = Some d ->
  json_from_str rn_float_of_tok (jprint exact_pieces d) = Some d.
Proof. exact parse_print_parse_exact. Qed.
Check C06_parse_print_parse_exact : forall s d,
  json_from_str rn_float_of_tok s = Some d ->
  json_from_str rn_float_of_tok (jprint exact_pieces d) = Some d.
Print Assumptions C06_parse_print_parse_exact.

Theorem C06_cli_text_echo_object_exact : forall pfs pbody emit nameof s m key name x,
  json_from_str rn_float_of_tok s = Some (JObj m) ->
  forallb (fun kv => json_no_reserved pfs (sj_build (snd kv))) m = true ->
  jlookup m key = Some x ->
  cli_text_echo pfs pbody emit nameof exact_pieces rn_float_of_tok s key name
    = Ok (jprint exact_pieces (JObj [(name, jcanon x)]))
  /\ json_from_str rn_float_of_tok (jprint exact_pieces (JObj [(name, jcanon x)])) = Some (JObj [(name, jcanon x)])
  /\ json_equiv (jcanon x) x.
Proof. exact cli_text_echo_object_exact. Qed.
Check C06_cli_text_echo_object_exact : forall pfs pbody emit nameof s m key name x,
  json_from_str rn_float_of_tok s = Some (JObj m) ->
  forallb (fun kv => json_no_reserved pfs (sj_build (snd kv))) m = true ->
  jlookup m key = Some x ->
  cli_text_echo pfs pbody emit nameof exact_pieces rn_float_of_tok s key name
    = Ok (jprint exact_pieces (JObj [(name, jcanon x)]))
  /\ json_from_str rn_float_of_tok (jprint exact_pieces (JObj [(name, jcanon x)])) = Some (JObj [(name, jcanon x)])
  /\ json_equiv (jcanon x) x.
Print Assumptions C06_cli_text_echo_object_exact.

Theorem C06_cli_text_echo_non_object_exact : forall pfs pbody emit nameof s d name,
  json_from_str rn_float_of_tok s = Some d -> (forall m, d <> JObj m) ->
  json_no_reserved pfs (sj_build d) = true -> (jdepth d <= 126)%nat ->
  cli_text_echo pfs pbody emit nameof exact_pieces rn_float_of_tok s "value_1" name
    = Ok (jprint exact_pieces (JObj [(name, jcanon d)]))
  /\ json_from_str rn_float_of_tok (jprint exact_pieces (JObj [(name, jcanon d)])) = Some (JObj [(name, jcanon d)])
  /\ json_equiv (jcanon d) d.
Proof. exact cli_text_echo_non_object_exact. Qed.
Check C06_cli_text_echo_non_object_exact : forall pfs pbody emit nameof s d name,
  json_from_str rn_float_of_tok s = Some d -> (forall m, d <> JObj m) ->
  json_no_reserved pfs (sj_build d) = true -> (jdepth d <= 126)%nat ->
  cli_text_echo pfs pbody emit nameof exact_pieces rn_float_of_tok s "value_1" name
    = Ok (jprint exact_pieces (JObj [(name, jcanon d)]))
  /\ json_from_str rn_float_of_tok (jprint exact_pieces (JObj [(name, jcanon d)])) = Some (JObj [(name, jcanon d)])
  /\ json_equiv (jcanon d) d.
Print Assumptions C06_cli_text_echo_non_object_exact.

Theorem C06_cli_text_echo_fixed_point_exact : forall pfs pbody emit nameof s m key name x,
  json_from_str rn_float_of_tok s = Some (JObj m) ->
  forallb (fun kv => json_no_reserved pfs (sj_build (snd kv))) m = true ->
  jlookup m key = Some x ->
  let out := jprint exact_pieces (JObj [(name, jcanon x)]) in
  cli_text_echo pfs pbody emit nameof exact_pieces rn_float_of_tok s key name = Ok out /\
  cli_text_echo pfs pbody emit nameof exact_pieces rn_float_of_tok out name name = Ok out.
Proof. exact cli_text_echo_fixed_point_exact. Qed.
Check C06_cli_text_echo_fixed_point_exact : forall pfs pbody emit nameof s m key name x,
  json_from_str rn_float_of_tok s = Some (JObj m) ->
  forallb (fun kv => json_no_reserved pfs (sj_build (snd kv))) m = true ->
  jlookup m key = Some x ->
  let out := jprint exact_pieces (JObj [(name, jcanon x)]) in
  cli_text_echo pfs pbody emit nameof exact_pieces rn_float_of_tok s key name = Ok out /\
  cli_text_echo pfs pbody emit nameof exact_pieces rn_float_of_tok out name name = Ok out.
Print Assumptions C06_cli_text_echo_fixed_point_exact.

(* sentence one of the property through text, for the instance *)
Theorem C06_cli_text_out_in_exact : forall pfs pbody emit nameof v name,
  json_data v = true -> value_doubles v = true -> value_no_reserved pfs v = true ->
  (jdepth (write_outputs [(name, sv_of v)]) <= 127)%nat ->
  cli_text_out_in pfs pbody emit nameof exact_pieces rn_float_of_tok v name = Ok (vsort v)
  /\ equals (vsort v) v = true /\ same_data (vsort v) v = true.
Proof. exact cli_text_out_in_exact. Qed.
Check C06_cli_text_out_in_exact : forall pfs pbody emit nameof v name,
  json_data v = true -> value_doubles v = true -> value_no_reserved pfs v = true ->
  (jdepth (write_outputs [(name, sv_of v)]) <= 127)%nat ->
  cli_text_out_in pfs pbody emit nameof exact_pieces rn_float_of_tok v name = Ok (vsort v)
  /\ equals (vsort v) v = true /\ same_data (vsort v) v = true.
Print Assumptions C06_cli_text_out_in_exact.

(* sentence one at the level of the bytes: what a run writes for a data value, a second run
   `output <name> = inputs.<name>` reading those bytes writes again, byte for byte *)
Theorem C06_cli_text_out_echo_fixed_point : forall pfs pbody emit nameof fmt_pieces float_of_tok okf,
  (forall x, okf x = true -> tok_wf (fmt_pieces x) = true /\ tok_is_float (fmt_pieces x) = true) ->
  (forall x, okf x = true -> float_of_tok (fmt_pieces x) = Some x) ->
  (forall x, okf x = true -> is_finite x = true) ->
  (forall t x, float_of_tok t = Some x -> okf x = true) ->
  (forall z, I64_MIN <= z <= U64_MAX -> okf (num_of_Z z) = true) ->
  forall v name,
  json_data v = true -> value_no_reserved pfs v = true ->
  json_all (okn_of okf) (to_json (sv_of v)) = true ->
  (jdepth (write_outputs [(name, sv_of v)]) <= 127)%nat ->
  let out := jprint fmt_pieces (write_outputs [(name, sv_of v)]) in
  cli_text_echo pfs pbody emit nameof fmt_pieces float_of_tok out name name = Ok out.
Proof. exact cli_text_out_echo_fixed_point. Qed.
Check C06_cli_text_out_echo_fixed_point : forall pfs pbody emit nameof fmt_pieces float_of_tok okf,
  (forall x, okf x = true -> tok_wf (fmt_pieces x) = true /\ tok_is_float (fmt_pieces x) = true) ->
  (forall x, okf x = true -> float_of_tok (fmt_pieces x) = Some x) ->
  (forall x, okf x = true -> is_finite x = true) ->
  (forall t x, float_of_tok t = Some x -> okf x = true) ->
  (forall z, I64_MIN <= z <= U64_MAX -> okf (num_of_Z z) = true) ->
  forall v name,
  json_data v = true -> value_no_reserved pfs v = true ->
  json_all (okn_of okf) (to_json (sv_of v)) = true ->
  (jdepth (write_outputs [(name, sv_of v)]) <= 127)%nat ->
  let out := jprint fmt_pieces (write_outputs [(name, sv_of v)]) in
  cli_text_echo pfs pbody emit nameof fmt_pieces float_of_tok out name name = Ok out.
Print Assumptions C06_cli_text_out_echo_fixed_point.

Theorem C06_cli_text_out_echo_fixed_point_exact : forall pfs pbody emit nameof v name,
  json_data v = true -> value_doubles v = true -> value_no_reserved pfs v = true ->
  (jdepth (write_outputs [(name, sv_of v)]) <= 127)%nat ->
  let out := jprint exact_pieces (write_outputs [(name, sv_of v)]) in
  cli_text_echo pfs pbody emit nameof exact_pieces rn_float_of_tok out name name = Ok out.
Proof. exact cli_text_out_echo_fixed_point_exact. Qed.
Check C06_cli_text_out_echo_fixed_point_exact : forall pfs pbody emit nameof v name,
  json_data v = true -> value_doubles v = true -> value_no_reserved pfs v = true ->
  (jdepth (write_outputs [(name, sv_of v)]) <= 127)%nat ->
  let out := jprint exact_pieces (write_outputs [(name, sv_of v)]) in
  cli_text_echo pfs pbody emit nameof exact_pieces rn_float_of_tok out name name = Ok out.
Print Assumptions C06_cli_text_out_echo_fixed_point_exact.

(* ---- non-vacuity of the new statements ---- *)
Open Scope string_scope.
Example ex_exact_texts :
  render_tok (exact_pieces (num_of_bits 0x3fb999999999999a))
    = "0.1000000000000000055511151231257827021181583404541015625" /\
  render_tok (exact_pieces negzero) = "-0.0" /\
  render_tok (exact_pieces (num_of_bits 0x4340000000000000)) = "9007199254740992.0" /\
  rn_float_of_tok tok_0_1 = Some (num_of_bits 0x3fb999999999999a) /\
  rn_float_of_tok tok_2p53m1 = Some (num_of_bits 0x433fffffffffffff).
Proof. vm_compute. repeat split; reflexivity. Qed.
(* an input text with free layout, a duplicate key, an integer beyond 2^53 and a float: parsed,
   echoed, printed with the exact printer, and the output parses to the canonical member *)
Definition ex_input_text : string :=
  "{ ""k"" : 1, ""a"":[ -1 , 0.1, 18446744073709551615 ],""k"":{""z"":null,""y"":-0.0} }".
Example ex_text_echo :
  exists m, json_from_str rn_float_of_tok ex_input_text = Some (JObj m) /\
  cli_text_echo no_fn no_body no_emit no_name exact_pieces rn_float_of_tok ex_input_text "a" "out"
  = Ok "{""out"":[-1.0,0.1000000000000000055511151231257827021181583404541015625,18446744073709551616.0]}".
Proof. eexists. split; vm_compute; reflexivity. Qed.
