(* C06 — Data survives output -> JSON -> input unchanged.
   Property theorems only: each is closed by [exact lemma], pinned by [Check], followed by
   [Print Assumptions].  The model objects are Json.{from_value,to_json,from_json,to_value,
   parse_json_inputs,write_outputs,cli_out_in,cli_echo} transcribed from
   blots-core/src/values.rs and blots/src/main.rs and tied to the code by the C06 correspondence
   streams (checks/c06.py).  Every theorem holds for every instance of the library oracles
   (parse_function_source, the body parser, the source printer, the name store). *)
From Coq Require Import String List ZArith Bool.
Require Import Blots.Num Blots.gen.Builtins Blots.Ast Blots.Value Blots.Outcome Blots.Json.
Require Import Blots.proofs.ValueInd Blots.proofs.JsonMaps Blots.proofs.JsonRT.
Import ListNotations.

(* to_value (from_value v) = v structurally (numbers bit for bit, strings and keys byte for byte,
   key order kept), for every value without functions *)
Theorem C06_to_value_from_value : forall pbody emit nameof v,
  plain v = true -> (do s <- from_value emit nameof v; to_value pbody s) = Ok v.
Proof. exact to_value_from_value. Qed.
Check C06_to_value_from_value : forall pbody emit nameof v,
  plain v = true -> (do s <- from_value emit nameof v; to_value pbody s) = Ok v.
Print Assumptions C06_to_value_from_value.

(* the JSON tree written for a data value reads back as the same serialisable value, record keys
   sorted at every level (serde_json's Map is a BTreeMap in this build) *)
Theorem C06_json_tree_roundtrip : forall pfs v,
  json_data v = true -> value_no_reserved pfs v = true ->
  from_json pfs (to_json (sv_of v)) = sv_of (vsort v).
Proof. exact json_tree_roundtrip. Qed.
Check C06_json_tree_roundtrip : forall pfs v,
  json_data v = true -> value_no_reserved pfs v = true ->
  from_json pfs (to_json (sv_of v)) = sv_of (vsort v).
Print Assumptions C06_json_tree_roundtrip.

(* output -> JSON tree -> input: the value read back is .== to the original and agrees with it
   bit-exactly on numbers and byte-exactly on strings and keys, at any depth *)
Theorem C06_value_roundtrip : forall pfs pbody emit nameof v,
  json_data v = true -> value_no_reserved pfs v = true ->
  exists v',
    (do s <- from_value emit nameof v; to_value pbody (from_json pfs (to_json s))) = Ok v' /\
    v' = vsort v /\ equals v' v = true /\ same_data v' v = true.
Proof. exact value_roundtrip. Qed.
Check C06_value_roundtrip : forall pfs pbody emit nameof v,
  json_data v = true -> value_no_reserved pfs v = true ->
  exists v',
    (do s <- from_value emit nameof v; to_value pbody (from_json pfs (to_json s))) = Ok v' /\
    v' = vsort v /\ equals v' v = true /\ same_data v' v = true.
Print Assumptions C06_value_roundtrip.

(* ---- non-vacuity ---- *)
Open Scope string_scope.
Definition one := nb 0x3ff0000000000000.
Definition negzero := nb 0x8000000000000000.
Definition ex_value : value :=
  VRec [("b", VList [VNum negzero; VStr "x""y"; VNull]); ("a", VRec [("", VBool true); ("1", VNum one)])].
Example ex_data : json_data ex_value = true /\ value_no_reserved no_fn ex_value = true.
Proof. vm_compute. split; reflexivity. Qed.
Example ex_roundtrip :
  (do s <- from_value no_emit no_name ex_value; to_value no_body (from_json no_fn (to_json s)))
  = Ok (VRec [("a", VRec [("", VBool true); ("1", VNum one)]);
              ("b", VList [VNum negzero; VStr "x""y"; VNull])]).
Proof. vm_compute. reflexivity. Qed.
