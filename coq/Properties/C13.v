(* C13 — via / where / into agree with map / filter / application for every function.
   Property theorems only.  Model: Binop.v (operator forms, transcribed from
   evaluate_binary_op_ast), BuiltinsHof.v (built-in forms, transcribed from
   BuiltInFunction::call), Eval.v (FunctionDef::call with its depth accounting).
   Value-level theorems hold for EVERY callback (lambda with any parameter shape, named,
   recursive, built-in ...): the callback is a parameter. *)
From Coq Require Import String List ZArith Bool.
Require Import Blots.Num Blots.gen.Builtins Blots.Ast Blots.Value Blots.Outcome Blots.Binop
               Blots.Env Blots.Eval Blots.BuiltinsHof Blots.Program Blots.EvalInst
               Blots.EvalFull
               Blots.proofs.DepthMono Blots.proofs.HigherOrder Blots.proofs.FullHigherOrder.
Import ListNotations.

(* `list via f` runs exactly map's loop over the same callback: same results, same failure,
   same order of calls, same (item) / (item, index) argument vectors *)
Theorem C13_via_is_map : forall call powf l f st,
  is_callable f = true ->
  eval_binop store call fn_accepts2_of_value powf Via (VList l) f st = bi_map call [VList l; f] st.
Proof. exact via_is_map. Qed.
Check C13_via_is_map : forall call powf l f st,
  is_callable f = true ->
  eval_binop store call fn_accepts2_of_value powf Via (VList l) f st = bi_map call [VList l; f] st.
Print Assumptions C13_via_is_map.

Theorem C13_where_is_filter : forall call powf l f st,
  is_callable f = true ->
  eval_binop store call fn_accepts2_of_value powf Where (VList l) f st = bi_filter call [VList l; f] st.
Proof. exact where_is_filter. Qed.
Check C13_where_is_filter : forall call powf l f st,
  is_callable f = true ->
  eval_binop store call fn_accepts2_of_value powf Where (VList l) f st = bi_filter call [VList l; f] st.
Print Assumptions C13_where_is_filter.

(* `x into f` is f(x): the same FunctionDef::call *)
Theorem C13_into_is_apply : forall call powf x f st,
  is_callable f = true ->
  eval_binop store call fn_accepts2_of_value powf Into x f st = call f f [x] st.
Proof. exact into_is_apply. Qed.
Check C13_into_is_apply : forall call powf x f st,
  is_callable f = true ->
  eval_binop store call fn_accepts2_of_value powf Into x f st = call f f [x] st.
Print Assumptions C13_into_is_apply.

(* In the evaluator (depth accounting included) the built-in form costs two more levels of the
   call-depth budget than the operator form; apart from that they are the same: the built-in
   form is the depth error, or exactly the operator form's outcome and store.  (F23, the
   depth difference itself, is the open known finding of this property.) *)
Theorem C13_map_vs_via_in_evaluator : forall release d fr l f st,
  is_callable f = true ->
  rle (AD release binop_impl builtin_impl d fr (VBuiltin B_map) (VBuiltin B_map) [VList l; f] st)
      (binop_impl (AD release binop_impl builtin_impl d fr) Via (VList l) f st).
Proof. exact map_form_le_via_form. Qed.
Check C13_map_vs_via_in_evaluator : forall release d fr l f st,
  is_callable f = true ->
  rle (AD release binop_impl builtin_impl d fr (VBuiltin B_map) (VBuiltin B_map) [VList l; f] st)
      (binop_impl (AD release binop_impl builtin_impl d fr) Via (VList l) f st).
Print Assumptions C13_map_vs_via_in_evaluator.

Theorem C13_filter_vs_where_in_evaluator : forall release d fr l f st,
  is_callable f = true ->
  rle (AD release binop_impl builtin_impl d fr (VBuiltin B_filter) (VBuiltin B_filter) [VList l; f] st)
      (binop_impl (AD release binop_impl builtin_impl d fr) Where (VList l) f st).
Proof. exact filter_form_le_where_form. Qed.
Check C13_filter_vs_where_in_evaluator : forall release d fr l f st,
  is_callable f = true ->
  rle (AD release binop_impl builtin_impl d fr (VBuiltin B_filter) (VBuiltin B_filter) [VList l; f] st)
      (binop_impl (AD release binop_impl builtin_impl d fr) Where (VList l) f st).
Print Assumptions C13_filter_vs_where_in_evaluator.

Theorem C13_into_vs_call_in_evaluator : forall release d fr x f st,
  is_callable f = true ->
  binop_impl (AD release binop_impl builtin_impl d fr) Into x f st
  = AD release binop_impl builtin_impl d fr f f [x] st.
Proof. exact into_form_is_call_form. Qed.
Check C13_into_vs_call_in_evaluator : forall release d fr x f st,
  is_callable f = true ->
  binop_impl (AD release binop_impl builtin_impl d fr) Into x f st
  = AD release binop_impl builtin_impl d fr f f [x] st.
Print Assumptions C13_into_vs_call_in_evaluator.

(* ... the same three for the evaluator with every transcribed built-in (EvalFull.v) *)
Theorem C13_map_vs_via_in_full_evaluator : forall release d fr l f st,
  is_callable f = true ->
  rle (AD release binop_impl builtin_full d fr (VBuiltin B_map) (VBuiltin B_map) [VList l; f] st)
      (binop_impl (AD release binop_impl builtin_full d fr) Via (VList l) f st).
Proof. exact map_form_le_via_form_full. Qed.
Check C13_map_vs_via_in_full_evaluator : forall release d fr l f st,
  is_callable f = true ->
  rle (AD release binop_impl builtin_full d fr (VBuiltin B_map) (VBuiltin B_map) [VList l; f] st)
      (binop_impl (AD release binop_impl builtin_full d fr) Via (VList l) f st).
Print Assumptions C13_map_vs_via_in_full_evaluator.

Theorem C13_filter_vs_where_in_full_evaluator : forall release d fr l f st,
  is_callable f = true ->
  rle (AD release binop_impl builtin_full d fr (VBuiltin B_filter) (VBuiltin B_filter) [VList l; f] st)
      (binop_impl (AD release binop_impl builtin_full d fr) Where (VList l) f st).
Proof. exact filter_form_le_where_form_full. Qed.
Check C13_filter_vs_where_in_full_evaluator : forall release d fr l f st,
  is_callable f = true ->
  rle (AD release binop_impl builtin_full d fr (VBuiltin B_filter) (VBuiltin B_filter) [VList l; f] st)
      (binop_impl (AD release binop_impl builtin_full d fr) Where (VList l) f st).
Print Assumptions C13_filter_vs_where_in_full_evaluator.

Theorem C13_into_vs_call_in_full_evaluator : forall release d fr x f st,
  is_callable f = true ->
  binop_impl (AD release binop_impl builtin_full d fr) Into x f st
  = AD release binop_impl builtin_full d fr f f [x] st.
Proof. exact into_form_is_call_form_full. Qed.
Check C13_into_vs_call_in_full_evaluator : forall release d fr x f st,
  is_callable f = true ->
  binop_impl (AD release binop_impl builtin_full d fr) Into x f st
  = AD release binop_impl builtin_full d fr f f [x] st.
Print Assumptions C13_into_vs_call_in_full_evaluator.

(* Definitions met whenever the callback succeeds on all elements, i.e. behaves as a function g
   of the argument vector it is given (element, and the 0-based index when it accepts one more
   parameter), in list order. *)
Theorem C13_map_spec : forall call f g two l i st, behaves_as call f g ->
  fst (map_loop call f two l i st) = Ok (mapi_from (fun k x => g (cb_args two x k)) i l).
Proof. exact map_loop_spec. Qed.
Check C13_map_spec : forall call f g two l i st, behaves_as call f g ->
  fst (map_loop call f two l i st) = Ok (mapi_from (fun k x => g (cb_args two x k)) i l).
Print Assumptions C13_map_spec.

Theorem C13_filter_spec : forall call f g two l i st, behaves_as call f g ->
  all_bool (fun k x => g (cb_args two x k)) i l ->
  fst (filter_loop call f two l i st)
  = Ok (map snd (filter (fun kx => bool_of (g (cb_args two (snd kx) (fst kx))))
                        (mapi_from (fun k x => (k, x)) i l))).
Proof. exact filter_loop_spec. Qed.
Check C13_filter_spec : forall call f g two l i st, behaves_as call f g ->
  all_bool (fun k x => g (cb_args two x k)) i l ->
  fst (filter_loop call f two l i st)
  = Ok (map snd (filter (fun kx => bool_of (g (cb_args two (snd kx) (fst kx))))
                        (mapi_from (fun k x => (k, x)) i l))).
Print Assumptions C13_filter_spec.

Theorem C13_every_is_conjunction : forall call f g two l i st, behaves_as call f g ->
  all_bool (fun k x => g (cb_args two x k)) i l ->
  fst (every_loop call f two l i st)
  = Ok (VBool (forallb bool_of (mapi_from (fun k x => g (cb_args two x k)) i l))).
Proof. exact every_loop_spec. Qed.
Check C13_every_is_conjunction : forall call f g two l i st, behaves_as call f g ->
  all_bool (fun k x => g (cb_args two x k)) i l ->
  fst (every_loop call f two l i st)
  = Ok (VBool (forallb bool_of (mapi_from (fun k x => g (cb_args two x k)) i l))).
Print Assumptions C13_every_is_conjunction.

Theorem C13_some_is_disjunction : forall call f g two l i st, behaves_as call f g ->
  all_bool (fun k x => g (cb_args two x k)) i l ->
  fst (some_loop call f two l i st)
  = Ok (VBool (existsb bool_of (mapi_from (fun k x => g (cb_args two x k)) i l))).
Proof. exact some_loop_spec. Qed.
Check C13_some_is_disjunction : forall call f g two l i st, behaves_as call f g ->
  all_bool (fun k x => g (cb_args two x k)) i l ->
  fst (some_loop call f two l i st)
  = Ok (VBool (existsb bool_of (mapi_from (fun k x => g (cb_args two x k)) i l))).
Print Assumptions C13_some_is_disjunction.

Theorem C13_reduce_is_left_fold : forall call f g three l i acc st, behaves_as call f g ->
  fst (reduce_loop call f three l i acc st)
  = Ok (foldi_left (fun a x k => g (if three then [a; x; idx_num k] else [a; x])) l i acc).
Proof. exact reduce_loop_spec. Qed.
Check C13_reduce_is_left_fold : forall call f g three l i acc st, behaves_as call f g ->
  fst (reduce_loop call f three l i acc st)
  = Ok (foldi_left (fun a x k => g (if three then [a; x; idx_num k] else [a; x])) l i acc).
Print Assumptions C13_reduce_is_left_fold.

(* ---- F23 (open known finding): the forms do NOT agree at the depth limit ----
   g = n => if n <= 0 then 0 else ([n - 1] via g)[0]   vs   ... map([n - 1], g)[0]
   at n = 400: the via form completes, the map form is the depth error. *)
Open Scope string_scope.
Definition n_ (z : Z) : expr := ENum (num_of_Z z).
Definition rec_body (form : expr -> expr -> expr) : expr :=
  ELam [AReq "n"]
    (ECond (EBin LessEq (EId "n") (n_ 0)) (n_ 0)
       (EAccess (form (EList [Cm [] (EBin Subtract (EId "n") (n_ 1)) None]) (EId "g")) (n_ 0))).
Definition via_form (l f : expr) := EBin Via l f.
Definition map_form (l f : expr) := ECall (EBuiltin B_map) [l; f].
Definition prog_of (form : expr -> expr -> expr) : list stmt :=
  [SExpr (EAssign "g" (rec_body form)); SExpr (ECall (EId "g") [n_ 400])].
Lemma C13_depth_difference_refuted :
  snd (run eval_release (init_session []) (prog_of via_form)) <>
  snd (run eval_release (init_session []) (prog_of map_form)) /\
  (exists st, map fst (snd (run eval_release (init_session []) (prog_of map_form)))
              = [ROk (VLam 0 [AReq "n"] (cnode (Cm [] (match rec_body map_form with ELam _ b => b | e => e end) None)) []);
                 RFail ErrDepth] /\ st = tt).
Proof. split; [vm_compute; discriminate|exists tt; vm_compute; split; reflexivity]. Qed.

(* non-vacuity of `behaves_as`: a callback that doubles numbers *)
Example C13_behaves_as_inhabited :
  behaves_as (fun _ _ args st => (Ok (VList args), st)) VNull (fun args => VList args).
Proof. intros args st. exists st. reflexivity. Qed.

(* ---- ... the same three for the evaluator with EVERY built-in of the table and `^` (EvalAll.v),
        for every oracle o ---- *)
Require Import Blots.EvalAll Blots.proofs.AllHigherOrder.
Theorem C13_map_vs_via_in_all_evaluator : forall o release d fr l f st,
  is_callable f = true ->
  rle (AD release (binop_all o) (builtin_all o) d fr (VBuiltin B_map) (VBuiltin B_map) [VList l; f] st)
      (binop_all o (AD release (binop_all o) (builtin_all o) d fr) Via (VList l) f st).
Proof. exact map_form_le_via_form_all. Qed.
Check C13_map_vs_via_in_all_evaluator : forall o release d fr l f st,
  is_callable f = true ->
  rle (AD release (binop_all o) (builtin_all o) d fr (VBuiltin B_map) (VBuiltin B_map) [VList l; f] st)
      (binop_all o (AD release (binop_all o) (builtin_all o) d fr) Via (VList l) f st).
Print Assumptions C13_map_vs_via_in_all_evaluator.

Theorem C13_filter_vs_where_in_all_evaluator : forall o release d fr l f st,
  is_callable f = true ->
  rle (AD release (binop_all o) (builtin_all o) d fr (VBuiltin B_filter) (VBuiltin B_filter) [VList l; f] st)
      (binop_all o (AD release (binop_all o) (builtin_all o) d fr) Where (VList l) f st).
Proof. exact filter_form_le_where_form_all. Qed.
Check C13_filter_vs_where_in_all_evaluator : forall o release d fr l f st,
  is_callable f = true ->
  rle (AD release (binop_all o) (builtin_all o) d fr (VBuiltin B_filter) (VBuiltin B_filter) [VList l; f] st)
      (binop_all o (AD release (binop_all o) (builtin_all o) d fr) Where (VList l) f st).
Print Assumptions C13_filter_vs_where_in_all_evaluator.

Theorem C13_into_vs_call_in_all_evaluator : forall o release d fr x f st,
  is_callable f = true ->
  binop_all o (AD release (binop_all o) (builtin_all o) d fr) Into x f st
  = AD release (binop_all o) (builtin_all o) d fr f f [x] st.
Proof. exact into_form_is_call_form_all. Qed.
Check C13_into_vs_call_in_all_evaluator : forall o release d fr x f st,
  is_callable f = true ->
  binop_all o (AD release (binop_all o) (builtin_all o) d fr) Into x f st
  = AD release (binop_all o) (builtin_all o) d fr f f [x] st.
Print Assumptions C13_into_vs_call_in_all_evaluator.
