(* JsonWf.v — property C06: the invariant of serde_json::Number made explicit, and the text-level
   echo program.  Definitions only (proofs: proofs/JsonNumsOk.v, proofs/JsonTextEcho.v).

   serde_json::Number (features default+std) is  N::PosInt(u64) | N::NegInt(i64) | N::Float(f64)
   with two invariants kept by every constructor:
     * NegInt holds a NEGATIVE i64 (non-negative integers are PosInt): de.rs ParserNumber::I64 is
       only built for a '-' token with non-zero digits that fit i64; From<i64> splits on the sign;
     * Float holds a FINITE f64: Number::from_f64 returns None for NaN / infinities (to_json then
       writes Number::from(0)), and the parser answers "number out of range" instead of building
       an infinity (f64_from_parts / the float_roundtrip path).
   [jnum_wf] is that invariant; [json_wf] lifts it to documents.  [jnum_double] adds what "an f64"
   means in the SpecFloat model: the datum is a VALID binary64 (canonical mantissa/exponent), which
   every double computed by the parser model is, and which the honest text instance
   (coq/JsonExact.v) needs in order to give the datum back. *)
From Coq Require Import String List ZArith Bool Floats.SpecFloat.
Require Import Blots.Num Blots.Ast Blots.Value Blots.Outcome Blots.Json Blots.JsonText.
Import ListNotations.
Open Scope Z_scope.

Definition jnum_wf (n : jnumber) : bool :=
  match n with
  | JPosInt z => (0 <=? z) && (z <=? U64_MAX)
  | JNegInt z => (I64_MIN <=? z) && (z <? 0)
  | JFloat x => is_finite x
  end.
(* a predicate on numbers lifted to every number of a document *)
Fixpoint json_all (p : jnumber -> bool) (j : json) : bool :=
  match j with
  | JNum n => p n
  | JArr l => forallb (json_all p) l
  | JObj m => forallb (fun kv => json_all p (snd kv)) m
  | _ => true
  end.
Definition json_wf : json -> bool := json_all jnum_wf.

(* a valid binary64 datum (SpecFloat.valid_binary: canonical exponent, mantissa below 2^53) *)
Definition is_double (x : num) : bool := valid_binary prec emax x.
Definition jnum_double (n : jnumber) : bool :=
  match n with JFloat x => is_double x | _ => true end.
Definition json_doubles : json -> bool := json_all jnum_double.
(* the same for values / serialisable values (every number the evaluator computes is valid; the
   trees themselves are arbitrary, so it is a predicate) *)
Fixpoint svalue_doubles (s : svalue) : bool :=
  match s with
  | SNum x => is_double x
  | SList l => forallb svalue_doubles l
  | SRec r => forallb (fun kv => svalue_doubles (snd kv)) r
  | _ => true
  end.

Fixpoint value_doubles (v : value) : bool :=
  match v with
  | VNum x => is_double x
  | VList l => forallb value_doubles l
  | VRec r => forallb (fun kv => value_doubles (snd kv)) r
  | _ => true
  end.

(* ------------------------------------------------------------------ the echo program on TEXT *)
Section TextEcho.
  Variable parse_function_source : string -> option (list lamarg * string).
  Variable parse_body : string -> outcome expr.
  Variable emit_body : expr -> list (string * svalue) -> string.
  Variable name_of : lam_id -> option string.
  Variable fmt_pieces : num -> numtok.                 (* float -> text (ryu in the build) *)
  Variable float_of_tok : numtok -> option num.        (* text -> float *)

  (* `blots -i '<input text>' 'output <name> = inputs.<key>'`, from the bytes of the input to the
     bytes of the output: serde_json::from_str (an unparsable --input is a fatal error),
     parse_json_inputs, the program, write_outputs, serde_json::to_string *)
  Definition cli_text_echo (input : string) (key name : string) : outcome string :=
    match json_from_str float_of_tok input with
    | None => Err
    | Some d =>
        do out <- cli_echo parse_function_source parse_body emit_body name_of d key name;
        Ok (jprint fmt_pieces out)
    end.
End TextEcho.
