(* Eval.v — the tree-walking evaluator: evaluate_ast / evaluate_do_block_expr
   (blots-core/src/expressions.rs:112-668) and FunctionDef::call / check_arity
   (functions.rs:1660-1865), transcribed.  Definitions only.

   TOTAL BY CONSTRUCTION, NO FUEL.  [ED d] is the pair (evaluate_ast, FunctionDef::call) at
   call_depth = LIMIT - d, i.e. d is the number of further nested calls the Rust guard
   `call_depth > 1000` still admits.  The outer fixpoint is structural on d, the inner one on
   the expression; Coq's guard checker accepting it IS the termination argument (C18), and
   the arithmetic of the guard (`>`, +1 for a lambda body, +1 entering a built-in, +1 for each
   of its callbacks) is transcribed literally.

   The two big value-level functions evaluate_binary_op_ast (after operand evaluation) and
   BuiltInFunction::call are Section parameters here, each taking the callback
   [call : this_value -> function -> args -> store -> outcome value * store]; they are
   instantiated in EvalInst.v with the transcriptions in Binop.v / Builtin*.v.  Theorems
   proved inside the Section therefore hold for every implementation of operators and
   built-ins — in particular scoping, capture and depth results cannot be broken by them. *)
From Coq Require Import String Ascii List ZArith Bool.
Require Import Blots.Num Blots.gen.Builtins Blots.Ast Blots.Value Blots.Outcome Blots.Binop Blots.Env.
Import ListNotations.
Open Scope string_scope.
Open Scope list_scope.

Definition callback := value -> value -> list value -> store -> outcome value * store.
Definition result := (outcome value * cfg)%type.

(* propagate a non-Ok outcome at another type *)
Definition cast_fail {A B} (o : outcome A) : outcome B :=
  match o with Ok _ => Err | Err => Err | ErrDepth => ErrDepth | Panic => Panic
             | Unmodelled => Unmodelled end.

(* ---- small value helpers ---- *)
(* as_number / as_bool / as_string are defined in Binop.v *)
Definition is_function (v : value) : bool :=
  match v with VLam _ _ _ _ | VBuiltin _ => true | _ => false end.

(* flatten_spread_value (expressions.rs:69) *)
Definition spread_items (it : value) : list value :=
  match it with
  | VList l => l
  | VStr s => map VStr (chars s)
  | VRec r => map (fun kv => VList [VStr (fst kv); snd kv]) r
  | _ => []
  end.
Fixpoint flatten_spreads (l : list value) : list value :=
  match l with
  | [] => []
  | VSpread it :: r => spread_items it ++ flatten_spreads r
  | v :: r => v :: flatten_spreads r
  end.

(* Expr::Access after both operands are evaluated (expressions.rs:548-598) *)
Definition index_from (len : Z) (idx : num) : option nat :=
  let raw := as_i64 idx in
  if (raw <? 0)%Z then
    let adjusted := (len + raw)%Z in
    if (adjusted <? 0)%Z then None else Some (Z.to_nat adjusted)
  else if (len <=? raw)%Z then None      (* out of range: the caller's `get(i)` is None either way; *)
  else Some (Z.to_nat raw).              (* keeps the unary index below the length (x[1e20] runs) *)
Definition access_val (v i : value) : outcome value :=
  match v with
  | VRec r => do k <- as_string i;
              Ok (match rec_get r k with Some x => x | None => VNull end)
  | VList l =>
      do n <- as_number i;
      Ok (match index_from (Z.of_nat (Datatypes.length l)) n with
          | Some k => nth k l VNull
          | None => VNull
          end)
  | VStr s =>
      let cs := chars s in
      do n <- as_number i;
      Ok (match index_from (Z.of_nat (Datatypes.length cs)) n with
          | Some k => match nth_error cs k with Some c => VStr c | None => VNull end
          | None => VNull
          end)
  | _ => Err
  end.
Definition dot_val (v : value) (field : string) : outcome value :=
  match v with
  | VRec r => Ok (match rec_get r field with Some x => x | None => VNull end)
  | _ => Err
  end.
Definition spread_val (v : value) : outcome value :=
  match v with
  | VList _ | VStr _ | VRec _ => Ok (VSpread v)
  | _ => Err
  end.

(* the RecordKey::Spread arm: entries contributed by a spread value *)
Fixpoint enum_from {A} (n : nat) (l : list A) : list (nat * A) :=
  match l with [] => [] | x :: r => (n, x) :: enum_from (S n) r end.
Definition record_spread_entries (v : value) : list (string * value) :=
  match v with
  | VSpread (VList l) => map (fun iv => (nat_to_dec (fst iv), snd iv)) (enum_from 0 l)
  | VSpread (VStr s) => map (fun iv => (nat_to_dec (fst iv), VStr (snd iv))) (enum_from 0 (chars s))
  | VSpread (VRec r) => r
  | _ => []                       (* `if let Spread(..)` : anything else is ignored *)
  end.
Definition rec_insert_all (r : list (string * value)) (es : list (string * value)) :=
  fold_left (fun acc kv => rec_insert acc (fst kv) (snd kv)) es r.

(* factorial (expressions.rs:649): n >= 0 && n == (n as u64) as f64; product of 1..=min(n, 171)
   (repo fix def3962: 171! is already +inf, so the loop is capped there; before the fix the loop
   ran n times and `n + 1` overflowed for n = 2^64) *)
Fixpoint fact_prod (k : nat) (i : Z) (acc : num) : num :=
  match k with
  | O => acc
  | S k' => fact_prod k' (i + 1)%Z (nmul acc (num_of_Z i))
  end.
Definition factorial_val (release : bool) (n : num) : outcome value :=
  if ngeb n nzero && neqb n (num_of_Z (as_u64 n)) then
    Ok (VNum (fact_prod (Z.to_nat (Z.min (as_u64 n) 171)) 1 (num_of_Z 1)))
  else Err.

(* keyword lists, as written in the two assignment paths *)
Definition assign_keywords : list string :=
  ["constants"; "infinity"; "inf"; "if"; "then"; "else"; "true"; "false"; "null"; "inputs"; "and"; "or"].
Definition do_assign_keywords : list string :=
  ["return"; "if"; "then"; "else"; "do"; "true"; "false"; "null"; "output"; "infinity"; "inf"].

(* FunctionDef::check_arity *)
Definition check_arity (f : value) (n : nat) : bool := accepts f n.

(* binding the parameters (functions.rs:1786-1808): local_bindings is a HashMap, so later
   inserts override earlier ones; `args[idx]` for a Required parameter is a partial
   operation: None = index out of bounds panic *)
Fixpoint bind_params (ps : list lamarg) (idx : nat) (args : list value) (acc : frame)
  : option frame :=
  match ps with
  | [] => Some acc
  | AReq x :: r =>
      match nth_error args idx with
      | Some v => bind_params r (S idx) args ((x, v) :: acc)
      | None => None
      end
  | AOpt x :: r =>
      bind_params r (S idx) args
        ((x, match nth_error args idx with Some v => v | None => VNull end) :: acc)
  | ARest x :: r => bind_params r (S idx) args ((x, VList (skipn idx args)) :: acc)
  end.

Definition LIMIT : nat := 1001.   (* call_depth 0 .. 1000 pass the guard *)

Section Eval.
  Variable release : bool.        (* overflow semantics of the build being modelled *)
  Variable binop_impl : callback -> binop -> value -> value -> store -> outcome value * store.
  Variable builtin_impl : callback -> builtin -> list value -> store -> outcome value * store.

  (* ---- pieces of evaluate_ast that iterate over sub-expression lists, generic in the
     evaluator used for the elements (so that lemmas about them are plain list inductions) ---- *)
  Section Gen.
    Variable ev : cfg -> expr -> result.

    (* `.map(evaluate_ast).collect::<Result<Vec<_>,_>>()?` : left to right, first error wins *)
    Fixpoint evalL (c : cfg) (l : list expr) {struct l} : outcome (list value) * cfg :=
      match l with
      | [] => (Ok [], c)
      | x :: r =>
          match ev c x with
          | (Ok v, c1) =>
              match evalL c1 r with
              | (Ok vs, c2) => (Ok (v :: vs), c2)
              | (o, c2) => (o, c2)
              end
          | (o, c1) => (cast_fail o, c1)
          end
      end.
    Fixpoint evalCL (c : cfg) (l : list (commented expr)) {struct l}
      : outcome (list value) * cfg :=
      match l with
      | [] => (Ok [], c)
      | Cm _ x _ :: r =>
          match ev c x with
          | (Ok v, c1) =>
              match evalCL c1 r with
              | (Ok vs, c2) => (Ok (v :: vs), c2)
              | (o, c2) => (o, c2)
              end
          | (o, c1) => (cast_fail o, c1)
          end
      end.

    (* `bindings.insert(ident, val)` after naming a lambda value that the assignment created
       ([n0] = `cells_before`: the number of cells before the value expression was evaluated) *)
    Definition bind_value (n0 : nat) (c1 : cfg) (x : string) (v : value) : result :=
      match insert_head (snd c1) x v with
      | Some fr2 => (Ok v, (name_if_created n0 (fst c1) v x, fr2))
      | None => (Panic, (name_if_created n0 (fst c1) v x, snd c1))
      end.
    (* do-block statement path: no immutability check (shadowing allowed) *)
    Definition assign_value (c : cfg) (x : string) (ve : expr) : result :=
      match ev c ve with
      | (Ok v, c1) => bind_value (Datatypes.length (fst c)) c1 x v
      | (o, c1) => (o, c1)
      end.
    (* Expr::Assignment path after the three guards: the value expression may itself have
       bound the name (`a = [a = 1, 2]`), so the immutability check is repeated after it
       (repo fix commit; before it the second binding silently replaced the first) *)
    Definition assign_checked (c : cfg) (x : string) (ve : expr) : result :=
      match ev c ve with
      | (Ok v, c1) => if contains (snd c1) x then (Err, c1) else bind_value (Datatypes.length (fst c)) c1 x v
      | (o, c1) => (o, c1)
      end.

    (* Expr::Record *)
    Fixpoint evalRecL (c : cfg) (acc : list (string * value)) (l : list (commented rentry))
      {struct l} : result :=
      match l with
      | [] => (Ok (VRec acc), c)
      | Cm _ (REntry k v) _ :: r =>
          match k with
          | KStatic key =>
              match ev c v with
              | (Ok x, c1) => evalRecL c1 (rec_insert acc key x) r
              | (o, c1) => (o, c1)
              end
          | KDyn ke =>
              match ev c ke with
              | (Ok kv, c1) =>
                  match as_string kv with
                  | Ok key =>
                      match ev c1 v with
                      | (Ok x, c2) => evalRecL c2 (rec_insert acc key x) r
                      | (o, c2) => (o, c2)
                      end
                  | o => (cast_fail o, c1)
                  end
              | (o, c1) => (o, c1)
              end
          | KShort x =>
              match lookup (snd c) x with
              | Some x' => evalRecL c (rec_insert acc x x') r
              | None => (Err, c)
              end
          | KSpread se =>
              match ev c se with
              | (Ok sv, c1) => evalRecL c1 (rec_insert_all acc (record_spread_entries sv)) r
              | (o, c1) => (o, c1)
              end
          end
      end.

    (* evaluate_do_block_expr: a direct Assignment statement of a do-block may shadow *)
    Definition do_step (c : cfg) (s : expr) : result :=
      match s with
      | EAssign x ve => if mem x do_assign_keywords then (Err, c) else assign_value c x ve
      | _ => ev c s
      end.
    (* the statements of a do-block, in order; stops at the first failure *)
    Fixpoint evalDoL (c : cfg) (l : list (commented expr)) {struct l} : outcome unit * cfg :=
      match l with
      | [] => (Ok tt, c)
      | Cm _ s _ :: r =>
          match do_step c s with
          | (Ok _, c1) => evalDoL c1 r
          | (o, c1) => (cast_fail o, c1)
          end
      end.
  End Gen.

  (* ---- evaluate_ast, for a given FunctionDef::call at the same call_depth ---- *)
  Section Expr.
  Variable apply : frames -> callback.

  Fixpoint evalE (c : cfg) (e : expr) {struct e} : result :=
      match e with
      | ENum x => (Ok (VNum x), c)
      | EStr s => (Ok (VStr s), c)
      | EBool b => (Ok (VBool b), c)
      | ENull => (Ok VNull, c)
      | EId x =>
          if String.eqb x "infinity" || String.eqb x "inf" then (Ok (VNum npinf), c)
          else if String.eqb x "constants" then (Ok (VRec constants_record), c)
          else (of_option (lookup (snd c) x), c)
      | EInRef field =>
          (match lookup (snd c) "inputs" with
           | None => Err
           | Some (VRec r) => Ok (match rec_get r field with Some v => v | None => VNull end)
           | Some _ => Err
           end, c)
      | EBuiltin b => (Ok (VBuiltin b), c)
      | EList items =>
          let r := evalCL evalE c items in
          (omap (fun vs => VList (flatten_spreads vs)) (fst r), snd r)
      | ERec entries => evalRecL evalE c [] entries
      | ELam args body =>
          let vars := free_vars body (map arg_name args) in
          let scope := capture (snd c) vars [] in
          let '(v, st') := fresh_lambda (fst c) args body scope in
          (Ok v, (st', snd c))
      | EAssign x ve =>
          if is_builtin_name x then (Err, c)
          else if mem x assign_keywords then (Err, c)
          else if contains (snd c) x then (Err, c)
          else assign_checked evalE c x ve
      | EOutput inner => evalE c inner
      | ECond ce te fe =>
          match evalE c ce with
          | (Ok cv, c1) =>
              match as_bool cv with
              | Ok true => evalE c1 te
              | Ok false => evalE c1 fe
              | o => (cast_fail o, c1)
              end
          | (o, c1) => (o, c1)
          end
      | EDo stmts (Cm _ ret _) =>
          (* a fresh frame for the block; whatever happened inside, the caller's chain is
             what it was (Environment::extend creates a child; the parent is never written) *)
          let r :=
            match evalDoL evalE (fst c, (FOwned, []) :: snd c) stmts with
            | (Ok _, c1) => do_step evalE c1 ret
            | (o, c1) => (cast_fail o, c1)
            end in
          (fst r, (fst (snd r), snd c))
      | ECall fe args =>
          match evalE c fe with
          | (Ok fv, c1) =>
              match evalL evalE c1 args with
              | (Ok raw, (st2, fr2)) =>
                  let argv := flatten_spreads raw in
                  if negb (is_function fv) then (Err, (st2, fr2))
                  else let '(r, st3) := apply fr2 fv fv argv st2 in (r, (st3, fr2))
              | (o, c2) => (cast_fail o, c2)
              end
          | (o, c1) => (o, c1)
          end
      | EAccess ae ie =>
          match evalE c ae with
          | (Ok v, c1) =>
              match evalE c1 ie with
              | (Ok i, c2) => (access_val v i, c2)
              | (o, c2) => (o, c2)
              end
          | (o, c1) => (o, c1)
          end
      | EDot ae field =>
          match evalE c ae with
          | (Ok v, c1) => (dot_val v field, c1)
          | (o, c1) => (o, c1)
          end
      | EBin op l r =>
          match evalE c l with
          | (Ok lv, c1) =>
              match evalE c1 r with
              | (Ok rv, (st2, fr2)) =>
                  let '(res, st3) := binop_impl (apply fr2) op lv rv st2 in (res, (st3, fr2))
              | (o, c2) => (o, c2)
              end
          | (o, c1) => (o, c1)
          end
      | EUn op a =>
          match evalE c a with
          | (Ok v, c1) =>
              (match op with
               | Negate => omap (fun x => VNum (nneg x)) (as_number v)
               | Not | Invert => omap (fun b => VBool (negb b)) (as_bool v)
               end, c1)
          | (o, c1) => (o, c1)
          end
      | EFact a =>
          match evalE c a with
          | (Ok v, c1) =>
              (match as_number v with Ok n => factorial_val release n | o => cast_fail o end, c1)
          | (o, c1) => (o, c1)
          end
      | ESpread a =>
          match evalE c a with
          | (Ok v, c1) => (spread_val v, c1)
          | (o, c1) => (o, c1)
          end
      end.
  End Expr.

  (* FunctionDef::call once the depth guard has passed.
     [ev]  = evaluate_ast at call_depth+1 (lambda bodies)
     [cb]  = FunctionDef::call at call_depth+2 (callbacks of a built-in)                 *)
  Definition call_passed (ev : cfg -> expr -> result) (cb : callback)
             (fr : frames) (this f : value) (args : list value) (st : store)
    : outcome value * store :=
    match f with
    | VLam id params body scope =>
        (* the self reference, unless a value of that name was captured at creation (F8 repaired) *)
        let self := match lam_name st id with
                    | Some n => match lookup_frame scope n with Some _ => [] | None => [(n, this)] end
                    | None => []
                    end in
        (* the caller's `inputs`, unless a value of that name was captured at creation (F9 repaired) *)
        let inp := match lookup_frame scope "inputs" with
                   | Some _ => []
                   | None => match lookup fr "inputs" with Some i => [("inputs", i)] | None => [] end
                   end in
        match bind_params params 0 args (inp ++ self) with
        | None => (Panic, st)
        | Some local =>
            let parent := match scope with [] => fr | _ => (FShared, scope) :: fr end in
            let '(r, (st', _)) := ev (st, (FOwned, local) :: parent) body in
            (r, st')
        end
    | VBuiltin b => builtin_impl cb b args st
    | _ => (Err, st)               (* get_function_def returned None *)
    end.

  (* FunctionDef::call when the guard `call_depth > 1000` fails: arity first, then the error *)
  Definition call_too_deep (f : value) (args : list value) (st : store)
    : outcome value * store :=
    if check_arity f (Datatypes.length args) then (ErrDepth, st) else (Err, st).

  (* FunctionDef::call at call_depth = LIMIT - d, given itself two levels deeper ([cb]) and
     evaluate_ast one level deeper ([ev]); None = that level is past the guard *)
  Definition apply_at (lower : option ((cfg -> expr -> result) * callback))
             (fr : frames) : callback :=
    fun this f args st =>
      if negb (check_arity f (Datatypes.length args)) then (Err, st) else
      match lower with
      | None => (ErrDepth, st)
      | Some (ev, cb) => call_passed ev cb fr this f args st
      end.

  (* [AD d] = FunctionDef::call with d further nested calls admitted by the guard *)
  Fixpoint AD (d : nat) : frames -> callback :=
    fun fr =>
      apply_at
        (match d with
         | O => None
         | S d' =>
             Some (evalE (AD d'),
                   match d' with
                   | O => fun _ f a s => call_too_deep f a s
                   | S d'' => AD d'' fr
                   end)
         end) fr.

  Definition applyD (d : nat) : frames -> callback := AD d.
  Definition evalD (d : nat) : cfg -> expr -> result := evalE (AD d).
  Definition eval_top : cfg -> expr -> result := evalD LIMIT.
End Eval.
