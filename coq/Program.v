(* Program.v — the statement loop (blots/src/main.rs::evaluate_source), output bookkeeping
   with validate_portable_value (expressions.rs:762), and the canonical text of a run that the
   EVAL correspondence compares with the harness.  Definitions only. *)
From Coq Require Import String Ascii List ZArith Bool.
Require Import Blots.Num Blots.gen.Builtins Blots.Ast Blots.Value Blots.Outcome Blots.Env
               Blots.Eval Blots.Show.
Import ListNotations.
Open Scope string_scope.
Open Scope list_scope.

(* a parsed statement: `statement = (output_declaration | expression | comment) ~ comment?` *)
Inductive stmt := SExpr (e : expr) | SOut (e : expr) | SComment.

(* validate_portable_value *)
Fixpoint validate_portable (st : store) (fr : frames) (v : value) {struct v} : bool :=
  match v with
  | VLam id args body scope =>
      let bound := map arg_name args ++ map fst scope in
      let fv := free_vars body bound in
      forallb (fun x =>
                 (match lookup_frame scope x with Some _ => true | None => false end)
                 || is_builtin_name x
                 || (match lam_name st id with Some n => String.eqb n x | None => false end)
                 || contains fr x) fv
  | VList l => forallb (validate_portable st fr) l
  | VRec r => forallb (fun kv => validate_portable st fr (snd kv)) r
  | _ => true
  end.

(* what a statement leaves behind *)
Inductive stmt_result :=
| ROk (v : value)        (* evaluated; loop continues *)
| RFail (o : outcome value)   (* evaluation error: CLI prints it and exits 1 *)
| ROutErr                (* output validation failed: exit 1 *)
| RSkip.                 (* comment *)

Record session := { s_cfg : cfg; s_outputs : list (string * value) }.

Section Run.
  Variable eval : cfg -> expr -> result.

  Definition out_insert (outs : list (string * value)) (x : string) (v : value) :=
    rec_insert outs x v.

  Definition exec_stmt (s : session) (t : stmt) : session * stmt_result :=
    match t with
    | SComment => (s, RSkip)
    | SExpr e =>
        let '(r, c') := eval (s_cfg s) e in
        ({| s_cfg := c'; s_outputs := s_outputs s |},
         match r with Ok v => ROk v | o => RFail o end)
    | SOut e =>
        let '(r, c') := eval (s_cfg s) e in
        let '(st', fr') := c' in
        (* which name is declared: `output x` or `output x = e` *)
        let decl :=
          (* the parser hands the inner pairs of output_declaration straight to pairs_to_expr,
             so the statement's AST is the identifier / assignment itself (no Expr::Output node) *)
          match e with
          (* both forms record the value the expression evaluated to (repo fix 91678e3: the
             identifier form used to look the name up in the bindings only) *)
          | EId x | EOutput (EId x) => match r with Ok v => Some (x, v) | _ => None end
          | EAssign x _ | EOutput (EAssign x _) => match r with Ok v => Some (x, v) | _ => None end
          (* `output sum`: the identifier is a built-in name; it is recorded under its own text *)
          | EBuiltin b | EOutput (EBuiltin b) => match r with Ok v => Some (builtin_name b, v) | _ => None end
          | _ => None
          end in
        match decl with
        | Some (x, v) =>
            if validate_portable st' fr' v
            then ({| s_cfg := c'; s_outputs := out_insert (s_outputs s) x v |},
                  match r with Ok w => ROk w | o => RFail o end)
            else ({| s_cfg := c'; s_outputs := s_outputs s |}, ROutErr)
        | None =>
            ({| s_cfg := c'; s_outputs := s_outputs s |},
             match r with Ok w => ROk w | o => RFail o end)
        end
    end.

  (* the loop stops at the first failing statement (process::exit(1)) *)
  (* each result is paired with the store right after its statement (display names of
     lambdas can still change later) *)
  Fixpoint run (s : session) (prog : list stmt) : session * list (stmt_result * store) :=
    match prog with
    | [] => (s, [])
    | t :: rest =>
        let '(s', r) := exec_stmt s t in
        let st' := fst (s_cfg s') in
        match r with
        | ROk _ => let '(s'', rs) := run s' rest in (s'', (r, st') :: rs)
        | RSkip => run s' rest
        | _ => (s', [(r, st')])
        end
    end.

  (* session semantics (REPL-like): every statement is attempted; the configuration after
     each one is recorded.  [stop] = CLI semantics (stop at the first failure). *)
  Fixpoint run_trace (stop : bool) (s : session) (prog : list stmt)
    : list (stmt_result * cfg) :=
    match prog with
    | [] => []
    | t :: rest =>
        let '(s', r) := exec_stmt s t in
        match r with
        | RSkip => run_trace stop s' rest
        | ROk _ => (r, s_cfg s') :: run_trace stop s' rest
        | _ => (r, s_cfg s') :: (if stop then [] else run_trace stop s' rest)
        end
    end.
End Run.

Definition init_session (inputs : list (string * value)) : session :=
  {| s_cfg := ([], [(FOwned, [("inputs", VRec inputs)])]); s_outputs := [] |}.

(* ---- canonical text (twin of harness/src/streams.rs eval_line) ---- *)
Definition show_result (st : store) (r : stmt_result) : string :=
  match r with
  | ROk v => "OK:" ++ show_value (Some (lam_name st)) v
  | RFail ErrDepth => "ERRDEPTH"
  | RFail Panic => "PANIC"
  | RFail Unmodelled => "UNMODELLED"
  | RFail _ => "ERR"
  | ROutErr => "OUTERR"
  | RSkip => ""
  end%string.

(* root bindings, newest binding of each name, sorted by name bytes, `inputs` omitted *)
Fixpoint dedup_frame (f : frame) (seen : list string) : frame :=
  match f with
  | [] => []
  | (x, v) :: r => if mem x seen then dedup_frame r seen else (x, v) :: dedup_frame r (x :: seen)
  end.
Fixpoint insert_sorted (kv : string * value) (l : frame) : frame :=
  match l with
  | [] => [kv]
  | h :: t => match string_cmp (fst kv) (fst h) with
              | Gt => h :: insert_sorted kv t
              | _ => kv :: l
              end
  end.
Definition sort_frame (f : frame) : frame := fold_right insert_sorted [] f.
Definition flatten_frames (fr : frames) : frame := concat (map snd fr).
Definition show_env (st : store) (fr : frames) : string :=
  let f := filter (fun kv => negb (String.eqb (fst kv) "inputs"))
                  (sort_frame (dedup_frame (flatten_frames fr) [])) in
  join "," (map (fun kv => (hex_of_string (fst kv) ++ "=" ++
                            show_value (Some (lam_name st)) (snd kv))%string) f).

Definition show_run (sr : session * list (stmt_result * store)) : string :=
  let '(s, rs) := sr in
  let st := fst (s_cfg s) in
  (join "|" (map (fun rs => show_result (snd rs) (fst rs)) rs) ++ ";ENV:" ++ show_env st (snd (s_cfg s)))%string.

Definition show_trace (tr : list (stmt_result * cfg)) : string :=
  join "|" (map (fun rc => (show_result (fst (snd rc)) (fst rc) ++ ";ENV:" ++
                            show_env (fst (snd rc)) (snd (snd rc)))%string) tr).
