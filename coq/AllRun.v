(* AllRun.v — running EvalAll.v: the oracle record instantiated by LOOKUP TABLES that the harness dumps
   (harness/src/s_all.rs: the results of the very libm / Unicode / expr_to_source calls the batch needs),
   plus the exact executable std-function models of C20 for the display path.  Definitions only; used by
   the ALL correspondence stream (checks/evalstream.py).  Nothing here is used by a theorem.

   A table MISS yields a recognisable sentinel (a finite double with an unmistakable bit pattern, a
   string starting with U+0001) so that the stream can count and skip such programs instead of
   reporting them; the generator only applies oracle functions to arguments it computed itself, so
   misses are not expected (the stream reports how many there were).
   f64::log10 is consulted in two places: the built-in log10 (table) and inside
   format_display_number, where only floor(log10 a) corrected by the `a < 10^estimate` test matters:
   there a miss falls back to the exact floor of the decimal logarithm, which gives the same text for
   every log10 that is off by less than one unit at the floor (what C20's LOG10 stream validates). *)
From Coq Require Import String Ascii List ZArith Bool Floats.SpecFloat.
Require Import Blots.Num Blots.gen.Builtins Blots.Ast Blots.Value Blots.Show Blots.Outcome Blots.Binop
               Blots.Env Blots.Eval Blots.Program Blots.EvalInst Blots.EvalFull Blots.EvalAll
               Blots.DisplayNum.
Import ListNotations.
Open Scope list_scope.

Definition MISS_BITS : Z := 0x7fe0dead0000beef.
Definition miss_num : num := num_of_bits MISS_BITS.
Definition miss_str : string := String (ascii_of_nat 1) "MISS".

(* function ids of the libm table *)
Definition F_SIN := 0%Z. Definition F_COS := 1%Z. Definition F_TAN := 2%Z. Definition F_ASIN := 3%Z.
Definition F_ACOS := 4%Z. Definition F_ATAN := 5%Z. Definition F_LN := 6%Z. Definition F_LOG10 := 7%Z.
Definition F_EXP := 8%Z.
Definition S_TRIM := 0%Z. Definition S_UPPER := 1%Z. Definition S_LOWER := 2%Z.

Record tables : Type := {
  t_libm : list (Z * Z * Z);            (* (function id, argument bits, result bits) *)
  t_powf : list (Z * Z * Z);            (* (x bits, y bits, x.powf(y) bits) *)
  t_str : list (Z * string * string);   (* (function id, argument, result) *)
  t_lam : list (expr * string);         (* (the lambda expression, its stringify text) — closed lambdas only *)
  t_now : option Z                      (* bits of the seconds since the epoch *)
}.

Fixpoint find3 (t : list (Z * Z * Z)) (a b : Z) : option Z :=
  match t with
  | [] => None
  | (x, y, r) :: rest => if Z.eqb x a && Z.eqb y b then Some r else find3 rest a b
  end.
Fixpoint find_str (t : list (Z * string * string)) (f : Z) (s : string) : option string :=
  match t with
  | [] => None
  | (g, a, r) :: rest => if Z.eqb g f && String.eqb a s then Some r else find_str rest f s
  end.
Fixpoint find_lam (t : list (expr * string)) (e : expr) : option string :=
  match t with
  | [] => None
  | (k, r) :: rest => if expr_eqb k e then Some r else find_lam rest e
  end.

Definition libm_of (T : tables) (f : Z) (x : num) : num :=
  match find3 (t_libm T) f (bits_of_num x) with Some r => num_of_bits r | None => miss_num end.
Definition powf_of (T : tables) (x y : num) : num :=
  match find3 (t_powf T) (bits_of_num x) (bits_of_num y) with Some r => num_of_bits r | None => miss_num end.
Definition str_of (T : tables) (f : Z) (s : string) : string :=
  match find_str (t_str T) f s with Some r => r | None => miss_str end.
Definition lam_of (T : tables) (a : list lamarg) (b : expr) (_ : list (string * value)) : string :=
  match find_lam (t_lam T) (ELam a b) with Some r => r | None => miss_str end.

(* floor(log10 |x|), exact, as a double *)
Definition log10_floor_exact (x : num) : num :=
  match x with
  | S754_finite _ m e => let '(N, D) := mag_frac m e in num_of_Z (e10_frac N D)
  | _ => S754_nan
  end.
(* the oracle record's log10 field serves both uses (the generator keeps the built-in's arguments inside the table) *)
Definition log10_of (T : tables) (x : num) : num :=
  match find3 (t_libm T) F_LOG10 (bits_of_num x) with
  | Some r => num_of_bits r
  | None => log10_floor_exact x
  end.

Definition oracle_of (T : tables) : oracle := {|
  o_sin := libm_of T F_SIN; o_cos := libm_of T F_COS; o_tan := libm_of T F_TAN;
  o_asin := libm_of T F_ASIN; o_acos := libm_of T F_ACOS; o_atan := libm_of T F_ATAN;
  o_ln := libm_of T F_LN; o_log10 := log10_of T; o_exp := libm_of T F_EXP;
  o_powf := powf_of T;
  o_trim := str_of T S_TRIM; o_upper := str_of T S_UPPER; o_lower := str_of T S_LOWER;
  o_lam_str := lam_of T;
  o_powi := powi_exec; o_fmt_prec := fmt_prec_exec; o_fmt_exp14 := fmt_exp14_exec;
  o_parse_f64 := parse_f64_exec;
  o_now := match t_now T with Some b => num_of_bits b | None => S754_nan end
|}.

Definition eval_run (T : tables) := eval_all (oracle_of T).
Definition run_program_all_tab (T : tables) (inputs : list (string * value)) (prog : list stmt) : string :=
  show_run (run (eval_run T) (init_session inputs) prog).

(* PRINT stream: `src` is the list literal of the arguments of one print call; the text handed to eprintln! *)
Definition show_print (T : tables) (inputs : list (string * value)) (prog : list stmt) : string :=
  match prog with
  | [SExpr e] =>
      match fst (eval_run T (s_cfg (init_session inputs)) e) with
      | Ok (VList vs) =>
          match print_line (oracle_of T) vs with
          | Ok s => ("OK:" ++ hex_of_string s)%string
          | Err => "ERR"%string
          | ErrDepth => "ERRDEPTH"%string
          | Panic => "PANIC"%string
          | Unmodelled => "UNMODELLED"%string
          end
      | _ => "ARGERR"%string
      end
  | _ => "BADPROG"%string
  end.

(* DIRECT stream: BuiltInFunction::call invoked WITHOUT the arity check on the argument vector that the list
   literal `prog` evaluates to (harness `all-direct`): the explicit Panic arms of the model against the code.
   The callback is FunctionDef::call one level down, like the `call_depth + 1` of the Rust arms. *)
Definition show_outcome_value (o : outcome value) : string :=
  match o with
  | Ok v => ("OK:" ++ show_value None v)%string
  | Err => "ERR"%string
  | ErrDepth => "ERRDEPTH"%string
  | Panic => "PANIC"%string
  | Unmodelled => "UNMODELLED"%string
  end.
Definition show_direct (T : tables) (inputs : list (string * value)) (b : builtin) (prog : list stmt) : string :=
  match prog with
  | [SExpr e] =>
      match eval_run T (s_cfg (init_session inputs)) e with
      | (Ok (VList vs), (st, fr)) =>
          let o := oracle_of T in
          show_outcome_value (fst (builtin_all o (AD true (binop_all o) (builtin_all o) 999 fr) b vs st))
      | _ => "ARGERR"%string
      end
  | _ => "BADPROG"%string
  end.
